#!/bin/sh
# Build the static checker from files on disk only (offline).
set -e
cd "$(dirname "$0")/checker"
export GOFLAGS=-mod=mod GOPROXY=off GOSUMDB=off GOTOOLCHAIN=local GOWORK=off
mkdir -p ../bin ../evidence
go build -o ../bin/imapcheck .
