#!/usr/bin/env python3
"""Regenerates /verif/MANIFEST.json from the table below (kept in one place so the
manifest is always schema-valid). Run: python3 tools/gen_manifest.py"""
import json, os, subprocess
V = os.path.dirname(os.path.dirname(os.path.abspath(__file__)))

NOTE = ("Trusted base: go/types, x/tools go/ssa v0.29.0, CHA/VTA call graphs (no reflection/unsafe modelling), "
        "the hand-confirmed tables in checker/*.go, and the checker itself (self-tested by seeded breaks in the thorough tier). "
        "The check proves the named structural clauses for all paths of the analysed code; it does not prove the behaviour as a whole.")

CLAIMS = {
 "C01": dict(
   text="Structural clauses of the wire codec: NumSet/Flag/MailboxAttr reach writeString only on the success edge of their validity test and otherwise set the encoder error (all paths); isValidFlag evaluated on one representative per byte/position class against the RFC 9051 flag grammar (34 rows); every Encoder.Quoted call site validated/constant/single rune; writer and reader literal thresholds agree (the writer's sync/non-sync choice under the capabilities the server advertises is always accepted by acceptLiteral; all size limits are 4096); the decoder's open-literal typestate (flag set only by LiteralReader, cleared only by cancel, tested before every byte read, reader limited to the announced size). Added: mailbox-name transform symmetry (Encoder.Mailbox evaluated on class representatives against the decoder's unconditional modified-UTF-7 inverse) and number-parser domain = target type's range. Round 3: transformer chunking of the UTF-7 coder (also C16); the quoted-string scanner tests unescaped bytes only; buffered-literal limit row incl. the comparison operator on both sides. 'other': these are necessary conditions; byte-for-byte round-trip equality over all strings, UTF-7 and number formatting are not decided.",
   technique="must-pass-through dataflow over go/ssa, finite-domain evaluation of predicate code on the typed AST, who-may-write rules",
   design="§4 C01"),
 "C02": dict(
   text="Structural clauses of 'client arguments reach the backend intact', for all commands, option structs and handlers: field-read coverage of every option struct below every client command method (195 field instances); keyword round trip between the tables extracted from the client's encoders and the paired server switches (42 token/field pairs incl. search keys); command-name table against the server's dispatch switch; no swallowed parse failure on any failure path of the server's parsers (167 paths); search-key accumulation discipline; operand plumbing from the decoded locals to each session call in wire order with the UID number kind. Added: mailbox-name transform symmetry; one decoded value per option field per path. Round 3: per-token refinement in nested switches; no narrowing conversion of numeric option fields in the client's encoders. 'other': necessary conditions checked exhaustively over the code; value equality of arbitrary strings/sets after transport is not decided.",
   technique="type-directed field-coverage and table-agreement rules over the typed AST, error-discipline and value-provenance dataflow over go/ssa",
   design="§4 C02"),
 "C03": dict(
   text="Structural clauses of 'responses are decoded into what the backend supplied': field coverage of every response data struct on both sides (158 field/side instances: read by a server writer, stored by a client parser); keyword round trip in the response direction between the server's writers and the paired client switches (STATUS items, ESEARCH items, APPENDUID/COPYUID codes, LIST extended items); token coverage of response names and FETCH item names against the client's parser cases, restricted to what commands the client can issue; '[' consumed before every section parse; provenance of the server's output modes (UTF-8 quoting, legacy SEARCH/RECENT forms). Added: mailbox-name transform symmetry; one-slot response buffers overwritten only when empty or delivered; hand-over counter incremented before the cap() test and the send. Round 3: state tests send Authenticated and Selected the same way (capabilities survive SELECT); 64-bit data fields parsed with the 64-bit reader; index sentinels tested only by comparisons separating -1 from every index. 'other': necessary conditions over all fields/tokens/sites; equality of arbitrary nested payloads and literal byte identity are not decided.",
   technique="type-directed field-coverage and table-agreement rules over the typed AST and go/ssa, must-pass-through gates, value-provenance of mode flags",
   design="§4 C03"),
 "C04": dict(
   text="Structural clauses of server command framing, for all paths: exactly one tagged completion per dispatched command (count of tag-carrying writer calls per path against the nil-ness of the returned error, in readCommand and every self-completing handler, with lemma L1 on the decoder proved on every run); a literal opened on the server decoder is drained, refused only when known synchronising, or refused with the connection terminated, and a refusal puts the decoder in its error state (interprocedural through the CheckBufferedLiteralFunc callback and helper summaries); continuation requests only from literal acceptance/IDLE/AUTHENTICATE after their gates; response-encoder (write lock) pairing and exclusive access to the connection's writer; line discard before completion. Added: no stale loop-carried out-parameter after an unchecked decoder call; the decoder's end-of-line flag is cleared only where input is consumed. Round 3: no alternative production after ANY failed literal-attempting decoder method reachable from the server's roots; the server's quoted strings never contain CR, LF or NUL (byte-class table). 'other': necessary structural conditions, not a proof that the tokenizer never mis-splits bytes.",
   technique="path-sensitive must/may dataflow over go/ssa (completion counting x error nil-ness, literal typestate with interprocedural refusal summaries), who-may-call and acquire/release pairing rules",
   design="§4 C04"),
 "C05": dict(
   text="Structural clauses of the server state machine decided on every run for all paths of all handlers: session calls only in permitted states (abstract interpretation of Conn.state over the 5 states), credentials only after canAuth()==true (truth table evaluated exhaustively), state writes only after the enabling backend call succeeded and only along RFC 9051 transitions, no command read in Logout, unknown pre-auth command ends in BYE, dispatch table exhaustive. The canAuth table also varies TLSConfig set/unset; SASL completion requires done and a nil error. Round 3: direct tests of Conn.state treat Selected as a sub-state of Authenticated. 'other' because these are necessary structural conditions proven statically, not a proof of the whole behaviour (backends are opaque).",
   technique="abstract interpretation of the connection-state field over go/ssa (may-sets, edge refinement, interprocedural) + must-pass-through gate dataflow + exhaustive truth-table evaluation of canAuth",
   design="§4 C05"),
 "C06": dict(
   text="Structural clauses of server robustness, for all paths: one deferred Session.Close covering every exit (returns and panics) after NewSession succeeded; recover in every server goroutine and deferred connection close/unregister; buffered-literal check installed on every server decoder and refusing every size > 4096 (evaluated); APPEND limit dominating accept/read/hand-over of the literal; every input-driven recursion cycle of the call graph depth-bounded (Decoder.List's guard checked, or a capped strictly increasing counter proven around every cycle); IDLE goroutine release and buffered result channel; wire-supplied integers never summed unguarded into a slice bound and compared with a length before use as a bound; every FETCH response writer closed on all paths (interprocedural hand-over summaries). Added: bufio unread typestate (mustUnreadByte only directly after a successful byte read). Round 3: no lock-order cycle on the serving goroutine; every round of a server-side parsing loop consumes input or leaves the loop (table of non-consuming decoder methods computed). 'other': these are necessary conditions; absence of every panic for every byte stream is not decided.",
   technique="call-graph SCC analysis with ranking-function recognition, must-dataflow pairing rules (defer/close/recover), finite-domain evaluation of the literal cap, taint of wire-sourced integer fields into slice bounds",
   design="§4 C06"),
 "C08": dict(
   text="Structural clauses of view consistency: Conn.writeExpunge unreachable from the FETCH/STORE/SEARCH handlers through every Session implementation of the module (call graph VTA + CHA for module interfaces); Conn.poll's permission evaluated for all 36 dispatched labels (false exactly for FETCH/STORE/SEARCH) and consistent between backend and update writer, polled with the dispatched name; message-list mutations paired with the tracker update under the mailbox lock; one delivery channel per expunge for every session method; complete fan-out in the tracker; FETCH responses of the backend carry EncodeSeqNum's result tested non-zero; a session registers with the mailbox tracker under the mailbox lock in the critical section that takes its EXISTS snapshot; the tracker queue is append-only while EncodeSeqNum matches queued counts by equality. Added: mailbox-view and client-view sequence numbers are not mixed (tracker Queue* arguments, SeqSet probes). Round 3: removals of one pass announced in descending index order or renumbered; the live tracker queue never aliases the slice handed to the writer; index sentinels (Poll's stopIndex) tested soundly. 'other': necessary conditions; that the sequence numbers themselves are right is C07's value-level arithmetic and is not decided.",
   technique="absence-of-reachability over the module call graph, exhaustive finite-domain evaluation of poll, pairing and control-dependence rules over go/ssa",
   design="§4 C08"),
 "C09": dict(
   text="Structural clauses of the in-memory backend's mailbox semantics: UID allocation (uidNext written only by the constructor and a locked increment-by-one in appendBytes; the new message gets the pre-increment value); UIDVALIDITY (prevUidValidity only incremented, in Create, and handed to NewMailbox); every flag-map lookup/insert/delete keyed through canonicalFlag (8 sites); wire-supplied integers compared with a length before being used as slice bounds and never summed unguarded; the key inserted into User.mailboxes is the value whose absence was checked and the mailbox's own name. Added: sequence-number views as in C08; COPYUID provenance of source and destination sets. Round 3: recursive walks of SearchCriteria descend into Not and Or alike; expunge order as in C08; a per-round verdict that a loop overwrites is branched on before the next round (LIST 'any pattern'). 'other': necessary conditions only; agreement of SEARCH/FETCH/LIST/STATUS results with a reference model is value-level and not decided.",
   technique="who-may-write and value-shape rules over go/ssa, lockset facts from the lock analysis, wire-integer taint",
   design="§4 C09"),
 "C10": dict(
   text="Structural clauses behind 'every client command terminates': the reader goroutine's deferred teardown (close(decCh); recover + closeWithError with a provably non-nil error) is registered before the read loop; closeWithError closes the connection, takes the whole pending list and completes each command on every path; removal-by-tag is paired with exactly one completion incl. the deferred error completion; every streaming command's channel is closed by completeCommand and done is sent-then-closed unconditionally; a failed flush closes the client; completion cancels continuation requests and Wait callers honour the error; commands are initialised before publication. Added: deferred completion tests the named error result; encoder-lock release or hand-over on every path (holder must reach the caller; Close ends it on every path); hand-over counter before cap() test and send. Round 3: no blocking channel operation while Client.mutex is held; merged sub-command errors keep the first; the flush-failure close post-dominates the error. 'other': necessary conditions for termination decided on all paths; liveness under each fault offset and the caller's side of the streaming contract are not decided.",
   technique="must-dataflow over go/ssa (deferred teardown, exit coverage, completion counting), type-directed exhaustiveness of channel closing",
   design="§4 C10"),
 "C11": dict(
   text="Structural clauses of client robustness: every input-driven recursion cycle of the client's call graph is depth-bounded (Decoder.List's checked guard or a capped strictly increasing counter proven around every cycle); numbers read from the wire reach result sets only after a non-zero test; every parsed number set is refused when dynamic; the reader goroutine recovers and tears down; enumeration loops over unsigned ranges cannot wrap at 2^32-1; nil-able command fields are dereferenced in reader-run code only after a non-nil test (their own or the selecting matcher's); numbers parsed from the wire are never narrowed below their parse width; message numbers and UIDs from the wire reach the 7 delivery sinks (FETCH seqnum/UID, EXPUNGE, SORT, THREAD, APPENDUID) only through a non-zero test. Added: bufio unread typestate; no allocation sized by an announced number. Round 3: listDepth written only in Decoder.List; every round of a parsing loop consumes input or leaves it; interface fields of delivered data that can hold the nil interface (NIL on the wire) are called through only after a non-nil test (found and fixed T9). 'other': necessary conditions over all cycles/sites; absence of every other panic in accessors and super-linear cost are not decided.",
   technique="call-graph SCC analysis with ranking-function recognition, wire-value taint with dominating-test rules over go/ssa, loop-shape (integer wrap) rule",
   design="§4 C11"),
 "C12": dict(
   text="Structural clauses of routing and mirrored state: mirror agreement of the mailbox summary across SelectedMailbox / SelectData / UnilateralDataMailbox (same value → same-named fields, incl. view-to-view copies); every write of the client's connection state classified as an RFC 9051 transition (success edge of the right command types via type-switch reachability, greeting per status type, [CLOSED], teardown); response→command routing table extracted from the dispatch switches, generic instantiations and type assertions and compared with the RFC table (23 routes); removal-from-pending paired with exactly one completion; capability invalidation only on success; keyed response matchers accept a command only on a positive relation to the response; the guards of the mailbox-summary mirror hold for every conformant response (evaluated over all orderings of count and number); command identity is compared on one representation per command (dynamic-type flow). Added: encoder-lock release on every path (a refused command must not block the others); pending-command and continuation-request queues keep issue order. Round 3: parser success returns agree on returning the decoder-filled value (ESEARCH correlator); a recording matcher is a test-and-set; delivery into a pending command is not control dependent on the mirrored state. 'other': necessary conditions; full transcript-vs-reference equality is not decided.",
   technique="value-identity (mirror) dataflow, typed-AST table extraction, must-facts and type-switch reachability over go/ssa",
   design="§4 C12"),
 "C13": dict(
   text="Static lockset over every access (reads, writes, map updates) to the mutex-guarded fields of Client from every goroutine root (all exported entry points, the reader goroutine, every go statement), with interprocedural entry sets and lock-transfer summaries; publication rule (no unlocked store through a command after it enters the pending list); command-encoder (encoder lock) pairing incl. ownership transfer to AppendCommand/idleCommand; removal-from-pending paired with exactly one completion on every path; buffered done channel; tag counter incremented only under the mutex. Added: encoder hand-over counts only if the holder reaches the caller, Close ends the encoder on every path; pending list taken in one critical section; every mutex balanced on every exit. Round 3: no blocking channel operation under Client.mutex; failed flush closes the client; continuation request registered before the provoking bytes are flushed; references loaded from guarded map/slice fields used only under the lock. 'other': data-race freedom is decided for the mutex-guarded state by a sound-by-construction must-lockset; fields synchronised by channel hand-off (decErr, greetingErr, bw) and liveness are not decided.",
   technique="interprocedural must-lockset analysis over go/ssa with access paths and lock-effect summaries; publication and pairing dataflow rules",
   design="§4 C13"),
 "C14": dict(
   text="Lock-order graph over all mutex classes of imapserver+imapmemserver built from every acquisition reachable from the serving and IDLE goroutines (callback-aware: locks a callee holds when it invokes a passed closure are attributed to the call site; lock-transfer summaries for the response-encoder wrappers) and checked acyclic including same-class nesting; must-lockset for every field laid out under a mutex (struct-layout convention + 'protected by' comments) with the writer-locks discipline and connection-confinement for Conn fields; …Locked call discipline; no blocking channel operation under mailbox/tracker/user locks. Added: every mutex taken in a function is released on every exit or held at all exits (transfer wrapper). Round 3: a reference loaded from a guarded map/slice field is used only while the lock is held (ownership transfer exempt). 'other': deadlock freedom by lock order and race freedom for guarded fields are decided structurally; 'every command completes' as liveness is not.",
   technique="interprocedural lockset and lock-order analysis over go/ssa + VTA/CHA call graph, with higher-order (callback) summaries",
   design="§4 C14"),
 "C15": dict(
   text="Structural clauses of the number-set types: no `n <= bound; n++` enumeration loop over an unsigned variable with a run-time bound can wrap at the type's maximum and no loop limit is an unsigned sum bound+k; every unsafe.Pointer cast between the public SeqSet/UIDSet/SeqRange/UIDRange/[]UID types and the internal imapnum ones is between layout-identical types (field names in order, offsets, sizes under the target's types.Sizes; 6 casts); every public set method delegates to the same-named internal method with its parameters in order, unconditionally except for the SearchRes marker (14 methods). Added: positional accumulators need an in-loop bound. Round 3: the set's storage is written only by the canonicalising primitives; enumerators report ok=false only with a witness; IsSearchRes consults the marker's identity. 'other': preconditions of the set behaviour; the set algebra, canonical form and parse/print laws are value-level and not decided.",
   technique="type-layout comparison with go/types Sizes, loop-shape (integer wrap) rule and argument-provenance rule over go/ssa",
   design="§4 C15"),
 "C16": dict(
   text="Only the chunking clauses of the modified UTF-7 transformers are decided: ErrShortSrc on a non-final chunk that ends inside a unit, a destination-space check (returning ErrShortDst) before every write into dst, and nSrc advanced only after that check — for both Transform methods; plus sibling agreement: every comparison against utf7.min/utf7.max in encoder and decoder denotes the same closed interval. These are the structural necessary conditions of 'regardless of how the transformer's buffers are chunked'. Added: the wire encoder applies the transform to mailbox names exactly where the decoder inverts it (evaluated on class representatives). Round 3: the space budget counts every byte written; transformer state reset at the end of a call only at EOF; no stateful transformer in a package-level variable. 'other' and deliberately narrow: losslessness, the decoder's rejection set, valid-UTF-8-only output and panic-freedom of the base64/UTF-16 arithmetic are value-level and NOT decided.",
   technique="typed-AST ordering rules (check-before-write, check-before-advance) on the transform.Transformer implementations",
   design="§4 C16"),
 "C17": dict(
   text="STARTTLS boundary clauses on both sides, for all paths: after the OK the server re-seats br and bw on a stream derived only from tls.Server (value-flow through wrapReadWriter, whose body is checked) and installs the TLS conn, holding the write lock across the switch; the client re-seats br/bw on tls.Client in upgradeStartTLS, which is called only after the CRLF of the tagged OK of a successful STARTTLS command; NewStartTLS returns a client only on State()==NotAuthenticated and closes it otherwise; AUTH=/LOGINDISABLED/STARTTLS advertisement tied to canAuth/canStartTLS edges and canStartTLS's truth table (2x5x2) evaluated exhaustively. Added: canAuth truth table incl. TLSConfig set/unset; PREAUTH refusal checked for every function that calls startTLS and returns a client; capabilities computed only after the state left None. Round 3: the PREAUTH/state test must follow the upgrade; a completed STARTTLS invalidates the capabilities learnt in plaintext. 'other': the re-seating is the structural necessary condition for 'early plaintext is never parsed as protected data'; crypto/tls itself is trusted.",
   technique="value-flow (derives-only-from) and must-pass-through dataflow over go/ssa, exhaustive finite-domain evaluation of canStartTLS",
   design="§4 C17"),
 "C18": dict(
   text="Client syntax legality clauses: both literal-synchronisation decisions evaluated over every capability subset x sizes {4096,4097} against RFC 7888; Encoder.Literal's '+' marker and the CRLF-flush + Wait-success gate before the payload writer (path-state analysis); provenance of the three encoder mode flags from the right CapSet.Has queries; CapSet.Has implication table (96 rows); validQuoted per-byte table (all 256 bytes x UTF-8 mode, lengths 4096/4097); every Encoder.Quoted call site validated/constant/single rune; continuation-request cancellation on completion. Added: literal-limit row with octets != characters; UNAUTHENTICATE resets Client.enabled. Round 3: capability provenance through helper-returned structs; validity-scan position classes (first/middle/last byte); cached capabilities invalidated whenever the server may have changed them and setCaps stores what it is given. 'other': exhaustive over the finite abstract domains and all call sites; timing of network writes is not decided.",
   technique="exhaustive finite-domain evaluation of decision code on the typed AST, path-state dataflow and value-provenance rules over go/ssa",
   design="§4 C18"),
 "C19": dict(
   text="SearchCriteria.And is evaluated as an abstract function over order types (each zero-means-unset scalar touched only through comparisons/zero tests/copies, so one representative per ordering decides all values): 6 fields x 9 orderings exhaustive; every field merged; list fields are same-field concatenations; the server's SEARCH parser appends list keys to their own field and folds scalar keys only through And. Added: conjunct lists only grow (no element modified in place); no boolean carried around a criteria-list loop in the backend matcher. Round 3: every element of a list criterion can reject on its own in the backend matcher (in-loop exits of helpers must carry the value on which the matcher rejects); overwritten per-round verdicts. 'other': the evaluation is exhaustive over the abstract domain and the structural rules cover all sites, and the in-memory backend's matcher is checked structurally only (conjunctive shape, per-element rejection); third-party backends are outside the analysis.",
   technique="finite-domain abstract evaluation of And over order types on the typed AST + AST/SSA who-may-write rules on SearchCriteria fields",
   design="§4 C19"),
}

NOT_APPLICABLE = {
 "C07": "sequence-number arithmetic over update histories is value-level; no structural necessary condition beyond those checked under C08/C14",
 "C20": "wildcard-matching semantics of a string function over all (name, reference, pattern) triples is value-level",
}

def main():
    props = [json.loads(l)["id"] for l in open(os.path.join(V, "properties.jsonl"))]
    checks = []
    for pid in props:
        c = CLAIMS.get(pid)
        if not c:
            continue
        checks.append({
            "property_id": pid,
            "quick_cmd": f"./run.sh {pid} quick",
            "thorough_cmd": f"./run.sh {pid} thorough",
            "evidence_file": f"/verif/evidence/{pid}.json",
            "replay_cmd_template": "/verif/bin/imapcheck -replay {path}",
            "engine": "imapcheck",
            "level_claimed": {"category": "other", "text": c["text"], "design_ref": c["design"]},
            "level_note": NOTE,
            "technique": c["technique"],
        })
    na = []
    for pid in props:
        if pid in CLAIMS:
            continue
        reason = NOT_APPLICABLE.get(pid, "static check not yet implemented in this revision (see DESIGN.md §4 for the planned clauses); not claimed until its rules are built and triaged")
        na.append({"property_id": pid, "reason": reason})
    m = {
        "version": 1,
        "setup_cmd": "./setup.sh",
        "hooks": {
            "guard": "verif",
            "enable": "none needed: the static checker reads /repo's sources as they are; no instrumented build exists",
            "baseline_off_cmd": "cd /repo && GOFLAGS=-mod=mod GOPROXY=off GOSUMDB=off go test -vet=off -count=1 ./...",
            "source_commits": [],
            "add_only": True,
        },
        "engines": [{
            "name": "imapcheck",
            "path": "/verif/checker",
            "serves_properties": sorted(CLAIMS),
            "kind_free_text": "repository-specific static analyser (go/packages + go/types AST rules, go/ssa dataflow, CHA/VTA call graphs, finite-domain evaluator); analyses /repo's current working tree on every run, executes nothing of it",
        }],
        "checks": checks,
        "notes": "Technique family: static analysis. exit 0 pass / 1 VIOLATION / 2 undecided-or-unresolved (never silently PASS). Known findings: /verif/known_findings.json.",
        "not_applicable": na,
    }
    json.dump(m, open(os.path.join(V, "MANIFEST.json"), "w"), indent=1)
    print("wrote MANIFEST.json with", len(checks), "checks,", len(na), "not applicable")

main()
