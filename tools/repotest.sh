#!/bin/sh
# runs the repository's own suite (the 34 pinned tests) offline
cd /repo && GOFLAGS=-mod=mod GOPROXY=off GOSUMDB=off go build ./... && GOFLAGS=-mod=mod GOPROXY=off GOSUMDB=off go test -vet=off -count=1 ./... 2>&1 | tail -8
