#!/bin/bash
# usage: benigncheck.sh <patch.diff> ; applies a behaviour-preserving patch to a scratch copy of /repo and runs ALL checks on it.
# Any VIOLATION / UNDECIDED / UNRESOLVED is a false alarm (or fragility) of the checker.
set -u
P="$1"
export GOFLAGS=-mod=mod GOPROXY=off GOSUMDB=off GOTOOLCHAIN=local GOWORK=off
S=$(mktemp -d /tmp/benignchk.XXXXXX); trap 'rm -rf "$S"' EXIT
rsync -a --exclude .git /repo/ "$S/t/"
( cd "$S/t" && patch -p1 -s --no-backup-if-mismatch < "$P" ) || { echo "RESULT $P: PATCH DOES NOT APPLY"; exit 3; }
( cd "$S/t" && go build ./... ) || { echo "RESULT $P: DOES NOT BUILD"; exit 3; }
mkdir -p "$S/v/evidence"; cp /verif/known_findings.json "$S/v/"
out=$(/verif/bin/imapcheck -repo "$S/t" -verif "$S/v" -property all 2>&1); rc=$?
echo "RESULT $P: check_rc=$rc $(echo "$out" | grep -E '^== C[0-9]+: (VIOLATION|UNDECIDED|UNRESOLVED)' | awk '{print $2 $3}' | paste -sd' ')"
echo "$out" | grep -E "^  ([a-zA-Z_/.0-9]+\.go:[0-9]+|-): rule|UNDECIDED|UNRESOLVED|BELOW FLOOR" | sed "s#$S/t/##g" | cut -c1-360 | head -12
