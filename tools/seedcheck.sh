#!/bin/bash
# usage: seedcheck.sh <bugdir> [property]   (bugdir holds patch.diff, demo_test.go|demo/, meta.json)
# Confirms a seeded change independently (builds, suite passes, demo fails with it / passes without) in scratch
# copies of /repo's current tree, then runs the property's static check on the patched copy.
set -u
B="$1"; PROP="${2:-$(jq -r .property "$B/meta.json")}"
export GOFLAGS=-mod=mod GOPROXY=off GOSUMDB=off GOTOOLCHAIN=local GOWORK=off
S=$(mktemp -d /tmp/seedchk.XXXXXX); trap 'rm -rf "$S"' EXIT
rsync -a --exclude .git /repo/ "$S/clean/"; rsync -a --exclude .git /repo/ "$S/patched/"
( cd "$S/patched" && patch -p1 -s --no-backup-if-mismatch < "$B/patch.diff" ) || { echo "RESULT $B: PATCH DOES NOT APPLY"; exit 3; }
( cd "$S/patched" && go build ./... ) || { echo "RESULT $B: DOES NOT BUILD"; exit 3; }
suite=$( cd "$S/patched" && go test -vet=off -count=1 ./... 2>&1 | grep -cE "^(FAIL|---\s*FAIL|panic)" )
rundemo() { # $1 = tree
  if [ -f "$B/demo_test.go" ]; then
    dir=$(jq -r '.demo_dir // empty' "$B/meta.json")
    [ -z "$dir" ] && { dir=$(grep -oE "(imapclient|imapserver/imapmemserver|imapserver|internal/[a-z0-9]+)/?" "$B/demo_test.go" | head -1); dir=${dir%/}; }
    [ -z "$dir" ] && dir=.
    cp "$B/demo_test.go" "$1/$dir/zz_seed_demo_test.go"
    race=""; grep -qi "race" "$B/meta.json" && race="-race"
    ( cd "$1" && timeout 300 go test $race -vet=off -count=1 -run "$(grep -oE 'func (Test[A-Za-z0-9_]+)' "$B/demo_test.go" | awk '{print $2}' | paste -sd'|')" ./$dir/ >"$S/demo.log" 2>&1 ); rc=$?
    rm -f "$1/$dir/zz_seed_demo_test.go"; return $rc
  elif [ -d "$B/demo" ]; then
    rm -rf "$S/demo"; cp -r "$B/demo" "$S/demo"; cp /repo/go.sum "$S/demo/" 2>/dev/null
    sed -i -E "s#=> .*#=> $1#" "$S/demo/go.mod"
    race=""; grep -qi "race" "$B/meta.json" && race="-race"
    ( cd "$S/demo" && if ls *_test.go >/dev/null 2>&1; then timeout 300 go test $race -count=1 ./... ; else timeout 300 go run $race . ; fi >"$S/demo.log" 2>&1 ); return $?
  fi
  return 99
}
rundemo "$S/clean"; dc=$?
rundemo "$S/patched"; dp=$?
mkdir -p "$S/v/evidence"; cp /verif/known_findings.json "$S/v/"
out=$(/verif/bin/imapcheck -repo "$S/patched" -verif "$S/v" -property "$PROP" 2>&1); rc=$?
echo "RESULT $B: suite_failures=$suite demo_clean_rc=$dc demo_patched_rc=$dp check_rc=$rc"
echo "$out" | grep -E "^  ([a-zA-Z_/.0-9]+\.go:[0-9]+|-): rule|UNDECIDED|UNRESOLVED" | sed "s#$S/patched/##g" | cut -c1-420 | head -6
