#!/usr/bin/env python3
"""Rewrites the table between <!-- SEEDED:BEGIN --> and <!-- SEEDED:END --> in DESIGN.md
from /verif/seeded/*/meta.json (one row per archived seeded change)."""
import json, os, glob, re
V = os.path.dirname(os.path.dirname(os.path.abspath(__file__)))
rows = []
for d in sorted(glob.glob(os.path.join(V, "seeded", "*"))):
    mp = os.path.join(d, "meta.json")
    if not os.path.exists(mp):
        continue
    m = json.load(open(mp))
    prop = m.get("checked_as") or m.get("property")
    summ = re.sub(r"\s+", " ", m.get("summary", "")).replace("|", "\\|")
    if len(summ) > 230:
        summ = summ[:227] + "…"
    needs = re.sub(r"\s+", " ", m.get("needs", "")).replace("|", "\\|")
    if len(needs) > 160:
        needs = needs[:157] + "…"
    by = m.get("detected_by", "").replace("|", "\\|")
    rows.append((prop, os.path.basename(d), summ, needs, by))
rows.sort()
out = ["| property | seeded change (`/verif/seeded/<id>`) | what it breaks | needs, to manifest | reported by |", "|---|---|---|---|---|"]
for r in rows:
    out.append("| %s | `%s` | %s | %s | %s |" % r)
det = sum(1 for r in rows if not r[4].startswith("NOT DETECTED"))
out.append("")
out.append("%d changes archived; %d reported by a rule, %d recorded as not detected." % (len(rows), det, len(rows) - det))
p = os.path.join(V, "DESIGN.md")
s = open(p).read()
s2 = re.sub(r"(<!-- SEEDED:BEGIN -->\n).*?(<!-- SEEDED:END -->)", lambda mo: mo.group(1) + "\n".join(out) + "\n" + mo.group(2), s, flags=re.S)
open(p, "w").write(s2)
print("rows", len(rows), "detected", det)
