#!/bin/bash
# usage: seedsave.sh <srcdir> <id> <detected-by text> ; archives a confirmed seeded change under /verif/seeded/<id>/
set -e
src="$1"; id="$2"; by="$3"; prop="${4:-}"
d=/verif/seeded/$id; mkdir -p "$d"
cp "$src/patch.diff" "$d/"
[ -f "$src/demo_test.go" ] && cp "$src/demo_test.go" "$d/demo_test.go.txt"
[ -d "$src/demo" ] && { rm -rf "$d/demo"; cp -r "$src/demo" "$d/demo"; find "$d/demo" -name '*.go' -exec mv {} {}.txt \; ; }
res=$(/verif/tools/seedcheck.sh "$src" $prop 2>&1)
jq --arg prop "$prop" --arg by "$by" --arg res "$res" --arg base "$(git -C /repo log --format=%h -1)" \
  '(if $prop != "" then .checked_as = $prop else . end) + {confirmed_by_me: {ran: "tools/seedcheck.sh (scratch copies of /repo: build, existing suite, demonstration on clean and patched tree, then imapcheck on the patched tree)", result: $res, repo_head: $base}, detected_by: $by}' "$src/meta.json" > "$d/meta.json"
echo "$res" | head -1
