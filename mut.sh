#!/bin/sh
# usage: mut.sh <property> <file-relative-to-repo> <python-expr-on-s>   (developer helper)
# Applies a textual edit to a scratch copy of /repo's current tree and runs one property's check on it.
set -e
prop="$1"; file="$2"; expr="$3"
D=$(mktemp -d /tmp/imapmut.XXXXXX)
trap 'rm -rf "$D"' EXIT
rsync -a --exclude .git /repo/ "$D/"
python3 - "$D/$file" "$expr" <<'PY'
import sys,re
p,expr=sys.argv[1],sys.argv[2]
s=open(p).read()
n=eval(expr)
assert n!=s, "edit did not change the file"
open(p,'w').write(n)
PY
(cd "$D" && GOFLAGS=-mod=mod GOPROXY=off GOSUMDB=off go build ./... ) || { echo "MUTANT DOES NOT BUILD"; exit 3; }
mkdir -p "$D/.verif/evidence"
cp /verif/known_findings.json "$D/.verif/" 2>/dev/null || true
/verif/bin/imapcheck -repo "$D" -verif "$D/.verif" -property "$prop" | grep -E "VIOLATION|^  [a-z].*rule|UNDECIDED|UNRESOLVED|KNOWN|== " | sed "s#$D/##g"
