package main

import (
	"go/ast"
	"go/constant"
	"go/types"
	"strings"

	"golang.org/x/tools/go/ssa"
)

// fieldComment returns the doc/line comment of a struct field of the module.
func fieldComment(p *Program, f *types.Var) string {
	if f.Pkg() == nil {
		return ""
	}
	pk := p.Pkgs[f.Pkg().Path()]
	if pk == nil {
		return ""
	}
	out := ""
	for _, file := range pk.Syntax {
		ast.Inspect(file, func(n ast.Node) bool {
			st, ok := n.(*ast.StructType)
			if !ok {
				return true
			}
			var pendingDoc string
			for _, fld := range st.Fields.List {
				doc := ""
				if fld.Doc != nil {
					doc += fld.Doc.Text()
				}
				if fld.Comment != nil {
					doc += fld.Comment.Text()
				}
				// a doc comment on the first field of a group ("Requires X" above several fields) applies
				// to the fields that directly follow it without a blank line
				if fld.Doc != nil {
					pendingDoc = fld.Doc.Text()
				} else if doc == "" {
					doc = pendingDoc
				}
				for _, nm := range fld.Names {
					if pk.TypesInfo.Defs[nm] == types.Object(f) {
						out = doc
					}
				}
			}
			return true
		})
	}
	return out
}

// advertisableCaps: every capability constant that imapserver's availableCaps
// (and the functions it calls) can put on the wire, by name as it appears in
// comments ("IMAP4rev2", "ESEARCH", "CONDSTORE"…).
func advertisableCaps(p *Program) map[string]bool {
	out := map[string]bool{}
	fn := p.Func("imapserver", "Conn", "availableCaps")
	if fn == nil {
		return out
	}
	seen := map[*ssa.Function]bool{}
	var visit func(f *ssa.Function)
	visit = func(f *ssa.Function) {
		if f == nil || seen[f] || f.Blocks == nil {
			return
		}
		seen[f] = true
		allInstrs(f, func(i ssa.Instruction) {
			for _, op := range i.Operands(nil) {
				if k, ok := (*op).(*ssa.Const); ok && k.Value != nil && k.Value.Kind() == constant.String {
					if n, ok := k.Type().(*types.Named); ok && n.Obj().Name() == "Cap" {
						out[constant.StringVal(k.Value)] = true
					}
				}
			}
			if call, ok := i.(ssa.CallInstruction); ok {
				if cal := staticCallee(call); cal != nil && inModule(cal) && strings.HasSuffix(pkgPathOf(cal), "/imapserver") {
					visit(cal)
				}
			}
		})
	}
	visit(fn)
	// STATUS=SIZE is written "STATUS=SIZE" in comments too; AUTH= caps are dynamic
	return out
}
