package main

import (
	"fmt"
	"go/token"

	"golang.org/x/tools/go/ssa"
)

// ruleEnvelopeDefaults: C03.s (seeding round 5). RFC 3501 §7.4.2: a missing
// Sender or Reply-To of an ENVELOPE is sent as the From list. In the server's
// response writers, every value that merges a load of Envelope.Sender or
// Envelope.ReplyTo with a fallback (an SSA φ) takes as its fallback a load of
// Envelope.From of the same envelope — not another defaulted local, not a
// different field. A fallback of anything else makes the client decode an
// address list the backend never supplied for that field.
func ruleEnvelopeDefaults(c *Ctx, rule string) {
	p := c.P
	envField := func(v ssa.Value) (string, ssa.Value) {
		u, ok := v.(*ssa.UnOp)
		if !ok || u.Op != token.MUL {
			return "", nil
		}
		r, ok := fieldOf(u.X)
		if !ok || r.Owner == nil || r.Owner.Obj().Name() != "Envelope" || r.Field == nil {
			return "", nil
		}
		return r.Field.Name(), r.Base
	}
	n := 0
	for _, fn := range p.SrcFuncs("imapserver") {
		allInstrs(fn, func(i ssa.Instruction) {
			phi, ok := i.(*ssa.Phi)
			if !ok {
				return
			}
			var field string
			var base ssa.Value
			for _, e := range phi.Edges {
				if f, b := envField(e); f == "Sender" || f == "ReplyTo" {
					field, base = f, b
				}
			}
			if field == "" {
				return
			}
			n++
			key := fmt.Sprintf("%s: default of Envelope.%s", fnKey(fn), field)
			for _, e := range phi.Edges {
				f, b := envField(e)
				if f == field && b == base {
					continue
				}
				if f == "From" && b == base {
					continue
				}
				c.fail(rule, key, phi.Pos(), fmt.Sprintf("a missing %s is replaced by something other than the From list of the same envelope (RFC 3501 §7.4.2): the client decodes a %s the backend did not supply", field, field))
				return
			}
			c.ok(rule, key, phi.Pos(), "falls back to Envelope.From of the same envelope")
		})
	}
	if n == 0 {
		c.unresolvedRoot("Envelope.Sender / Envelope.ReplyTo defaulting in imapserver")
	}
}

// ruleNoContradictedGuard: C03.t (seeding round 5). Contradiction rule
// (Engler et al.): an `if` that tests the very comparison a dominating `if`
// has already decided (same operator, the same SSA values or equal constants,
// reached only through one edge of the dominating test) has one dead branch.
// When the dead branch stores into a struct field, a piece of decoded data
// can never be delivered (e.g. BODY[HEADER.FIELDS.NOT (...)] parsed into
// HeaderFields because the discriminating test was rewritten on a value the
// outer test has already fixed). SSA values are immutable, so operand
// identity is value identity; loads are distinct instructions and never match.
func ruleNoContradictedGuard(c *Ctx, rule string, pkgs ...string) {
	p := c.P
	same := func(a, b ssa.Value) bool {
		if a == b {
			return true
		}
		ca, ok1 := a.(*ssa.Const)
		cb, ok2 := b.(*ssa.Const)
		if ok1 && ok2 && ca.Value != nil && cb.Value != nil {
			return ca.Value.ExactString() == cb.Value.ExactString() && ca.Type() == cb.Type()
		}
		return false
	}
	nIf, nRed := 0, 0
	for _, fn := range p.SrcFuncs(pkgs...) {
		for _, b := range fn.Blocks {
			if len(b.Instrs) == 0 {
				continue
			}
			ifi, ok := b.Instrs[len(b.Instrs)-1].(*ssa.If)
			if !ok {
				continue
			}
			c2, ok := ifi.Cond.(*ssa.BinOp)
			if !ok {
				continue
			}
			nIf++
			for d := b.Idom(); d != nil; d = d.Idom() {
				if len(d.Instrs) == 0 {
					continue
				}
				dif, ok := d.Instrs[len(d.Instrs)-1].(*ssa.If)
				if !ok {
					continue
				}
				c1, ok := dif.Cond.(*ssa.BinOp)
				if !ok || c1 == c2 || c1.Op != c2.Op || !same(c1.X, c2.X) || !same(c1.Y, c2.Y) {
					continue
				}
				// which edge of d leads to b
				known := -1
				for k := 0; k < 2; k++ {
					s := d.Succs[k]
					if len(s.Preds) == 1 && (s == b || s.Dominates(b)) && d.Succs[1-k] != s {
						known = k
					}
				}
				if known < 0 {
					continue
				}
				nRed++
				dead := b.Succs[1-known] // cond true is known → else (Succs[1]) dead; cond false known → then dead
				if len(dead.Preds) != 1 {
					continue
				}
				var st *ssa.Store
				for _, di := range dead.Instrs {
					if s, ok := di.(*ssa.Store); ok {
						if _, isF := s.Addr.(*ssa.FieldAddr); isF {
							st = s
							break
						}
					}
				}
				if st == nil {
					continue
				}
				r, _ := fieldOf(st.Addr)
				fname := "?"
				if r.Field != nil {
					fname = r.Field.Name()
				}
				c.fail(rule, fmt.Sprintf("%s: store to %s behind a contradicted guard", fnKey(fn), fname), st.Pos(),
					fmt.Sprintf("the guard of this store repeats a comparison that a dominating test has already decided the other way, so the store to %s is unreachable: the value it would record is never delivered", fname))
			}
		}
	}
	if nIf == 0 {
		c.unresolvedRoot("conditional branches on comparisons")
		return
	}
	c.ok(rule, "no field store behind a guard contradicted by a dominating identical test", token.NoPos, fmt.Sprintf("%d comparison branches examined, %d repeat a dominating test, none of them with a field store in its dead branch", nIf, nRed))
}
