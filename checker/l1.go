package main

import (
	"go/types"
	"strings"

	"golang.org/x/tools/go/ssa"
)

// ruleL1 discharges lemma L1: whenever an exported Decoder.Expect* method
// (or Expect / returnErr themselves) returns false, the decoder error has
// been set. The rules that classify `dec.Err()` as non-nil after a failed
// Expect* rely on it.
func ruleL1(c *Ctx, rule string) {
	p := c.P
	dec := p.Named("internal/imapwire", "Decoder")
	if dec == nil {
		c.unresolvedRoot("imapwire.Decoder")
		return
	}
	isL1 := func(obj *types.Func) bool {
		if obj == nil || recvNamed(obj) != dec {
			return false
		}
		n := obj.Name()
		return n == "returnErr" || strings.HasPrefix(n, "Expect")
	}
	// base: returnErr stores its argument into the error field when it is unset
	if re := p.Func("internal/imapwire", "Decoder", "returnErr"); re != nil {
		stores := false
		allInstrs(re, func(i ssa.Instruction) {
			if st, ok := i.(*ssa.Store); ok {
				if r, ok := fieldOf(st.Addr); ok && r.is("Decoder", "err") {
					if _, isParam := st.Val.(*ssa.Parameter); isParam {
						stores = true
					}
				}
			}
		})
		falseOnlyNonNil := true
		gf := mustFlow(re, facts{}, valueGen, func(f facts, b *ssa.BasicBlock, s int) facts { return f.with(valueEdgeFacts(b, s)...) })
		for _, ret := range returnsOf(re) {
			if k, ok := ret.Results[0].(*ssa.Const); ok && k.Value != nil && k.Value.String() == "false" {
				fs, _ := gf.at(ret)
				if !fs.hasPrefix("nonnil:") {
					falseOnlyNonNil = false
				}
			}
		}
		c.check(stores && falseOnlyNonNil, rule, "(*Decoder).returnErr", re.Pos(),
			"returns false only for a non-nil error, which it records when none is recorded yet", "returnErr can return false without an error being recorded")
	} else {
		c.unresolvedRoot("(*Decoder).returnErr")
	}
	ms := types.NewMethodSet(types.NewPointer(dec))
	for i := 0; i < ms.Len(); i++ {
		obj := ms.At(i).Obj().(*types.Func)
		if !isL1(obj) || obj.Name() == "returnErr" {
			continue
		}
		sig := obj.Type().(*types.Signature)
		if sig.Results().Len() == 0 {
			continue
		}
		last := sig.Results().At(sig.Results().Len() - 1).Type()
		fn := p.SSA.FuncValue(obj)
		if fn == nil || fn.Blocks == nil {
			continue
		}
		if last != types.Typ[types.Bool] {
			continue // error-returning variants return dec.Err() themselves
		}
		gf := mustFlow(fn, facts{}, nil, func(f facts, b *ssa.BasicBlock, s int) facts {
			add := valueEdgeFacts(b, s)
			for _, a := range edgeAtoms(b, s) {
				if r, ok := loadedField(a.V); ok && r.is("Decoder", "err") && a.Nil == -1 {
					add = append(add, "fail:(*Decoder).returnErr") // the error field itself is known non-nil
				}
			}
			return f.with(add...)
		})
		failFact := func(fs facts) bool {
			for f := range fs {
				if strings.HasPrefix(f, "fail:(*Decoder).Expect") || f == "fail:(*Decoder).returnErr" {
					return true
				}
			}
			return false
		}
		var okv func(v ssa.Value, fs facts, seen map[ssa.Value]bool) bool
		okv = func(v ssa.Value, fs facts, seen map[ssa.Value]bool) bool {
			v = unspill(v)
			if _, isPhi := v.(*ssa.Phi); isPhi {
				if seen[v] {
					return true
				}
				seen[v] = true
			}
			switch x := v.(type) {
			case *ssa.Const:
				if x.Value != nil && x.Value.String() == "true" {
					return true
				}
				return failFact(fs)
			case *ssa.Call:
				return isL1(calleeObj(x))
			case *ssa.Phi:
				for ei, e := range x.Edges {
					pred := x.Block().Preds[ei]
					pf, reach := gf.atEnd(pred)
					if !reach {
						continue
					}
					for si, s := range pred.Succs {
						if s == x.Block() {
							pf = pf.with(valueEdgeFacts(pred, si)...)
						}
					}
					if !okv(e, pf, seen) {
						return false
					}
				}
				return true
			}
			return false
		}
		good := true
		var badPos = fn.Pos()
		for _, ret := range returnsOf(fn) {
			fs, reach := gf.at(ret)
			if !reach {
				continue
			}
			if !okv(ret.Results[len(ret.Results)-1], fs, map[ssa.Value]bool{}) {
				good = false
				badPos = ret.Pos()
			}
		}
		c.check(good, rule, "L1:"+funcKey(obj), badPos, "every false return has passed returnErr/Expect with a non-nil error",
			"can return false without recording a decoder error: callers would return a nil dec.Err()")
	}
}
