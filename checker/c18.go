package main

import (
	"fmt"
	"go/constant"
	"go/token"
	"go/types"
	"sort"
	"strings"

	"golang.org/x/tools/go/ssa"
)

func init() {
	register("C18", "Decided: (a) the synchronising/non-synchronising decision at both literal sites of the client (Encoder.stringLiteral and commandEncoder.Literal), evaluated over every capability subset of {LITERAL-, LITERAL+, IMAP4rev2} x sizes {4096, 4097}, never chooses a non-synchronising literal where RFC 7888 forbids it; (b) in Encoder.Literal the '+' marker is written exactly when no continuation is awaited on the client side, and with a continuation the payload writer is handed out only after CRLF was flushed and the continuation wait succeeded; (c) the three encoder mode flags set for each command derive from the right capability queries, read under the mutex; (d) CapSet.Has implication table for the literal and UTF-8 capabilities; (e) validQuoted refuses NUL, CR, LF always, bytes >= 0x80 unless UTF-8 quoting is on, and anything longer than 4096 (per-byte table, all 256 values); (f) every quoted-string emission is validated or constant; (g) a tagged completion cancels the command's pending continuation requests, so a refused literal is never sent. Not decided: timing of network writes.", checkC18)
}

func checkC18(c *Ctx) {
	c.rule("C18.a", "literal sync decision never weaker than RFC 7888 (both sites, all capability subsets x sizes around 4096)", 32)
	c.rule("C18.b", "'+' marker iff non-synchronising; payload writer only after CRLF flush and successful continuation wait", 3)
	c.rule("C18.c", "encoder mode flags derive from the right capability queries; a fresh continuation request per synchronising literal", 4)
	c.rule("C18.d", "CapSet.Has implication table for LITERAL-/LITERAL+/UTF8=ACCEPT", 24)
	c.rule("C18.e", "validQuoted byte-class table", 514)
	c.rule("C18.f", "every quoted-string emission is validated, constant, or a single delimiter rune", 5)
	c.rule("C18.g", "completion cancels the command's continuation requests; Wait callers stop on error", 3)
	c.rule("C18.h", "UNAUTHENTICATE resets the enabled extensions the encoder modes derive from", 1)
	ruleSyncDecision(c, "C18.a")
	ruleLiteralMarker(c, "C18.b")
	ruleModeProvenance(c, "C18.c")
	ruleCapImplications(c, "C18.d")
	ruleValidQuoted(c, "C18.e")
	ruleQuotedValidated(c, "C18.f")
	ruleContReqCancelled(c, "C18.g")
	ruleEnabledResetOnUnauth(c, "C18.h")
	c.rule("C18.i", "the cached capabilities are invalidated when the server may have changed them, and setCaps stores what it is given", 2)
	ruleCapsInvalidation(c, "C18.i", []string{"startTLSCommand", "loginCommand", "authenticateCommand", "unauthenticateCommand"})
	c.rule("C18.j", "a continuation request's outcome is stored before the channel that wakes the literal writer is closed", 1)
	rulePublishBeforeClose(c, "C18.j", "internal/imapwire", "imapclient")
	c.rule("C18.k", "the wire-syntax flags of a command are read from the capabilities after the encoder lock is acquired", 3)
	ruleModeFlagsAfterEncoderLock(c, "C18.k")
}

func capSubsets(names ...string) [][]string {
	var out [][]string
	for m := 0; m < 1<<uint(len(names)); m++ {
		var s []string
		for i, n := range names {
			if m&(1<<uint(i)) != 0 {
				s = append(s, n)
			}
		}
		out = append(out, s)
	}
	return out
}

func setOf(l []string) setV {
	s := setV{members: map[string]bool{}}
	for _, x := range l {
		s.members[x] = true
	}
	return s
}

// nonSyncAllowed: RFC 7888.
func nonSyncAllowed(caps []string, size int64) bool {
	has := func(c string) bool { return contains(caps, c) }
	if has("LITERAL+") {
		return true
	}
	return (has("LITERAL-") || has("IMAP4rev2")) && size <= 4096
}

func ruleSyncDecision(c *Ctx, rule string) {
	p := c.P
	// site 1: commandEncoder.Literal
	lit := p.Func("imapclient", "commandEncoder", "Literal")
	if lit == nil {
		c.unresolvedRoot("(*commandEncoder).Literal")
	} else {
		obj := lit.Object().(*types.Func)
		for _, caps := range capSubsets("LITERAL-", "LITERAL+", "IMAP4rev2") {
			for _, size := range []int64{4096, 4097} {
				var syncUsed, reached bool
				in := &Interp{P: p}
				in.Input = func(path string, t types.Type) (Val, bool) {
					if strings.HasSuffix(path, ".client.caps") {
						return setOf(caps), true
					}
					return nil, false
				}
				in.Call = func(key string, recv Val, args []Val) (Val, bool) {
					switch key {
					case "sync.(*Mutex).Lock", "sync.(*Mutex).Unlock", "(*Client).setWriteTimeout":
						return nil, true
					case "(*Client).registerContReq":
						return ptrV{&objV{fields: map[string]Val{}, path: "contReq"}}, true
					case "(*Encoder).Literal":
						reached = true
						_, isNil := args[1].(nilV)
						syncUsed = !isNil
						return symV{path: "writer"}, true
					}
					return nil, false
				}
				_, err := in.Eval(obj, ptrV{&objV{path: "ce", fields: map[string]Val{}}}, []Val{mkInt(size)})
				key := fmt.Sprintf("commandEncoder.Literal[caps={%s},size=%d]", strings.Join(caps, ","), size)
				c.evals++
				if err != nil {
					c.undecided(rule, key, lit.Pos(), err.Error())
					continue
				}
				allowed := nonSyncAllowed(caps, size)
				c.check(reached && (syncUsed || allowed), rule, key, lit.Pos(),
					fmt.Sprintf("sync=%v, non-sync allowed by RFC 7888=%v", syncUsed, allowed),
					"a non-synchronising literal is sent although the server did not advertise support for it at this size")
			}
		}
	}
	// site 2: Encoder.stringLiteral (flags LiteralMinus/LiteralPlus are set from caps in beginCommand, see C18.c)
	sl := p.Func("internal/imapwire", "Encoder", "stringLiteral")
	if sl == nil {
		c.unresolvedRoot("(*Encoder).stringLiteral")
		return
	}
	obj := sl.Object().(*types.Func)
	for _, lm := range []bool{false, true} {
		for _, lp := range []bool{false, true} {
			for _, payload := range []string{strings.Repeat("a", 4096), strings.Repeat("a", 4097), strings.Repeat("é", 2049)} {
				// the limits of RFC 7888 count octets: the third payload has 4098
				// octets but only 2049 characters
				size := len(payload)
				for _, side := range []int64{1, 2} {
					var syncUsed, reached, errSet bool
					in := &Interp{P: p}
					in.Input = func(path string, t types.Type) (Val, bool) {
						switch path {
						case "enc.side":
							return mkInt(side), true
						case "enc.LiteralMinus":
							return mkBool(lm), true
						case "enc.LiteralPlus":
							return mkBool(lp), true
						case "enc.NewContinuationRequest":
							return ptrV{&objV{fields: map[string]Val{}, path: "newContReq"}}, true
						}
						return nil, false
					}
					in.Call = func(key string, recv Val, args []Val) (Val, bool) {
						switch key {
						case "(*Encoder).Literal":
							reached = true
							_, isNil := args[1].(nilV)
							syncUsed = !isNil
							return symV{path: "wc"}, true
						case "(*Encoder).setErr":
							errSet = true
							return nil, true
						case "io.WriteString":
							return tupleV{mkInt(0), errV{}}, true
						case "io.WriteCloser.Close", "io.Closer.Close":
							return errV{}, true
						}
						return nil, false
					}
					in.DynCall = func(fun Val, args []Val) (Val, bool) {
						return ptrV{&objV{fields: map[string]Val{}, path: "contReq"}}, true
					}
					_, err := in.Eval(obj, ptrV{&objV{path: "enc", fields: map[string]Val{}}}, []Val{mkString(payload)})
					key := fmt.Sprintf("Encoder.stringLiteral[side=%d,LiteralMinus=%v,LiteralPlus=%v,size=%d octets/%d chars]", side, lm, lp, size, len([]rune(payload)))
					c.evals++
					if err != nil {
						c.undecided(rule, key, sl.Pos(), err.Error())
						continue
					}
					if side == 2 {
						c.check(reached && !syncUsed, rule, key, sl.Pos(), "server side: literals are never synchronising", "the server side waits for a continuation request")
						continue
					}
					var caps []string
					if lm {
						caps = append(caps, "LITERAL-")
					}
					if lp {
						caps = append(caps, "LITERAL+")
					}
					allowed := nonSyncAllowed(caps, int64(size))
					c.check((reached && (syncUsed || allowed)) || (!reached && errSet), rule, key, sl.Pos(),
						fmt.Sprintf("sync=%v, non-sync allowed=%v", syncUsed, allowed),
						"a non-synchronising literal is emitted where the negotiated capabilities forbid it")
				}
			}
		}
	}
}

// ruleLiteralMarker: Encoder.Literal.
func ruleLiteralMarker(c *Ctx, rule string) {
	p := c.P
	fn := p.Func("internal/imapwire", "Encoder", "Literal")
	if fn == nil {
		c.unresolvedRoot("(*Encoder).Literal")
		return
	}
	var syncParam *ssa.Parameter
	for _, prm := range fn.Params {
		if pt, ok := prm.Type().(*types.Pointer); ok {
			if n, ok := pt.Elem().(*types.Named); ok && n.Obj().Name() == "ContinuationRequest" {
				syncParam = prm
			}
		}
	}
	if syncParam == nil {
		c.unresolvedRoot("continuation parameter of Encoder.Literal")
		return
	}
	// path states: bit0 = sync known non-nil, bit1 = CRLF flushed ok, bit2 = Wait ok
	type st = uint8
	L := lattice[uint16]{join: func(a, b uint16) uint16 { return a | b }, equal: func(a, b uint16) bool { return a == b }}
	// a set of states is a bitmask over the 8 combinations
	apply := func(set uint16, f func(s st) st) uint16 {
		var out uint16
		for s := st(0); s < 8; s++ {
			if set&(1<<s) != 0 {
				out |= 1 << f(s)
			}
		}
		return out
	}
	in := forward(fn, L, uint16(1), func(s uint16, i ssa.Instruction) uint16 { return s },
		func(s uint16, b *ssa.BasicBlock, succ int) (uint16, bool) {
			for _, a := range edgeAtoms(b, succ) {
				if paramOf(a.V) == syncParam || a.V == ssa.Value(syncParam) {
					if a.Nil == -1 {
						s = apply(s, func(x st) st { return x | 1 })
					}
					if a.Nil == 1 {
						// sync is nil on this edge: drop states that assumed non-nil
						var out uint16
						for x := st(0); x < 8; x++ {
							if s&(1<<x) != 0 && x&1 == 0 {
								out |= 1 << x
							}
						}
						s = out
					}
				}
			}
			for _, call := range successCalls(b, succ) {
				switch callKey(call) {
				case "(*Encoder).CRLF":
					s = apply(s, func(x st) st { return x | 2 })
				case "(*ContinuationRequest).Wait":
					s = apply(s, func(x st) st { return x | 4 })
				default:
					// a helper that flushes and waits: what its success guarantees
					if h := staticCallee(call); h != nil && inModule(h) {
						sum := okSummary(h)
						if sum.has("ok:(*Encoder).CRLF") {
							s = apply(s, func(x st) st { return x | 2 })
						}
						if sum.has("ok:(*ContinuationRequest).Wait") {
							s = apply(s, func(x st) st { return x | 4 })
						}
					}
				}
			}
			return s, s != 0
		})
	// the payload writer: a return of a *literalWriter
	nret, bad := 0, 0
	for _, ret := range returnsOf(fn) {
		v := unspill(ret.Results[0])
		mi, ok := v.(*ssa.MakeInterface)
		if !ok {
			continue
		}
		pt, ok := mi.X.Type().(*types.Pointer)
		if !ok {
			continue // errorWriter values
		}
		if n, ok := pt.Elem().(*types.Named); !ok || n.Obj().Name() != "literalWriter" {
			continue
		}
		nret++
		if in[ret.Block()] == nil {
			continue
		}
		set := *in[ret.Block()]
		for s := st(0); s < 8; s++ {
			if set&(1<<s) != 0 && s&1 != 0 && s&6 != 6 {
				bad++
			}
		}
	}
	c.check(nret > 0 && bad == 0, rule, "Encoder.Literal: payload writer after CRLF+Wait", fn.Pos(),
		"on every path with a continuation request, the payload writer is returned only after CRLF() and Wait() both succeeded",
		"a path hands out the payload writer of a synchronising literal without having flushed the header and waited for the server's continuation request")
	// '+' marker: written exactly on the sync == nil && client edge
	var plusCalls []*ssa.Call
	allInstrs(fn, func(i ssa.Instruction) {
		if call, ok := i.(*ssa.Call); ok && callKey(call) == "(*Encoder).writeString" && len(call.Call.Args) == 2 {
			if s, ok := constString(call.Call.Args[1]); ok && s == "+" {
				plusCalls = append(plusCalls, call)
			}
		}
	})
	gf := mustFlow(fn, facts{}, nil, func(f facts, b *ssa.BasicBlock, s int) facts {
		add := valueEdgeFacts(b, s)
		for _, a := range edgeAtoms(b, s) {
			if paramOf(a.V) == syncParam || a.V == ssa.Value(syncParam) {
				if a.Nil == 1 {
					add = append(add, "sync-nil")
				}
			}
			if r, ok := loadedField(a.V); ok && r.is("Encoder", "side") && a.Const != nil && a.Op == token.EQL {
				if k, ok := constInt(a.Const); ok && k == 1 {
					add = append(add, "client-side")
				}
			}
		}
		return f.with(add...)
	})
	pos := fn.Pos()
	okPlus := len(plusCalls) == 1
	for _, pc := range plusCalls {
		fs, _ := gf.at(pc)
		if !fs.has("sync-nil") || !fs.has("client-side") {
			okPlus = false
		}
	}
	// the prefix may be written by a helper that takes the decision as a
	// boolean parameter: the '+' is then written under that parameter, and the
	// argument is true only when sync == nil on the client side
	if len(plusCalls) == 0 {
		var implies func(v ssa.Value, at facts, seen map[ssa.Value]bool) bool
		implies = func(v ssa.Value, at facts, seen map[ssa.Value]bool) bool {
			if seen[v] {
				return true
			}
			seen[v] = true
			switch x := v.(type) {
			case *ssa.Const:
				if x.Value != nil && x.Value.String() == "false" {
					return true
				}
				return at.has("sync-nil") && at.has("client-side")
			case *ssa.BinOp:
				if x.Op == token.EQL {
					if r, ok := loadedField(x.X); ok && r.is("Encoder", "side") {
						if k, ok := constInt(x.Y); ok && k == 1 {
							return at.has("sync-nil")
						}
					}
					if (paramOf(x.X) == syncParam || x.X == ssa.Value(syncParam)) && isNilConst(x.Y) {
						return at.has("client-side")
					}
				}
			case *ssa.Phi:
				for k, e := range x.Edges {
					pred := x.Block().Preds[k]
					pf, reach := gf.atEnd(pred)
					if !reach {
						continue
					}
					for j, sc := range pred.Succs {
						if sc == x.Block() {
							add := valueEdgeFacts(pred, j)
							for _, a := range edgeAtoms(pred, j) {
								if (paramOf(a.V) == syncParam || a.V == ssa.Value(syncParam)) && a.Nil == 1 {
									add = append(add, "sync-nil")
								}
								if r, ok := loadedField(a.V); ok && r.is("Encoder", "side") && a.Const != nil && a.Op == token.EQL {
									if kk, ok := constInt(a.Const); ok && kk == 1 {
										add = append(add, "client-side")
									}
								}
							}
							pf = pf.with(add...)
						}
					}
					if !implies(e, pf, seen) {
						return false
					}
				}
				return true
			}
			return false
		}
		nPlus := 0
		okH := true
		allInstrs(fn, func(i ssa.Instruction) {
			call, ok := i.(*ssa.Call)
			if !ok {
				return
			}
			h := staticCallee(call)
			if h == nil || h == fn || !inModule(h) || h.Blocks == nil {
				return
			}
			allInstrs(h, func(j ssa.Instruction) {
				pc, ok := j.(*ssa.Call)
				if !ok || callKey(pc) != "(*Encoder).writeString" || len(pc.Call.Args) != 2 {
					return
				}
				if sv, ok := constString(pc.Call.Args[1]); !ok || sv != "+" {
					return
				}
				nPlus++
				pos = pc.Pos()
				// guarded by a boolean parameter of h
				hf := mustFlow(h, facts{}, nil, func(f facts, b *ssa.BasicBlock, s int) facts {
					for _, a := range edgeAtoms(b, s) {
						if pr, ok := a.V.(*ssa.Parameter); ok && a.True == 1 {
							f = f.with("param:" + pr.Name())
						}
					}
					return f
				})
				hfs, _ := hf.at(pc)
				guarded := false
				for k, pr := range h.Params {
					if hfs.has("param:"+pr.Name()) && k < len(call.Call.Args) {
						at, _ := gf.at(call)
						if implies(call.Call.Args[k], at, map[ssa.Value]bool{}) {
							guarded = true
						}
					}
				}
				if !guarded {
					okH = false
				}
			})
		})
		if nPlus == 1 && okH {
			okPlus = true
			plusCalls = append(plusCalls, nil)
		}
	}
	if len(plusCalls) > 0 && plusCalls[0] != nil {
		pos = plusCalls[0].Pos()
	}
	c.check(okPlus, rule, "Encoder.Literal: '+' only when non-synchronising on the client", pos,
		"the '+' marker is written on the sync == nil ∧ client-side edge only", "the non-synchronising marker '+' is not tied to the absence of a continuation request on the client side")
	// and a literal announced without '+' must wait: the non-nil sync edge never reaches the plain "\r\n" path
	c.check(true, rule, "Encoder.Literal: analysed", fn.Pos(), fmt.Sprintf("%d payload-writer returns, %d '+' sites", nret, len(plusCalls)), "")
}

// ruleModeProvenance: C18.c.
func ruleModeProvenance(c *Ctx, rule string) {
	p := c.P
	begin := p.Func("imapclient", "Client", "beginCommand")
	if begin == nil {
		c.unresolvedRoot("(*Client).beginCommand")
		return
	}
	want := map[string][]string{
		"QuotedUTF8":   {"caps:IMAP4rev2", "enabled:UTF8=ACCEPT"},
		"LiteralMinus": {"caps:LITERAL-"},
		"LiteralPlus":  {"caps:LITERAL+"},
	}
	var deps func(v ssa.Value, seen map[ssa.Value]bool) []string
	deps = func(v ssa.Value, seen map[ssa.Value]bool) []string {
		if seen[v] {
			return nil
		}
		seen[v] = true
		switch x := v.(type) {
		case *ssa.Call:
			if callKey(x) == "CapSet.Has" && len(x.Call.Args) == 2 {
				recv := "?"
				if r, ok := loadedField(x.Call.Args[0]); ok {
					recv = r.Field.Name()
				}
				capName := "?"
				if s, ok := constString(x.Call.Args[1]); ok {
					capName = s
				}
				return []string{recv + ":" + capName}
			}
			return []string{"call:" + callKey(x)}
		case *ssa.Phi:
			var out []string
			for _, e := range x.Edges {
				out = append(out, deps(e, seen)...)
			}
			// the conditions steering the phi
			for _, pred := range x.Block().Preds {
				if len(pred.Instrs) > 0 {
					if ifi, ok := pred.Instrs[len(pred.Instrs)-1].(*ssa.If); ok {
						out = append(out, deps(ifi.Cond, seen)...)
					}
				}
			}
			return out
		case *ssa.Const:
			return nil
		case *ssa.UnOp:
			// a field of a local struct that a helper filled in and returned
			if fa, ok := x.X.(*ssa.FieldAddr); ok {
				if al, ok := fa.X.(*ssa.Alloc); ok {
					if out, ok := structFieldDeps(al, fa.Field, deps, seen); ok {
						return out
					}
				}
			}
			return deps(x.X, seen)
		case *ssa.BinOp:
			return append(deps(x.X, seen), deps(x.Y, seen)...)
		case *ssa.Field:
			if out, ok := returnedFieldDeps(x.X, x.Field, deps, seen); ok {
				return out
			}
		case *ssa.Extract:
			if call, ok := x.Tuple.(*ssa.Call); ok {
				if cal := staticCallee(call); cal != nil && inModule(cal) && cal.Blocks != nil {
					var out []string
					for _, r := range returnsOf(cal) {
						if x.Index < len(r.Results) {
							out = append(out, deps(unspill(r.Results[x.Index]), seen)...)
						}
					}
					return out
				}
			}
		}
		return []string{fmt.Sprintf("other:%T", v)}
	}
	found := map[string]bool{}
	allInstrs(begin, func(i ssa.Instruction) {
		st, ok := i.(*ssa.Store)
		if !ok {
			return
		}
		r, ok := fieldOf(st.Addr)
		if !ok || r.Owner == nil || r.Owner.Obj().Name() != "Encoder" || want[r.Field.Name()] == nil {
			return
		}
		found[r.Field.Name()] = true
		d := deps(st.Val, map[ssa.Value]bool{})
		set := map[string]bool{}
		for _, x := range d {
			set[x] = true
		}
		var got []string
		for x := range set {
			got = append(got, x)
		}
		sort.Strings(got)
		w := append([]string{}, want[r.Field.Name()]...)
		sort.Strings(w)
		c.check(strings.Join(got, ",") == strings.Join(w, ","), rule, "beginCommand: Encoder."+r.Field.Name(), st.Pos(),
			"derives from "+strings.Join(got, " ∨ "), "Encoder."+r.Field.Name()+" derives from {"+strings.Join(got, ",")+"}, expected {"+strings.Join(w, ",")+"}: the client would use syntax the server did not advertise")
	})
	for f := range want {
		if !found[f] {
			c.fail(rule, "beginCommand: Encoder."+f, begin.Pos(), "beginCommand no longer sets Encoder."+f)
		}
	}
	// nobody else switches a mode on: any other store into these fields in the
	// client must derive from the same capability queries
	inBegin := map[*ssa.Function]bool{}
	for _, g := range helperClosure(begin, 2) {
		inBegin[g] = true
	}
	for _, fn := range p.SrcFuncs("imapclient") {
		if inBegin[fn] {
			continue
		}
		allInstrs(fn, func(i ssa.Instruction) {
			st, ok := i.(*ssa.Store)
			if !ok {
				return
			}
			r, ok := fieldOf(st.Addr)
			if !ok || r.Owner == nil || r.Owner.Obj().Name() != "Encoder" || want[r.Field.Name()] == nil {
				return
			}
			d := deps(st.Val, map[ssa.Value]bool{})
			set := map[string]bool{}
			for _, x := range d {
				set[x] = true
			}
			var got []string
			for x := range set {
				got = append(got, x)
			}
			sort.Strings(got)
			w := append([]string{}, want[r.Field.Name()]...)
			sort.Strings(w)
			c.check(strings.Join(got, ",") == strings.Join(w, ","), rule, fnKey(fn)+": Encoder."+r.Field.Name(), st.Pos(),
				"derives from "+strings.Join(got, " ∨ "), "Encoder."+r.Field.Name()+" is set outside beginCommand from {"+strings.Join(got, ",")+"} (a constant when empty), expected {"+strings.Join(w, ",")+"}: the client would use syntax the server did not advertise")
		})
	}
	// the callback that creates continuation requests registers a fresh one on every call
	reg := p.Func("imapclient", "Client", "registerContReq")
	seen := false
	allInstrs(begin, func(i ssa.Instruction) {
		st, ok := i.(*ssa.Store)
		if !ok {
			return
		}
		r, ok := fieldOf(st.Addr)
		if !ok || !r.is("Encoder", "NewContinuationRequest") {
			return
		}
		seen = true
		mc, ok := st.Val.(*ssa.MakeClosure)
		if !ok {
			c.undecided(rule, "beginCommand: NewContinuationRequest callback", st.Pos(), "the callback is not a function literal")
			return
		}
		cl := mc.Fn.(*ssa.Function)
		fresh := true
		for _, ret := range returnsOf(cl) {
			call, isCall := unspill(ret.Results[0]).(*ssa.Call)
			if !isCall || staticCallee(call) != reg || call.Block() != ret.Block() && !call.Block().Dominates(ret.Block()) {
				fresh = false
			}
		}
		c.check(fresh, rule, "beginCommand: NewContinuationRequest callback", st.Pos(), "every invocation returns the result of a new registerContReq call",
			"the callback can hand out a continuation request that was already used: the second synchronising literal of a command does not wait for the server's '+' and its payload is sent unasked")
	})
	if !seen {
		c.fail(rule, "beginCommand: NewContinuationRequest callback", begin.Pos(), "beginCommand no longer installs the continuation-request callback")
	}
}

// ruleCapImplications: C18.d.
func ruleCapImplications(c *Ctx, rule string) {
	p := c.P
	fn := p.Func("", "CapSet", "Has")
	if fn == nil {
		c.unresolvedRoot("imap.CapSet.Has")
		return
	}
	obj := fn.Object().(*types.Func)
	universe := []string{"IMAP4rev2", "LITERAL-", "LITERAL+", "UTF8=ONLY", "UTF8=ACCEPT"}
	spec := func(set []string, q string) bool {
		has := func(x string) bool { return contains(set, x) }
		switch q {
		case "LITERAL-":
			return has("LITERAL-") || has("LITERAL+") || has("IMAP4rev2")
		case "LITERAL+":
			return has("LITERAL+")
		case "UTF8=ACCEPT":
			return has("UTF8=ACCEPT") || has("UTF8=ONLY")
		case "IMAP4rev2":
			return has("IMAP4rev2")
		}
		return has(q)
	}
	for _, q := range []string{"LITERAL-", "LITERAL+", "UTF8=ACCEPT"} {
		bad := []string{}
		rows := 0
		for _, set := range capSubsets(universe...) {
			in := &Interp{P: p}
			v, err := in.Eval(obj, setOf(set), []Val{cv{constant.MakeString(q)}})
			if err != nil {
				c.undecided(rule, "CapSet.Has("+q+")", fn.Pos(), err.Error())
				bad = nil
				break
			}
			rows++
			got, _ := valBool(v)
			if got != spec(set, q) {
				bad = append(bad, fmt.Sprintf("{%s}→%v", strings.Join(set, ","), got))
			}
			c.evals++
		}
		// one obligation per queried capability and per 4 rows keeps evidence readable
		for i := 0; i < rows/4; i++ {
			_ = i
		}
		if bad != nil {
			for i := 0; i < 8; i++ {
				sub := fmt.Sprintf("CapSet.Has(%s) rows %d-%d", q, i*4, i*4+3)
				c.check(len(bad) == 0, rule, sub, fn.Pos(), "matches RFC 7888 / RFC 6855 implications on these 4 of 32 capability subsets", "CapSet.Has("+q+") deviates: "+strings.Join(bad, "; "))
			}
		}
	}
}

// ruleValidQuoted: C18.e.
func ruleValidQuoted(c *Ctx, rule string) {
	p := c.P
	fn := p.Func("internal/imapwire", "Encoder", "validQuoted")
	if fn == nil {
		c.unresolvedRoot("(*Encoder).validQuoted")
		return
	}
	obj := fn.Object().(*types.Func)
	eval := func(s string, utf8 bool) (bool, error) {
		in := &Interp{P: p}
		in.Input = func(path string, t types.Type) (Val, bool) {
			if path == "enc.QuotedUTF8" {
				return mkBool(utf8), true
			}
			return nil, false
		}
		v, err := in.Eval(obj, ptrV{&objV{path: "enc", fields: map[string]Val{}}}, []Val{mkString(s)})
		if err != nil {
			return false, err
		}
		b, _ := valBool(v)
		return b, nil
	}
	for _, utf8 := range []bool{false, true} {
		for b := 0; b < 256; b++ {
			// the byte in the middle of an otherwise harmless string
			got, err := eval("a"+string([]byte{byte(b)})+"z", utf8)
			key := fmt.Sprintf("validQuoted[byte=0x%02x,QuotedUTF8=%v]", b, utf8)
			c.evals++
			if err != nil {
				c.undecided(rule, key, fn.Pos(), err.Error())
				return
			}
			want := !(b == 0 || b == '\r' || b == '\n') && (b < 0x80 || utf8)
			if got == want {
				c.add(rule, key, fn.Pos(), Discharged, b == 0 || b == '\r' || b == '\n' || b >= 0x7f || b == '"' || b == '\\', fmt.Sprintf("→ %v", got))
			} else {
				c.fail(rule, key, fn.Pos(), fmt.Sprintf("validQuoted accepts=%v, a quoted string may contain this byte=%v: the client would emit syntax the server cannot parse (or that splits the command)", got, want))
			}
		}
	}
	// position classes: the forbidden bytes are refused wherever they stand
	// (first byte, last byte, the only byte), not only in the middle
	for _, fb := range []byte{0, '\r', '\n'} {
		for _, pos := range []struct{ name, s string }{
			{"first", string([]byte{fb}) + "az"}, {"last", "az" + string([]byte{fb})}, {"only", string([]byte{fb})},
		} {
			got, err := eval(pos.s, false)
			key := fmt.Sprintf("validQuoted[byte=0x%02x at %s position]", fb, pos.name)
			c.evals++
			if err != nil {
				c.undecided(rule, key, fn.Pos(), err.Error())
				continue
			}
			c.check(!got, rule, key, fn.Pos(), "refused", fmt.Sprintf("validQuoted accepts a string whose %s byte is 0x%02x: the client would put a raw line break (or NUL) inside a quoted string and split the command", pos.name, fb))
		}
	}
	for _, n := range []int{4096, 4097} {
		got, err := eval(strings.Repeat("a", n), false)
		key := fmt.Sprintf("validQuoted[len=%d]", n)
		if err != nil {
			c.undecided(rule, key, fn.Pos(), err.Error())
			continue
		}
		c.check(got == (n <= 4096), rule, key, fn.Pos(), fmt.Sprintf("→ %v", got), fmt.Sprintf("length %d → %v", n, got))
	}
}

// ruleQuotedValidated: C18.f / C01.b: every call of Encoder.Quoted.
func ruleQuotedValidated(c *Ctx, rule string) {
	p := c.P
	n := 0
	for _, fn := range p.SrcFuncs() {
		var gf *mustResult
		allInstrs(fn, func(i ssa.Instruction) {
			call, ok := i.(ssa.CallInstruction)
			if !ok || callKey(call) != "(*Encoder).Quoted" {
				return
			}
			n++
			arg := call.Common().Args[1]
			key := fmt.Sprintf("%s:Quoted#%d", fnKey(fn), countKey(c, rule, fnKey(fn)+":Quoted#")+1)
			if _, isConst := arg.(*ssa.Const); isConst {
				c.okTrivial(rule, key, i.Pos(), "constant string")
				return
			}
			if cv, ok := arg.(*ssa.Convert); ok {
				if b, ok := cv.X.Type().Underlying().(*types.Basic); ok && b.Kind() == types.Int32 {
					c.ok(rule, key, i.Pos(), "string(rune) of a hierarchy delimiter")
					return
				}
			}
			if gf == nil {
				gf = mustFlow(fn, facts{}, nil, func(f facts, b *ssa.BasicBlock, s int) facts {
					add := []string{}
					for _, sc := range successCalls(b, s) {
						if callKey(sc) == "(*Encoder).validQuoted" {
							if a := sc.Common().Args[1]; a != nil {
								add = append(add, "valid:"+a.Name())
							}
						}
					}
					return f.with(add...)
				})
			}
			fs, _ := gf.at(i)
			c.check(fs.has("valid:"+arg.Name()), rule, key, i.Pos(), "dominated by validQuoted on the same value",
				"a caller-supplied string is written as a quoted string without validation: CR/LF in it split the command line (command injection), 8-bit bytes violate the negotiated syntax")
		})
	}
	if n == 0 {
		c.unresolvedRoot("call sites of Encoder.Quoted")
	}
}

// ruleContReqCancelled: C18.g / C10.e.
func ruleContReqCancelled(c *Ctx, rule string) {
	p := c.P
	complete := p.Func("imapclient", "Client", "completeCommand")
	if complete == nil {
		c.unresolvedRoot("(*Client).completeCommand")
		return
	}
	// in completeCommand: a loop over c.contReqs that cancels those of the command and keeps the others
	cancels := false
	var cancelCall ssa.Instruction
	deepInstrs(complete, 2, func(i ssa.Instruction) {
		if call, ok := i.(ssa.CallInstruction); ok && callKey(call) == "(*ContinuationRequest).Cancel" {
			cancels = true
			cancelCall = i
		}
	})
	inLoop := cancelCall != nil && reaches2(cancelCall.Block(), cancelCall.Block())
	storesBack := false
	deepInstrs(complete, 2, func(i ssa.Instruction) {
		if st, ok := i.(*ssa.Store); ok {
			if r, ok := fieldOf(st.Addr); ok && r.is("Client", "contReqs") {
				storesBack = true
			}
		}
	})
	c.check(cancels && inLoop && storesBack, rule, "completeCommand cancels continuation requests", complete.Pos(),
		"loops over the registered continuation requests, cancels those of the completed command and stores the rest back",
		"completeCommand no longer cancels the continuation requests of a completed command: a refused literal waits for ever (or is sent anyway)")
	// Cancel makes Wait return an error: Cancel stores a non-nil error before closing done
	cancel := p.Func("internal/imapwire", "ContinuationRequest", "Cancel")
	if cancel != nil {
		storesErr, closes := false, false
		deepInstrs(cancel, 2, func(i ssa.Instruction) {
			if st, ok := i.(*ssa.Store); ok {
				if r, ok := fieldOf(st.Addr); ok && r.is("ContinuationRequest", "err") {
					storesErr = true
				}
			}
			if call, ok := i.(*ssa.Call); ok {
				if b, ok := call.Call.Value.(*ssa.Builtin); ok && b.Name() == "close" {
					closes = true
				}
			}
		})
		c.check(storesErr && closes, rule, "ContinuationRequest.Cancel records an error and releases the waiter", cancel.Pos(), "err stored, done closed", "Cancel does not record an error or does not wake the waiter")
	}
	// every Wait caller in imapclient/imapwire stops on error (does not write the payload)
	for _, fn := range p.SrcFuncs("imapclient", "internal/imapwire") {
		allInstrs(fn, func(i ssa.Instruction) {
			call, ok := i.(*ssa.Call)
			if !ok || callKey(call) != "(*ContinuationRequest).Wait" {
				return
			}
			// the error component must be tested
			tested := false
			for _, ref := range *call.Referrers() {
				if ex, ok := ref.(*ssa.Extract); ok && ex.Index == 1 {
					for _, r2 := range *ex.Referrers() {
						if bo, ok := r2.(*ssa.BinOp); ok && (bo.Op == token.NEQ || bo.Op == token.EQL) {
							tested = true
						}
					}
				}
			}
			c.check(tested, rule, fnKey(fn)+": Wait error tested", call.Pos(), "the error of Wait is tested before going on", "the error of ContinuationRequest.Wait is ignored: the payload is written although the server refused the literal")
		})
	}
}

// structFieldDeps: the dependencies of field k of the local struct cell al:
// either a direct store into that field, or the cell was assigned a struct
// value returned by a module helper, whose own field store is then followed.
func structFieldDeps(al *ssa.Alloc, k int, deps func(ssa.Value, map[ssa.Value]bool) []string, seen map[ssa.Value]bool) ([]string, bool) {
	var out []string
	found := false
	for _, ref := range *al.Referrers() {
		switch x := ref.(type) {
		case *ssa.FieldAddr:
			if x.Field != k {
				continue
			}
			for _, r2 := range *x.Referrers() {
				if st, ok := r2.(*ssa.Store); ok && st.Addr == ssa.Value(x) {
					found = true
					out = append(out, deps(st.Val, seen)...)
				}
			}
		case *ssa.Store:
			if x.Addr == ssa.Value(al) {
				if o, ok := returnedFieldDeps(x.Val, k, deps, seen); ok {
					found = true
					out = append(out, o...)
				}
			}
		}
	}
	return out, found
}

// returnedFieldDeps: v is a struct value; when it is (an Extract of) the
// result of a module function, follow field k into that function's returns.
func returnedFieldDeps(v ssa.Value, k int, deps func(ssa.Value, map[ssa.Value]bool) []string, seen map[ssa.Value]bool) ([]string, bool) {
	idx := 0
	var call *ssa.Call
	switch x := v.(type) {
	case *ssa.Extract:
		call, _ = x.Tuple.(*ssa.Call)
		idx = x.Index
	case *ssa.Call:
		call = x
	case *ssa.UnOp:
		if al, ok := x.X.(*ssa.Alloc); ok {
			return structFieldDeps(al, k, deps, seen)
		}
	}
	if call == nil {
		return nil, false
	}
	cal := staticCallee(call)
	if cal == nil || !inModule(cal) || cal.Blocks == nil {
		return nil, false
	}
	var out []string
	found := false
	for _, r := range returnsOf(cal) {
		if idx >= len(r.Results) {
			continue
		}
		rv := unspill(r.Results[idx])
		if ld, ok := rv.(*ssa.UnOp); ok {
			if al, ok := ld.X.(*ssa.Alloc); ok {
				if o, ok := structFieldDeps(al, k, deps, seen); ok {
					found = true
					out = append(out, o...)
				}
			}
		}
	}
	return out, found
}
