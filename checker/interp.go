package main

// E7: exhaustive finite-domain evaluation of loop-free predicate code.
//
// The evaluator works on the type-checked AST of /repo. It accepts only a
// fragment (if/switch/return/assignment, boolean and comparison operators,
// constants, field selection, calls to other functions of the module that are
// themselves in the fragment, and a few modelled library methods). Anything
// else raises errFragment, which the caller turns into UNDECIDED — never into
// PASS or VIOLATION. Inputs are supplied per access path ("c.state",
// "enc.QuotedUTF8") by the rule that enumerates the finite domain.

import (
	"fmt"
	"go/ast"
	"go/constant"
	"go/token"
	"go/types"
	"sort"
	"strings"
	"unicode"
	"unicode/utf8"

	"golang.org/x/tools/go/packages"
)

type Val interface{}

type (
	cv   struct{ v constant.Value } // bool, int, string constants
	nilV struct{}
	// objV is a struct value or (through ptrV) a struct variable. Fields not
	// yet set are resolved lazily from the inputs by access path.
	objV struct {
		typ    types.Type
		fields map[string]Val
		path   string // "" for locally built objects
	}
	ptrV struct{ obj *objV }
	// errV is an error value of which only nil-ness is known.
	errV struct {
		nonnil bool
		desc   string
	}
	// symV is an opaque input (connection, reader …): it may be passed around
	// and type-asserted (through the input oracle) but never inspected.
	symV struct {
		path string
		typ  types.Type
	}
	// setV is a finite set/map with constant keys (imap.CapSet).
	setV struct {
		members map[string]bool
		path    string
	}
	// ordV is an element of an order type: only comparisons with other ordV of
	// the same sort, and the zero test, are defined. rank 0 is the zero value.
	ordV struct {
		sort string
		rank int
	}
	tupleV []Val
	// listV is a slice known only as the concatenation of named segments
	// (an input slice is one segment named by its access path).
	listV struct {
		segs    []string
		aliasOf string // non-empty: this IS the named input slice (shares its backing array), not a copy
	}
	// refV is the address of a local variable (for &x passed to a callee).
	refV struct {
		env  *env
		name string
	}
)

// closureV is a function literal together with the environment it closes over.
type closureV struct {
	lit   *ast.FuncLit
	env   *env
	frame *frame
}

// callClosure evaluates a function literal on the given arguments.
func (in *Interp) callClosure(cl closureV, args []Val) Val {
	if in.depth >= in.MaxDepth+4 {
		outOfFragment("closure nesting too deep")
	}
	in.depth++
	defer func() { in.depth-- }()
	sig, _ := cl.frame.pkg.TypesInfo.TypeOf(cl.lit).(*types.Signature)
	nf := &frame{in: in, pkg: cl.frame.pkg, env: newEnv(cl.env), sig: sig, name: cl.frame.name + "$lit"}
	i := 0
	for _, fl := range cl.lit.Type.Params.List {
		for _, n := range fl.Names {
			if i < len(args) {
				nf.env.vars[n.Name] = args[i]
			}
			i++
		}
		if len(fl.Names) == 0 {
			i++
		}
	}
	if cl.lit.Type.Results != nil {
		for _, fl := range cl.lit.Type.Results.List {
			for _, n := range fl.Names {
				nf.env.vars[n.Name] = nf.zero(cl.frame.pkg.TypesInfo.TypeOf(fl.Type))
			}
		}
	}
	if nf.block(cl.lit.Body.List, nf.env) == ctlReturn {
		return nf.ret
	}
	return nil
}

type errFragment struct{ msg string }

func (e errFragment) Error() string { return e.msg }

func outOfFragment(format string, a ...interface{}) {
	panic(errFragment{fmt.Sprintf(format, a...)})
}

type env struct {
	vars   map[string]Val
	parent *env
}

func newEnv(parent *env) *env { return &env{vars: map[string]Val{}, parent: parent} }
func (e *env) lookup(n string) (Val, *env, bool) {
	for x := e; x != nil; x = x.parent {
		if v, ok := x.vars[n]; ok {
			return v, x, true
		}
	}
	return nil, nil, false
}
func (e *env) set(n string, v Val) {
	if _, x, ok := e.lookup(n); ok {
		x.vars[n] = v
		return
	}
	e.vars[n] = v
}

// Interp evaluates one slice.
type Interp struct {
	P *Program
	// Input returns the value of an access path that the code reads from its
	// surroundings; ok=false means "not an input" (lazy object or opaque).
	Input func(path string, t types.Type) (Val, bool)
	// Call may model a call instead of inlining it (key as produced by
	// funcKey, e.g. "(*Options).caps", "CapSet.Has", "time.Time.IsZero").
	Call func(key string, recv Val, args []Val) (Val, bool)
	// Effects records calls that are neither inlined nor modelled but declared
	// as observable effects (e.g. "(*Conn).writeContReq").
	Effect func(key string, recv Val, args []Val) (Val, bool)
	// DynCall models a call of a function value (a func-typed field or variable).
	DynCall  func(fun Val, args []Val) (Val, bool)
	Trace    []string
	depth    int
	MaxDepth int
	steps    int
}

type ctl int

const (
	ctlNext ctl = iota
	ctlReturn
	ctlBreak
	ctlContinue
)

type frame struct {
	in   *Interp
	pkg  *packages.Package
	env  *env
	ret  Val
	sig  *types.Signature
	name string
}

// CallFunc evaluates the module function obj with the given receiver and
// arguments.
func (in *Interp) CallFunc(obj *types.Func, recv Val, args []Val) Val {
	fd, pkg := in.P.DeclOf(obj)
	if fd == nil || fd.Body == nil {
		outOfFragment("no source for %s", funcKey(obj))
	}
	if in.MaxDepth == 0 {
		in.MaxDepth = 6
	}
	if in.depth >= in.MaxDepth {
		outOfFragment("inlining deeper than %d at %s", in.MaxDepth, funcKey(obj))
	}
	in.depth++
	defer func() { in.depth-- }()
	f := &frame{in: in, pkg: pkg, env: newEnv(nil), sig: obj.Type().(*types.Signature), name: funcKey(obj)}
	if fd.Recv != nil && len(fd.Recv.List) == 1 && len(fd.Recv.List[0].Names) == 1 {
		f.env.vars[fd.Recv.List[0].Names[0].Name] = recv
	}
	i := 0
	for _, fl := range fd.Type.Params.List {
		for _, n := range fl.Names {
			if i < len(args) {
				f.env.vars[n.Name] = args[i]
			}
			i++
		}
		if len(fl.Names) == 0 {
			i++
		}
	}
	if fd.Type.Results != nil {
		for _, fl := range fd.Type.Results.List {
			for _, n := range fl.Names {
				f.env.vars[n.Name] = f.zero(pkg.TypesInfo.TypeOf(fl.Type))
			}
		}
	}
	c := f.block(fd.Body.List, f.env)
	if c == ctlReturn {
		return f.ret
	}
	if f.sig.Results().Len() == 0 {
		return nil
	}
	outOfFragment("%s: fell off the end", f.name)
	return nil
}

func (f *frame) zero(t types.Type) Val {
	switch u := t.Underlying().(type) {
	case *types.Basic:
		switch {
		case u.Info()&types.IsBoolean != 0:
			return cv{constant.MakeBool(false)}
		case u.Info()&types.IsInteger != 0:
			return cv{constant.MakeInt64(0)}
		case u.Info()&types.IsString != 0:
			return cv{constant.MakeString("")}
		}
	case *types.Struct:
		if isTimeType(t) {
			return ordV{"time", 0}
		}
		return &objV{typ: t, fields: map[string]Val{}, path: "\x00zero"}
	case *types.Interface:
		if isErrorType(t) {
			return errV{nonnil: false}
		}
		return nilV{}
	case *types.Pointer, *types.Slice, *types.Map, *types.Chan, *types.Signature:
		return nilV{}
	}
	outOfFragment("zero value of %s", t)
	return nil
}

func isTimeType(t types.Type) bool {
	n, ok := t.(*types.Named)
	return ok && n.Obj().Pkg() != nil && n.Obj().Pkg().Path() == "time" && n.Obj().Name() == "Time"
}

func (f *frame) block(list []ast.Stmt, e *env) ctl {
	for _, s := range list {
		if c := f.stmt(s, e); c != ctlNext {
			return c
		}
	}
	return ctlNext
}

func (f *frame) stmt(s ast.Stmt, e *env) ctl {
	f.in.steps++
	if f.in.steps > 200000 {
		outOfFragment("step budget exhausted")
	}
	switch s := s.(type) {
	case *ast.BlockStmt:
		return f.block(s.List, newEnv(e))
	case *ast.ReturnStmt:
		switch len(s.Results) {
		case 0:
			// named results
			var vals tupleV
			res := f.sig.Results()
			for i := 0; i < res.Len(); i++ {
				v, _, ok := f.env.lookup(res.At(i).Name())
				if !ok {
					outOfFragment("%s: bare return without named results", f.name)
				}
				vals = append(vals, v)
			}
			if len(vals) == 1 {
				f.ret = vals[0]
			} else if len(vals) > 1 {
				f.ret = vals
			}
		case 1:
			f.ret = f.convertTo(f.expr(s.Results[0], e), f.resultType(0))
		default:
			var vals tupleV
			for i, r := range s.Results {
				vals = append(vals, f.convertTo(f.expr(r, e), f.resultType(i)))
			}
			f.ret = vals
		}
		return ctlReturn
	case *ast.IfStmt:
		ie := newEnv(e)
		if s.Init != nil {
			if c := f.stmt(s.Init, ie); c != ctlNext {
				return c
			}
		}
		if f.truth(f.expr(s.Cond, ie), s.Cond) {
			return f.block(s.Body.List, newEnv(ie))
		}
		if s.Else != nil {
			return f.stmt(s.Else, ie)
		}
		return ctlNext
	case *ast.SwitchStmt:
		se := newEnv(e)
		if s.Init != nil {
			if c := f.stmt(s.Init, se); c != ctlNext {
				return c
			}
		}
		var tag Val
		if s.Tag != nil {
			tag = f.expr(s.Tag, se)
		}
		var deflt *ast.CaseClause
		for _, cc := range s.Body.List {
			cl := cc.(*ast.CaseClause)
			if cl.List == nil {
				deflt = cl
				continue
			}
			for _, x := range cl.List {
				v := f.expr(x, se)
				var hit bool
				if s.Tag != nil {
					hit = f.truth(f.compare(token.EQL, tag, v, x), x)
				} else {
					hit = f.truth(v, x)
				}
				if hit {
					return f.caseBody(cl, se)
				}
			}
		}
		if deflt != nil {
			return f.caseBody(deflt, se)
		}
		return ctlNext
	case *ast.AssignStmt:
		f.assign(s, e)
		return ctlNext
	case *ast.DeclStmt:
		gd, ok := s.Decl.(*ast.GenDecl)
		if !ok || gd.Tok != token.VAR {
			if ok && gd.Tok == token.CONST {
				return ctlNext // constants are folded by the type checker
			}
			outOfFragment("%s: declaration", f.name)
		}
		for _, sp := range gd.Specs {
			vs := sp.(*ast.ValueSpec)
			for i, n := range vs.Names {
				if i < len(vs.Values) {
					e.vars[n.Name] = f.convertTo(f.expr(vs.Values[i], e), f.pkg.TypesInfo.TypeOf(n))
				} else {
					e.vars[n.Name] = f.zero(f.pkg.TypesInfo.TypeOf(n))
				}
			}
		}
		return ctlNext
	case *ast.ExprStmt:
		f.expr(s.X, e)
		return ctlNext
	case *ast.ForStmt:
		fe := newEnv(e)
		if s.Init != nil {
			if c := f.stmt(s.Init, fe); c != ctlNext {
				return c
			}
		}
		for iter := 0; ; iter++ {
			if iter > 20000 {
				outOfFragment("%s: loop bound exceeded", f.name)
			}
			if s.Cond != nil && !f.truth(f.expr(s.Cond, fe), s.Cond) {
				break
			}
			c := f.block(s.Body.List, newEnv(fe))
			if c == ctlReturn {
				return c
			}
			if c == ctlBreak {
				break
			}
			// ctlContinue falls through to the post statement
			if s.Post != nil {
				f.stmt(s.Post, fe)
			}
		}
		return ctlNext
	case *ast.IncDecStmt:
		op := token.ADD
		if s.Tok == token.DEC {
			op = token.SUB
		}
		v := f.binary(op, f.expr(s.X, e), cv{constant.MakeInt64(1)}, s.X)
		f.store(s.X, v, e, false)
		return ctlNext
	case *ast.BranchStmt:
		if s.Tok == token.BREAK && s.Label == nil {
			return ctlBreak
		}
		if s.Tok == token.CONTINUE && s.Label == nil {
			return ctlContinue
		}
	case *ast.EmptyStmt:
		return ctlNext
	case *ast.DeferStmt:
		outOfFragment("%s: defer", f.name)
	}
	outOfFragment("%s: statement %T outside the fragment", f.name, s)
	return ctlNext
}

func (f *frame) caseBody(cl *ast.CaseClause, e *env) ctl {
	c := f.block(cl.Body, newEnv(e))
	if c == ctlBreak {
		return ctlNext
	}
	return c
}

func (f *frame) resultType(i int) types.Type {
	return f.sig.Results().At(i).Type()
}

// convertTo adjusts a value to the static type it is assigned to: a non-nil
// pointer/struct stored in an error becomes a non-nil errV.
func (f *frame) convertTo(v Val, t types.Type) Val {
	if t == nil {
		return v
	}
	if isErrorType(t) {
		switch x := v.(type) {
		case errV:
			return x
		case nilV:
			return errV{nonnil: false}
		case ptrV, *objV:
			return errV{nonnil: true, desc: "composite"}
		case symV:
			outOfFragment("%s: opaque value used as error", f.name)
		}
	}
	return v
}

func (f *frame) truth(v Val, at ast.Expr) bool {
	c, ok := v.(cv)
	if !ok || c.v.Kind() != constant.Bool {
		outOfFragment("%s: condition %s is not decidable on these inputs (%T)", f.name, types.ExprString(at), v)
	}
	return constant.BoolVal(c.v)
}

func (f *frame) assign(s *ast.AssignStmt, e *env) {
	if s.Tok != token.ASSIGN && s.Tok != token.DEFINE {
		// op-assign on locals
		if len(s.Lhs) == 1 && len(s.Rhs) == 1 {
			var op token.Token
			switch s.Tok {
			case token.ADD_ASSIGN:
				op = token.ADD
			case token.SUB_ASSIGN:
				op = token.SUB
			default:
				outOfFragment("%s: assignment operator %s", f.name, s.Tok)
			}
			v := f.binary(op, f.expr(s.Lhs[0], e), f.expr(s.Rhs[0], e), s.Lhs[0])
			f.store(s.Lhs[0], v, e, false)
			return
		}
		outOfFragment("%s: assignment operator %s", f.name, s.Tok)
	}
	var vals []Val
	if len(s.Rhs) == 1 && len(s.Lhs) > 1 {
		v := f.exprMulti(s.Rhs[0], e, len(s.Lhs))
		t, ok := v.(tupleV)
		if !ok || len(t) != len(s.Lhs) {
			outOfFragment("%s: tuple assignment from %s", f.name, types.ExprString(s.Rhs[0]))
		}
		vals = t
	} else {
		for _, r := range s.Rhs {
			vals = append(vals, f.expr(r, e))
		}
	}
	for i, l := range s.Lhs {
		v := vals[i]
		if t := f.pkg.TypesInfo.TypeOf(l); t != nil {
			v = f.convertTo(v, t)
		}
		f.store(l, v, e, s.Tok == token.DEFINE)
	}
}

func (f *frame) store(l ast.Expr, v Val, e *env, define bool) {
	switch l := l.(type) {
	case *ast.Ident:
		if l.Name == "_" {
			return
		}
		if define {
			if _, isDef := f.pkg.TypesInfo.Defs[l]; isDef && f.pkg.TypesInfo.Defs[l] != nil {
				e.vars[l.Name] = copyStruct(v)
				return
			}
		}
		if _, x, ok := e.lookup(l.Name); ok {
			x.vars[l.Name] = copyStruct(v)
			return
		}
		outOfFragment("%s: store to non-local %s", f.name, l.Name)
	case *ast.SelectorExpr:
		base := f.expr(l.X, e)
		o := asObj(base)
		if o == nil {
			outOfFragment("%s: store through %s", f.name, types.ExprString(l))
		}
		o.fields[l.Sel.Name] = copyStruct(v)
		return
	case *ast.StarExpr:
		p := f.expr(l.X, e)
		if r, ok := p.(refV); ok {
			r.env.set(r.name, copyStruct(v))
			return
		}
		if pv, ok := p.(ptrV); ok {
			if src := asObj(v); src != nil {
				// materialise lazily read input fields of the source first
				if st, ok := src.typ.Underlying().(*types.Struct); ok && src.path != "" && src.path != "\x00zero" {
					for i := 0; i < st.NumFields(); i++ {
						fl := st.Field(i)
						if _, has := src.fields[fl.Name()]; !has {
							src.fields[fl.Name()] = f.inputAt(src.path+"."+fl.Name(), fl.Type())
						}
					}
				}
				pv.obj.fields = copyObj(src).fields
				return
			}
		}
	case *ast.ParenExpr:
		f.store(l.X, v, e, define)
		return
	}
	outOfFragment("%s: assignment target %s", f.name, types.ExprString(l))
}

func copyStruct(v Val) Val {
	if o, ok := v.(*objV); ok {
		return copyObj(o)
	}
	return v
}
func copyObj(o *objV) *objV {
	n := &objV{typ: o.typ, fields: map[string]Val{}, path: o.path}
	for k, v := range o.fields {
		n.fields[k] = copyStruct(v)
	}
	return n
}

func asObj(v Val) *objV {
	switch x := v.(type) {
	case *objV:
		return x
	case ptrV:
		return x.obj
	}
	return nil
}

func (f *frame) exprMulti(x ast.Expr, e *env, n int) Val {
	switch x := x.(type) {
	case *ast.TypeAssertExpr:
		if n == 2 {
			v := f.expr(x.X, e)
			path := ""
			switch s := v.(type) {
			case symV:
				path = s.path
			case *objV:
				path = s.path
			case ptrV:
				path = s.obj.path
			}
			if path != "" && f.in.Input != nil {
				key := path + ".(" + types.ExprString(x.Type) + ")"
				if r, ok := f.in.Input(key, types.Typ[types.Bool]); ok {
					return tupleV{symV{path: key, typ: f.pkg.TypesInfo.TypeOf(x.Type)}, r}
				}
			}
			outOfFragment("%s: type assertion %s is not a modelled input", f.name, types.ExprString(x))
		}
	case *ast.IndexExpr:
		if n == 2 {
			base := f.expr(x.X, e)
			idx := f.expr(x.Index, e)
			if s, ok := base.(setV); ok {
				if k, ok := idx.(cv); ok {
					return tupleV{nilV{}, cv{constant.MakeBool(s.members[constKey(k.v)])}}
				}
			}
			outOfFragment("%s: comma-ok index %s", f.name, types.ExprString(x))
		}
	case *ast.ParenExpr:
		return f.exprMulti(x.X, e, n)
	}
	return f.expr(x, e)
}

func (f *frame) expr(x ast.Expr, e *env) Val {
	// constants (incl. named constants and folded expressions)
	if tv, ok := f.pkg.TypesInfo.Types[x]; ok && tv.Value != nil {
		return cv{tv.Value}
	}
	switch x := x.(type) {
	case *ast.ParenExpr:
		return f.expr(x.X, e)
	case *ast.Ident:
		if x.Name == "nil" {
			return nilV{}
		}
		if x.Name == "true" || x.Name == "false" {
			return cv{constant.MakeBool(x.Name == "true")}
		}
		if v, _, ok := e.lookup(x.Name); ok {
			return v
		}
		// package-level variable of the module
		if obj, ok := f.pkg.TypesInfo.Uses[x].(*types.Var); ok && obj.Parent() == obj.Pkg().Scope() {
			return f.in.globalVar(obj)
		}
		outOfFragment("%s: identifier %s", f.name, x.Name)
	case *ast.SelectorExpr:
		// qualified identifier pkg.Var
		if id, ok := x.X.(*ast.Ident); ok {
			if _, isPkg := f.pkg.TypesInfo.Uses[id].(*types.PkgName); isPkg {
				if obj, ok := f.pkg.TypesInfo.Uses[x.Sel].(*types.Var); ok {
					return f.in.globalVar(obj)
				}
				outOfFragment("%s: qualified %s", f.name, types.ExprString(x))
			}
		}
		sel := f.pkg.TypesInfo.Selections[x]
		if sel == nil || sel.Kind() != types.FieldVal {
			outOfFragment("%s: selector %s is not a field", f.name, types.ExprString(x))
		}
		base := f.expr(x.X, e)
		return f.field(base, sel, x)
	case *ast.StarExpr:
		v := f.expr(x.X, e)
		switch p := v.(type) {
		case ptrV:
			return p.obj
		case refV:
			r, _, _ := p.env.lookup(p.name)
			return r
		case symV:
			return symV{path: "*" + p.path, typ: f.pkg.TypesInfo.TypeOf(x)}
		}
		outOfFragment("%s: dereference of %T", f.name, v)
	case *ast.UnaryExpr:
		switch x.Op {
		case token.NOT:
			return cv{constant.MakeBool(!f.truth(f.expr(x.X, e), x.X))}
		case token.AND:
			if cl, ok := x.X.(*ast.CompositeLit); ok {
				v := f.expr(cl, e)
				if o, ok := v.(*objV); ok {
					return ptrV{o}
				}
				return v
			}
			if id, ok := x.X.(*ast.Ident); ok {
				if v, _, ok := e.lookup(id.Name); ok {
					if o, ok := v.(*objV); ok {
						return ptrV{o}
					}
					_, owner, _ := e.lookup(id.Name)
					return refV{owner, id.Name}
				}
			}
			v := f.expr(x.X, e)
			if o, ok := v.(*objV); ok {
				return ptrV{o}
			}
			outOfFragment("%s: address of %s", f.name, types.ExprString(x.X))
		case token.SUB:
			v := f.expr(x.X, e)
			if c, ok := v.(cv); ok {
				return cv{constant.UnaryOp(token.SUB, c.v, 0)}
			}
		}
		outOfFragment("%s: unary %s", f.name, x.Op)
	case *ast.BinaryExpr:
		switch x.Op {
		case token.LAND:
			if !f.truth(f.expr(x.X, e), x.X) {
				return cv{constant.MakeBool(false)}
			}
			return cv{constant.MakeBool(f.truth(f.expr(x.Y, e), x.Y))}
		case token.LOR:
			if f.truth(f.expr(x.X, e), x.X) {
				return cv{constant.MakeBool(true)}
			}
			return cv{constant.MakeBool(f.truth(f.expr(x.Y, e), x.Y))}
		}
		return f.binary(x.Op, f.expr(x.X, e), f.expr(x.Y, e), x)
	case *ast.CompositeLit:
		t := f.pkg.TypesInfo.TypeOf(x)
		switch u := t.Underlying().(type) {
		case *types.Struct:
			o := &objV{typ: t, fields: map[string]Val{}}
			for i := 0; i < u.NumFields(); i++ {
				o.fields[u.Field(i).Name()] = f.zeroLazy(u.Field(i).Type())
			}
			for i, el := range x.Elts {
				if kv, ok := el.(*ast.KeyValueExpr); ok {
					o.fields[kv.Key.(*ast.Ident).Name] = copyStruct(f.expr(kv.Value, e))
				} else {
					o.fields[u.Field(i).Name()] = copyStruct(f.expr(el, e))
				}
			}
			return o
		case *types.Map:
			s := setV{members: map[string]bool{}}
			for _, el := range x.Elts {
				kv, ok := el.(*ast.KeyValueExpr)
				if !ok {
					outOfFragment("%s: map literal", f.name)
				}
				k, ok := f.expr(kv.Key, e).(cv)
				if !ok {
					outOfFragment("%s: map literal key", f.name)
				}
				s.members[constKey(k.v)] = true
			}
			return s
		}
		outOfFragment("%s: composite literal of %s", f.name, t)
	case *ast.CallExpr:
		return f.call(x, e)
	case *ast.TypeAssertExpr:
		outOfFragment("%s: single-value type assertion", f.name)
	case *ast.IndexExpr:
		base := f.expr(x.X, e)
		idx := f.expr(x.Index, e)
		if s, ok := base.(cv); ok && s.v.Kind() == constant.String {
			if i, ok := idx.(cv); ok {
				str := constant.StringVal(s.v)
				n, _ := constant.Int64Val(i.v)
				if n >= 0 && int(n) < len(str) {
					return cv{constant.MakeInt64(int64(str[n]))}
				}
				outOfFragment("%s: index out of range in %s", f.name, types.ExprString(x))
			}
		}
		outOfFragment("%s: index expression %s", f.name, types.ExprString(x))
	case *ast.SliceExpr:
		base := f.expr(x.X, e)
		if s, ok := base.(cv); ok && s.v.Kind() == constant.String && !x.Slice3 {
			str := constant.StringVal(s.v)
			lo, hi := 0, len(str)
			if x.Low != nil {
				if n, ok := valInt(f.expr(x.Low, e)); ok {
					lo = int(n)
				} else {
					outOfFragment("%s: slice bound", f.name)
				}
			}
			if x.High != nil {
				if n, ok := valInt(f.expr(x.High, e)); ok {
					hi = int(n)
				} else {
					outOfFragment("%s: slice bound", f.name)
				}
			}
			if lo < 0 || hi > len(str) || lo > hi {
				outOfFragment("%s: slice bounds out of range in %s", f.name, types.ExprString(x))
			}
			return cv{constant.MakeString(str[lo:hi])}
		}
		outOfFragment("%s: slice expression %s", f.name, types.ExprString(x))
	case *ast.FuncLit:
		return closureV{lit: x, env: e, frame: f}
	}
	outOfFragment("%s: expression %T (%s) outside the fragment", f.name, x, types.ExprString(x))
	return nil
}

// zeroLazy is like zero but tolerates types the fragment cannot inspect
// (they become opaque).
func (f *frame) zeroLazy(t types.Type) (v Val) {
	defer func() {
		if r := recover(); r != nil {
			if _, ok := r.(errFragment); ok {
				v = symV{path: "\x00zero", typ: t}
				return
			}
			panic(r)
		}
	}()
	return f.zero(t)
}

func (in *Interp) globalVar(obj *types.Var) Val {
	// package-level variables: only map/struct literals of the module with
	// constant contents are evaluated (e.g. imap4rev2Caps).
	pk := in.P.Pkgs[obj.Pkg().Path()]
	if pk == nil {
		outOfFragment("global %s outside the module", obj.Name())
	}
	if in.Input != nil {
		if v, ok := in.Input(obj.Pkg().Name()+"."+obj.Name(), obj.Type()); ok {
			return v
		}
	}
	for _, file := range pk.Syntax {
		for _, d := range file.Decls {
			gd, ok := d.(*ast.GenDecl)
			if !ok || gd.Tok != token.VAR {
				continue
			}
			for _, sp := range gd.Specs {
				vs := sp.(*ast.ValueSpec)
				for i, n := range vs.Names {
					if pk.TypesInfo.Defs[n] == obj && i < len(vs.Values) {
						fr := &frame{in: in, pkg: pk, env: newEnv(nil), name: "var " + obj.Name()}
						return fr.expr(vs.Values[i], fr.env)
					}
				}
			}
		}
	}
	outOfFragment("global %s has no literal initialiser", obj.Name())
	return nil
}

func (f *frame) field(base Val, sel *types.Selection, x *ast.SelectorExpr) Val {
	// walk embedded fields along sel.Index()
	cur := base
	t := sel.Recv()
	for _, idx := range sel.Index() {
		if p, ok := t.Underlying().(*types.Pointer); ok {
			t = p.Elem()
		}
		st, ok := t.Underlying().(*types.Struct)
		if !ok {
			outOfFragment("%s: selector %s on non-struct", f.name, types.ExprString(x))
		}
		fld := st.Field(idx)
		cur = f.field1(cur, fld, x)
		t = fld.Type()
	}
	return cur
}

func (f *frame) field1(base Val, fld *types.Var, x *ast.SelectorExpr) Val {
	switch b := base.(type) {
	case *objV, ptrV:
		o := asObj(b)
		if v, ok := o.fields[fld.Name()]; ok {
			return v
		}
		if o.path == "\x00zero" {
			v := f.zero(fld.Type())
			o.fields[fld.Name()] = v
			return v
		}
		if o.path == "" {
			outOfFragment("%s: field %s of a local object was never set", f.name, fld.Name())
		}
		return f.inputAt(o.path+"."+fld.Name(), fld.Type())
	case symV:
		return f.inputAt(b.path+"."+fld.Name(), fld.Type())
	case nilV:
		outOfFragment("%s: field %s of nil", f.name, fld.Name())
	}
	outOfFragment("%s: field %s of %T", f.name, fld.Name(), base)
	return nil
}

func (f *frame) inputAt(path string, t types.Type) Val {
	if f.in.Input != nil {
		if v, ok := f.in.Input(path, t); ok {
			return v
		}
	}
	// not a declared input: lazily materialise structure, opaque otherwise
	u := t.Underlying()
	if p, ok := u.(*types.Pointer); ok {
		if _, ok := p.Elem().Underlying().(*types.Struct); ok {
			return ptrV{&objV{typ: p.Elem(), fields: map[string]Val{}, path: path}}
		}
	}
	if _, ok := u.(*types.Struct); ok && !isTimeType(t) {
		return &objV{typ: t, fields: map[string]Val{}, path: path}
	}
	return symV{path: path, typ: t}
}

func (f *frame) binary(op token.Token, a, b Val, at ast.Expr) Val {
	switch op {
	case token.EQL, token.NEQ, token.LSS, token.LEQ, token.GTR, token.GEQ:
		return f.compare(op, a, b, at)
	case token.ADD, token.SUB, token.MUL:
		ca, ok1 := a.(cv)
		cb, ok2 := b.(cv)
		if ok1 && ok2 {
			return cv{constant.BinaryOp(ca.v, op, cb.v)}
		}
	}
	outOfFragment("%s: operator %s on %T,%T in %s", f.name, op, a, b, types.ExprString(at))
	return nil
}

func (f *frame) compare(op token.Token, a, b Val, at ast.Expr) Val {
	mk := func(b bool) Val { return cv{constant.MakeBool(b)} }
	isNilish := func(v Val) (bool, bool) { // (isNil, known)
		switch x := v.(type) {
		case nilV:
			return true, true
		case errV:
			return !x.nonnil, true
		case ptrV, *objV:
			return false, true
		case setV:
			return false, true
		}
		return false, false
	}
	if op == token.EQL || op == token.NEQ {
		_, an := a.(nilV)
		_, bn := b.(nilV)
		if an || bn {
			other := a
			if an {
				other = b
			}
			if n, known := isNilish(other); known {
				return mk(n == (op == token.EQL))
			}
			outOfFragment("%s: nil-comparison of opaque value in %s", f.name, types.ExprString(at))
		}
	}
	if ca, ok := a.(cv); ok {
		if cb, ok := b.(cv); ok {
			if ca.v.Kind() == constant.Bool {
				if op == token.EQL {
					return mk(constant.BoolVal(ca.v) == constant.BoolVal(cb.v))
				}
				if op == token.NEQ {
					return mk(constant.BoolVal(ca.v) != constant.BoolVal(cb.v))
				}
			}
			return mk(constant.Compare(ca.v, op, cb.v))
		}
	}
	// order types: ordV vs ordV, ordV vs the constant 0
	toOrd := func(v Val, sort string) (int, bool) {
		switch x := v.(type) {
		case ordV:
			if sort == "" || x.sort == sort {
				return x.rank, true
			}
		case cv:
			if x.v.Kind() == constant.Int {
				if n, ok := constant.Int64Val(x.v); ok && n == 0 {
					return 0, true
				}
			}
		}
		return 0, false
	}
	if oa, ok := a.(ordV); ok {
		if rb, ok := toOrd(b, oa.sort); ok {
			return mk(cmpInt(op, oa.rank, rb))
		}
	}
	if ob, ok := b.(ordV); ok {
		if ra, ok := toOrd(a, ob.sort); ok {
			return mk(cmpInt(op, ra, ob.rank))
		}
	}
	outOfFragment("%s: comparison %s of %T and %T", f.name, types.ExprString(at), a, b)
	return nil
}

func cmpInt(op token.Token, a, b int) bool {
	switch op {
	case token.EQL:
		return a == b
	case token.NEQ:
		return a != b
	case token.LSS:
		return a < b
	case token.LEQ:
		return a <= b
	case token.GTR:
		return a > b
	case token.GEQ:
		return a >= b
	}
	return false
}

func (f *frame) call(x *ast.CallExpr, e *env) Val {
	info := f.pkg.TypesInfo
	// conversion T(x)
	if tv, ok := info.Types[x.Fun]; ok && tv.IsType() {
		if len(x.Args) != 1 {
			outOfFragment("%s: conversion arity", f.name)
		}
		v := f.expr(x.Args[0], e)
		return f.convert(v, tv.Type, x)
	}
	// builtins
	if id, ok := x.Fun.(*ast.Ident); ok {
		if _, isB := info.Uses[id].(*types.Builtin); isB {
			switch id.Name {
			case "len":
				v := f.expr(x.Args[0], e)
				if c, ok := v.(cv); ok && c.v.Kind() == constant.String {
					return cv{constant.MakeInt64(int64(len(constant.StringVal(c.v))))}
				}
				if o, ok := v.(ordV); ok && o.sort == "len" {
					return o
				}
			case "append":
				base := f.expr(x.Args[0], e)
				var out listV
				switch b := base.(type) {
				case listV:
					out.segs = append(out.segs, b.segs...)
				case nilV:
				default:
					outOfFragment("%s: append to %T", f.name, base)
				}
				for i, a := range x.Args[1:] {
					v := f.expr(a, e)
					if x.Ellipsis.IsValid() && i == len(x.Args)-2 {
						l, ok := v.(listV)
						if !ok {
							if _, isNil := v.(nilV); isNil {
								continue
							}
							outOfFragment("%s: append(…, %T...)", f.name, v)
						}
						out.segs = append(out.segs, l.segs...)
					} else {
						out.segs = append(out.segs, "elem:"+showVal(v))
					}
				}
				return out
			case "panic":
				outOfFragment("%s: reaches panic(%s)", f.name, types.ExprString(x.Args[0]))
			}
			outOfFragment("%s: builtin %s", f.name, id.Name)
		}
	}
	var obj *types.Func
	var recv Val
	switch fun := x.Fun.(type) {
	case *ast.Ident:
		obj, _ = info.Uses[fun].(*types.Func)
	case *ast.SelectorExpr:
		if sel := info.Selections[fun]; sel != nil {
			if sel.Kind() == types.MethodVal {
				obj, _ = sel.Obj().(*types.Func)
				recv = f.expr(fun.X, e)
				// promote through embedded fields to the method's receiver
				if len(sel.Index()) > 1 {
					t := sel.Recv()
					for _, idx := range sel.Index()[:len(sel.Index())-1] {
						if p, ok := t.Underlying().(*types.Pointer); ok {
							t = p.Elem()
						}
						st := t.Underlying().(*types.Struct)
						recv = f.field1(recv, st.Field(idx), fun)
						t = st.Field(idx).Type()
					}
				}
			}
		} else {
			obj, _ = info.Uses[fun.Sel].(*types.Func)
		}
	}
	if obj == nil {
		if id, ok := x.Fun.(*ast.Ident); ok {
			if v, _, found := e.lookup(id.Name); found {
				if cl, ok := v.(closureV); ok {
					var args []Val
					for _, a := range x.Args {
						args = append(args, f.expr(a, e))
					}
					return f.in.callClosure(cl, args)
				}
			}
		}
		if f.in.DynCall != nil {
			fv := f.expr(x.Fun, e)
			var args []Val
			for _, a := range x.Args {
				args = append(args, f.expr(a, e))
			}
			if v, ok := f.in.DynCall(fv, args); ok {
				return v
			}
		}
		outOfFragment("%s: dynamic call %s", f.name, types.ExprString(x.Fun))
	}
	var args []Val
	for _, a := range x.Args {
		args = append(args, f.expr(a, e))
	}
	key := funcKey(obj)
	if obj.Pkg() != nil && !strings.HasPrefix(obj.Pkg().Path(), modPath) {
		key = obj.Pkg().Path() + "." + strings.TrimPrefix(key, obj.Pkg().Name()+".")
	}
	if f.in.Call != nil {
		if v, ok := f.in.Call(key, recv, args); ok {
			return v
		}
	}
	switch key {
	case "strings.IndexFunc", "strings.ContainsFunc", "strings.LastIndexFunc":
		if len(args) == 2 {
			sv, ok1 := args[0].(cv)
			cl, ok2 := args[1].(closureV)
			if ok1 && ok2 && sv.v.Kind() == constant.String {
				str := constant.StringVal(sv.v)
				idx := -1
				for i, r := range str {
					b, ok := valBool(f.in.callClosure(cl, []Val{mkInt(int64(r))}))
					if !ok {
						outOfFragment("%s: predicate of %s does not yield a boolean", f.name, key)
					}
					if b {
						idx = i
						if key != "strings.LastIndexFunc" {
							break
						}
					}
				}
				if key == "strings.ContainsFunc" {
					return mkBool(idx >= 0)
				}
				return mkInt(int64(idx))
			}
		}
	}
	if v, ok := builtinModel(key, recv, args); ok {
		return v
	}
	if f.in.Effect != nil {
		if v, ok := f.in.Effect(key, recv, args); ok {
			f.in.Trace = append(f.in.Trace, key)
			return v
		}
	}
	if obj.Pkg() == nil || f.in.P.Pkgs[obj.Pkg().Path()] == nil {
		outOfFragment("%s: call of %s is neither modelled nor in the module", f.name, key)
	}
	if recvNamed(obj) != nil {
		if _, isIface := recvNamed(obj).Underlying().(*types.Interface); isIface {
			outOfFragment("%s: interface call %s", f.name, key)
		}
	}
	// value receivers get a copy
	if sig := obj.Type().(*types.Signature); sig.Recv() != nil {
		if _, isPtr := sig.Recv().Type().(*types.Pointer); !isPtr {
			if p, ok := recv.(ptrV); ok {
				recv = p.obj
			}
		} else if o, ok := recv.(*objV); ok {
			recv = ptrV{o}
		}
	}
	return f.in.CallFunc(obj, recv, args)
}

func (f *frame) convert(v Val, t types.Type, at ast.Expr) Val {
	switch x := v.(type) {
	case cv:
		if b, ok := t.Underlying().(*types.Basic); ok {
			if b.Info()&types.IsString != 0 && x.v.Kind() == constant.Int {
				n, _ := constant.Int64Val(x.v)
				return cv{constant.MakeString(string(rune(n)))}
			}
			return x
		}
	case ordV, symV, setV, nilV, listV:
		return v
	case ptrV:
		// (*imap.StatusResponse)(imapErr) and the like
		return v
	}
	outOfFragment("%s: conversion %s", f.name, types.ExprString(at))
	return nil
}

// builtinModel gives the semantics of the few library functions the fragment
// understands.
func builtinModel(key string, recv Val, args []Val) (Val, bool) {
	mk := func(b bool) Val { return cv{constant.MakeBool(b)} }
	str := func(v Val) (string, bool) {
		c, ok := v.(cv)
		if !ok || c.v.Kind() != constant.String {
			return "", false
		}
		return constant.StringVal(c.v), true
	}
	switch key {
	case "time.Time.IsZero":
		if o, ok := recv.(ordV); ok {
			return mk(o.rank == 0), true
		}
	case "time.Time.After":
		a, ok1 := recv.(ordV)
		b, ok2 := args[0].(ordV)
		if ok1 && ok2 {
			return mk(a.rank > b.rank), true
		}
	case "time.Time.Before":
		a, ok1 := recv.(ordV)
		b, ok2 := args[0].(ordV)
		if ok1 && ok2 {
			return mk(a.rank < b.rank), true
		}
	case "strings.HasPrefix":
		a, ok1 := str(args[0])
		b, ok2 := str(args[1])
		if ok1 && ok2 {
			return mk(strings.HasPrefix(a, b)), true
		}
	case "strings.HasSuffix":
		a, ok1 := str(args[0])
		b, ok2 := str(args[1])
		if ok1 && ok2 {
			return mk(strings.HasSuffix(a, b)), true
		}
	case "strings.TrimLeft", "strings.TrimRight", "strings.Trim":
		a, ok1 := str(args[0])
		b, ok2 := str(args[1])
		if ok1 && ok2 {
			switch key {
			case "strings.TrimLeft":
				return cv{constant.MakeString(strings.TrimLeft(a, b))}, true
			case "strings.TrimRight":
				return cv{constant.MakeString(strings.TrimRight(a, b))}, true
			}
			return cv{constant.MakeString(strings.Trim(a, b))}, true
		}
	case "strings.Contains", "strings.EqualFold", "strings.ContainsAny":
		a, ok1 := str(args[0])
		b, ok2 := str(args[1])
		if ok1 && ok2 {
			switch key {
			case "strings.Contains":
				return mk(strings.Contains(a, b)), true
			case "strings.ContainsAny":
				return mk(strings.ContainsAny(a, b)), true
			}
			return mk(strings.EqualFold(a, b)), true
		}
	case "strings.Index", "strings.IndexByte", "strings.IndexAny", "strings.Count":
		a, ok1 := str(args[0])
		if ok1 {
			if b, ok2 := str(args[1]); ok2 {
				switch key {
				case "strings.Index":
					return cv{constant.MakeInt64(int64(strings.Index(a, b)))}, true
				case "strings.IndexAny":
					return cv{constant.MakeInt64(int64(strings.IndexAny(a, b)))}, true
				case "strings.Count":
					return cv{constant.MakeInt64(int64(strings.Count(a, b)))}, true
				}
			}
			if n, ok2 := valInt(args[1]); ok2 && key == "strings.IndexByte" {
				return cv{constant.MakeInt64(int64(strings.IndexByte(a, byte(n))))}, true
			}
		}
	case "unicode/utf8.RuneCountInString":
		if len(args) == 1 {
			if c, ok := args[0].(cv); ok && c.v.Kind() == constant.String {
				return mkInt(int64(len([]rune(constant.StringVal(c.v))))), true
			}
		}
	case "strings.ToUpper":
		if a, ok := str(args[0]); ok {
			return cv{constant.MakeString(strings.ToUpper(a))}, true
		}
	case "strings.ToLower":
		if a, ok := str(args[0]); ok {
			return cv{constant.MakeString(strings.ToLower(a))}, true
		}
	case "strings.TrimPrefix":
		a, ok1 := str(args[0])
		b, ok2 := str(args[1])
		if ok1 && ok2 {
			return cv{constant.MakeString(strings.TrimPrefix(a, b))}, true
		}
	case "strings.TrimSuffix":
		a, ok1 := str(args[0])
		b, ok2 := str(args[1])
		if ok1 && ok2 {
			return cv{constant.MakeString(strings.TrimSuffix(a, b))}, true
		}
	case "unicode/utf8.ValidString":
		if a, ok := str(args[0]); ok {
			return mk(utf8.ValidString(a)), true
		}
	case "unicode.IsControl":
		if n, ok := valInt(args[0]); ok {
			return mk(unicode.IsControl(rune(n))), true
		}
	case "reflect.DeepEqual":
		if eq, ok := deepEqualVals(args[0], args[1]); ok {
			return mk(eq), true
		}
	case "fmt.Sprintf", "fmt.Errorf", "errors.New":
		if key == "fmt.Sprintf" {
			return cv{constant.MakeString("<formatted>")}, true
		}
		return errV{nonnil: true, desc: key}, true
	}
	return nil, false
}

// evalFunc runs fn and converts an out-of-fragment panic into an error.
func (in *Interp) Eval(obj *types.Func, recv Val, args []Val) (v Val, err error) {
	defer func() {
		if r := recover(); r != nil {
			if fe, ok := r.(errFragment); ok {
				err = fe
				return
			}
			panic(r)
		}
	}()
	in.depth, in.steps = 0, 0
	return in.CallFunc(obj, recv, args), nil
}

func mkBool(b bool) Val     { return cv{constant.MakeBool(b)} }
func mkInt(n int64) Val     { return cv{constant.MakeInt64(n)} }
func mkString(s string) Val { return cv{constant.MakeString(s)} }
func valBool(v Val) (bool, bool) {
	c, ok := v.(cv)
	if !ok || c.v.Kind() != constant.Bool {
		return false, false
	}
	return constant.BoolVal(c.v), true
}
func valInt(v Val) (int64, bool) {
	c, ok := v.(cv)
	if !ok || c.v.Kind() != constant.Int {
		return 0, false
	}
	return constant.Int64Val(c.v)
}
func valIsNilErr(v Val) (bool, bool) {
	switch x := v.(type) {
	case errV:
		return !x.nonnil, true
	case nilV:
		return true, true
	}
	return false, false
}

func showVal(v Val) string {
	switch x := v.(type) {
	case cv:
		return x.v.String()
	case nilV:
		return "nil"
	case errV:
		if x.nonnil {
			return "error"
		}
		return "nil"
	case ordV:
		return fmt.Sprintf("%s#%d", x.sort, x.rank)
	case *objV:
		var ks []string
		for k, v := range x.fields {
			ks = append(ks, k+":"+showVal(v))
		}
		sort.Strings(ks)
		return "{" + strings.Join(ks, " ") + "}"
	case ptrV:
		return "&" + showVal(x.obj)
	case symV:
		return "<" + x.path + ">"
	case tupleV:
		var s []string
		for _, e := range x {
			s = append(s, showVal(e))
		}
		return "(" + strings.Join(s, ", ") + ")"
	case listV:
		return "[" + strings.Join(x.segs, " ++ ") + "]"
	case setV:
		var ks []string
		for k := range x.members {
			ks = append(ks, k)
		}
		sort.Strings(ks)
		return "set" + fmt.Sprint(ks)
	}
	return fmt.Sprintf("%T", v)
}

func constKey(v constant.Value) string {
	if v.Kind() == constant.String {
		return constant.StringVal(v)
	}
	return v.ExactString()
}

// deepEqualVals models reflect.DeepEqual on the evaluator's values; ok=false
// when the comparison is not decidable on these inputs.
func deepEqualVals(a, b Val) (eq bool, ok bool) {
	if pa, isP := a.(ptrV); isP {
		if pb, isP2 := b.(ptrV); isP2 {
			return deepEqualVals(pa.obj, pb.obj)
		}
		if _, isNil := b.(nilV); isNil {
			return false, true
		}
		return false, false
	}
	isZeroish := func(v Val) (bool, bool) {
		switch x := v.(type) {
		case nilV:
			return true, true
		case listV:
			return len(x.segs) == 0, true
		case ordV:
			return x.rank == 0, true
		case cv:
			switch x.v.Kind() {
			case constant.Int:
				n, _ := constant.Int64Val(x.v)
				return n == 0, true
			case constant.String:
				return constant.StringVal(x.v) == "", true
			case constant.Bool:
				return !constant.BoolVal(x.v), true
			}
		case errV:
			return !x.nonnil, true
		}
		return false, false
	}
	oa, okA := a.(*objV)
	ob, okB := b.(*objV)
	if okA && okB {
		st, isStruct := oa.typ.Underlying().(*types.Struct)
		if !isStruct {
			return false, false
		}
		for i := 0; i < st.NumFields(); i++ {
			name := st.Field(i).Name()
			va, hasA := oa.fields[name]
			vb, hasB := ob.fields[name]
			if !hasA || !hasB {
				return false, false // a lazily read input field: not materialised
			}
			e, ok := deepEqualVals(va, vb)
			if !ok {
				return false, false
			}
			if !e {
				return false, true
			}
		}
		return true, true
	}
	za, ok1 := isZeroish(a)
	zb, ok2 := isZeroish(b)
	if ok1 && ok2 {
		if za && zb {
			return true, true
		}
		if za != zb {
			return false, true
		}
		// both non-zero: equal only if the very same abstract value
		return showVal(a) == showVal(b), true
	}
	return false, false
}

// EvalExpr evaluates one expression of pkg with the given local variables.
func (in *Interp) EvalExpr(pkg *packages.Package, x ast.Expr, vars map[string]Val) (v Val, err error) {
	defer func() {
		if r := recover(); r != nil {
			if fe, ok := r.(errFragment); ok {
				err = fe
				return
			}
			panic(r)
		}
	}()
	in.depth, in.steps = 0, 0
	if in.MaxDepth == 0 {
		in.MaxDepth = 6
	}
	f := &frame{in: in, pkg: pkg, env: newEnv(nil), name: "expr " + types.ExprString(x)}
	for k, val := range vars {
		f.env.vars[k] = val
	}
	return f.expr(x, f.env), nil
}
