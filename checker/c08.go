package main

import (
	"fmt"
	"go/token"
	"go/types"
	"sort"
	"strings"

	"golang.org/x/tools/go/ssa"
)

func init() {
	register("C08", "Decided: (a) Conn.writeExpunge is unreachable, through the Session interface into every backend implementation of the module, from the handlers of FETCH, STORE and SEARCH; (b) Conn.poll, evaluated for every command label the server dispatches, forbids EXPUNGE exactly for FETCH, STORE and SEARCH (not their UID forms) and hands the same permission to the backend and to the update writer; readCommand polls with the dispatched command name; (c) the message list of a mailbox is modified only by functions that queue the matching tracker update (EXISTS / one EXPUNGE per removed message) under the mailbox lock; (d) a session method that queues expunges in the tracker does not also write them directly (each removal is reported through one channel); (e) a tracker update is fanned out to every session except its source; (f) the sequence number of every FETCH response the in-memory backend writes is the session tracker's encoding of the message, tested non-zero. Not decided: that the numbers are right (sequence-number arithmetic over histories, property C07).", checkC08)
	register("C09", "Decided: (a) UID allocation: Mailbox.uidNext is written only by the constructor and by appendBytes, where the new message receives the current value and the field is incremented by one, under the mailbox lock; (b) UIDVALIDITY: User.prevUidValidity is only incremented, only in Create, and the incremented value is the one handed to NewMailbox; (c) every lookup, insert and delete on a message's flag map uses a key produced by canonicalFlag (case-insensitive flags); (d) numbers taken from the wire never reach a slice bound unguarded (shared with C06.f). Not decided: agreement of SEARCH/FETCH/LIST/STATUS results with a reference mailbox model (value-level).", checkC09)
}

func checkC08(c *Ctx) {
	p := c.P
	c.rule("C08.a", "no EXPUNGE reachable while answering FETCH/STORE/SEARCH", 3)
	c.rule("C08.b", "poll permission table; polled with the dispatched command name", 37)
	c.rule("C08.c", "message-list mutation paired with the tracker update under the mailbox lock", 2)
	c.rule("C08.d", "one delivery channel per expunge", 2)
	c.rule("C08.e", "tracker updates fan out to every session but the source", 1)
	c.rule("C08.f", "FETCH responses of the backend carry an encoded, non-zero sequence number", 1)
	c.rule("C08.g", "a session registers with the mailbox tracker inside the critical section that takes its EXISTS snapshot", 2)
	c.rule("C08.h", "tracker queue: writer and sequence-number translation agree on one entry per update", 2)
	c.rule("C08.i", "mailbox-view and client-view sequence numbers are not mixed (tracker Queue* arguments, SeqSet probes)", 5)
	c.rule("C08.j", "removals of one pass are announced in descending index order or renumbered", 1)
	c.rule("C08.k", "the live tracker queue never aliases the updates handed to the writer", 3)
	c.rule("C08.L", "layering lemma", 1)
	cut := layeringCut(c, "C08.L")
	g := buildModGraph(p, p.VTA(), nil)
	for f, m := range g.succ {
		for cal := range m {
			if cut(f, cal) {
				delete(m, cal)
			}
		}
	}
	writeExpunge := p.Func("imapserver", "Conn", "writeExpunge")
	if writeExpunge == nil {
		c.unresolvedRoot("(*Conn).writeExpunge")
		return
	}
	// ---- (a) ---------------------------------------------------------------
	tbl, _, _ := dispatchTable(c)
	for _, lab := range []string{"FETCH", "STORE", "SEARCH"} {
		var h *ssa.Function
		for _, dc := range tbl {
			if contains(dc.labels, lab) && dc.handler != nil {
				h = p.SSA.FuncValue(dc.handler)
			}
		}
		if h == nil {
			c.unresolvedRoot("handler of " + lab)
			continue
		}
		reach := g.reachable(h)
		c.check(!reach[writeExpunge], "C08.a", lab+" handler cannot reach writeExpunge", h.Pos(),
			fmt.Sprintf("%d functions reachable (through every Session implementation of the module); Conn.writeExpunge is not among them", len(reach)),
			"an EXPUNGE response can be written while "+lab+" is being answered: "+pathTo(g, h, writeExpunge))
	}
	// ---- (b) ---------------------------------------------------------------
	rulePollTable(c, "C08.b", tbl)
	// ---- (c) ---------------------------------------------------------------
	la := newLockAnalysis(p, serverRoots(p), cut)
	nm := 0
	for _, fn := range p.SrcFuncs("imapserver/imapmemserver") {
		writes := false
		var pos token.Pos
		allInstrs(fn, func(i ssa.Instruction) {
			if st, ok := i.(*ssa.Store); ok {
				if r, ok := fieldOf(st.Addr); ok && r.is("Mailbox", "l") && !isFreshLocal(r.Base) {
					writes = true
					pos = st.Pos()
				}
			}
		})
		if !writes {
			continue
		}
		nm++
		var queued []string
		held := true
		allInstrs(fn, func(i ssa.Instruction) {
			if call, ok := i.(ssa.CallInstruction); ok {
				k := callKey(call)
				if k == "(*MailboxTracker).QueueNumMessages" || k == "(*MailboxTracker).QueueExpunge" {
					queued = append(queued, strings.TrimPrefix(k, "(*MailboxTracker)."))
					if h, ok := la.heldAt(i); ok && !h.hasClass("imapmemserver.Mailbox.mutex") {
						held = false
					}
				}
			}
		})
		// a message added to the list is announced on every path: the EXISTS
		// is not optional (a batch of appends announced once leaves the
		// earlier messages of the batch unannounced to stale sessions)
		allInstrs(fn, func(i ssa.Instruction) {
			st, ok := i.(*ssa.Store)
			if !ok {
				return
			}
			r, ok := fieldOf(st.Addr)
			if !ok || !r.is("Mailbox", "l") || isFreshLocal(r.Base) {
				return
			}
			call, ok := st.Val.(*ssa.Call)
			if !ok {
				return
			}
			if b, ok := call.Call.Value.(*ssa.Builtin); !ok || b.Name() != "append" || len(call.Call.Args) == 0 {
				return
			}
			if r0, ok := loadedField(call.Call.Args[0]); !ok || !r0.is("Mailbox", "l") {
				return // not a growth of the list itself (e.g. the rebuilt survivor list)
			}
			gf := mustFlow(fn, facts{}, func(f facts, j ssa.Instruction) facts {
				if j == ssa.Instruction(st) {
					return f.without(func(s string) bool { return s == "announced" })
				}
				if c2, ok := j.(ssa.CallInstruction); ok && callKey(c2) == "(*MailboxTracker).QueueNumMessages" {
					return f.with("announced")
				}
				return f
			}, nil)
			okAll := true
			for _, ret := range returnsOf(fn) {
				if ret.Block() != st.Block() && !reaches(st.Block(), ret.Block()) {
					continue
				}
				if fs, reach := gf.at(ret); reach && !fs.has("announced") {
					okAll = false
				}
			}
			c.check(okAll, "C08.c", fnKey(fn)+": every appended message is announced", st.Pos(), "QueueNumMessages follows the append on every path",
				"a message is appended to the mailbox's list and, on some path, no EXISTS is queued for it: sessions that have not polled yet are later told a count that skips it, and the sequence numbers they are sent exceed the count they know")
		})
		c.check(len(queued) > 0 && held, "C08.c", fnKey(fn)+": list mutation queues a tracker update", pos,
			"queues "+strings.Join(uniq(queued), ",")+" while holding the mailbox lock",
			"the message list is modified without queueing the matching EXISTS/EXPUNGE in the tracker under the mailbox lock: other sessions' views silently diverge from the mailbox")
	}
	if nm == 0 {
		c.unresolvedRoot("functions modifying Mailbox.l")
	}
	ruleRegistrationAtomic(c, "C08.g", la)
	ruleQueueEncoding(c, "C08.h")
	ruleNumberViews(c, "C08.i")
	ruleExpungeOrder(c, "C08.j")
	ruleQueueHandOver(c, "C08.k")
	c.rule("C08.l", "an index sentinel (-1 until a loop finds a position) is tested only by comparisons that separate -1 from every index", 1)
	ruleSentinelTests(c, "C08.l", "imapserver", "imapserver/imapmemserver")
	c.rule("C08.m", "the connection's update writers put every update they are given on the wire", 2)
	ruleUpdateWritersUnconditional(c, "C08.m")
	c.rule("C08.n", "per-message callbacks of the backend receive the mailbox-view number, never one translated for a session", 1)
	ruleCallbackGetsMailboxView(c, "C08.n")
	c.rule("C08.o", "a counter used as the offset of a retained queue suffix counts exactly the delivered elements", 1)
	ruleRetainedSuffixCount(c, "C08.o", "imapserver", "imapserver/imapmemserver")
	// expungeLocked: per removed message exactly one QueueExpunge: the call and the "keep" append are the two arms of one test
	if ex := p.Func("imapserver/imapmemserver", "Mailbox", "expungeLocked"); ex != nil {
		okArms := false
		allInstrs(ex, func(i ssa.Instruction) {
			call, ok := i.(ssa.CallInstruction)
			if !ok || callKey(call) != "(*MailboxTracker).QueueExpunge" {
				return
			}
			// the block of the call is one successor of an If whose other successor appends to the kept list
			for _, pred := range i.Block().Preds {
				if len(pred.Succs) != 2 {
					continue
				}
				other := pred.Succs[0]
				if other == i.Block() {
					other = pred.Succs[1]
				}
				for _, j := range other.Instrs {
					if c2, ok := j.(*ssa.Call); ok {
						if b, ok := c2.Call.Value.(*ssa.Builtin); ok && b.Name() == "append" {
							okArms = true
						}
					}
				}
			}
		})
		if !okArms {
			// two passes over the list with the same membership test: the report
			// under `m ∈ expunged`, the keep-append under `m ∉ expunged`, same map
			lookupGuard := func(b *ssa.BasicBlock) (ssa.Value, bool, bool) {
				for d := b.Idom(); d != nil; d = d.Idom() {
					if len(d.Instrs) == 0 || len(d.Succs) != 2 {
						continue
					}
					ifi, ok := d.Instrs[len(d.Instrs)-1].(*ssa.If)
					if !ok {
						continue
					}
					pol := true
					cond := ifi.Cond
					if u, ok := cond.(*ssa.UnOp); ok && u.Op == token.NOT {
						cond, pol = u.X, false
					}
					ex1, ok := cond.(*ssa.Extract)
					if !ok || ex1.Index != 1 {
						continue
					}
					lk, ok := ex1.Tuple.(*ssa.Lookup)
					if !ok || !lk.CommaOk {
						continue
					}
					// a successor that dominates d is a back edge to the loop header, not a branch arm
					arm := func(s *ssa.BasicBlock) bool { return s == b || (!s.Dominates(d) && s.Dominates(b)) }
					switch {
					case arm(d.Succs[0]) && !arm(d.Succs[1]):
						return lk.X, pol, true
					case arm(d.Succs[1]) && !arm(d.Succs[0]):
						return lk.X, !pol, true
					}
				}
				return nil, false, false
			}
			var repMap, keepMap ssa.Value
			repOK, keepOK := false, false
			allInstrs(ex, func(i ssa.Instruction) {
				call, ok := i.(*ssa.Call)
				if !ok {
					return
				}
				if callKey(call) == "(*MailboxTracker).QueueExpunge" {
					if m, pol, ok := lookupGuard(i.Block()); ok && pol {
						repMap, repOK = m, true
					}
				}
				if b, ok := call.Call.Value.(*ssa.Builtin); ok && b.Name() == "append" {
					if et, ok := call.Type().Underlying().(*types.Slice); ok && strings.HasSuffix(et.Elem().String(), "imapmemserver.message") {
						if m, pol, ok := lookupGuard(i.Block()); ok && !pol {
							keepMap, keepOK = m, true
						}
					}
				}
			})
			if repOK && keepOK && repMap == keepMap {
				okArms = true
			}
		}
		c.check(okArms, "C08.c", "expungeLocked: each message is either kept or reported expunged", ex.Pos(), "QueueExpunge and the keep-append are guarded by the same membership test with opposite outcomes", "a removed message is not paired with exactly one QueueExpunge")
	}
	// ---- (d) ---------------------------------------------------------------
	queueExpunge := p.Func("imapserver", "MailboxTracker", "QueueExpunge")
	ifaces := sessionIfaces(p)
	nd := 0
	for _, fn := range p.SrcFuncs("imapserver/imapmemserver") {
		obj, _ := fn.Object().(*types.Func)
		if obj == nil || fn.Parent() != nil || !obj.Exported() {
			continue
		}
		isSessionMethod := false
		for iface := range ifaces {
			it := iface.Underlying().(*types.Interface)
			for k := 0; k < it.NumMethods(); k++ {
				if it.Method(k).Name() == obj.Name() && recvNamed(obj) != nil {
					isSessionMethod = true
				}
			}
		}
		if !isSessionMethod {
			continue
		}
		reach := g.reachable(fn)
		if queueExpunge == nil || !reach[queueExpunge] {
			continue
		}
		nd++
		c.check(!reach[writeExpunge], "C08.d", fnKey(fn)+": expunges go through the tracker only", fn.Pos(),
			"queues expunges in the tracker (delivered to every session by the post-command poll) and never writes EXPUNGE itself",
			"queues expunges in the tracker and also writes EXPUNGE directly: the issuing session is told about each removed message twice ("+pathTo(g, fn, writeExpunge)+")")
	}
	if nd == 0 {
		c.unresolvedRoot("session methods that queue expunges")
	}
	// ---- (e) ---------------------------------------------------------------
	if qu := p.Func("imapserver", "MailboxTracker", "queueUpdate"); qu != nil {
		pd := postDominators(qu)
		var site ssa.Instruction
		allInstrs(qu, func(i ssa.Instruction) {
			if call, ok := i.(ssa.CallInstruction); ok && callKey(call) == "(*SessionTracker).queueUpdate" {
				site = i
			}
		})
		if site == nil {
			c.fail("C08.e", "queueUpdate fan-out", qu.Pos(), "MailboxTracker.queueUpdate no longer forwards the update to the session trackers")
		} else {
			okDeps := reaches2(site.Block(), site.Block()) // in the range loop
			var foreign []string
			for x := range transitiveDeps(qu, pd, site.Block()) {
				ifi, isIf := x.Instrs[len(x.Instrs)-1].(*ssa.If)
				if !isIf {
					continue
				}
				cond := ifi.Cond
				// the condition may only compare with the source parameter
				// (possibly through `&&`/`||`/`!` materialised as a phi of a
				// named boolean) or be the loop's continuation test
				var okV func(v ssa.Value, seen map[ssa.Value]bool) bool
				okV = func(v ssa.Value, seen map[ssa.Value]bool) bool {
					if seen[v] {
						return true
					}
					seen[v] = true
					switch x := v.(type) {
					case *ssa.Const:
						return true
					case *ssa.Extract:
						_, isNext := x.Tuple.(*ssa.Next)
						return isNext
					case *ssa.UnOp:
						if x.Op == token.NOT {
							return okV(x.X, seen)
						}
					case *ssa.Phi:
						for _, e := range x.Edges {
							if !okV(e, seen) {
								return false
							}
						}
						return true
					case *ssa.BinOp:
						for _, v := range []ssa.Value{x.X, x.Y} {
							if pp := paramOf(v); pp != nil && pp.Name() == "source" {
								return true
							}
							if _, isParam := v.(*ssa.Parameter); isParam {
								return true
							}
						}
					}
					return false
				}
				okCond := okV(cond, map[ssa.Value]bool{})
				// sanity panics on the update (before the loop) are not skips of sessions
				if !reaches2(x, x) {
					okCond = true
				}
				if !okCond {
					foreign = append(foreign, cond.String())
				}
			}
			c.check(okDeps && len(foreign) == 0, "C08.e", "queueUpdate fan-out", site.Pos(), "every session of the map receives the update unless it is the source",
				"some sessions are skipped by a condition other than `st == source`: "+strings.Join(foreign, "; "))
		}
	} else {
		c.unresolvedRoot("(*MailboxTracker).queueUpdate")
	}
	// ---- (f) ---------------------------------------------------------------
	nf := 0
	for _, fn := range p.SrcFuncs("imapserver/imapmemserver") {
		var gf *mustResult
		allInstrs(fn, func(i ssa.Instruction) {
			call, ok := i.(ssa.CallInstruction)
			if !ok || callKey(call) != "(*FetchWriter).CreateMessage" {
				return
			}
			nf++
			arg := call.Common().Args[1]
			src, isCall := arg.(*ssa.Call)
			key := fmt.Sprintf("%s:CreateMessage#%d", fnKey(fn), nf)
			if !isCall || callKey(src) != "(*SessionTracker).EncodeSeqNum" {
				c.fail("C08.f", key, i.Pos(), "the sequence number of the FETCH response is not the session tracker's encoding of the message: a server-view number (or something else) is sent to a client whose view may differ")
				return
			}
			if gf == nil {
				gf = mustFlow(fn, facts{}, nil, func(f facts, b *ssa.BasicBlock, s int) facts {
					var add []string
					for _, a := range edgeAtoms(b, s) {
						if a.Const != nil {
							if k, ok := constInt(a.Const); ok && k == 0 && (a.Op == token.NEQ || a.Op == token.GTR) {
								add = append(add, "nonzero:"+a.V.Name())
							}
						}
					}
					return f.with(add...)
				})
			}
			fs, _ := gf.at(i)
			c.check(fs.has("nonzero:"+src.Name()), "C08.f", key, i.Pos(), "EncodeSeqNum's result is tested non-zero before it is sent",
				"EncodeSeqNum returns 0 for a message the client has not been told about; it is sent unchecked: '* 0 FETCH …' (a sequence number outside 1..EXISTS)")
		})
	}
	if nf == 0 {
		c.unresolvedRoot("CreateMessage calls in the backend")
	}
}

// pathTo returns a call path from → to for diagnostics.
func pathTo(g *modGraph, from, to *ssa.Function) string {
	prev := map[*ssa.Function]*ssa.Function{from: nil}
	q := []*ssa.Function{from}
	for len(q) > 0 {
		f := q[0]
		q = q[1:]
		if f == to {
			var path []string
			for x := to; x != nil; x = prev[x] {
				path = append([]string{fnKey(x)}, path...)
			}
			return strings.Join(path, " → ")
		}
		var succs []*ssa.Function
		for w := range g.succ[f] {
			succs = append(succs, w)
		}
		sort.Slice(succs, func(i, j int) bool { return succs[i].String() < succs[j].String() })
		for _, w := range succs {
			if _, seen := prev[w]; !seen {
				prev[w] = f
				q = append(q, w)
			}
		}
	}
	return "no path"
}

func rulePollTable(c *Ctx, rule string, tbl []dispatchCase) {
	p := c.P
	poll := p.Func("imapserver", "Conn", "poll")
	if poll == nil {
		c.unresolvedRoot("(*Conn).poll")
		return
	}
	obj := poll.Object().(*types.Func)
	var labels []string
	for _, dc := range tbl {
		labels = append(labels, dc.labels...)
	}
	sort.Strings(labels)
	for _, lab := range labels {
		var backendAllow, writerAllow *bool
		in := &Interp{P: p}
		in.Input = func(path string, t types.Type) (Val, bool) {
			if path == "c.state" {
				return mkInt(3), true
			}
			return nil, false
		}
		in.Call = func(key string, recv Val, args []Val) (Val, bool) {
			if key == "Session.Poll" {
				if b, ok := valBool(args[1]); ok {
					backendAllow = &b
				}
				if w := asObj(args[0]); w != nil {
					if b, ok := valBool(w.fields["allowExpunge"]); ok {
						writerAllow = &b
					}
				}
				return errV{}, true
			}
			return nil, false
		}
		_, err := in.Eval(obj, ptrV{&objV{path: "c", fields: map[string]Val{}}}, []Val{mkString(lab)})
		key := "poll(" + lab + ")"
		c.evals++
		if err != nil {
			c.undecided(rule, key, poll.Pos(), err.Error())
			continue
		}
		want := !(lab == "FETCH" || lab == "STORE" || lab == "SEARCH")
		c.check(backendAllow != nil && writerAllow != nil && *backendAllow == want && *writerAllow == want, rule, key, poll.Pos(),
			fmt.Sprintf("allowExpunge=%v for the backend and the update writer", want),
			fmt.Sprintf("allowExpunge should be %v after %s (RFC 9051 7.5.1: no EXPUNGE while answering FETCH, STORE or SEARCH; allowed otherwise), got backend=%v writer=%v", want, lab, deref(backendAllow), deref(writerAllow)))
	}
	// readCommand polls with the dispatched name
	rc := p.Func("imapserver", "Conn", "readCommand")
	if rc == nil {
		return
	}
	var switchTag ssa.Value
	allInstrs(rc, func(i ssa.Instruction) {
		// the dispatch compares one string value with every label: take the operand of a comparison with "NOOP"
		if bo, ok := i.(*ssa.BinOp); ok && bo.Op == token.EQL {
			if s, ok := constString(bo.Y); ok && s == "NOOP" {
				switchTag = bo.X
			}
		}
	})
	allInstrs(rc, func(i ssa.Instruction) {
		call, ok := i.(*ssa.Call)
		if !ok || staticCallee(call) != poll {
			return
		}
		arg := call.Call.Args[1]
		same := arg == switchTag
		if !same && switchTag != nil {
			// both are loads/phis of the same variable
			if a1, ok := arg.(*ssa.Phi); ok {
				if a2, ok := switchTag.(*ssa.Phi); ok && a1 == a2 {
					same = true
				}
			}
			if l1, ok := arg.(*ssa.UnOp); ok {
				if l2, ok := switchTag.(*ssa.UnOp); ok && l1.X == l2.X {
					same = true
				}
			}
		}
		c.check(same, rule, "readCommand polls with the dispatched name", call.Pos(), "poll receives the command name the dispatch switch used", "poll is called with something other than the dispatched command name: the EXPUNGE permission is computed for another command")
	})
}

func deref(b *bool) string {
	if b == nil {
		return "not called"
	}
	return fmt.Sprint(*b)
}

// ---- C09 ----------------------------------------------------------------------

func checkC09(c *Ctx) {
	p := c.P
	c.rule("C09.a", "UIDs: uidNext only incremented by one in appendBytes, the message gets the pre-increment value, under the lock", 3)
	c.rule("C09.b", "UIDVALIDITY: prevUidValidity only incremented, in Create, and handed to NewMailbox", 2)
	c.rule("C09.c", "message flag map accessed only through canonicalFlag", 7)
	c.rule("C09.d", "wire-supplied integers never reach a slice bound unguarded", 1)
	c.rule("C09.e", "mailbox namespace: the key inserted into User.mailboxes is the key whose absence was checked, and is the mailbox's own name", 4)
	c.rule("C09.L", "layering lemma", 1)
	cut := layeringCut(c, "C09.L")
	la := newLockAnalysis(p, serverRoots(p), cut)
	// (a)
	n := 0
	for _, fn := range p.SrcFuncs("imapserver/imapmemserver") {
		allInstrs(fn, func(i ssa.Instruction) {
			st, ok := i.(*ssa.Store)
			if !ok {
				return
			}
			r, ok := fieldOf(st.Addr)
			if !ok || !r.is("Mailbox", "uidNext") {
				return
			}
			n++
			key := fnKey(fn) + ": store uidNext"
			if isFreshLocal(r.Base) {
				c.okTrivial("C09.a", key, st.Pos(), "constructor")
				return
			}
			bo, isInc := st.Val.(*ssa.BinOp)
			inc := isInc && bo.Op == token.ADD
			if inc {
				k, okK := constInt(bo.Y)
				lr, okL := loadedField(bo.X)
				inc = okK && k == 1 && okL && lr.is("Mailbox", "uidNext")
			}
			h, _ := la.heldAt(st)
			c.check(inc && h.hasClass("imapmemserver.Mailbox.mutex"), "C09.a", key, st.Pos(), "uidNext = uidNext + 1 under the mailbox lock",
				"Mailbox.uidNext is written other than by a locked increment by one: UIDs can repeat or go backwards")
			// the new message's uid: a store of a load of uidNext into message.uid that precedes the increment
			assigned := false
			allInstrs(fn, func(j ssa.Instruction) {
				s2, ok := j.(*ssa.Store)
				if !ok {
					return
				}
				r2, ok := fieldOf(s2.Addr)
				if !ok || !r2.is("message", "uid") {
					return
				}
				// what counts is when uidNext is read, not when the value is stored
				ldi, _ := s2.Val.(ssa.Instruction)
				before := precedes(s2, st) || (ldi != nil && ldi.Block() == st.Block() && precedes(ldi, st)) || (ldi != nil && ldi.Block() != st.Block() && ldi.Block().Dominates(st.Block()))
				if lr, ok := loadedField(s2.Val); ok && lr.is("Mailbox", "uidNext") && before {
					assigned = true
					// the read of uidNext belongs to the same critical section as the increment
					if ld, ok := s2.Val.(ssa.Instruction); ok {
						hl, _ := la.heldAt(ld)
						c.check(hl.hasClass("imapmemserver.Mailbox.mutex"), "C09.a", fnKey(fn)+": uidNext read for message.uid under the lock", ld.Pos(), "read under the mailbox lock",
							"uidNext is read for the new message's UID before the mailbox lock is taken: two concurrent appends can receive the same UID")
					}
				}
			})
			c.check(assigned, "C09.a", fnKey(fn)+": message.uid = uidNext before the increment", st.Pos(), "the appended message receives the pre-increment value", "the appended message does not receive the pre-increment uidNext: APPENDUID/COPYUID name a UID that is not the message's")
		})
	}
	if n < 2 {
		c.unresolvedRoot("stores to Mailbox.uidNext")
	}
	// (b)
	nb := 0
	for _, fn := range p.SrcFuncs("imapserver/imapmemserver") {
		allInstrs(fn, func(i ssa.Instruction) {
			st, ok := i.(*ssa.Store)
			if !ok {
				return
			}
			r, ok := fieldOf(st.Addr)
			if !ok || !r.is("User", "prevUidValidity") || isFreshLocal(r.Base) {
				return
			}
			nb++
			bo, isInc := st.Val.(*ssa.BinOp)
			inc := isInc && bo.Op == token.ADD
			if inc {
				k, okK := constInt(bo.Y)
				lr, okL := loadedField(bo.X)
				inc = okK && k >= 1 && okL && lr.is("User", "prevUidValidity")
			}
			c.check(inc && fn.Name() == "Create", "C09.b", fnKey(fn)+": prevUidValidity++", st.Pos(), "only incremented, in Create", "prevUidValidity is written other than by an increment in Create: a deleted and re-created mailbox can get its old UIDVALIDITY back")
			// NewMailbox receives the post-increment value
			passed := false
			allInstrs(fn, func(j ssa.Instruction) {
				if call, ok := j.(*ssa.Call); ok && staticCallee(call) != nil && staticCallee(call).Name() == "NewMailbox" && precedes(st, call) {
					for _, a := range call.Call.Args {
						if lr, ok := loadedField(a); ok && lr.is("User", "prevUidValidity") {
							passed = true
						}
					}
				}
			})
			c.check(passed, "C09.b", fnKey(fn)+": NewMailbox(…, prevUidValidity) after the increment", st.Pos(), "the fresh value is the new mailbox's UIDVALIDITY", "the new mailbox does not receive the freshly incremented UIDVALIDITY")
		})
	}
	if nb == 0 {
		c.unresolvedRoot("increment of User.prevUidValidity")
	}
	// (c)
	canon := p.Func("imapserver/imapmemserver", "", "canonicalFlag")
	nc := 0
	for _, fn := range p.SrcFuncs("imapserver/imapmemserver") {
		allInstrs(fn, func(i ssa.Instruction) {
			var m, key ssa.Value
			what := ""
			switch x := i.(type) {
			case *ssa.Lookup:
				m, key, what = x.X, x.Index, "lookup"
			case *ssa.MapUpdate:
				m, key, what = x.Map, x.Key, "insert"
			case *ssa.Call:
				if b, ok := x.Call.Value.(*ssa.Builtin); ok && b.Name() == "delete" {
					m, key, what = x.Call.Args[0], x.Call.Args[1], "delete"
				}
			}
			if m == nil {
				return
			}
			r, ok := loadedField(m)
			if !ok || !r.is("message", "flags") {
				return
			}
			nc++
			k := fmt.Sprintf("%s:%s flags#%d", fnKey(fn), what, countKey(c, "C09.c", fnKey(fn)+":"+what+" flags#")+1)
			call, isCall := key.(*ssa.Call)
			c.check(isCall && canon != nil && staticCallee(call) == canon, "C09.c", k, i.Pos(), "key = canonicalFlag(…)",
				"the flag map is accessed with a key that did not go through canonicalFlag: '\\\\seen' and '\\\\Seen' become different flags (STORE/SEARCH stop being case-insensitive)")
		})
	}
	if nc == 0 {
		c.unresolvedRoot("accesses to message.flags")
	}
	ruleWireIntSums(c, "C09.d")
	ruleNamespaceKeys(c, "C09.e")
	c.rule("C09.f", "mailbox-view and client-view sequence numbers are not mixed (tracker Queue* arguments, SeqSet probes)", 5)
	ruleNumberViews(c, "C09.f")
	c.rule("C09.g", "COPYUID: source set fed from the source messages' uid, destination set from the append's reported UID", 4)
	ruleCopyUIDProvenance(c, "C09.g")
	c.rule("C09.h", "recursive walks of a SearchCriteria descend into Not and Or alike", 2)
	ruleRecursiveCriteriaCoverage(c, "C09.h")
	c.rule("C09.i", "removals of one pass are announced in descending index order or renumbered", 1)
	ruleExpungeOrder(c, "C09.i")
	c.rule("C09.j", "a per-round verdict that a loop overwrites is branched on before the next round (LIST: a mailbox matching any pattern is listed)", 1)
	ruleOverwrittenVerdict(c, "C09.j", "imapserver", "imapserver/imapmemserver")
	c.rule("C09.k", "the saved search result is replaced whenever SAVE is requested, and only after the criteria were resolved against the previous one", 2)
	ruleSearchResDiscipline(c, "C09.k")
	c.rule("C09.l", "an options struct the backend builds itself to re-insert a message sets every field the insert path reads", 1)
	ruleCopySnapshotComplete(c, "C09.l")
}

// ruleNamespaceKeys: C09.e. Every insertion into User.mailboxes uses, as
// its key, the very value (same SSA value, hence same normalisation) whose
// absence was tested by a dominating lookup, and the inserted mailbox was
// given that same value as its name (NewMailbox(name, …) / rename(name)).
func ruleNamespaceKeys(c *Ctx, rule string) {
	p := c.P
	n := 0
	for _, fn := range p.SrcFuncs("imapserver/imapmemserver") {
		allInstrs(fn, func(i ssa.Instruction) {
			mu, ok := i.(*ssa.MapUpdate)
			if !ok {
				return
			}
			r, ok := loadedField(mu.Map)
			if !ok || !r.is("User", "mailboxes") {
				return
			}
			n++
			checked := false
			named := false
			allInstrs(fn, func(j ssa.Instruction) {
				switch x := j.(type) {
				case *ssa.Lookup:
					if lr, ok := loadedField(x.X); ok && lr.is("User", "mailboxes") && x.Index == mu.Key && x.Block().Dominates(mu.Block()) {
						checked = true
					}
				case *ssa.Call:
					cal := staticCallee(x)
					if cal == nil || !(cal.Name() == "NewMailbox" || cal.Name() == "rename") {
						return
					}
					for _, a := range x.Call.Args {
						if a == mu.Key {
							named = true
						}
					}
				}
			})
			c.check(checked, rule, fnKey(fn)+": insert key was checked absent", mu.Pos(), "a dominating lookup tests the same key value",
				"the key inserted into User.mailboxes is not the value whose absence was checked (normalised after the check, or a different variable): an existing mailbox can be overwritten")
			c.check(named, rule, fnKey(fn)+": inserted mailbox carries the key as its name", mu.Pos(), "NewMailbox/rename receives the same value",
				"the mailbox stored under this key was not given the key as its name: LIST/STATUS report a name that SELECT cannot open")
		})
	}
	if n == 0 {
		c.unresolvedRoot("insertions into User.mailboxes")
	}
}

// ruleRegistrationAtomic: C08.g. MailboxTracker.NewSession makes the session
// receive every later update; the SELECT data (selectDataLocked) is the
// snapshot those updates are relative to. Both must happen under the mailbox
// lock, in one critical section: otherwise an update that lands in between
// is both in the snapshot and in the queue.
func ruleRegistrationAtomic(c *Ctx, rule string, la *lockAnalysis) {
	p := c.P
	const lock = "imapmemserver.Mailbox.mutex"
	n := 0
	for _, fn := range p.SrcFuncs("imapserver/imapmemserver") {
		var reg, snap []ssa.CallInstruction
		allInstrs(fn, func(i ssa.Instruction) {
			call, ok := i.(ssa.CallInstruction)
			if !ok {
				return
			}
			switch callKey(call) {
			case "(*MailboxTracker).NewSession":
				n++
				h, _ := la.heldAt(i)
				c.check(h.hasClass(lock), rule, fnKey(fn)+": NewSession under the mailbox lock", i.Pos(), "held: "+h.String(),
					"a session is registered with the mailbox tracker without holding the mailbox lock on some call path: an APPEND/EXPUNGE landing between the registration and the SELECT snapshot is counted twice")
			case "(*Mailbox).NewView":
				reg = append(reg, call)
			case "(*Mailbox).selectDataLocked":
				snap = append(snap, call)
			}
		})
		if len(reg) == 0 || len(snap) == 0 {
			continue
		}
		// same critical section: no Unlock of the mailbox lock on any path from the registration to the snapshot
		for _, r := range reg {
			n++
			bad := unlockBetween(r, snap)
			c.check(bad == nil, rule, fnKey(fn)+": registration and snapshot in one critical section", r.Pos(), "no unlock between NewView and selectDataLocked",
				"the mailbox lock is released between the tracker registration and the snapshot")
		}
	}
	if n < 2 {
		c.unresolvedRoot("MailboxTracker.NewSession call / Select snapshot")
	}
}

// unlockBetween: a mutex Unlock instruction reachable from `from` before any
// of the `to` instructions.
func unlockBetween(from ssa.CallInstruction, to []ssa.CallInstruction) ssa.Instruction {
	isTo := map[ssa.Instruction]bool{}
	for _, t := range to {
		isTo[t] = true
	}
	seen := map[*ssa.BasicBlock]bool{}
	var walk func(b *ssa.BasicBlock, start int) ssa.Instruction
	walk = func(b *ssa.BasicBlock, start int) ssa.Instruction {
		for _, i := range b.Instrs[start:] {
			if isTo[i] {
				return nil
			}
			if call, ok := i.(ssa.CallInstruction); ok {
				if _, isDefer := i.(*ssa.Defer); !isDefer {
					if op, _ := isMutexOp(call); op == "unlock" {
						return i
					}
				}
			}
		}
		for _, s := range b.Succs {
			if !seen[s] {
				seen[s] = true
				if r := walk(s, 0); r != nil {
					return r
				}
			}
		}
		return nil
	}
	b := from.Block()
	for k, i := range b.Instrs {
		if i == ssa.Instruction(from) {
			return walk(b, k+1)
		}
	}
	return nil
}

// ruleQueueEncoding: C08.h. Sibling agreement between the writer and the
// reader of SessionTracker.queue. EncodeSeqNum hides a message the client has
// not been told about by comparing its number for *equality* with a queued
// EXISTS count; that is only right while every new message has its own
// queue entry. As long as the reader uses equality, no function may
// overwrite or merge queue elements in place: the queue only grows by append
// and shrinks by re-slicing.
func ruleQueueEncoding(c *Ctx, rule string) {
	p := c.P
	enc := p.Func("imapserver", "SessionTracker", "EncodeSeqNum")
	if enc == nil {
		c.unresolvedRoot("(*SessionTracker).EncodeSeqNum")
		return
	}
	equality := false
	var eqPos token.Pos
	allInstrs(enc, func(i ssa.Instruction) {
		bo, ok := i.(*ssa.BinOp)
		if !ok || (bo.Op != token.EQL && bo.Op != token.NEQ) {
			return
		}
		for _, o := range []ssa.Value{bo.X, bo.Y} {
			if r, ok := loadedField(o); ok && r.is("trackerUpdate", "numMessages") {
				if _, isC := bo.X.(*ssa.Const); isC {
					continue
				}
				if _, isC := bo.Y.(*ssa.Const); isC {
					continue
				}
				equality = true
				eqPos = bo.Pos()
			}
		}
	})
	if !equality {
		c.okTrivial(rule, "EncodeSeqNum does not match queued EXISTS counts by equality", enc.Pos(), "rule not applicable to this encoding")
		c.okTrivial(rule, "queue elements: no constraint", enc.Pos(), "")
		return
	}
	c.ok(rule, "EncodeSeqNum matches queued EXISTS counts by equality", eqPos, "one queue entry per new message is required")
	// element overwrite: a Store whose address is (a field of) an IndexAddr into a load of SessionTracker.queue
	var bad []string
	var badPos token.Pos
	for _, fn := range p.SrcFuncs("imapserver") {
		allInstrs(fn, func(i ssa.Instruction) {
			st, ok := i.(*ssa.Store)
			if !ok {
				return
			}
			a := st.Addr
			for {
				if fa, ok := a.(*ssa.FieldAddr); ok {
					a = fa.X
					continue
				}
				break
			}
			ia, ok := a.(*ssa.IndexAddr)
			if !ok {
				return
			}
			base := ia.X
			if sl, ok := base.(*ssa.Slice); ok {
				base = sl.X
			}
			if r, ok := loadedField(base); ok && r.is("SessionTracker", "queue") {
				bad = append(bad, fnKey(fn))
				badPos = st.Pos()
			}
		})
	}
	c.check(len(bad) == 0, rule, "queue elements are never overwritten in place", badPos, "append and re-slice only",
		"a queued update is overwritten in place by "+strings.Join(uniq(bad), ", ")+" (e.g. consecutive EXISTS merged) while EncodeSeqNum still hides unannounced messages by equality with a queued count: a message the client has not been told about gets a sequence number above the announced count")
}
