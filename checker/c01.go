package main

import (
	"fmt"
	"go/token"
	"go/types"
	"strings"

	"golang.org/x/tools/go/ssa"
)

func init() {
	register("C01", "Decided: (a) the encoder refuses unrepresentable values before emitting any byte: NumSet/Flag/MailboxAttr reach writeString only on the success edge of their validity test and set the encoder error otherwise; isValidFlag, evaluated on one representative per byte/position class, equals the RFC 9051 flag-keyword/flag-extension grammar; (b) every quoted-string emission is validated (shared with C18.f); (c) the literal-size thresholds of the writer (validQuoted, stringLiteral, commandEncoder.Literal) and of the reader (checkBufferedLiteral, acceptLiteral) agree: whenever the writer chooses a non-synchronising literal under the capabilities the server advertises, the server accepts it; (d) open-literal typestate of the decoder: the literal flag is set only when a literal is opened, cleared only by its cancel, tested before every byte read, and the reader is limited to the announced size. Not decided: byte-for-byte round-trip equality over all strings, UTF-7, number formatting.", checkC01)
}

func checkC01(c *Ctx) {
	c.rule("C01.a", "unrepresentable values are refused before any byte is emitted; isValidFlag = RFC flag grammar on byte/position classes", 20)
	c.rule("C01.b", "every quoted-string emission is validated, constant, or a single delimiter rune", 5)
	c.rule("C01.c", "writer and reader literal thresholds agree", 8)
	c.rule("C01.d", "open-literal typestate of the decoder; literal reader limited to the announced size", 4)
	ruleRefuseUnrepresentable(c, "C01.a")
	ruleQuotedValidated(c, "C01.b")
	ruleThresholdAgreement(c, "C01.c")
	ruleOpenLiteralTypestate(c, "C01.d")
	c.rule("C01.e", "list nesting accounting: the depth counter of Decoder.List is capped and balanced", 2)
	c.rule("C01.f", "mailbox names: the encoder applies modified UTF-7 exactly where the decoder inverts it", 26)
	ruleMailboxTransform(c, "C01.f")
	c.rule("C01.g", "numbers: the parser's domain (strconv function, bitSize) is exactly the range of the type the number is delivered in", 5)
	ruleNoNarrowing(c, "C01.g")
	c.rule("C01.h", "mailbox-name transformer chunking: ErrShortSrc on a split unit, space check before every write, nSrc after the check", 8)
	ruleUTF7Chunking(c, "C01.h", "C01.h", "C01.h")
	c.rule("C01.j", "no stateful transformer is shared through a package-level variable (mailbox names decode independently on every connection)", 1)
	ruleNoSharedTransformer(c, "C01.j")
	c.rule("C01.k", "the wire encoder never re-encodes a string rune by rune (bytes that are not valid UTF-8 survive)", 1)
	ruleNoRuneReencoding(c, "C01.k")
	c.rule("C01.l", "no direct Read discards its byte count (a literal is read to completion)", 1)
	ruleReadCountChecked(c, "C01.l", "internal/imapwire", "imapserver", "imapclient")
	c.rule("C01.i", "quoted-string scanner: the closing-quote and escape tests see unescaped bytes only", 2)
	ruleQuotedScanner(c, "C01.i")
	if list := c.P.Func("internal/imapwire", "Decoder", "List"); list != nil {
		checkListGuard(c, "C01.e", list)
	} else {
		c.unresolvedRoot("(*Decoder).List")
	}
}

func ruleRefuseUnrepresentable(c *Ctx, rule string) {
	p := c.P
	for _, name := range []string{"NumSet", "Flag", "MailboxAttr"} {
		fn := p.Func("internal/imapwire", "Encoder", name)
		if fn == nil {
			c.unresolvedRoot("(*Encoder)." + name)
			continue
		}
		// every path: either setErr (and no writeString) or writeString after the validity edges
		// (mustFlowDeep: an error-building helper that always calls setErr counts as setErr)
		gf := mustFlowDeep(fn, facts{}, func(f facts, i ssa.Instruction) facts {
			if call, ok := i.(ssa.CallInstruction); ok {
				switch callKey(call) {
				case "(*Encoder).setErr":
					return f.with("refused")
				case "(*Encoder).writeString":
					return f.with("emitted")
				}
			}
			return f
		}, func(f facts, b *ssa.BasicBlock, s int) facts {
			add := valueEdgeFacts(b, s)
			for _, a := range edgeAtoms(b, s) {
				// s != "" (NumSet)
				if a.Const != nil && a.Op == token.NEQ {
					if str, ok := constString(a.Const); ok && str == "" {
						add = append(add, "nonempty")
					}
				}
				if a.Const != nil && a.Op == token.EQL {
					if str, ok := constString(a.Const); ok && str == "\\*" {
						add = append(add, "is-wildcard")
					}
				}
			}
			for _, a := range add {
				if a == "ok:imapwire.isValidFlag" || a == "is-wildcard" {
					add = append(add, "flag-valid")
					break
				}
			}
			return f.with(add...)
		})
		okAll := true
		var detail string
		n := 0
		allInstrs(fn, func(i ssa.Instruction) {
			call, ok := i.(ssa.CallInstruction)
			if !ok || callKey(call) != "(*Encoder).writeString" {
				return
			}
			n++
			fs, _ := gf.at(i)
			switch name {
			case "NumSet":
				if !fs.has("nonempty") {
					okAll, detail = false, "an empty number set can reach writeString"
				}
			case "Flag":
				if !fs.has("flag-valid") {
					okAll, detail = false, "a flag can be emitted without passing isValidFlag (or being \\*)"
				}
			case "MailboxAttr":
				if !fs.has("ok:imapwire.isValidFlag") || !fs.has("ok:strings.HasPrefix") {
					okAll, detail = false, "a mailbox attribute can be emitted without the leading-backslash and isValidFlag tests"
				}
			}
			if fs.has("refused") {
				okAll, detail = false, "bytes are emitted after the value was refused"
			}
		})
		// every return: emitted xor refused
		for _, ret := range returnsOf(fn) {
			fs, reach := gf.at(ret)
			if reach && !fs.has("emitted") && !fs.has("refused") {
				okAll, detail = false, "a path neither emits the value nor records an error"
			}
		}
		c.check(okAll && n > 0, rule, "Encoder."+name+": refuse before emitting", fn.Pos(), "writeString only on the success edge of the validity test; the failing edge sets the encoder error and emits nothing", detail)
	}
	// isValidFlag table
	fn := p.Func("internal/imapwire", "", "isValidFlag")
	if fn == nil {
		c.unresolvedRoot("imapwire.isValidFlag")
		return
	}
	obj := fn.Object().(*types.Func)
	type row struct {
		s    string
		want bool
		why  string
	}
	rows := []row{
		{"", false, "empty"},
		{"\\", false, "lone backslash (flag-extension needs an atom)"},
		{"\\Seen", true, "system flag"},
		{"$Forwarded", true, "keyword"},
		{"a", true, "one atom char"},
		{"a\\b", false, "backslash after position 0"},
		{"\\\\x", false, "two backslashes"},
		{"\\*", false, "\\* is only valid as a permanent flag (handled by the caller)"},
	}
	for _, sp := range []string{"(", ")", "{", " ", "%", "*", "\"", "]", "\x00", "\r", "\n", "\x7f", "\t"} {
		rows = append(rows, row{"ab" + sp + "c", false, fmt.Sprintf("atom-special/control %q inside", sp)})
		rows = append(rows, row{"\\x" + sp, false, fmt.Sprintf("atom-special/control %q in a system flag", sp)})
	}
	for _, r := range rows {
		in := &Interp{P: p}
		in.Call = func(key string, recv Val, args []Val) (Val, bool) {
			if key == "unicode.IsControl" {
				n, _ := valInt(args[0])
				return mkBool(n < 0x20 || (n >= 0x7f && n < 0xa0)), true
			}
			return nil, false
		}
		v, err := in.Eval(obj, nil, []Val{mkString(r.s)})
		key := fmt.Sprintf("isValidFlag[%q]", r.s)
		c.evals++
		if err != nil {
			c.undecided(rule, key, fn.Pos(), err.Error())
			continue
		}
		got, _ := valBool(v)
		c.check(got == r.want, rule, key, fn.Pos(), fmt.Sprintf("→ %v (%s)", got, r.why),
			fmt.Sprintf("→ %v but RFC 9051 says %v (%s): the encoder emits a flag that the peer's decoder cannot parse, or refuses a legal one", got, r.want, r.why))
	}
}

// ruleThresholdAgreement: C01.c.
func ruleThresholdAgreement(c *Ctx, rule string) {
	p := c.P
	sl := p.Func("internal/imapwire", "Encoder", "stringLiteral")
	al := p.Func("imapserver", "Conn", "acceptLiteral")
	cbl := p.Func("imapserver", "Conn", "checkBufferedLiteral")
	vq := p.Func("internal/imapwire", "Encoder", "validQuoted")
	if sl == nil || al == nil || cbl == nil || vq == nil {
		c.unresolvedRoot("stringLiteral / acceptLiteral / checkBufferedLiteral / validQuoted")
		return
	}
	// server advertises LITERAL- always (checked: availableCaps adds it with IMAP4rev1) and LITERAL+ when configured
	for _, serverLP := range []bool{false, true} {
		for _, size := range []int{4096, 4097} {
			// writer
			var syncUsed, reached bool
			in := &Interp{P: p}
			in.Input = func(path string, t types.Type) (Val, bool) {
				switch path {
				case "enc.side":
					return mkInt(1), true
				case "enc.LiteralMinus":
					return mkBool(true), true
				case "enc.LiteralPlus":
					return mkBool(serverLP), true
				case "enc.NewContinuationRequest":
					return ptrV{&objV{fields: map[string]Val{}, path: "f"}}, true
				}
				return nil, false
			}
			in.Call = func(key string, recv Val, args []Val) (Val, bool) {
				switch key {
				case "(*Encoder).Literal":
					reached = true
					_, isNil := args[1].(nilV)
					syncUsed = !isNil
					return symV{path: "wc"}, true
				case "(*Encoder).setErr":
					return nil, true
				case "io.WriteString":
					return tupleV{mkInt(0), errV{}}, true
				case "io.WriteCloser.Close", "io.Closer.Close":
					return errV{}, true
				}
				return nil, false
			}
			in.DynCall = func(fun Val, args []Val) (Val, bool) {
				return ptrV{&objV{fields: map[string]Val{}, path: "contReq"}}, true
			}
			_, err := in.Eval(sl.Object().(*types.Func), ptrV{&objV{path: "enc", fields: map[string]Val{}}}, []Val{mkString(strings.Repeat("a", size))})
			key := fmt.Sprintf("string literal[server LITERAL+=%v,size=%d]", serverLP, size)
			c.evals++
			if err != nil || !reached {
				c.undecided(rule, key, sl.Pos(), fmt.Sprint("writer side: ", err))
				continue
			}
			// reader: acceptLiteral(size, nonSync = !syncUsed)
			in2 := &Interp{P: p}
			contReq := false
			in2.Call = func(key string, recv Val, args []Val) (Val, bool) {
				switch key {
				case "(*Options).caps":
					s := []string{"IMAP4rev1"}
					if serverLP {
						s = append(s, "LITERAL+")
					}
					return setOf(s), true
				case "(*Conn).writeContReq":
					contReq = true
					return errV{}, true
				case "(*Conn).rejectLiteral":
					return nil, true
				}
				return nil, false
			}
			// a string of exactly 4096 bytes is the longest the writer may still
			// quote; when its content forces a literal, it is buffered by the
			// reader and must pass checkBufferedLiteral as well
			if size == 4096 {
				in3 := &Interp{P: p}
				in3.Call = in2.Call
				v3, err3 := in3.Eval(cbl.Object().(*types.Func), ptrV{&objV{path: "c", fields: map[string]Val{}}}, []Val{mkInt(int64(size)), mkBool(!syncUsed)})
				k3 := fmt.Sprintf("buffered string literal[server LITERAL+=%v,size=%d]", serverLP, size)
				c.evals++
				if err3 != nil {
					c.undecided(rule, k3, cbl.Pos(), "reader side (buffered): "+err3.Error())
				} else {
					isNil3, _ := valIsNilErr(v3)
					c.check(isNil3, rule, k3, cbl.Pos(), "a 4096-byte string sent as a literal is accepted by the buffered-literal check", "the buffered-literal check refuses a 4096-byte literal although the writer treats 4096 bytes as short: a legal string argument fails in transit")
				}
				contReq = false
			}
			v, err := in2.Eval(al.Object().(*types.Func), ptrV{&objV{path: "c", fields: map[string]Val{}}}, []Val{mkInt(int64(size)), mkBool(!syncUsed)})
			if err != nil {
				c.undecided(rule, key, al.Pos(), "reader side: "+err.Error())
				continue
			}
			isNil, _ := valIsNilErr(v)
			c.check(isNil && (contReq == syncUsed), rule, key, al.Pos(),
				fmt.Sprintf("writer sync=%v; reader accepts (continuation request sent=%v)", syncUsed, contReq),
				fmt.Sprintf("writer sync=%v but the reader refuses it (accepted=%v, continuation sent=%v): a legal string fails in transit", syncUsed, isNil, contReq))
		}
	}
	// quoted/literal boundary: validQuoted's length limit equals the buffered-literal limit
	var limits []int64
	sides := map[string]int{}
	for _, fn := range []*ssa.Function{vq, sl, cbl, al} {
		fn := fn
		deepInstrs(fn, 2, func(i ssa.Instruction) {
			if bo, ok := i.(*ssa.BinOp); ok && (bo.Op == token.GTR || bo.Op == token.LEQ || bo.Op == token.GEQ || bo.Op == token.LSS) {
				if k, ok := constInt(bo.Y); ok && k >= 1024 {
					limits = append(limits, k)
					if fn == vq || fn == sl {
						sides["writer"]++
					} else {
						sides["reader"]++
					}
					c.check(k == 4096, rule, fmt.Sprintf("%s: size limit#%d", fnKey(fn), countKey(c, rule, fnKey(fn)+": size limit#")+1), bo.Pos(), "4096", fmt.Sprintf("limit %d differs from the 4096 bytes of RFC 7888 / the peer's limit", k))
				}
			}
		})
	}
	if sides["writer"] == 0 || sides["reader"] == 0 {
		c.unresolvedRoot("literal size comparisons in validQuoted/stringLiteral/checkBufferedLiteral/acceptLiteral")
	}
}

// ruleOpenLiteralTypestate: C01.d.
func ruleOpenLiteralTypestate(c *Ctx, rule string) {
	p := c.P
	setters := map[string][]string{}
	lrFn := p.Func("internal/imapwire", "Decoder", "LiteralReader")
	cancelFn := p.Func("internal/imapwire", "LiteralReader", "cancel")
	// a private helper of an owner, called from nowhere else, writes on the owner's behalf
	ownerOf := func(fn *ssa.Function) string {
		for _, owner := range []*ssa.Function{lrFn, cancelFn} {
			if owner == nil || fn == owner {
				continue
			}
			if !isHelperOf(fn, owner, 2) {
				continue
			}
			only := len(callSitesOf(p, fn)) > 0
			for _, site := range callSitesOf(p, fn) {
				if par := site.Parent(); par != owner && !isHelperOf(par, owner, 2) {
					only = false
				}
			}
			if only {
				return fnKey(owner)
			}
		}
		return fnKey(fn)
	}
	for _, fn := range p.SrcFuncs("internal/imapwire") {
		allInstrs(fn, func(i ssa.Instruction) {
			if st, ok := i.(*ssa.Store); ok {
				if r, ok := fieldOf(st.Addr); ok && r.is("Decoder", "literal") {
					v := "?"
					if k, ok := st.Val.(*ssa.Const); ok && k.Value != nil {
						v = k.Value.String()
					}
					setters[v] = append(setters[v], ownerOf(fn))
				}
			}
		})
	}
	c.check(len(setters["true"]) == 1 && setters["true"][0] == "(*Decoder).LiteralReader", rule, "Decoder.literal set only when a literal is opened", token.NoPos,
		"set to true only in LiteralReader", fmt.Sprintf("Decoder.literal is set to true in %v", setters["true"]))
	c.check(len(setters["false"]) == 1 && setters["false"][0] == "(*LiteralReader).cancel" && len(setters["?"]) == 0, rule, "Decoder.literal cleared only by LiteralReader.cancel", token.NoPos,
		"cleared only in cancel (reached on EOF of the limited reader or on refusal)", fmt.Sprintf("Decoder.literal is cleared in %v / written dynamically in %v", setters["false"], setters["?"]))
	// readByte refuses while a literal is open: the underlying ReadByte is on the false edge of the flag
	rb := p.Func("internal/imapwire", "Decoder", "readByte")
	if rb == nil {
		c.unresolvedRoot("(*Decoder).readByte")
	} else {
		gf := mustFlow(rb, facts{}, nil, func(f facts, b *ssa.BasicBlock, s int) facts {
			for _, a := range edgeAtoms(b, s) {
				if r, ok := loadedField(a.V); ok && r.is("Decoder", "literal") && a.True == -1 {
					return f.with("no-literal-open")
				}
			}
			return f
		})
		ok := false
		allInstrs(rb, func(i ssa.Instruction) {
			if call, isCall := i.(*ssa.Call); isCall && isExtMethod(calleeObj(call), "bufio", "Reader", "ReadByte") {
				fs, _ := gf.at(call)
				ok = fs.has("no-literal-open")
			}
		})
		c.check(ok, rule, "readByte refuses while a literal is open", rb.Pos(), "the underlying ReadByte is reached only when Decoder.literal is false", "the decoder can read protocol bytes while a literal is open: literal payload is parsed as syntax")
	}
	// the literal reader is limited to the announced size
	lr := p.Func("internal/imapwire", "Decoder", "LiteralReader")
	if lr == nil {
		c.unresolvedRoot("(*Decoder).LiteralReader")
		return
	}
	limited := false
	var fromHeader func(v ssa.Value, depth int) bool
	fromHeader = func(v ssa.Value, depth int) bool {
		switch x := v.(type) {
		case *ssa.UnOp:
			if al, ok := x.X.(*ssa.Alloc); ok {
				for _, ref := range *al.Referrers() {
					if c2, ok := ref.(*ssa.Call); ok && strings.Contains(callKey(c2), "Number64") {
						return true
					}
				}
			}
		case *ssa.Extract:
			// a header-parsing helper returning the size among its results:
			// every non-constant return hands back the parsed number
			if call, ok := x.Tuple.(*ssa.Call); ok && depth < 2 {
				if h := staticCallee(call); h != nil && h.Blocks != nil && inModule(h) {
					some := false
					for _, r := range returnsOf(h) {
						if x.Index >= len(r.Results) {
							return false
						}
						rv := unspill(r.Results[x.Index])
						if _, isConst := rv.(*ssa.Const); isConst {
							continue
						}
						if !fromHeader(rv, depth+1) {
							return false
						}
						some = true
					}
					return some
				}
			}
		case *ssa.Parameter:
			if depth >= 2 {
				return false
			}
			fn := x.Parent()
			idx := -1
			for k, q := range fn.Params {
				if q == x {
					idx = k
				}
			}
			sites := callSitesOf(p, fn)
			if idx < 0 || len(sites) == 0 {
				return false
			}
			for _, s := range sites {
				if idx >= len(s.Common().Args) || !fromHeader(s.Common().Args[idx], depth+1) {
					return false
				}
			}
			return true
		}
		return false
	}
	deepInstrs(lr, 2, func(i ssa.Instruction) {
		call, ok := i.(*ssa.Call)
		if !ok {
			return
		}
		if o := calleeObj(call); o != nil && o.Pkg() != nil && o.Pkg().Path() == "io" && o.Name() == "LimitReader" {
			// second argument: the number parsed by ExpectNumber64 (a load of the local it filled, possibly handed to a helper)
			if fromHeader(call.Call.Args[1], 0) {
				limited = true
			}
		}
	})
	c.check(limited, rule, "LiteralReader reads exactly the announced size", lr.Pos(), "io.LimitReader(dec.r, size) with size the number parsed from the literal header", "the literal reader is not limited to the size announced in the literal header")
}
