package main

import (
	"fmt"
	"go/ast"
	"go/constant"
	"go/token"
	"go/types"
	"sort"
	"strings"

	"golang.org/x/tools/go/ssa"
)

// Path-condition analysis of boolean functions (the matcher closures handed
// to Client.findPendingCmdFunc): which facts hold on every path on which the
// function returns true.

// atomDeriver turns one branch-condition atom into fact names.
type atomDeriver func(a condAtom) []string

// pathFlow: must-analysis whose facts are derived from branch conditions.
func pathFlow(fn *ssa.Function, derive atomDeriver, gen func(facts, ssa.Instruction) facts) *mustResult {
	return mustFlow(fn, facts{}, gen, func(f facts, b *ssa.BasicBlock, succ int) facts {
		var add []string
		for _, a := range edgeAtoms(b, succ) {
			add = append(add, derive(a)...)
		}
		if len(add) == 0 {
			return f
		}
		return f.with(add...)
	})
}

type truePoint struct {
	pos   token.Pos
	facts facts
	val   ssa.Value // the value that may be true (nil for the constant)
}

// truePoints enumerates the ways a bool-returning function can return true,
// with the facts known at each: constants true at a return or on a phi edge,
// and non-constant values (whose own truth contributes its atoms).
func truePoints(fn *ssa.Function, flow *mustResult, derive atomDeriver) []truePoint {
	var out []truePoint
	type visitKey struct {
		v ssa.Value
		b *ssa.BasicBlock
	}
	seen := map[visitKey]bool{}
	var eval func(v ssa.Value, f facts, pos token.Pos, at *ssa.BasicBlock)
	eval = func(v ssa.Value, f facts, pos token.Pos, at *ssa.BasicBlock) {
		k := visitKey{v, at}
		if seen[k] {
			return
		}
		seen[k] = true
		switch x := v.(type) {
		case *ssa.Const:
			if x.Value != nil && x.Value.String() == "true" {
				out = append(out, truePoint{pos: pos, facts: f})
			}
			return
		case *ssa.Phi:
			for i, e := range x.Edges {
				pred := x.Block().Preds[i]
				pf, ok := flow.atEnd(pred)
				if !ok {
					continue
				}
				// facts of the edge pred → phi block
				for si, s := range pred.Succs {
					if s == x.Block() {
						var add []string
						for _, a := range edgeAtoms(pred, si) {
							add = append(add, derive(a)...)
						}
						// a block ending in If with both successors equal is not produced by the builder
						pf = pf.with(add...)
						break
					}
				}
				p := pos
				if pi := pred.Instrs; len(pi) > 0 && pi[len(pi)-1].Pos().IsValid() {
					p = pi[len(pi)-1].Pos()
				}
				eval(e, pf, p, pred)
			}
			return
		case *ssa.UnOp:
			if x.Op == token.NOT {
				// !v true ⇔ v false
				var add []string
				for _, a := range atomsOf(x.X, false) {
					add = append(add, derive(a)...)
				}
				out = append(out, truePoint{pos: posOr(x.Pos(), pos), facts: f.with(add...), val: v})
				return
			}
		}
		var add []string
		for _, a := range atomsOf(v, true) {
			add = append(add, derive(a)...)
		}
		out = append(out, truePoint{pos: posOr(v.Pos(), pos), facts: f.with(add...), val: v})
	}
	for _, r := range returnsOf(fn) {
		if len(r.Results) != 1 {
			continue
		}
		f, ok := flow.at(r)
		if !ok {
			continue
		}
		eval(unspill(r.Results[0]), f, r.Pos(), r.Block())
	}
	return out
}

func posOr(a, b token.Pos) token.Pos {
	if a.IsValid() {
		return a
	}
	return b
}

// derivation of a value from the closure's command parameter or from a
// captured variable of the enclosing response handler.
type origin struct {
	fromCmd  bool
	asserted string // type the command was asserted to on the way
	fromData bool
}

func originOf(fn *ssa.Function, v ssa.Value) origin {
	var o origin
	seen := map[ssa.Value]bool{}
	var rec func(v ssa.Value)
	rec = func(v ssa.Value) {
		if v == nil || seen[v] {
			return
		}
		seen[v] = true
		switch x := v.(type) {
		case *ssa.Parameter:
			if len(fn.Params) > 0 && x == fn.Params[0] {
				o.fromCmd = true
			}
		case *ssa.FreeVar:
			o.fromData = true
		case *ssa.TypeAssert:
			before := o.fromCmd
			rec(x.X)
			if o.fromCmd && !before {
				o.asserted = shortType(x.AssertedType)
			}
		case *ssa.Extract:
			rec(x.Tuple)
		case *ssa.UnOp:
			rec(x.X)
		case *ssa.FieldAddr:
			rec(x.X)
		case *ssa.Field:
			rec(x.X)
		case *ssa.IndexAddr:
			rec(x.X)
		case *ssa.Index:
			rec(x.X)
		case *ssa.Lookup:
			rec(x.X)
		case *ssa.Slice:
			rec(x.X)
		case *ssa.ChangeType:
			rec(x.X)
		case *ssa.Convert:
			rec(x.X)
		case *ssa.MakeInterface:
			rec(x.X)
		case *ssa.ChangeInterface:
			rec(x.X)
		case *ssa.Next:
			rec(x.Iter)
		case *ssa.Range:
			rec(x.X)
		case *ssa.Phi:
			for _, e := range x.Edges {
				rec(e)
			}
		case *ssa.Alloc:
			// a local cell: what is stored into it
			for _, ref := range *x.Referrers() {
				if st, ok := ref.(*ssa.Store); ok && st.Addr == ssa.Value(x) {
					rec(st.Val)
				}
			}
		}
	}
	rec(v)
	return o
}

// atomOperands: the values an atom relates.
func atomOperands(a condAtom) []ssa.Value {
	if call, ok := a.V.(*ssa.Call); ok {
		ops := append([]ssa.Value{}, call.Call.Args...)
		if call.Call.IsInvoke() {
			ops = append(ops, call.Call.Value)
		}
		return ops
	}
	ops := []ssa.Value{a.V}
	if a.Other != nil {
		ops = append(ops, a.Other)
	}
	return ops
}

// ruleMatcherKeys: C12.f. Sibling/self-consistency of the response→command
// matchers. For every closure passed to findPendingCmdFunc and every command
// type it accepts: when some condition of that case relates a field of the
// pending command to the decoded response (the case is "keyed": the response
// names which command it answers), then every path returning true in that
// case carries either such a relation holding positively (== true, or a
// method of the command called with response data returning true) or a test
// on the response data alone (e.g. tag == ""). A path that accepts the
// command on a property of the command only delivers the data of a response
// about something else to it.
func ruleMatcherKeys(c *Ctx, rule string) {
	p := c.P
	find := p.Func("imapclient", "Client", "findPendingCmdFunc")
	if find == nil {
		c.unresolvedRoot("(*Client).findPendingCmdFunc")
		return
	}
	n := 0
	seenKeyedN := map[string]int{}
	for _, site := range callSitesOf(p, find) {
		args := site.Common().Args
		mc, ok := args[len(args)-1].(*ssa.MakeClosure)
		if !ok {
			c.undecided(rule, fnKey(site.Parent())+": matcher is not a function literal", site.Pos(), "cannot analyse the matcher")
			continue
		}
		m := mc.Fn.(*ssa.Function)
		derive := func(a condAtom) []string {
			var out []string
			// case marker
			if ex, ok := a.V.(*ssa.Extract); ok && ex.Index == 1 && a.True == 1 {
				if ta, ok := ex.Tuple.(*ssa.TypeAssert); ok && ta.CommaOk {
					out = append(out, "is:"+shortType(ta.AssertedType))
				}
			}
			cmd, data := false, false
			for _, o := range atomOperands(a) {
				or := originOf(m, o)
				cmd = cmd || or.fromCmd
				data = data || or.fromData
			}
			positive := a.True == 1 || a.Op == token.EQL
			if _, isCall := a.V.(*ssa.Call); !isCall && a.True != 0 {
				positive = false // a bare boolean variable
			}
			switch {
			case cmd && data && positive:
				out = append(out, "datadep")
			case data && !cmd:
				out = append(out, "datadep")
			}
			return out
		}
		// which cases are keyed: a joint atom anywhere
		keyed := map[string]token.Pos{}
		noteJoint := func(cond ssa.Value) {
			for _, a := range atomsOf(cond, true) {
				var as string
				cmd, data := false, false
				for _, o := range atomOperands(a) {
					or := originOf(m, o)
					if or.fromCmd {
						cmd = true
						as = or.asserted
					}
					data = data || or.fromData
				}
				if cmd && data && as != "" {
					keyed[as] = cond.Pos()
				}
			}
		}
		for _, b := range m.Blocks {
			for _, i := range b.Instrs {
				switch x := i.(type) {
				case *ssa.If:
					noteJoint(x.Cond)
				case *ssa.BinOp:
					if x.Op == token.EQL || x.Op == token.NEQ {
						noteJoint(x)
					}
				case *ssa.Call:
					if tb, ok := x.Type().(*types.Basic); ok && tb.Kind() == types.Bool {
						noteJoint(x)
					}
				}
			}
		}
		flow := pathFlow(m, derive, nil)
		tps := truePoints(m, flow, derive)
		var cases []string
		for k := range keyed {
			cases = append(cases, k)
		}
		sort.Strings(cases)
		for _, cs := range cases {
			n++
			seenKeyedN[strings.TrimPrefix(cs, "*imapclient.")]++
			key := fmt.Sprintf("%s matcher, case %s", fnKey(site.Parent()), cs)
			var bad []truePoint
			np := 0
			for _, tp := range tps {
				other := false
				for _, f := range tp.facts.list() {
					if strings.HasPrefix(f, "is:") && f != "is:"+cs {
						other = true
					}
				}
				if other && !tp.facts.has("is:"+cs) {
					continue
				}
				np++
				if !tp.facts.has("datadep") {
					bad = append(bad, tp)
				}
			}
			if np == 0 {
				c.undecided(rule, key, keyed[cs], "no accepting path found for a keyed case")
				continue
			}
			if len(bad) > 0 {
				c.fail(rule, key, bad[0].pos, fmt.Sprintf("the matcher relates %s to the decoded response elsewhere, but %d of its %d accepting paths accept the command without any positive relation to the response: a response about something else is delivered to this command", cs, len(bad), np))
			} else {
				c.ok(rule, key, keyed[cs], fmt.Sprintf("%d accepting paths, each conditioned on the response", np))
			}
		}
	}
	if n == 0 {
		c.unresolvedRoot("keyed matchers")
	}
	// Reference table (seeding round 5): the (handler, command type) pairs that
	// were confirmed by reading to be keyed on the response — the response names
	// the command it answers (mailbox, quota root, message number, correlator
	// tag). A pair that is no longer keyed — the relation was dropped from the
	// matcher, or the handler stopped scanning the pending list with a matcher
	// (first-of-type lookup) — delivers a response about something else, or
	// drops the response of a command that is not the oldest of its type.
	// (keyed by command type and multiplicity, not by handler, so that moving a
	// matcher into a helper function changes nothing)
	for _, want := range keyedMatcherTable {
		if seenKeyedN[want.cmd] >= want.n {
			continue
		}
		c.fail(rule, fmt.Sprintf("matcher cases keyed on the response for *imapclient.%s", want.cmd), find.Pos(),
			fmt.Sprintf("%d findPendingCmdFunc matcher case(s) select a pending %s by a relation between the command and the decoded response (%s), where %d are needed: the relation was dropped from a matcher or a handler stopped scanning the pending list with a matcher, so with several such commands in flight a response is attached to the wrong one or dropped", seenKeyedN[want.cmd], want.cmd, want.what, want.n))
	}
}

// keyedMatcherTable: command type, number of keyed matcher cases, what keys
// them (confirmed on the pinned tree).
var keyedMatcherTable = []struct {
	cmd  string
	n    int
	what string
}{
	{"SearchCommand", 1, "ESEARCH correlator tag"},
	{"FetchCommand", 1, "FETCH message number / UID"},
	{"SelectCommand", 1, "LIST mailbox of the SELECT"},
	{"GetMetadataCommand", 1, "METADATA mailbox"},
	{"GetQuotaCommand", 1, "QUOTA root"},
	{"GetQuotaRootCommand", 2, "QUOTA root and QUOTAROOT mailbox"},
	{"ListCommand", 1, "STATUS mailbox of a LIST-STATUS entry"},
	{"StatusCommand", 1, "STATUS mailbox"},
}

// ruleNilableFields: C11.f. Belief consistency on nil-able pointer fields of
// the client's command structs. A field that the package itself resets to
// nil and itself tests against nil somewhere is nil-able. Every dereference
// of such a field in code run by the reader must be preceded, on every path,
// by a non-nil test of the same field of the same object (or a store of a
// fresh object), or the object must come from a findPendingCmdFunc matcher
// that accepts that command type only when the field is non-nil.
func ruleNilableFields(c *Ctx, rule string) {
	p := c.P
	stored := map[*types.Var]bool{}
	tested := map[*types.Var]bool{}
	fieldVar := func(v ssa.Value) (*types.Var, ssa.Value) {
		// v is a load of a FieldAddr
		u, ok := v.(*ssa.UnOp)
		if !ok || u.Op != token.MUL {
			return nil, nil
		}
		fa, ok := u.X.(*ssa.FieldAddr)
		if !ok {
			return nil, nil
		}
		r, ok := fieldOf(fa)
		if !ok || r.Field == nil {
			return nil, nil
		}
		return r.Field, fa.X
	}
	isPtrToStruct := func(t types.Type) bool {
		pt, ok := t.Underlying().(*types.Pointer)
		if !ok {
			return false
		}
		_, ok = pt.Elem().Underlying().(*types.Struct)
		return ok
	}
	funcs := p.SrcFuncs("imapclient")
	for _, fn := range funcs {
		allInstrs(fn, func(i ssa.Instruction) {
			switch x := i.(type) {
			case *ssa.Store:
				if fa, ok := x.Addr.(*ssa.FieldAddr); ok && isNilConst(x.Val) {
					if r, ok := fieldOf(fa); ok && r.Field != nil && isPtrToStruct(r.Field.Type()) && !isFreshLocal(fa.X) {
						stored[r.Field] = true
					}
				}
			case *ssa.BinOp:
				if x.Op == token.EQL || x.Op == token.NEQ {
					for _, pair := range [][2]ssa.Value{{x.X, x.Y}, {x.Y, x.X}} {
						if isNilConst(pair[1]) {
							if fv, _ := fieldVar(pair[0]); fv != nil {
								tested[fv] = true
							}
						}
					}
				}
			}
		})
	}
	nilable := map[*types.Var]bool{}
	for f := range stored {
		if tested[f] && f.Pkg() != nil && f.Pkg().Path() == modPath+"/imapclient" {
			nilable[f] = true
		}
	}
	if len(nilable) == 0 {
		c.unresolvedRoot("nil-able pointer fields of imapclient")
		return
	}
	var names []string
	for f := range nilable {
		names = append(names, f.Name())
	}
	sort.Strings(names)
	c.note("nil-able pointer fields (reset to nil and nil-tested in imapclient): %s", strings.Join(names, ","))
	factOf := func(f *types.Var, base ssa.Value) string {
		return "nn:" + f.Name() + "@" + base.Name()
	}
	mkDerive := func(fn *ssa.Function) atomDeriver {
		return func(a condAtom) []string {
			var out []string
			if ex, ok := a.V.(*ssa.Extract); ok && ex.Index == 1 && a.True == 1 {
				if ta, ok := ex.Tuple.(*ssa.TypeAssert); ok && ta.CommaOk {
					out = append(out, "is:"+shortType(ta.AssertedType))
				}
			}
			if a.Nil == -1 {
				if fv, base := fieldVar(a.V); fv != nil && nilable[fv] {
					out = append(out, factOf(fv, base), "nnf:"+fv.Name())
				}
			}
			return out
		}
	}
	gen := func(f facts, i ssa.Instruction) facts {
		st, ok := i.(*ssa.Store)
		if !ok {
			return f
		}
		fa, ok := st.Addr.(*ssa.FieldAddr)
		if !ok {
			return f
		}
		r, ok := fieldOf(fa)
		if !ok || r.Field == nil || !nilable[r.Field] {
			return f
		}
		suffix := "nn:" + r.Field.Name() + "@"
		f = f.without(func(s string) bool { return strings.HasPrefix(s, suffix) || s == "nnf:"+r.Field.Name() })
		if !isNilConst(st.Val) {
			switch x := st.Val.(type) {
			case *ssa.Alloc, *ssa.Parameter:
				// &T{…}; a parameter handed in by a caller that just built it is
				// not assumed non-nil
				if _, isAlloc := st.Val.(*ssa.Alloc); isAlloc {
					f = f.with(factOf(r.Field, fa.X))
				}
			case *ssa.Call:
				// a constructor of the module: every return hands back a fresh object
				if cal := staticCallee(x); cal != nil && inModule(cal) && cal.Blocks != nil && cal.Signature.Results().Len() == 1 {
					fresh := len(returnsOf(cal)) > 0
					for _, rt := range returnsOf(cal) {
						if _, isAlloc := unspill(rt.Results[0]).(*ssa.Alloc); !isAlloc {
							fresh = false
						}
					}
					if fresh {
						f = f.with(factOf(r.Field, fa.X))
					}
				}
			}
		}
		return f
	}
	find := p.Func("imapclient", "Client", "findPendingCmdFunc")
	// matcherGuarantees: the command type → fields the matcher guarantees non-nil
	matcherGuarantees := func(mc *ssa.MakeClosure, typ string, fv *types.Var) (bool, string) {
		m := mc.Fn.(*ssa.Function)
		derive := mkDerive(m)
		flow := pathFlow(m, derive, gen)
		np := 0
		for _, tp := range truePoints(m, flow, derive) {
			if !tp.facts.has("is:" + typ) {
				other := false
				for _, f := range tp.facts.list() {
					if strings.HasPrefix(f, "is:") {
						other = true
					}
				}
				if other {
					continue
				}
				return false, "an accepting path of the matcher does not establish the command's type"
			}
			np++
			if !tp.facts.has("nnf:" + fv.Name()) {
				return false, fmt.Sprintf("the matcher accepts a %s at %s without having tested %s != nil", typ, p.pos(tp.pos), fv.Name())
			}
		}
		if np == 0 {
			return false, "the matcher has no accepting path for " + typ
		}
		return true, ""
	}
	n := 0
	read := p.Func("imapclient", "Client", "read")
	if read == nil {
		c.unresolvedRoot("(*Client).read")
		return
	}
	readerReach := buildModGraph(p, p.VTA(), nil).reachable(read)
	for _, fn := range funcs {
		root := fn
		for root.Parent() != nil {
			root = root.Parent()
		}
		if !readerReach[fn] && !readerReach[root] {
			continue // not run by the reader goroutine: server bytes cannot choose when it runs
		}
		var flow *mustResult
		allInstrs(fn, func(i ssa.Instruction) {
			var ptr ssa.Value
			switch x := i.(type) {
			case *ssa.FieldAddr:
				ptr = x.X
			case *ssa.UnOp:
				if x.Op == token.MUL {
					ptr = x.X
				}
			}
			if ptr == nil {
				return
			}
			fv, base := fieldVar(ptr)
			if fv == nil || !nilable[fv] {
				return
			}
			n++
			key := fmt.Sprintf("%s: deref %s#%d", fnKey(fn), fv.Name(), countKey(c, rule, fmt.Sprintf("%s: deref %s#", fnKey(fn), fv.Name()))+1)
			if flow == nil {
				flow = pathFlow(fn, mkDerive(fn), gen)
			}
			f, ok := flow.at(i)
			if !ok {
				c.okTrivial(rule, key, i.Pos(), "unreachable")
				return
			}
			if f.has(factOf(fv, base)) {
				c.ok(rule, key, i.Pos(), "tested non-nil on every path")
				return
			}
			// object returned by findPendingCmdFunc and narrowed by a type switch
			b := base
			typ := ""
			for k := 0; k < 4; k++ {
				switch y := b.(type) {
				case *ssa.Extract:
					b = y.Tuple
					continue
				case *ssa.TypeAssert:
					typ = shortType(y.AssertedType)
					b = y.X
					continue
				}
				break
			}
			if call, ok := b.(*ssa.Call); ok && find != nil && staticCallee(call) == find && typ != "" {
				if mc, ok := call.Call.Args[len(call.Call.Args)-1].(*ssa.MakeClosure); ok {
					// no reset between the match and the dereference in this function
					okM, why := matcherGuarantees(mc, typ, fv)
					reset := false
					allInstrs(fn, func(j ssa.Instruction) {
						if st, ok := j.(*ssa.Store); ok && isNilConst(st.Val) && precedes(st, i) {
							if r, ok := fieldOf(st.Addr); ok && r.Field == fv {
								reset = true
							}
						}
					})
					if okM && !reset {
						c.ok(rule, key, i.Pos(), "the matcher that selected this command accepts it only with "+fv.Name()+" != nil")
						return
					}
					if !okM {
						c.fail(rule, key, i.Pos(), fmt.Sprintf("%s.%s is nil-able (reset to nil and nil-tested elsewhere) and is dereferenced here unguarded: %s; a server can send the response while the field is nil and the reader panics", typ, fv.Name(), why))
						return
					}
				}
			}
			c.fail(rule, key, i.Pos(), fmt.Sprintf("%s is nil-able (the package resets it to nil and tests it against nil elsewhere) but is dereferenced here without a non-nil test on every path: a server can send this response while the field is nil and the reader panics (recovered as a fatal connection error)", fv.Name()))
		})
	}
	if n == 0 {
		c.unresolvedRoot("dereferences of nil-able fields")
	}
}

// ruleNoNarrowing: C11.g. A number parsed from the wire with
// strconv.ParseUint/ParseInt(s, base, bitSize) is only converted to an
// integer type of at least bitSize bits (int and uint count as 32): a
// narrower conversion silently wraps out-of-range numbers instead of
// reporting them.
func ruleNoNarrowing(c *Ctx, rule string) {
	p := c.P
	n := 0
	for _, fn := range p.SrcFuncs("", "internal/imapwire", "internal/imapnum", "imapclient", "imapserver") {
		allInstrs(fn, func(i ssa.Instruction) {
			call, ok := i.(*ssa.Call)
			if !ok {
				return
			}
			obj := calleeObj(call)
			if obj == nil || obj.Pkg() == nil || obj.Pkg().Path() != "strconv" || (obj.Name() != "ParseUint" && obj.Name() != "ParseInt") {
				return
			}
			n++
			key := fmt.Sprintf("%s: strconv.%s#%d", fnKey(fn), obj.Name(), countKey(c, rule, fmt.Sprintf("%s: strconv.%s#", fnKey(fn), obj.Name()))+1)
			// bitSize: a constant, or a parameter that is a constant at every call site of the helper
			type ctx struct {
				bits int64
				site ssa.CallInstruction // nil: every caller
			}
			var ctxs []ctx
			if b, ok := constInt(call.Call.Args[2]); ok {
				ctxs = append(ctxs, ctx{b, nil})
			} else if prm, ok := call.Call.Args[2].(*ssa.Parameter); ok {
				idx := -1
				for k, q := range fn.Params {
					if q == prm {
						idx = k
					}
				}
				sites := callSitesOf(p, fn)
				for _, s := range sites {
					if idx >= 0 && idx < len(s.Common().Args) {
						if b, ok := constInt(s.Common().Args[idx]); ok {
							ctxs = append(ctxs, ctx{b, s})
							continue
						}
					}
					ctxs = nil
					break
				}
				if len(sites) == 0 {
					ctxs = nil
				}
			}
			if len(ctxs) == 0 {
				c.undecided(rule, key, call.Pos(), "bitSize is neither a constant nor a parameter bound to a constant at every call site")
				return
			}
			var bad []string
			var bits int64
			for _, cx := range ctxs {
				bits = cx.bits
				if bits == 0 {
					bits = 32
				}
				seen := map[ssa.Value]bool{}
				var follow func(v ssa.Value, in *ssa.Function, depth int)
				follow = func(v ssa.Value, in *ssa.Function, depth int) {
					if seen[v] {
						return
					}
					seen[v] = true
					refs := v.Referrers()
					if refs == nil {
						return
					}
					for _, r := range *refs {
						switch x := r.(type) {
						case *ssa.Extract:
							if x.Index == 0 {
								follow(x, in, depth)
							}
						case *ssa.Phi:
							follow(x, in, depth)
						case *ssa.Return:
							// the parsed value is handed to the callers
							if depth >= 2 {
								continue
							}
							ri := -1
							for k, rv := range x.Results {
								if rv == v {
									ri = k
								}
							}
							var sites []ssa.CallInstruction
							if cx.site != nil && in == fn {
								sites = []ssa.CallInstruction{cx.site}
							} else {
								sites = callSitesOf(p, in)
							}
							for _, s := range sites {
								sv, ok := s.(ssa.Value)
								if !ok {
									continue
								}
								if len(x.Results) == 1 {
									follow(sv, s.Parent(), depth+1)
								} else if srefs := sv.Referrers(); srefs != nil {
									for _, sr := range *srefs {
										if ex, ok := sr.(*ssa.Extract); ok && ex.Index == ri {
											follow(ex, s.Parent(), depth+1)
										}
									}
								}
							}
						case *ssa.Convert:
							if bt, ok := x.Type().Underlying().(*types.Basic); ok && bt.Info()&types.IsInteger != 0 {
								w := int64(32)
								switch bt.Kind() {
								case types.Int8, types.Uint8:
									w = 8
								case types.Int16, types.Uint16:
									w = 16
								case types.Int64, types.Uint64:
									w = 64
								}
								if w < bits {
									bad = append(bad, fmt.Sprintf("%s at %s", bt.Name(), p.pos(x.Pos())))
								}
								// same width, other signedness: ParseInt(…, 32) refuses the upper
								// half of a uint32 (and lets negatives wrap), ParseUint(…, 64)
								// overflows an int64
								unsignedTarget := bt.Info()&types.IsUnsigned != 0
								if w == bits && bt.Kind() != types.Int && bt.Kind() != types.Uint && unsignedTarget != (obj.Name() == "ParseUint") {
									bad = append(bad, fmt.Sprintf("%s at %s (parsed with %s: sign domain differs)", bt.Name(), p.pos(x.Pos()), obj.Name()))
								}
							}
						}
					}
				}
				follow(call, fn, 0)
				if len(bad) > 0 {
					break
				}
			}
			c.check(len(bad) == 0, rule, key, call.Pos(), fmt.Sprintf("parsed with bitSize %d, never converted to a narrower integer", bits),
				fmt.Sprintf("parsed with %s bitSize %d and then converted to %s: the parser's domain is not the target's range — out-of-range numbers wrap around silently (e.g. 4294967297 delivered as 1) or legal ones are refused (e.g. a UID of 3000000000)", obj.Name(), bits, strings.Join(bad, ", ")))
		})
	}
	if n < 5 {
		c.unresolvedRoot("strconv.ParseUint/ParseInt call sites")
	}
}

// ruleMirrorGuards: C12.g. The statements that mirror an untagged response
// into Client.mailbox sit under a guard. For every response a conformant
// server can send in the selected state the guard must hold, otherwise the
// mirrored summary drifts. The guard is a comparison-only expression over
// c.state, c.mailbox.NumMessages and the response's number, so it is decided
// by evaluating it over the finite set of orderings: NumMessages, number ∈
// {0..3}, with the RFC's side condition for EXPUNGE (1 <= n <= count).
func ruleMirrorGuards(c *Ctx, rule string) {
	p := c.P
	pk := p.Pkgs[modPath+"/imapclient"]
	if pk == nil {
		c.unresolvedRoot("imapclient")
		return
	}
	selected := int64(-1)
	if k, ok := p.Pkgs[modPath].Types.Scope().Lookup("ConnStateSelected").(*types.Const); ok {
		if v, ok := constantInt(k); ok {
			selected = v
		}
	}
	if selected < 0 {
		c.unresolvedRoot("imap.ConnStateSelected")
		return
	}
	n := 0
	for _, file := range pk.Syntax {
		if strings.HasSuffix(p.Fset.Position(file.Pos()).Filename, "_test.go") {
			continue
		}
		for _, d := range file.Decls {
			fd, ok := d.(*ast.FuncDecl)
			if !ok || fd.Body == nil || fd.Recv == nil {
				continue
			}
			recvName := ""
			if len(fd.Recv.List) == 1 && len(fd.Recv.List[0].Names) == 1 {
				recvName = fd.Recv.List[0].Names[0].Name
			}
			// the unsigned number parameter of the handler, if any
			numParam := ""
			for _, fl := range fd.Type.Params.List {
				if bt, ok := pk.TypesInfo.TypeOf(fl.Type).Underlying().(*types.Basic); ok && bt.Kind() == types.Uint32 && len(fl.Names) == 1 {
					numParam = fl.Names[0].Name
				}
			}
			isMirrorLHS := func(e ast.Expr) (string, bool) {
				sel, ok := e.(*ast.SelectorExpr)
				if !ok {
					return "", false
				}
				inner, ok := sel.X.(*ast.SelectorExpr)
				if !ok || inner.Sel.Name != "mailbox" {
					return "", false
				}
				id, ok := inner.X.(*ast.Ident)
				if !ok || id.Name != recvName {
					return "", false
				}
				if named, ok := pk.TypesInfo.TypeOf(inner).(*types.Pointer); !ok || !strings.HasSuffix(named.Elem().String(), "SelectedMailbox") {
					return "", false
				}
				return sel.Sel.Name, true
			}
			var stack []ast.Node
			ast.Inspect(fd.Body, func(m ast.Node) bool {
				if m == nil {
					stack = stack[:len(stack)-1]
					return true
				}
				stack = append(stack, m)
				var lhs ast.Expr
				switch x := m.(type) {
				case *ast.AssignStmt:
					if len(x.Lhs) == 1 {
						lhs = x.Lhs[0]
					}
				case *ast.IncDecStmt:
					lhs = x.X
				}
				if lhs == nil {
					return true
				}
				field, ok := isMirrorLHS(lhs)
				if !ok {
					return true
				}
				// innermost enclosing if (then-branch)
				var guard *ast.IfStmt
				for k := len(stack) - 2; k >= 1; k-- {
					if ifs, ok := stack[k-1].(*ast.IfStmt); ok && stack[k] == ast.Node(ifs.Body) {
						guard = ifs
						break
					}
					if _, ok := stack[k].(*ast.FuncLit); ok {
						break
					}
				}
				n++
				key := fmt.Sprintf("%s: guard of the %s mirror", fd.Name.Name, field)
				if _, done := c.seen[rule+"|"+key]; done {
					key = fmt.Sprintf("%s#%d", key, countKey(c, rule, key)+1)
				}
				if guard == nil {
					c.ok(rule, key, m.Pos(), "unconditional")
					return true
				}
				// a decrement of the mirrored count is the effect of an EXPUNGE:
				// conformant responses then have 1 <= number <= count
				expunge := strings.Contains(strings.ToLower(fd.Name.Name), "expunge")
				if ids, ok := m.(*ast.IncDecStmt); ok && ids.Tok == token.DEC {
					expunge = true
				}
				evals := 0
				var bad, undec string
				for cnt := int64(0); cnt <= 3 && bad == "" && undec == ""; cnt++ {
					for num := int64(0); num <= 3; num++ {
						if numParam == "" && num > 0 {
							break
						}
						if expunge && numParam != "" && !(1 <= num && num <= cnt) {
							continue
						}
						if expunge && numParam == "" && cnt < 1 {
							continue
						}
						in := &Interp{P: p}
						cnt := cnt
						in.Input = func(path string, t types.Type) (Val, bool) {
							switch path {
							case recvName + ".state":
								return mkInt(selected), true
							case recvName + ".mailbox.NumMessages":
								return mkInt(cnt), true
							}
							return nil, false
						}
						vars := map[string]Val{recvName: ptrV{&objV{path: recvName, fields: map[string]Val{}}}}
						if numParam != "" {
							vars[numParam] = mkInt(num)
						}
						// a guard hoisted into a named local (`ok := a && b; if ok`)
						// is evaluated through its single definition
						var bindErr error
						for depthL := 0; depthL < 3; depthL++ {
							progress := false
							ast.Inspect(guard.Cond, func(x ast.Node) bool {
								id, ok := x.(*ast.Ident)
								if !ok {
									return true
								}
								if _, bound := vars[id.Name]; bound {
									return true
								}
								obj, _ := pk.TypesInfo.Uses[id].(*types.Var)
								if obj == nil || obj.IsField() || obj.Parent() == nil || obj.Parent() == pk.Types.Scope() {
									return true
								}
								var defs []ast.Expr
								ast.Inspect(fd.Body, func(y ast.Node) bool {
									as, ok := y.(*ast.AssignStmt)
									if !ok || len(as.Lhs) != len(as.Rhs) {
										return true
									}
									for k, l := range as.Lhs {
										if lid, ok := l.(*ast.Ident); ok && (pk.TypesInfo.Defs[lid] == types.Object(obj) || pk.TypesInfo.Uses[lid] == types.Object(obj)) {
											defs = append(defs, as.Rhs[k])
										}
									}
									return true
								})
								if len(defs) != 1 {
									return true
								}
								dv, err := in.EvalExpr(pk, defs[0], vars)
								if err != nil {
									bindErr = err
									return true
								}
								vars[id.Name] = dv
								progress = true
								return true
							})
							if !progress {
								break
							}
						}
						_ = bindErr
						v, err := in.EvalExpr(pk, guard.Cond, vars)
						evals++
						c.evals++
						if err != nil {
							undec = err.Error()
							break
						}
						if b, ok := valBool(v); !ok {
							undec = "guard does not evaluate to a boolean"
						} else if !b {
							bad = fmt.Sprintf("count=%d", cnt)
							if numParam != "" {
								bad += fmt.Sprintf(", %s=%d", numParam, num)
							}
						}
					}
				}
				switch {
				case undec != "":
					c.undecided(rule, key, guard.Cond.Pos(), "guard `"+types.ExprString(guard.Cond)+"` is outside the comparison-only fragment: "+undec)
				case bad != "":
					c.fail(rule, key, guard.Cond.Pos(), fmt.Sprintf("in the selected state the guard `%s` is false for the conformant response with %s: the response is not mirrored and Client.Mailbox() drifts from the transcript", types.ExprString(guard.Cond), bad))
				default:
					c.ok(rule, key, guard.Cond.Pos(), fmt.Sprintf("guard `%s` holds for all %d orderings of count and number in the selected state", types.ExprString(guard.Cond), evals))
				}
				return true
			})
		}
	}
	if n < 1 {
		// the mirror may be written through a helper's result (mbox := c.forUpdate(); mbox.X = …)
		stores := 0
		for _, fn := range p.SrcFuncs("imapclient") {
			allInstrs(fn, func(i ssa.Instruction) {
				if st, ok := i.(*ssa.Store); ok {
					if r, ok := fieldOf(st.Addr); ok && r.Owner != nil && r.Owner.Obj().Name() == "SelectedMailbox" && !isFreshLocal(r.Base) {
						if _, viaCopy := r.Base.(*ssa.Call); viaCopy {
							stores++
						}
					}
				}
			})
		}
		if stores > 0 {
			c.okTrivial(rule, "mirror statements go through a helper's result", token.NoPos, fmt.Sprintf("%d stores; their guards are not of the evaluable form c.mailbox.X = … (reduced coverage, no verdict)", stores))
			return
		}
		c.unresolvedRoot("mirror statements on Client.mailbox")
	}
}

func constantInt(k *types.Const) (int64, bool) {
	return constant.Int64Val(constant.ToInt(k.Val()))
}

// ---- dynamic representations of a command value ---------------------------

// reprSet: the dynamic types an interface value may hold ("?" = unknown).
type reprSet map[string]bool

// reprSources: field-based, flow-insensitive backward propagation from a
// value of interface type to the MakeInterface sites that can reach it.
type reprFlow struct {
	p       *Program
	seen    map[ssa.Value]bool
	seenFld map[*types.Var]bool
	out     reprSet
	fieldSt map[*types.Var][]*ssa.Store
	budget  int
}

func newReprFlow(p *Program) *reprFlow {
	r := &reprFlow{p: p, seen: map[ssa.Value]bool{}, seenFld: map[*types.Var]bool{}, out: reprSet{}, fieldSt: map[*types.Var][]*ssa.Store{}, budget: 4000}
	for _, fn := range p.SrcFuncs("imapclient") {
		allInstrs(fn, func(i ssa.Instruction) {
			if st, ok := i.(*ssa.Store); ok {
				if fa, ok := st.Addr.(*ssa.FieldAddr); ok {
					if fr, ok := fieldOf(fa); ok && fr.Field != nil {
						r.fieldSt[fr.Field] = append(r.fieldSt[fr.Field], st)
					}
				}
			}
		})
	}
	return r
}

func (r *reprFlow) field(f *types.Var, elems bool) {
	if r.seenFld[f] {
		return
	}
	r.seenFld[f] = true
	if len(r.fieldSt[f]) == 0 {
		r.out["?"] = true
	}
	for _, st := range r.fieldSt[f] {
		if elems {
			r.elems(st.Val)
		} else {
			r.val(st.Val)
		}
	}
}

// elems: the values that may be elements of slice v.
func (r *reprFlow) elems(v ssa.Value) {
	if r.seen[v] {
		return
	}
	r.seen[v] = true
	switch x := v.(type) {
	case *ssa.Const:
	case *ssa.Phi:
		for _, e := range x.Edges {
			r.elems(e)
		}
	case *ssa.Slice:
		r.elems(x.X)
	case *ssa.Alloc:
		// array backing a variadic argument: stores into its elements
		for _, ref := range *x.Referrers() {
			if ia, ok := ref.(*ssa.IndexAddr); ok {
				for _, ref2 := range *ia.Referrers() {
					if st, ok := ref2.(*ssa.Store); ok && st.Addr == ssa.Value(ia) {
						r.val(st.Val)
					}
				}
			}
		}
	case *ssa.Call:
		if b, ok := x.Call.Value.(*ssa.Builtin); ok && b.Name() == "append" {
			for _, a := range x.Call.Args {
				r.elems(a)
			}
			return
		}
		r.out["?"] = true
	case *ssa.UnOp:
		if fr, ok := loadedField(x); ok && fr.Field != nil {
			r.field(fr.Field, true)
			return
		}
		if al, ok := x.X.(*ssa.Alloc); ok {
			for _, ref := range *al.Referrers() {
				if st, ok := ref.(*ssa.Store); ok && st.Addr == ssa.Value(al) {
					r.elems(st.Val)
				}
			}
			return
		}
		r.out["?"] = true
	default:
		r.out["?"] = true
	}
}

func (r *reprFlow) val(v ssa.Value) {
	if r.seen[v] {
		return
	}
	r.seen[v] = true
	r.budget--
	if r.budget < 0 {
		r.out["?"] = true
		return
	}
	switch x := v.(type) {
	case *ssa.Const:
	case *ssa.MakeInterface:
		r.out[shortType(x.X.Type())] = true
	case *ssa.ChangeInterface:
		r.val(x.X)
	case *ssa.ChangeType:
		r.val(x.X)
	case *ssa.TypeAssert:
		if types.IsInterface(x.AssertedType) {
			r.val(x.X)
		} else {
			r.out[shortType(x.AssertedType)] = true
		}
	case *ssa.Phi:
		for _, e := range x.Edges {
			r.val(e)
		}
	case *ssa.Extract:
		switch t := x.Tuple.(type) {
		case *ssa.TypeAssert:
			r.val(t)
		case *ssa.Call:
			r.callResult(t, x.Index)
		case *ssa.Next:
			if rg, ok := t.Iter.(*ssa.Range); ok {
				r.elems(rg.X)
			} else {
				r.out["?"] = true
			}
		default:
			r.out["?"] = true
		}
	case *ssa.Call:
		r.callResult(x, 0)
	case *ssa.Parameter:
		fn := x.Parent()
		idx := -1
		for k, prm := range fn.Params {
			if prm == x {
				idx = k
			}
		}
		sites := callSitesOf(r.p, fn)
		if idx < 0 || len(sites) == 0 {
			r.out["?"] = true
			return
		}
		for _, s := range sites {
			args := s.Common().Args
			if idx < len(args) {
				r.val(args[idx])
			}
		}
	case *ssa.FreeVar:
		// captured variable: the binding at the MakeClosure sites
		fn := x.Parent()
		idx := -1
		for k, fv := range fn.FreeVars {
			if fv == x {
				idx = k
			}
		}
		found := false
		if par := fn.Parent(); par != nil && idx >= 0 {
			allInstrs(par, func(i ssa.Instruction) {
				if mc, ok := i.(*ssa.MakeClosure); ok && mc.Fn == ssa.Value(fn) {
					found = true
					r.val(mc.Bindings[idx])
				}
			})
		}
		if !found {
			r.out["?"] = true
		}
	case *ssa.Alloc:
		for _, ref := range *x.Referrers() {
			if st, ok := ref.(*ssa.Store); ok && st.Addr == ssa.Value(x) {
				r.val(st.Val)
			}
		}
	case *ssa.Field:
		if fr, ok := fieldOf(x); ok && fr.Field != nil {
			r.field(fr.Field, false)
		} else {
			r.out["?"] = true
		}
	case *ssa.UnOp:
		if x.Op != token.MUL {
			r.out["?"] = true
			return
		}
		switch a := x.X.(type) {
		case *ssa.FieldAddr:
			if fr, ok := fieldOf(a); ok && fr.Field != nil {
				r.field(fr.Field, false)
				return
			}
		case *ssa.IndexAddr:
			r.elems(a.X)
			return
		case *ssa.Alloc, *ssa.FreeVar:
			r.val(a)
			return
		}
		r.out["?"] = true
	default:
		r.out["?"] = true
	}
}

func (r *reprFlow) callResult(call *ssa.Call, idx int) {
	cal := staticCallee(call)
	if cal == nil || cal.Blocks == nil {
		r.out["?"] = true
		return
	}
	for _, ret := range returnsOf(cal) {
		if idx < len(ret.Results) {
			r.val(unspill(ret.Results[idx]))
		}
	}
}

// ruleCommandIdentity: C12.h. A command object has two interface
// representations: the wrapper (*AppendCommand …) and the embedded *Command,
// which both implement the unexported `command` interface through the
// promoted base() method. Comparing two `command` interface values is an
// identity test only if both sides always hold the same representation.
// Every ==/!= between command values is checked: operands of static type
// *Command are canonical; for interface operands the dynamic types that can
// flow to each side are computed, and the comparison is refused when one
// side may hold the embedded *Command while the other may hold a wrapper.
func ruleCommandIdentity(c *Ctx, rule string) {
	p := c.P
	cmdNamed := p.Named("imapclient", "Command")
	if cmdNamed == nil {
		c.unresolvedRoot("imapclient.Command")
		return
	}
	var iface types.Type
	if pk := p.Pkgs[modPath+"/imapclient"]; pk != nil {
		if tn, ok := pk.Types.Scope().Lookup("command").(*types.TypeName); ok {
			iface = tn.Type()
		}
	}
	if iface == nil {
		c.unresolvedRoot("imapclient.command interface")
		return
	}
	canonical := shortType(types.NewPointer(cmdNamed))
	isCmdPtr := func(t types.Type) bool { return types.Identical(t, types.NewPointer(cmdNamed)) }
	isIface := func(t types.Type) bool { return types.Identical(t, iface) }
	n := 0
	for _, fn := range p.SrcFuncs("imapclient") {
		allInstrs(fn, func(i ssa.Instruction) {
			bo, ok := i.(*ssa.BinOp)
			if !ok || (bo.Op != token.EQL && bo.Op != token.NEQ) || isNilConst(bo.X) || isNilConst(bo.Y) {
				return
			}
			tx, ty := bo.X.Type(), bo.Y.Type()
			if !(isCmdPtr(tx) || isIface(tx)) || !(isCmdPtr(ty) || isIface(ty)) {
				return
			}
			n++
			key := fmt.Sprintf("%s: command identity test#%d", fnKey(fn), countKey(c, rule, fnKey(fn)+": command identity test#")+1)
			if isCmdPtr(tx) && isCmdPtr(ty) {
				c.ok(rule, key, bo.Pos(), "both operands are the canonical *Command")
				return
			}
			sets := [2]reprSet{}
			for k, o := range []ssa.Value{bo.X, bo.Y} {
				if isCmdPtr(o.Type()) {
					sets[k] = reprSet{canonical: true}
					continue
				}
				rf := newReprFlow(p)
				rf.val(o)
				sets[k] = rf.out
			}
			if sets[0]["?"] || sets[1]["?"] {
				c.undecided(rule, key, bo.Pos(), "the dynamic types reaching an operand could not be resolved")
				return
			}
			wrapper := func(s reprSet) string {
				var l []string
				for t := range s {
					if t != canonical {
						l = append(l, t)
					}
				}
				sort.Strings(l)
				if len(l) > 3 {
					l = append(l[:3], "…")
				}
				return strings.Join(l, ",")
			}
			mixed := (sets[0][canonical] && wrapper(sets[1]) != "") || (sets[1][canonical] && wrapper(sets[0]) != "")
			c.check(!mixed, rule, key, bo.Pos(), "both sides hold one representation per command",
				fmt.Sprintf("interface comparison of command values whose representations differ: one side may hold the embedded %s, the other a wrapper (%s | %s); for the same command the test is never equal, so the command's pending continuation request or registration is never found", canonical, wrapper(sets[0]), wrapper(sets[1])))
		})
	}
	if n == 0 {
		c.unresolvedRoot("identity comparisons of command values")
	}
}

// ---- C11.h: message numbers and UIDs handed to the caller -----------------

// deliveredNumberSinks: where the client hands a message sequence number or
// UID that came off the wire to its caller. Confirmed by reading; one line
// of reason each. (SearchData.Min/Max are not listed: zero there encodes
// "absent", so a wire zero is not delivered as a message number.)
var deliveredNumberFields = map[string]string{
	"FetchMessageData.SeqNum": "sequence number of a FETCH response, handed to the command's stream or the unilateral handler",
	"FetchItemDataUID.UID":    "UID item of a FETCH response",
	"AppendData.UID":          "APPENDUID response code",
	"SortCommand.nums":        "SORT response numbers",
	"ThreadData.Chain":        "THREAD response numbers",
}

func ruleDeliveredNumbers(c *Ctx, rule string) {
	p := c.P
	flows := map[*ssa.Function]*mustResult{}
	cellKey := func(v ssa.Value) string {
		for {
			switch x := v.(type) {
			case *ssa.Convert:
				v = x.X
				continue
			case *ssa.ChangeType:
				v = x.X
				continue
			}
			break
		}
		switch x := v.(type) {
		case *ssa.UnOp:
			if x.Op == token.MUL {
				switch a := x.X.(type) {
				case *ssa.Alloc:
					return "cell:" + a.Name()
				case *ssa.FreeVar:
					return "cell:" + a.Name()
				}
			}
		case *ssa.Parameter:
			return "param:" + x.Name()
		case *ssa.Const:
			return ""
		}
		if v != nil {
			return "val:" + v.Name()
		}
		return ""
	}
	flowOf := func(fn *ssa.Function) *mustResult {
		if r, ok := flows[fn]; ok {
			return r
		}
		r := mustFlow(fn, facts{}, nil, func(f facts, b *ssa.BasicBlock, s int) facts {
			var add []string
			for _, a := range edgeAtoms(b, s) {
				if a.Const == nil {
					continue
				}
				if kk, ok := constInt(a.Const); ok && kk == 0 && (a.Op == token.NEQ || a.Op == token.GTR) {
					if k := cellKey(a.V); k != "" {
						add = append(add, "nonzero:"+k)
					}
				}
			}
			return f.with(add...)
		})
		flows[fn] = r
		return r
	}
	// does this cell receive a number read from the connection?
	cellFromWire := func(cell ssa.Value) bool {
		refs := cell.Referrers()
		if refs == nil {
			return false
		}
		for _, ref := range *refs {
			switch x := ref.(type) {
			case ssa.CallInstruction:
				if isDecoderMethodCall(x) {
					return true
				}
			case *ssa.Store:
				if x.Addr != cell {
					continue
				}
				v := x.Val
				for {
					if cv, ok := v.(*ssa.Convert); ok {
						v = cv.X
						continue
					}
					break
				}
				if ex, ok := v.(*ssa.Extract); ok {
					if call, ok := ex.Tuple.(*ssa.Call); ok {
						if o := calleeObj(call); o != nil && o.Pkg() != nil && o.Pkg().Path() == "strconv" {
							return true
						}
					}
				}
			}
		}
		return false
	}
	// trace: is v (at instruction at in fn) a wire number, and is it known non-zero?
	var trace func(fn *ssa.Function, at ssa.Instruction, v ssa.Value, depth int) (wire, ok bool, where string)
	trace = func(fn *ssa.Function, at ssa.Instruction, v ssa.Value, depth int) (bool, bool, string) {
		for {
			switch x := v.(type) {
			case *ssa.Convert:
				v = x.X
				continue
			case *ssa.ChangeType:
				v = x.X
				continue
			}
			break
		}
		f, _ := flowOf(fn).at(at)
		if prm := paramOf(v); prm != nil && ssa.Value(prm) != v {
			// a parameter spilled into a cell because a closure captures it
			if f.has("nonzero:" + cellKey(v)) {
				return true, true, fnKey(fn)
			}
			v = prm
		}
		switch x := v.(type) {
		case *ssa.UnOp:
			if x.Op != token.MUL {
				return false, true, ""
			}
			var cell ssa.Value
			switch a := x.X.(type) {
			case *ssa.Alloc:
				cell = a
			case *ssa.FreeVar:
				// captured cell: look at the binding in the parent
				if par := fn.Parent(); par != nil {
					for k, fv := range fn.FreeVars {
						if fv == a {
							allInstrs(par, func(i ssa.Instruction) {
								if mc, ok := i.(*ssa.MakeClosure); ok && mc.Fn == ssa.Value(fn) {
									cell = mc.Bindings[k]
								}
							})
						}
					}
				}
				if !(cellFromWire(a) || (cell != nil && cellFromWire(cell))) {
					return false, true, ""
				}
				return true, f.has("nonzero:cell:" + a.Name()), fnKey(fn)
			default:
				return false, true, ""
			}
			if !cellFromWire(cell) {
				return false, true, ""
			}
			return true, f.has("nonzero:" + cellKey(v)), fnKey(fn)
		case *ssa.Parameter:
			if f.has("nonzero:param:" + x.Name()) {
				return true, true, fnKey(fn)
			}
			if depth >= 3 {
				return false, true, ""
			}
			idx := -1
			for k, prm := range fn.Params {
				if prm == x {
					idx = k
				}
			}
			wire, ok, where := false, true, ""
			for _, site := range callSitesOf(p, fn) {
				args := site.Common().Args
				if idx < 0 || idx >= len(args) {
					continue
				}
				w, o, wh := trace(site.Parent(), site, args[idx], depth+1)
				if w {
					wire = true
					if !o {
						ok = false
						where = wh
					}
				}
			}
			return wire, ok, where
		case *ssa.Extract:
			if call, isCall := x.Tuple.(*ssa.Call); isCall {
				if o := calleeObj(call); o != nil && o.Pkg() != nil && o.Pkg().Path() == "strconv" {
					return true, f.has("nonzero:val:" + x.Name()), fnKey(fn)
				}
			}
			return false, true, ""
		case *ssa.Phi:
			if f.has("nonzero:val:" + x.Name()) {
				return true, true, fnKey(fn)
			}
			wire, ok, where := false, true, ""
			for _, e := range x.Edges {
				w, o, wh := trace(fn, at, e, depth+1)
				if w {
					wire = true
					if !o {
						ok, where = false, wh
					}
				}
			}
			return wire, ok, where
		}
		return false, true, ""
	}
	n := 0
	report := func(fn *ssa.Function, at ssa.Instruction, v ssa.Value, sink, reason string) {
		wire, ok, where := trace(fn, at, v, 0)
		if !wire {
			return
		}
		n++
		key := fmt.Sprintf("%s: %s#%d", fnKey(fn), sink, countKey(c, rule, fmt.Sprintf("%s: %s#", fnKey(fn), sink))+1)
		c.check(ok, rule, key, at.Pos(), "the number read from the wire is tested non-zero before it is handed over ("+reason+")",
			fmt.Sprintf("a number read from the server reaches %s (%s) with no non-zero test on some path (in %s): the server's '0' is delivered to the caller as a message number/UID instead of being reported as an error", sink, reason, where))
	}
	for _, fn := range p.SrcFuncs("imapclient") {
		allInstrs(fn, func(i ssa.Instruction) {
			switch x := i.(type) {
			case *ssa.Store:
				fr, ok := fieldOf(x.Addr)
				if !ok || fr.Field == nil || fr.Owner == nil {
					return
				}
				name := fr.Owner.Obj().Name() + "." + fr.Field.Name()
				reason, listed := deliveredNumberFields[name]
				if !listed {
					return
				}
				// slice-typed fields: the appended elements
				if call, ok := x.Val.(*ssa.Call); ok {
					if b, ok := call.Call.Value.(*ssa.Builtin); ok && b.Name() == "append" && len(call.Call.Args) == 2 {
						if sl, ok := call.Call.Args[1].(*ssa.Slice); ok {
							if arr, ok := sl.X.(*ssa.Alloc); ok {
								for _, ref := range *arr.Referrers() {
									if ia, ok := ref.(*ssa.IndexAddr); ok {
										for _, r2 := range *ia.Referrers() {
											if st, ok := r2.(*ssa.Store); ok && st.Addr == ssa.Value(ia) {
												report(fn, st, st.Val, name, reason)
											}
										}
									}
								}
							}
						}
						return
					}
				}
				report(fn, x, x.Val, name, reason)
			case *ssa.Send:
				if fr, ok := loadedField(x.Chan); ok && fr.is("ExpungeCommand", "seqNums") {
					report(fn, x, x.X, "ExpungeCommand.seqNums", "sequence number of an EXPUNGE response; 0 also ends ExpungeCommand.Next's iteration early")
				}
			case *ssa.Call:
				if x.Call.IsInvoke() || staticCallee(x) != nil {
					return
				}
				// call of the func-typed field UnilateralDataHandler.Expunge
				v := x.Call.Value
				if ph, ok := v.(*ssa.Phi); ok && len(ph.Edges) > 0 {
					v = ph.Edges[0]
				}
				isExp := false
				if fr, ok := loadedField(v); ok && fr.is("UnilateralDataHandler", "Expunge") {
					isExp = true
				}
				if fv, ok := v.(*ssa.Field); ok {
					if fr, ok := fieldOf(fv); ok && fr.is("UnilateralDataHandler", "Expunge") {
						isExp = true
					}
				}
				if isExp && len(x.Call.Args) == 1 {
					report(fn, x, x.Call.Args[0], "UnilateralDataHandler.Expunge", "sequence number of a unilateral EXPUNGE")
				}
			}
		})
	}
	if n < 5 {
		c.unresolvedRoot("deliveries of wire numbers to the caller")
	}
}
