package main

import (
	"fmt"
	"go/token"
	"go/types"
	"strings"

	"golang.org/x/tools/go/ssa"
)

func init() {
	register("C06", "Decided: (a) the backend session is closed by exactly one call, deferred on every path after NewSession succeeded (panic exits included), and Conn.session is assigned only there; (b) every goroutine of the server recovers from panics and the serving goroutine closes the connection and unregisters it; (c) every server decoder gets the buffered-literal check before use, that check refuses every size above 4096 (evaluated), and in APPEND the size limit dominates accepting, reading and handing over the literal; (d) every recursion that consumes wire input is depth-bounded (through Decoder.List's checked guard or a strictly increasing, capped counter); (e) the IDLE goroutine is always released and reports through a buffered channel; (f) no sum of two wire-supplied integers reaches a slice bound unguarded; (g) every FETCH response writer (which holds the connection's write lock) is closed on all paths. Not decided: absence of every panic for every byte stream (index expressions and the remaining panic sites need value ranges).", checkC06)
}

func checkC06(c *Ctx) {
	p := c.P
	c.rule("C06.a", "session closed exactly once, on every exit after NewSession succeeded", 4)
	c.rule("C06.b", "every server goroutine recovers; serve closes and unregisters the connection", 4)
	c.rule("C06.c", "buffered literals capped at 4096 bytes; APPEND limit checked before the literal is accepted or read", 6)
	c.rule("C06.d", "input-driven recursion is depth-bounded", 2)
	c.rule("C06.e", "IDLE goroutine always released; result channel buffered", 3)
	c.rule("C06.f", "wire-supplied integers: no unguarded sum reaches a slice bound", 1)
	c.rule("C06.g", "every FETCH response writer is closed on all paths", 3)
	c.rule("C06.h", "the decoder un-reads a byte only directly after a successful byte read (bufio typestate; mustUnreadByte panics otherwise)", 9)
	ruleUnreadTypestate(c, "C06.h")
	c.rule("C06.j", "every round of a server-side parsing loop consumes input or leaves the loop", 5)
	ruleParseLoopProgress(c, "C06.j", "imapserver", "internal")
	c.rule("C06.k", "no allocation is sized by a number the peer announced (a literal header alone must not make the server allocate)", 4)
	ruleNoWireSizedAlloc(c, "C06.k")
	c.rule("C06.l", "a constant index or offset into a decoded string or slice is dominated by a length test", 3)
	ruleConstIndexGuarded(c, "C06.l", "imapserver", "imapserver/imapmemserver")
	c.rule("C06.m", "a writer object that holds the response encoder in a field ends it on every path of its Close", 1)
	ruleFieldEncoderEnded(c, "C06.m")
	c.rule("C06.n", "a matcher that recurses over string suffixes inside a loop memoises failed sub-problems (no exponential LIST pattern)", 1)
	ruleOverlappingRecursionMemoised(c, "C06.n", "imapserver", "imapserver/imapmemserver", "internal/imapwire")
	c.rule("C06.L", "layering lemma", 1)
	c.rule("C06.i", "no lock-order cycle or same-mutex nesting on the serving goroutine (a self-deadlocked connection goroutine never ends)", 8)
	ruleLockOrder(c, "C06.i", newLockAnalysis(c.P, serverRoots(c.P), layeringCut(c, "C06.L")))
	c.assume("a panic between acquire and release is contained by the goroutine's recover (C06.b) which ends the connection; panic edges are not paths of the pairing rules")

	serve := p.Func("imapserver", "Conn", "serve")
	if serve == nil {
		c.unresolvedRoot("(*Conn).serve")
		return
	}
	ifaces := sessionIfaces(p)

	// ---- (a) ---------------------------------------------------------------
	var closeSites []ssa.Instruction
	var closeFn *ssa.Function
	for _, fn := range p.SrcFuncs("imapserver") {
		allInstrs(fn, func(i ssa.Instruction) {
			if call, ok := i.(ssa.CallInstruction); ok {
				if m, ok := isSessionInvoke(ifaces, call); ok && m == "Close" {
					closeSites = append(closeSites, i)
					closeFn = fn
				}
			}
		})
	}
	c.check(len(closeSites) == 1, "C06.a", "Session.Close call sites", serve.Pos(),
		"exactly one call site of Session.Close in the server", fmt.Sprintf("%d call sites of Session.Close: the session can be closed twice or never", len(closeSites)))
	if len(closeSites) == 1 {
		site := closeSites[0]
		inLoop := reaches2(site.Block(), site.Block())
		isDeferredClosure := false
		var deferInstr *ssa.Defer
		allInstrs(serve, func(i ssa.Instruction) {
			if d, ok := i.(*ssa.Defer); ok {
				if mc, ok := d.Call.Value.(*ssa.MakeClosure); ok && mc.Fn == closeFn {
					isDeferredClosure = true
					deferInstr = d
				}
			}
		})
		c.check(isDeferredClosure && !inLoop, "C06.a", "Session.Close is deferred by serve", site.Pos(),
			"the single Close call lives in a closure deferred by serve and is not in a loop",
			"Session.Close is not (only) run by a function deferred in serve")
		if deferInstr != nil {
			gf := mustFlow(serve, facts{}, func(f facts, i ssa.Instruction) facts {
				if i == ssa.Instruction(deferInstr) {
					return f.with("deferred-close")
				}
				return f
			}, func(f facts, b *ssa.BasicBlock, s int) facts { return f.with(valueEdgeFacts(b, s)...) })
			nexit, bad := 0, 0
			var badPos token.Pos
			for _, b := range serve.Blocks {
				if b == serve.Recover || len(b.Instrs) == 0 {
					continue
				}
				last := b.Instrs[len(b.Instrs)-1]
				switch last.(type) {
				case *ssa.Return, *ssa.Panic:
					fs, reach := gf.at(last)
					if !reach || !fs.has("ok:field:NewSession") {
						continue
					}
					nexit++
					if !fs.has("deferred-close") {
						bad++
						badPos = last.Pos()
					}
				}
			}
			if badPos == token.NoPos {
				badPos = deferInstr.Pos()
			}
			c.check(nexit > 0 && bad == 0, "C06.a", "serve:every exit after NewSession closes the session", badPos,
				fmt.Sprintf("%d exits (returns and panics) after a successful NewSession all run the deferred Close", nexit),
				fmt.Sprintf("%d of %d exits after a successful NewSession are not covered by the deferred Close: the backend session leaks", bad, nexit))
		}
	}
	for _, fn := range p.SrcFuncs("imapserver", "imapserver/imapmemserver") {
		allInstrs(fn, func(i ssa.Instruction) {
			if st, ok := i.(*ssa.Store); ok {
				if r, ok := fieldOf(st.Addr); ok && r.is("Conn", "session") {
					c.check(fn == serve, "C06.a", fnKey(fn)+":store Conn.session", st.Pos(), "Conn.session is assigned only by serve", "Conn.session is reassigned outside serve: the deferred Close closes a different session")
				}
			}
		})
	}

	// ---- (b) ---------------------------------------------------------------
	hasRecover := func(fn *ssa.Function) bool {
		found := false
		allInstrs(fn, func(i ssa.Instruction) {
			d, ok := i.(*ssa.Defer)
			if !ok || d.Block() != fn.Blocks[0] && !d.Block().Dominates(fn.Blocks[len(fn.Blocks)-1]) && false {
				return
			}
			if mc, ok := d.Call.Value.(*ssa.MakeClosure); ok {
				allInstrs(mc.Fn.(*ssa.Function), func(j ssa.Instruction) {
					if call, ok := j.(*ssa.Call); ok {
						if b, ok := call.Call.Value.(*ssa.Builtin); ok && b.Name() == "recover" {
							found = true
						}
					}
				})
			}
		})
		return found
	}
	for _, fn := range p.SrcFuncs("imapserver", "imapserver/imapmemserver") {
		allInstrs(fn, func(i ssa.Instruction) {
			g, ok := i.(*ssa.Go)
			if !ok {
				return
			}
			var target *ssa.Function
			if mc, ok := g.Call.Value.(*ssa.MakeClosure); ok {
				target = mc.Fn.(*ssa.Function)
			} else {
				target = g.Call.StaticCallee()
			}
			if target == nil {
				c.undecided("C06.b", fnKey(fn)+":go <dynamic>", g.Pos(), "goroutine target is not statically resolved")
				return
			}
			c.check(hasRecover(target), "C06.b", "go "+fnKey(target), g.Pos(), "the goroutine defers a recover()", "goroutine without a deferred recover(): a panic in it kills the whole server process")
		})
	}
	// serve: conn.Close and unregistering are deferred
	var closesConn, unregisters, registers bool
	// the deferred region of serve: deferred closures and deferred calls, with
	// the module functions they call statically (helpers such as an
	// "untrackConn" wrapper); the body region: serve and its non-deferred
	// static callees
	var deferredRoots, bodyRoots []*ssa.Function
	bodyRoots = append(bodyRoots, serve)
	allInstrs(serve, func(i ssa.Instruction) {
		switch x := i.(type) {
		case *ssa.Defer:
			if mc, ok := x.Call.Value.(*ssa.MakeClosure); ok {
				deferredRoots = append(deferredRoots, mc.Fn.(*ssa.Function))
			} else if cal := staticCallee(x); cal != nil && inModule(cal) {
				deferredRoots = append(deferredRoots, cal)
			}
		case *ssa.Call:
			if cal := staticCallee(x); cal != nil && inModule(cal) && cal.Blocks != nil {
				bodyRoots = append(bodyRoots, cal)
			}
		}
	})
	scan := func(roots []*ssa.Function, deferred bool) {
		for f := range staticReach(roots, 3) {
			allInstrs(f, func(i ssa.Instruction) {
				switch x := i.(type) {
				case ssa.CallInstruction:
					cc := x.Common()
					if cc.IsInvoke() && cc.Method.Name() == "Close" {
						if r, ok := loadedField(cc.Value); ok && r.is("Conn", "conn") && deferred {
							closesConn = true
						}
					}
					if b, ok := cc.Value.(*ssa.Builtin); ok && b.Name() == "delete" && deferred {
						if r, ok := loadedField(cc.Args[0]); ok && r.is("Server", "conns") {
							unregisters = true
						}
					}
				case *ssa.MapUpdate:
					if r, ok := loadedField(x.Map); ok && r.is("Server", "conns") && !deferred {
						registers = true
					}
				}
			})
		}
	}
	scan(deferredRoots, true)
	// the body region excludes what is only reachable through the deferred roots
	scan(bodyRoots, false)
	c.check(hasRecover(serve) && closesConn, "C06.b", "serve: recover + conn.Close deferred", serve.Pos(),
		"serve defers a function that recovers and closes the network connection", "serve does not both recover and close the connection on every exit")
	c.check(registers == unregisters && unregisters, "C06.b", "serve: conns insert paired with deferred delete", serve.Pos(),
		"the connection is unregistered by a deferred delete", "the connection is registered in Server.conns but not unregistered by a deferred delete")

	// ---- (c) ---------------------------------------------------------------
	ruleBufferedLiteralCap(c, "C06.c")

	// ---- (d) ---------------------------------------------------------------
	ruleRecursion(c, "C06.d", func(f *ssa.Function) bool {
		pp := pkgPathOf(f)
		return pp == modPath+"/imapserver" || pp == modPath+"/internal/imapwire" || pp == modPath+"/internal" || pp == modPath+"/imapserver/imapmemserver"
	})

	// ---- (e) ---------------------------------------------------------------
	ruleIdleRelease(c, "C06.e")

	// ---- (f) ---------------------------------------------------------------
	ruleWireIntSums(c, "C06.f")

	// ---- (g) ---------------------------------------------------------------
	ruleFetchWriterClosed(c, "C06.g")
}

func reaches2(from, to *ssa.BasicBlock) bool {
	for _, s := range from.Succs {
		if reaches(s, to) {
			return true
		}
	}
	return false
}

func ruleBufferedLiteralCap(c *Ctx, rule string) {
	p := c.P
	// every server-side NewDecoder is given the check before it is used
	for _, fn := range p.SrcFuncs("imapserver", "imapserver/imapmemserver") {
		allInstrs(fn, func(i ssa.Instruction) {
			call, ok := i.(*ssa.Call)
			if !ok {
				return
			}
			obj := calleeObj(call)
			if obj == nil || obj.Name() != "NewDecoder" || obj.Pkg() == nil || !strings.HasSuffix(obj.Pkg().Path(), "/internal/imapwire") {
				return
			}
			set := false
			usedBefore := false
			for _, j := range call.Block().Instrs {
				switch x := j.(type) {
				case *ssa.Store:
					if fa, ok := x.Addr.(*ssa.FieldAddr); ok && fa.X == ssa.Value(call) {
						if r, _ := fieldOf(fa); r.Field.Name() == "CheckBufferedLiteralFunc" {
							if !isNilConst(x.Val) {
								set = true
							}
						}
					}
				case ssa.CallInstruction:
					for _, a := range x.Common().Args {
						if a == ssa.Value(call) && !set {
							usedBefore = true
						}
					}
				}
			}
			c.check(set && !usedBefore, rule, fnKey(fn)+":NewDecoder→CheckBufferedLiteralFunc", call.Pos(),
				"the buffered-literal check is installed before the decoder is used",
				"a server decoder is used without the buffered-literal check: a literal of any announced size is read into memory")
		})
	}
	// the check refuses everything above 4096
	cbl := p.Func("imapserver", "Conn", "checkBufferedLiteral")
	if cbl == nil {
		c.unresolvedRoot("(*Conn).checkBufferedLiteral")
	} else {
		obj := cbl.Object().(*types.Func)
		var bad []string
		rows := 0
		for _, size := range []int64{0, 1, 4095, 4096, 4097, 8192, 1 << 40} {
			for _, nonSync := range []bool{false, true} {
				in := &Interp{P: p}
				accepted := false
				in.Call = func(key string, recv Val, args []Val) (Val, bool) {
					switch key {
					case "(*Conn).acceptLiteral":
						accepted = true
						return errV{nonnil: false}, true
					case "(*Conn).rejectLiteral":
						return nil, true
					}
					return nil, false
				}
				v, err := in.Eval(obj, ptrV{&objV{path: "c", fields: map[string]Val{}}}, []Val{mkInt(size), mkBool(nonSync)})
				if err != nil {
					c.undecided(rule, "checkBufferedLiteral table", cbl.Pos(), err.Error())
					return
				}
				rows++
				isNil, ok := valIsNilErr(v)
				if !ok {
					c.undecided(rule, "checkBufferedLiteral table", cbl.Pos(), "result is not an error value: "+showVal(v))
					return
				}
				if size > 4096 && (isNil || accepted) {
					bad = append(bad, fmt.Sprintf("size=%d nonSync=%v accepted", size, nonSync))
				}
			}
		}
		c.evals += rows
		c.check(len(bad) == 0, rule, "checkBufferedLiteral table", cbl.Pos(), fmt.Sprintf("%d rows: every size > 4096 is refused without reaching acceptLiteral", rows),
			"a literal above 4096 bytes can be buffered in memory: "+strings.Join(bad, "; "))
	}
	// APPEND: the limit test dominates accepting / reading / handing over
	ha := p.Func("imapserver", "Conn", "handleAppend")
	if ha == nil {
		c.unresolvedRoot("(*Conn).handleAppend")
		return
	}
	gf := mustFlow(ha, facts{}, nil, func(f facts, b *ssa.BasicBlock, s int) facts {
		for _, a := range edgeAtoms(b, s) {
			if call, _ := callOf(a.V); call != nil && a.Const != nil {
				if obj := calleeObj(call); obj != nil && obj.Name() == "Size" && (a.Op == token.LEQ || a.Op == token.LSS) {
					if k, ok := constInt(a.Const); ok && k > 0 {
						return f.with("within-append-limit")
					}
				}
			}
		}
		return f
	})
	ifaces := sessionIfaces(p)
	n := 0
	allInstrs(ha, func(i ssa.Instruction) {
		call, ok := i.(ssa.CallInstruction)
		if !ok {
			return
		}
		what := ""
		if m, ok := isSessionInvoke(ifaces, call); ok && m == "Append" {
			what = "Session.Append"
		} else if isMethod(calleeObj(call), "imapserver", "Conn", "acceptLiteral") {
			what = "acceptLiteral"
		} else if obj := calleeObj(call); obj != nil && obj.Pkg() != nil && obj.Pkg().Path() == "io" && obj.Name() == "Copy" {
			what = "io.Copy"
		}
		if what == "" {
			return
		}
		n++
		fs, reach := gf.at(i)
		if !reach {
			return
		}
		c.check(fs.has("within-append-limit"), rule, fmt.Sprintf("handleAppend:%s#%d", what, n), i.Pos(),
			"dominated by the edge on which the literal size is within the APPEND limit",
			what+" can be reached with a literal larger than the APPEND limit: the payload is accepted/read before the size is refused")
	})
}

func ruleIdleRelease(c *Ctx, rule string) {
	p := c.P
	var idle *ssa.Function
	for _, fn := range p.SrcFuncs("imapserver") {
		if fn.Parent() == nil && contains(c.labelsOf(fn), "IDLE") {
			idle = fn
		}
	}
	if idle == nil {
		c.unresolvedRoot("IDLE handler")
		return
	}
	var goInstr *ssa.Go
	allInstrs(idle, func(i ssa.Instruction) {
		if g, ok := i.(*ssa.Go); ok {
			goInstr = g
		}
	})
	if goInstr == nil {
		c.unresolvedRoot("go statement of the IDLE handler")
		return
	}
	// the stop channel: an unbuffered chan passed (captured) to the goroutine and closed by the handler
	gf := mustFlow(idle, facts{}, func(f facts, i ssa.Instruction) facts {
		if call, ok := i.(*ssa.Call); ok {
			if b, ok := call.Call.Value.(*ssa.Builtin); ok && b.Name() == "close" {
				return f.with("stop-closed")
			}
		}
		if i == ssa.Instruction(goInstr) {
			return f.with("spawned")
		}
		return f
	}, nil)
	nret, bad := 0, 0
	var badPos token.Pos = goInstr.Pos()
	for _, ret := range returnsOf(idle) {
		fs, reach := gf.at(ret)
		if !reach || !fs.has("spawned") {
			continue
		}
		nret++
		if !fs.has("stop-closed") {
			bad++
			badPos = ret.Pos()
		}
	}
	c.check(nret > 0 && bad == 0, rule, "IDLE: close(stop) on every exit after the goroutine starts", badPos,
		fmt.Sprintf("all %d exits after the go statement have closed the stop channel", nret),
		fmt.Sprintf("%d of %d exits leave the idling goroutine running for ever", bad, nret))
	// result channel buffered, goroutine only sends on it
	var targetFn *ssa.Function
	if mc, ok := goInstr.Call.Value.(*ssa.MakeClosure); ok {
		targetFn, _ = mc.Fn.(*ssa.Function)
	} else {
		targetFn = goInstr.Call.StaticCallee() // `go c.runIdle(stop, done)`
	}
	if targetFn == nil || targetFn.Blocks == nil {
		c.undecided(rule, "IDLE goroutine", goInstr.Pos(), "the goroutine's function cannot be resolved")
		return
	}
	okSend := true
	nsend := 0
	for _, f := range withAnon(targetFn) {
		allInstrs(f, func(i ssa.Instruction) {
			if s, ok := i.(*ssa.Send); ok {
				nsend++
				buffered := false
				for _, src := range chanSources(s.Chan, map[ssa.Value]bool{}) {
					if mk, ok := src.(*ssa.MakeChan); ok {
						if k, ok := constInt(mk.Size); ok && k >= 1 {
							buffered = true
						}
					}
				}
				if !buffered {
					okSend = false
				}
			}
		})
	}
	c.check(okSend && nsend > 0, rule, "IDLE goroutine sends only to a buffered channel", goInstr.Pos(),
		fmt.Sprintf("%d sends, all to a channel made with capacity ≥ 1: the goroutine can always finish", nsend),
		"the idling goroutine sends its result on an unbuffered channel: it blocks for ever when the handler has already returned")
	c.check(hasRecoverIn(targetFn), rule, "IDLE goroutine recovers", goInstr.Pos(), "deferred recover present", "no deferred recover in the idling goroutine")
}

func hasRecoverIn(fn *ssa.Function) bool {
	found := false
	for _, f := range withAnon(fn) {
		allInstrs(f, func(j ssa.Instruction) {
			if call, ok := j.(*ssa.Call); ok {
				if b, ok := call.Call.Value.(*ssa.Builtin); ok && b.Name() == "recover" {
					found = true
				}
			}
		})
	}
	return found
}

// chanSources follows a channel value back to where it was made (through
// closure captures).
func chanSources(v ssa.Value, seen map[ssa.Value]bool) []ssa.Value {
	if seen[v] {
		return nil
	}
	seen[v] = true
	switch x := v.(type) {
	case *ssa.MakeChan:
		return []ssa.Value{x}
	case *ssa.FreeVar:
		fn := x.Parent()
		idx := -1
		for i, fv := range fn.FreeVars {
			if fv == x {
				idx = i
			}
		}
		var out []ssa.Value
		if par := fn.Parent(); par != nil {
			allInstrs(par, func(i ssa.Instruction) {
				if mc, ok := i.(*ssa.MakeClosure); ok && mc.Fn == fn && idx < len(mc.Bindings) {
					out = append(out, chanSources(mc.Bindings[idx], seen)...)
				}
			})
		}
		return out
	case *ssa.UnOp:
		if x.Op == token.MUL {
			var out []ssa.Value
			if al, ok := x.X.(*ssa.Alloc); ok {
				for _, ref := range *al.Referrers() {
					if st, ok := ref.(*ssa.Store); ok && st.Addr == ssa.Value(al) {
						out = append(out, chanSources(st.Val, seen)...)
					}
				}
			}
			if fv, ok := x.X.(*ssa.FreeVar); ok {
				for _, src := range chanSources(fv, seen) {
					if al, ok := src.(*ssa.Alloc); ok {
						for _, ref := range *al.Referrers() {
							if st, ok := ref.(*ssa.Store); ok && st.Addr == ssa.Value(al) {
								out = append(out, chanSources(st.Val, seen)...)
							}
						}
					}
				}
			}
			return out
		}
	case *ssa.Alloc:
		return []ssa.Value{x}
	case *ssa.ChangeType:
		return chanSources(x.X, seen)
	case *ssa.Parameter:
		// a channel handed to a function started with `go f(ch)` (or called)
		fn := x.Parent()
		idx := -1
		for i, q := range fn.Params {
			if q == x {
				idx = i
			}
		}
		var out []ssa.Value
		if gateProg != nil && idx >= 0 {
			for _, site := range callSitesOf(gateProg, fn) {
				if args := site.Common().Args; idx < len(args) {
					out = append(out, chanSources(args[idx], seen)...)
				}
			}
		}
		return out
	}
	return nil
}

// ---- (f) wire integers -------------------------------------------------------

// wireIntFields: struct fields whose address is handed to a numeric Decoder
// method in server-side code (their value comes straight from the wire).
func wireIntFields(p *Program) map[*types.Var]bool {
	out := map[*types.Var]bool{}
	for _, fn := range p.SrcFuncs("imapserver", "internal") {
		allInstrs(fn, func(i ssa.Instruction) {
			call, ok := i.(ssa.CallInstruction)
			if !ok || !isDecoderMethodCall(call) {
				return
			}
			n := calleeObj(call).Name()
			if !strings.Contains(n, "Number") && !strings.Contains(n, "UID") && !strings.Contains(n, "ModSeq") {
				return
			}
			for _, a := range call.Common().Args {
				if fa, ok := a.(*ssa.FieldAddr); ok {
					r, _ := fieldOf(fa)
					out[r.Field] = true
				}
			}
		})
	}
	return out
}

func ruleWireIntSums(c *Ctx, rule string) {
	p := c.P
	wf := wireIntFields(p)
	var names []string
	for f := range wf {
		names = append(names, f.Name())
	}
	c.note("wire-supplied integer fields: %s", strings.Join(names, ","))
	if len(wf) < 2 {
		c.unresolvedRoot("wire-supplied integer fields (SectionPartial.Offset/Size)")
		return
	}
	isWire := func(v ssa.Value) (*types.Var, bool) {
		for {
			switch x := v.(type) {
			case *ssa.Convert:
				v = x.X
				continue
			case *ssa.ChangeType:
				v = x.X
				continue
			}
			break
		}
		if r, ok := loadedField(v); ok && wf[r.Field] {
			return r.Field, true
		}
		return nil, false
	}
	nsites := 0
	for _, fn := range p.SrcFuncs("imapserver", "imapserver/imapmemserver") {
		allInstrs(fn, func(i ssa.Instruction) {
			bo, ok := i.(*ssa.BinOp)
			if !ok || (bo.Op != token.ADD && bo.Op != token.MUL) {
				return
			}
			fa, okA := isWire(bo.X)
			fb, okB := isWire(bo.Y)
			if !okA || !okB {
				return
			}
			nsites++
			key := fmt.Sprintf("%s:%s%s%s", fnKey(fn), fa.Name(), bo.Op, fb.Name())
			// is the sum guarded by a dominating test `b < X - a` (or symmetric)?
			guarded := false
			for _, blk := range fn.Blocks {
				for si := range blk.Succs {
					if !(blk.Succs[si] == bo.Block() || blk.Succs[si].Dominates(bo.Block())) {
						continue
					}
					for _, a := range edgeAtoms(blk, si) {
						sides := []ssa.Value{a.V, a.Other}
						for k, s := range sides {
							if s == nil {
								continue
							}
							if f1, ok := isWire(s); ok {
								other := sides[1-k]
								if sub, ok := other.(*ssa.BinOp); ok && sub.Op == token.SUB {
									if f2, ok := isWire(sub.Y); ok && ((f1 == fa && f2 == fb) || (f1 == fb && f2 == fa)) {
										guarded = true
									}
								}
							}
						}
					}
				}
			}
			if guarded {
				c.ok(rule, key, bo.Pos(), "sum of two wire integers behind a dominating `x < limit - y` test")
				return
			}
			// does the sum reach a slice bound or an index?
			reachesBound := false
			var walk func(v ssa.Value, seen map[ssa.Value]bool)
			walk = func(v ssa.Value, seen map[ssa.Value]bool) {
				if seen[v] {
					return
				}
				seen[v] = true
				for _, ref := range *v.Referrers() {
					switch r := ref.(type) {
					case *ssa.Slice:
						if r.Low == v || r.High == v || r.Max == v {
							reachesBound = true
						}
					case *ssa.IndexAddr:
						if r.Index == v {
							reachesBound = true
						}
					case *ssa.Phi:
						walk(r, seen)
					case *ssa.Convert:
						walk(r, seen)
					case *ssa.MakeSlice:
						reachesBound = true
					}
				}
			}
			walk(bo, map[ssa.Value]bool{})
			c.check(!reachesBound, rule, key, bo.Pos(), "the sum does not reach a slice bound, index or allocation size",
				"the unguarded sum of two integers taken from the wire is used as a slice bound: it overflows for large values and the slice expression panics")
		})
	}
	if nsites == 0 {
		c.okTrivial(rule, "no sum of two wire integers in the server", token.NoPos, "0 sites in imapserver and imapmemserver")
	}
	// a wire integer used directly as a slice bound must be dominated by a
	// comparison of that integer with a length
	stripConv := func(v ssa.Value) ssa.Value {
		for {
			switch x := v.(type) {
			case *ssa.Convert:
				v = x.X
			case *ssa.ChangeType:
				v = x.X
			default:
				return v
			}
		}
	}
	isLen := func(v ssa.Value) bool {
		call, ok := stripConv(v).(*ssa.Call)
		if !ok {
			return false
		}
		b, ok := call.Call.Value.(*ssa.Builtin)
		return ok && b.Name() == "len"
	}
	for _, fn := range p.SrcFuncs("imapserver", "imapserver/imapmemserver") {
		n := 0
		allInstrs(fn, func(i ssa.Instruction) {
			sl, ok := i.(*ssa.Slice)
			if !ok {
				return
			}
			for _, bound := range []ssa.Value{sl.Low, sl.High} {
				if bound == nil {
					continue
				}
				f, ok := isWire(bound)
				if !ok {
					continue
				}
				n++
				guarded := false
				for _, blk := range fn.Blocks {
					for si := range blk.Succs {
						if !(blk.Succs[si] == sl.Block() || blk.Succs[si].Dominates(sl.Block())) {
							continue
						}
						for _, a := range edgeAtoms(blk, si) {
							if a.Other == nil {
								continue
							}
							if f1, ok := isWire(a.V); ok && f1 == f && isLen(a.Other) && (a.Op == token.LEQ || a.Op == token.LSS) {
								guarded = true
							}
							if f1, ok := isWire(a.Other); ok && f1 == f && isLen(a.V) && (a.Op == token.GEQ || a.Op == token.GTR) {
								guarded = true
							}
						}
					}
				}
				c.check(guarded, rule, fmt.Sprintf("%s:slice bound %s#%d", fnKey(fn), f.Name(), n), sl.Pos(),
					"the wire-supplied bound is compared with a length on a dominating edge",
					"a number taken from the wire is used as a slice bound without a dominating comparison with the length: the slice expression panics for large values")
			}
		})
	}
}

// ---- (g) FETCH response writers ----------------------------------------------

func ruleFetchWriterClosed(c *Ctx, rule string) {
	p := c.P
	create := p.Func("imapserver", "FetchWriter", "CreateMessage")
	closeM := p.Func("imapserver", "FetchResponseWriter", "Close")
	if create == nil || closeM == nil {
		c.unresolvedRoot("FetchWriter.CreateMessage / FetchResponseWriter.Close")
		return
	}
	isFRW := func(t types.Type) bool {
		pt, ok := t.(*types.Pointer)
		if !ok {
			return false
		}
		n, ok := pt.Elem().(*types.Named)
		return ok && n.Obj().Name() == "FetchResponseWriter"
	}
	// closesParam[f][i]: every return of f has closed (or handed on) parameter i
	closes := map[*ssa.Function]map[int]bool{}
	flowFor := func(fn *ssa.Function, v ssa.Value) *mustResult {
		return mustFlow(fn, facts{}, func(f facts, i ssa.Instruction) facts {
			call, ok := i.(ssa.CallInstruction)
			if !ok {
				return f
			}
			if _, isDefer := i.(*ssa.Defer); isDefer {
				if staticCallee(call) == closeM && call.Common().Args[0] == v {
					return f.with("closed")
				}
				return f
			}
			if _, isGo := i.(*ssa.Go); isGo {
				return f
			}
			cal := staticCallee(call)
			if cal == closeM && len(call.Common().Args) > 0 && call.Common().Args[0] == v {
				return f.with("closed")
			}
			if cal != nil {
				for k, a := range call.Common().Args {
					if a == v && closes[cal][k] {
						return f.with("closed")
					}
				}
			}
			return f
		}, nil)
	}
	funcs := p.SrcFuncs("imapserver", "imapserver/imapmemserver")
	for changed := true; changed; {
		changed = false
		for _, fn := range funcs {
			for k, prm := range fn.Params {
				if !isFRW(prm.Type()) || closes[fn][k] {
					continue
				}
				gf := flowFor(fn, prm)
				all, n := true, 0
				for _, ret := range returnsOf(fn) {
					fs, reach := gf.at(ret)
					if !reach {
						continue
					}
					n++
					if !fs.has("closed") {
						all = false
					}
				}
				if all && n > 0 {
					if closes[fn] == nil {
						closes[fn] = map[int]bool{}
					}
					closes[fn][k] = true
					changed = true
				}
			}
		}
	}
	for _, fn := range funcs {
		idx := 0
		allInstrs(fn, func(i ssa.Instruction) {
			call, ok := i.(*ssa.Call)
			if !ok || staticCallee(call) != create {
				return
			}
			idx++
			gf := flowFor(fn, call)
			key := fmt.Sprintf("%s:CreateMessage#%d", fnKey(fn), idx)
			var bad *ssa.Return
			n := 0
			for _, ret := range returnsOf(fn) {
				if !reaches(call.Block(), ret.Block()) {
					continue
				}
				fs, reach := gf.at(ret)
				if !reach {
					continue
				}
				n++
				if !fs.has("closed") {
					bad = ret
				}
			}
			if bad != nil {
				// name the callee that fails to close, when the writer was handed on
				detail := "a path returns without closing the FETCH response writer: the connection's write lock stays held and the next response (and the session cleanup) blocks for ever"
				for _, ref := range *call.Referrers() {
					if c2, ok := ref.(ssa.CallInstruction); ok {
						if cal := staticCallee(c2); cal != nil && cal != closeM {
							for k, a := range c2.Common().Args {
								if a == ssa.Value(call) && !closes[cal][k] {
									detail = fmt.Sprintf("the writer is handed to %s, which has a return path that does not Close it: the connection's write lock stays held, the next response blocks for ever and the session is never closed", fnKey(cal))
								}
							}
						}
					}
				}
				c.fail(rule, key, call.Pos(), detail)
			} else {
				c.ok(rule, key, call.Pos(), fmt.Sprintf("closed (directly or by the callee it is handed to) on all %d return paths", n))
			}
		})
	}
	// the parameters themselves (documented contract "Close must be called")
	for _, fn := range funcs {
		for k, prm := range fn.Params {
			if isFRW(prm.Type()) && k > 0 && fn.Parent() == nil {
				c.check(closes[fn][k], rule, fmt.Sprintf("%s:param %s", fnKey(fn), prm.Name()), fn.Pos(),
					"every return path closes the writer it received", "a return path does not close the FETCH response writer it received")
			}
		}
	}
}

// staticReach: roots plus the module functions reachable from them through
// static calls (not through defers of the roots' callers), up to depth levels.
func staticReach(roots []*ssa.Function, depth int) map[*ssa.Function]bool {
	out := map[*ssa.Function]bool{}
	var rec func(f *ssa.Function, d int)
	rec = func(f *ssa.Function, d int) {
		if f == nil || out[f] || f.Blocks == nil {
			return
		}
		out[f] = true
		if d == 0 {
			return
		}
		allInstrs(f, func(i ssa.Instruction) {
			if c, ok := i.(ssa.CallInstruction); ok {
				if cal := staticCallee(c); cal != nil && inModule(cal) {
					rec(cal, d-1)
				}
				if mc, ok := c.Common().Value.(*ssa.MakeClosure); ok {
					rec(mc.Fn.(*ssa.Function), d-1)
				}
			}
		})
	}
	for _, r := range roots {
		rec(r, depth)
	}
	return out
}
