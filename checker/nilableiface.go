package main

import (
	"fmt"
	"go/token"
	"go/types"
	"sort"
	"strings"

	"golang.org/x/tools/go/ssa"
)

// ruleNilableIfaceFields: C11.l. An interface-typed field of a struct the
// client hands to its caller is nil-able when the client's own code stores a
// value into it that is the nil interface on some path (a zero-initialised
// local that is assigned only under a condition — `NIL` on the wire —, a nil
// constant merged with a real value, or a helper that returns nil on some
// path). Every place in the client that calls through such a field — a
// method invoked on the loaded value, or the value passed as an argument to a
// call (io.ReadAll, io.Copy, …) — must be preceded on every path by a
// `field != nil` test on the same object. The stores kill the fact; calls in
// between are assumed not to reset the field (the objects are values or
// owned by the consumer).
func ruleNilableIfaceFields(c *Ctx, rule string, pkgs ...string) {
	p := c.P
	funcs := p.SrcFuncs(pkgs...)
	sort.Slice(funcs, func(i, j int) bool { return funcs[i].Pos() < funcs[j].Pos() })
	isIface := func(t types.Type) bool {
		_, ok := t.Underlying().(*types.Interface)
		return ok && !isErrorType(t)
	}
	var mayBeNil func(v ssa.Value, seen map[ssa.Value]bool, depth int) bool
	mayBeNil = func(v ssa.Value, seen map[ssa.Value]bool, depth int) bool {
		if seen[v] {
			return false
		}
		seen[v] = true
		switch x := v.(type) {
		case *ssa.Const:
			return x.IsNil()
		case *ssa.Phi:
			for k, e := range x.Edges {
				if isNilConst(e) && enumDefaultEdge(x.Block().Preds[k], x.Block()) {
					// the implicit default of a switch that names every
					// declared constant of its operand's type
					continue
				}
				if mayBeNil(e, seen, depth) {
					return true
				}
			}
		case *ssa.ChangeInterface:
			return mayBeNil(x.X, seen, depth)
		case *ssa.UnOp:
			// a load of a local cell: any store of a maybe-nil value, or no
			// store on some path (zero value) — approximated by "some store of
			// nil or the cell has fewer stores than …": only the explicit case
			if x.Op == token.MUL {
				if cell, ok := x.X.(*ssa.Alloc); ok {
					for _, r := range *cell.Referrers() {
						if st, ok := r.(*ssa.Store); ok && st.Addr == ssa.Value(cell) && mayBeNil(st.Val, seen, depth) {
							return true
						}
					}
				}
			}
		case *ssa.Extract:
			if call, ok := x.Tuple.(*ssa.Call); ok && depth > 0 {
				if cal := staticCallee(call); cal != nil && cal.Blocks != nil && strings.HasPrefix(pkgPathOf(cal), modPath) {
					for _, r := range returnsOf(cal) {
						if n := len(r.Results); n > 0 && isErrorType(r.Results[n-1].Type()) && !isNilConst(unspill(r.Results[n-1])) {
							// a failure return: the caller tests the error
							continue
						}
						if x.Index < len(r.Results) && mayBeNil(unspill(r.Results[x.Index]), map[ssa.Value]bool{}, depth-1) {
							return true
						}
					}
				}
			}
		case *ssa.Call:
			if depth > 0 {
				if cal := staticCallee(x); cal != nil && cal.Blocks != nil && strings.HasPrefix(pkgPathOf(cal), modPath) {
					for _, r := range returnsOf(cal) {
						if len(r.Results) == 1 && mayBeNil(unspill(r.Results[0]), map[ssa.Value]bool{}, depth-1) {
							return true
						}
					}
				}
			}
		}
		return false
	}
	nilable := map[*types.Var]token.Pos{}
	owner := map[*types.Var]string{}
	var typedNil []*ssa.Store
	for _, fn := range funcs {
		allInstrs(fn, func(i ssa.Instruction) {
			st, ok := i.(*ssa.Store)
			if !ok {
				return
			}
			fa, ok := st.Addr.(*ssa.FieldAddr)
			if !ok {
				return
			}
			r, ok := fieldOf(fa)
			if !ok || r.Field == nil || r.Owner == nil || !isIface(r.Field.Type()) {
				return
			}
			if _, isConst := st.Val.(*ssa.Const); isConst {
				// an explicit reset (x.f = nil) is a statement about the
				// object's life cycle, not about wire data
				return
			}
			if mayBeNil(st.Val, map[ssa.Value]bool{}, 1) {
				if _, seen := nilable[r.Field]; !seen {
					nilable[r.Field] = st.Pos()
					owner[r.Field] = r.Owner.Obj().Name()
				}
			}
			// a typed nil: a pointer that may be nil wrapped into the
			// interface — `field != nil` is then true and every guard passes
			if mi, ok := st.Val.(*ssa.MakeInterface); ok {
				if _, isPtr := mi.X.Type().Underlying().(*types.Pointer); isPtr && mayBeNil(mi.X, map[ssa.Value]bool{}, 1) {
					typedNil = append(typedNil, st)
				}
			}
		})
	}
	var names []string
	for f := range nilable {
		names = append(names, owner[f]+"."+f.Name())
	}
	sort.Strings(names)
	c.note("%s: interface fields that receive a possibly-nil value: %s", rule, strings.Join(names, ", "))
	for k, st := range typedNil {
		r, _ := fieldOf(st.Addr)
		c.fail(rule, fmt.Sprintf("%s: typed nil stored into %s#%d", fnKey(st.Parent()), r.String(), k+1), st.Pos(),
			"a pointer that can be nil is converted to the interface type of "+r.String()+": the interface value is then non-nil although it holds a nil pointer, every `!= nil` guard passes and the first method call through it dereferences nil (panic in the caller's goroutine)")
	}
	if len(nilable) == 0 {
		// nothing nil-able: the obligation is empty, which is a fact about the
		// tree and not a lost anchor
		c.ok(rule, "no nil-able interface field", token.NoPos, "no interface-typed field of "+strings.Join(pkgs, ",")+" receives a possibly-nil value")
		return
	}
	factOf := func(r fieldRef) string {
		return "nn:" + r.Field.Name() + "@" + r.Base.Name()
	}
	// paramGuarded: the module function h calls through its k-th parameter
	// only after testing it non-nil (`func readAllLiteral(r io.Reader) { if r
	// == nil { return … } … }`), so handing it a nil interface is harmless
	guardCache := map[string]bool{}
	var paramGuarded func(h *ssa.Function, k int, depth int) bool
	paramGuarded = func(h *ssa.Function, k int, depth int) bool {
		key := fmt.Sprintf("%p/%d", h, k)
		if v, ok := guardCache[key]; ok {
			return v
		}
		guardCache[key] = false
		if h == nil || h.Blocks == nil || k >= len(h.Params) || !strings.HasPrefix(pkgPathOf(h), modPath) {
			return false
		}
		prm := h.Params[k]
		edge := func(f facts, b *ssa.BasicBlock, succ int) facts {
			for _, a := range edgeAtoms(b, succ) {
				if a.Nil == -1 && a.V == ssa.Value(prm) {
					f = f.with("nn")
				}
			}
			return f
		}
		flow := mustFlow(h, facts{}, nil, edge)
		ok := true
		var walk func(v ssa.Value, d int)
		walk = func(v ssa.Value, d int) {
			if v.Referrers() == nil {
				return
			}
			for _, ref := range *v.Referrers() {
				switch u := ref.(type) {
				case ssa.CallInstruction:
					com := u.Common()
					f, reach := flow.at(u)
					if !reach || f.has("nn") {
						continue
					}
					if com.IsInvoke() && com.Value == v {
						ok = false
						continue
					}
					for ai, a := range com.Args {
						if a != v {
							continue
						}
						cal := staticCallee(u)
						idx := ai
						if depth > 0 && cal != nil && paramGuarded(cal, idx, depth-1) {
							continue
						}
						ok = false
					}
				case *ssa.ChangeInterface:
					if d > 0 {
						walk(u, d-1)
					}
				case *ssa.MakeInterface:
					if d > 0 {
						walk(u, d-1)
					}
				case *ssa.TypeAssert:
					if !u.CommaOk {
						if f, reach := flow.at(u); reach && !f.has("nn") {
							ok = false
						}
					}
				case *ssa.Store, *ssa.MakeClosure, *ssa.Phi, *ssa.Return:
					// escapes: not followed
					if _, isRet := u.(*ssa.Return); !isRet {
						if _, isBin := ref.(*ssa.BinOp); !isBin {
							ok = false
						}
					}
				}
			}
		}
		walk(prm, 2)
		guardCache[key] = ok
		return ok
	}
	for _, fn := range funcs {
		// uses
		type use struct {
			at  ssa.Instruction
			r   fieldRef
			how string
		}
		var uses []use
		allInstrs(fn, func(i ssa.Instruction) {
			v, ok := i.(ssa.Value)
			if !ok {
				return
			}
			r, ok := loadedField(v)
			if !ok || r.Field == nil {
				return
			}
			if _, n := nilable[r.Field]; !n {
				return
			}
			var walk func(v ssa.Value, depth int)
			walk = func(v ssa.Value, depth int) {
				if v.Referrers() == nil {
					return
				}
				for _, ref := range *v.Referrers() {
					switch u := ref.(type) {
					case ssa.CallInstruction:
						com := u.Common()
						if com.IsInvoke() && com.Value == v {
							uses = append(uses, use{u, r, "method " + com.Method.Name() + " invoked on it"})
							continue
						}
						for ai, a := range com.Args {
							if a == v {
								if cal := staticCallee(u); cal != nil && paramGuarded(cal, ai, 2) {
									break // the callee tests it itself
								}
								name := "a call"
								if o := calleeObj(u); o != nil {
									name = o.FullName()
								}
								uses = append(uses, use{u, r, "passed to " + name})
								break
							}
						}
					case *ssa.ChangeInterface:
						if depth > 0 {
							walk(u, depth-1)
						}
					case *ssa.MakeInterface:
						if depth > 0 {
							walk(u, depth-1)
						}
					case *ssa.TypeAssert:
						if !u.CommaOk {
							uses = append(uses, use{u, r, "type-asserted without ok"})
						}
					}
				}
			}
			walk(v, 2)
		})
		if len(uses) == 0 {
			continue
		}
		gen := func(f facts, i ssa.Instruction) facts {
			st, ok := i.(*ssa.Store)
			if !ok {
				return f
			}
			fa, ok := st.Addr.(*ssa.FieldAddr)
			if !ok {
				return f
			}
			r, ok := fieldOf(fa)
			if !ok || r.Field == nil {
				return f
			}
			if _, n := nilable[r.Field]; !n {
				return f
			}
			pre := "nn:" + r.Field.Name() + "@"
			f = f.without(func(s string) bool { return strings.HasPrefix(s, pre) })
			if !mayBeNil(st.Val, map[ssa.Value]bool{}, 1) {
				if _, isMk := st.Val.(*ssa.MakeInterface); isMk {
					f = f.with(factOf(r))
				}
			}
			return f
		}
		edge := func(f facts, b *ssa.BasicBlock, succ int) facts {
			for _, a := range edgeAtoms(b, succ) {
				if a.Nil != -1 {
					continue
				}
				if r, ok := loadedField(a.V); ok && r.Field != nil {
					if _, n := nilable[r.Field]; n {
						f = f.with(factOf(r))
					}
				}
			}
			return f
		}
		flow := mustFlow(fn, facts{}, gen, edge)
		seenKey := map[string]int{}
		for _, u := range uses {
			f, reach := flow.at(u.at)
			if !reach {
				continue
			}
			key := fmt.Sprintf("%s: %s.%s %s", fnKey(fn), owner[u.r.Field], u.r.Field.Name(), u.how)
			seenKey[key]++
			if n := seenKey[key]; n > 1 {
				key = fmt.Sprintf("%s #%d", key, n)
			}
			c.check(f.has(factOf(u.r)), rule, key, u.at.Pos(),
				"preceded on every path by a non-nil test of the field on the same object",
				fmt.Sprintf("%s.%s can be the nil interface (stored at %s: the peer can send NIL) and is used here (%s) without a non-nil test on every path: a nil-interface call panics, in the caller's goroutine or in one the client started",
					owner[u.r.Field], u.r.Field.Name(), p.pos(nilable[u.r.Field]), u.how))
		}
	}
}

// enumDefaultEdge reports whether the edge from→to is the fall-through of a
// chain of `x == C` tests (a switch without default) that names every
// constant declared with x's named type: under the assumption that values of
// such a type are only ever the declared constants, the edge is infeasible.
func enumDefaultEdge(from, to *ssa.BasicBlock) bool {
	var subject ssa.Value
	seen := map[string]bool{}
	var named *types.Named
	cur, next := from, to
	for {
		if len(cur.Instrs) == 0 {
			return false
		}
		ifi, ok := cur.Instrs[len(cur.Instrs)-1].(*ssa.If)
		if !ok || cur.Succs[1] != next {
			break
		}
		bo, ok := ifi.Cond.(*ssa.BinOp)
		if !ok || bo.Op != token.EQL {
			break
		}
		x, y := bo.X, bo.Y
		if _, isC := x.(*ssa.Const); isC {
			x, y = y, x
		}
		cst, ok := y.(*ssa.Const)
		if !ok || cst.Value == nil {
			break
		}
		if subject == nil {
			subject = x
			named, _ = types.Unalias(x.Type()).(*types.Named)
			if named == nil {
				return false
			}
		} else if x != subject {
			break
		}
		seen[cst.Value.ExactString()] = true
		if len(cur.Preds) != 1 {
			break
		}
		next, cur = cur, cur.Preds[0]
	}
	if named == nil || named.Obj().Pkg() == nil {
		return false
	}
	scope := named.Obj().Pkg().Scope()
	n := 0
	for _, name := range scope.Names() {
		c, ok := scope.Lookup(name).(*types.Const)
		if !ok || !types.Identical(c.Type(), named) {
			continue
		}
		n++
		if !seen[c.Val().ExactString()] {
			return false
		}
	}
	return n > 0
}
