package main

import (
	"fmt"
	"go/token"
	"go/types"
	"sort"
	"strings"

	"golang.org/x/tools/go/ssa"
)

func init() {
	register("C03", "Decided: (a) every field of every response data structure a backend can hand to the server (results of Session methods and parameters of the response writers) is read by the server's writers and stored by the client's parsers, fields tied to an extension the server never advertises excepted; (b) response keywords round-trip: the token the server writes next to a data field is mapped by the paired client switch to that very field (STATUS items, ESEARCH items, APPENDUID/COPYUID codes); (c) every response name and FETCH item name the server can emit for a command the client can issue has a case in the client's parser; (d) section parsing on the client is always preceded by consuming the opening bracket; (e) the server's output modes (UTF-8 quoting, ESEARCH vs SEARCH, RECENT emission) derive only from what the client enabled/asked. Not decided: equality of arbitrary nested payloads and literal byte identity (value-level).", checkC03)
}

func checkC03(c *Ctx) {
	c.rule("C03.a", "response data fields: written by the server's writers and stored by the client's parsers", 60)
	c.rule("C03.b", "response keywords round-trip to the same data field", 12)
	c.rule("C03.c", "every response/FETCH item name the server emits has a client case", 20)
	c.rule("C03.d", "client section parsing is preceded by consuming '['", 3)
	c.rule("C03.e", "server output modes derive from the enabled capabilities / the command form only", 3)
	ruleResponseFieldCoverage(c, "C03.a")
	ruleKeywordRoundTrip(c, "C03.b", "imapserver", "imapclient", 3)
	ruleResponseTokenCoverage(c, "C03.c")
	ruleBracketBeforeSection(c, "C03.d")
	ruleServerModeProvenance(c, "C03.e")
	c.rule("C03.g", "recursive response writers pass their mode parameters through unchanged", 3)
	ruleModePassThrough(c, "C03.g")
	c.rule("C03.h", "server-side option defaulting depends only on the options the client sent", 4)
	c.rule("C03.i", "mailbox names: the encoder applies modified UTF-7 exactly where the decoder inverts it", 26)
	ruleMailboxTransform(c, "C03.i")
	c.rule("C03.j", "one-slot response buffers are overwritten only when empty or delivered", 1)
	ruleOneSlotBuffers(c, "C03.j")
	c.rule("C03.k", "a hand-over counter compared with cap(ch) is incremented before the test and the send of the same round (every item of a long FETCH response is delivered)", 1)
	ruleCountBeforeSend(c, "C03.k")
	c.rule("C03.l", "the server's capability and state tests treat Selected as Authenticated (no capability lost by selecting a mailbox)", 3)
	ruleSelectedIsAuthenticated(c, "C03.l")
	c.rule("C03.m", "64-bit numeric data fields are parsed with a 64-bit reader", 5)
	ruleParseWidth(c, "C03.m")
	c.rule("C03.n", "an index sentinel (-1 until a loop finds a position) is tested only by comparisons that separate -1 from every index", 1)
	ruleSentinelTests(c, "C03.n", "imapserver", "imapserver/imapmemserver", "imapclient")
	c.rule("C03.o", "a number set copied out of a command field is not mutated in the copy (a second FETCH for the same message is not taken for the command's own)", 1)
	ruleLostUpdateOnCopy(c, "C03.o", "imapclient")
	c.rule("C03.p", "the wire encoder never re-encodes a string rune by rune (bytes that are not valid UTF-8 survive)", 1)
	ruleNoRuneReencoding(c, "C03.p")
	c.rule("C03.q", "no item is sent ahead of one held back in a one-slot buffer (LIST-STATUS entries keep their order and their STATUS)", 1)
	ruleNoOvertakingHeldItem(c, "C03.q")
	c.rule("C03.r", "the client expects the embedded-message fields of a body structure for every subtype the backend supplies them for", 1)
	ruleEmbeddedMessageTypes(c, "C03.r")
	c.rule("C03.s", "a missing Sender / Reply-To of an envelope is sent as the From list of the same envelope (RFC 3501 §7.4.2)", 2)
	ruleEnvelopeDefaults(c, "C03.s")
	c.rule("C03.t", "no field store sits behind a guard that a dominating identical comparison has already decided the other way (no undeliverable decoded field)", 1)
	ruleNoContradictedGuard(c, "C03.t", "imapclient", "imapserver", "internal/imapwire", "internal")
	ruleOptionDefaulting(c, "C03.h")
}

// responseStructs: data structs (package imap) reachable from the results of
// Session methods and the parameters of exported writer methods of imapserver.
func responseStructs(p *Program) []*types.Named {
	set := map[*types.Named]bool{}
	for iface := range sessionIfaces(p) {
		it := iface.Underlying().(*types.Interface)
		for i := 0; i < it.NumMethods(); i++ {
			sig := it.Method(i).Type().(*types.Signature)
			for k := 0; k < sig.Results().Len(); k++ {
				structTypesOf(sig.Results().At(k).Type(), set)
			}
		}
	}
	pk := p.Pkgs[modPath+"/imapserver"]
	for _, n := range pk.Types.Scope().Names() {
		tn, ok := pk.Types.Scope().Lookup(n).(*types.TypeName)
		if !ok || !strings.HasSuffix(n, "Writer") {
			continue
		}
		ms := types.NewMethodSet(types.NewPointer(tn.Type()))
		for i := 0; i < ms.Len(); i++ {
			f := ms.At(i).Obj().(*types.Func)
			if !f.Exported() {
				continue
			}
			sig := f.Type().(*types.Signature)
			for k := 0; k < sig.Params().Len(); k++ {
				structTypesOf(sig.Params().At(k).Type(), set)
			}
		}
	}
	// the implementations of imap.BodyStructure
	if bs, ok := p.Pkgs[modPath].Types.Scope().Lookup("BodyStructure").Type().Underlying().(*types.Interface); ok {
		for _, n := range p.Pkgs[modPath].Types.Scope().Names() {
			if tn, ok := p.Pkgs[modPath].Types.Scope().Lookup(n).(*types.TypeName); ok {
				if _, isStruct := tn.Type().Underlying().(*types.Struct); isStruct && types.Implements(types.NewPointer(tn.Type()), bs) {
					structTypesOf(tn.Type(), set)
				}
			}
		}
	}
	var out []*types.Named
	for s := range set {
		if s.Obj().Pkg().Path() == modPath {
			out = append(out, s)
		}
	}
	sort.Slice(out, func(i, j int) bool { return out[i].Obj().Name() < out[j].Obj().Name() })
	return out
}

func ruleResponseFieldCoverage(c *Ctx, rule string) {
	p := c.P
	structs := responseStructs(p)
	if len(structs) < 12 {
		c.unresolvedRoot("response data structs")
		return
	}
	srv := map[*ssa.Function]bool{}
	for _, f := range p.SrcFuncs("imapserver") {
		srv[f] = true
	}
	cli := map[*ssa.Function]bool{}
	for _, f := range p.SrcFuncs("imapclient") {
		cli[f] = true
	}
	srvReads, _ := fieldUses(srv)
	_, cliWrites := fieldUses(cli)
	// composite literals `T{F: v}` are stores too
	for f := range cli {
		allInstrs(f, func(i ssa.Instruction) {
			// handled by fieldUses through FieldAddr+Store (go/ssa lowers literals to stores)
			_ = i
		})
	}
	for _, s := range structs {
		// option structs (arguments) are C02's subject
		if strings.HasSuffix(s.Obj().Name(), "Options") || strings.HasPrefix(s.Obj().Name(), "FetchItem") || s.Obj().Name() == "SectionPartial" || s.Obj().Name() == "StoreFlags" || strings.HasPrefix(s.Obj().Name(), "SearchCriteria") {
			continue
		}
		st := s.Underlying().(*types.Struct)
		for i := 0; i < st.NumFields(); i++ {
			f := st.Field(i)
			exempt := requiresUnadvertisable(c, f)
			if !exempt && strings.HasSuffix(s.Obj().Name(), "Data") {
				// StatusData.X is only meaningful when StatusOptions.X was requested
				if on, ok := s.Obj().Pkg().Scope().Lookup(strings.TrimSuffix(s.Obj().Name(), "Data") + "Options").(*types.TypeName); ok {
					if ost, ok := on.Type().Underlying().(*types.Struct); ok {
						for k := 0; k < ost.NumFields(); k++ {
							if ost.Field(k).Name() == f.Name() && requiresUnadvertisable(c, ost.Field(k)) {
								exempt = true
							}
						}
					}
				}
			}
			for _, side := range []struct {
				name string
				ok   bool
				bad  string
			}{
				{"server writes", srvReads[f], "no writer in imapserver ever reads it: what the backend supplies there is never sent"},
				{"client stores", cliWrites[f], "no parser in imapclient ever stores it: what the server sends there is never delivered to the caller"},
			} {
				key := fmt.Sprintf("%s.%s: %s", s.Obj().Name(), f.Name(), side.name)
				switch {
				case side.ok:
					c.ok(rule, key, f.Pos(), "yes")
				case exempt:
					c.okTrivial(rule, key, f.Pos(), "not handled, but tied by its own comment to an extension the server never advertises")
				default:
					c.fail(rule, key, f.Pos(), s.Obj().Name()+"."+f.Name()+": "+side.bad)
				}
			}
		}
	}
}

// ruleResponseTokenCoverage: C03.c.
func ruleResponseTokenCoverage(c *Ctx, rule string) {
	p := c.P
	rrd := p.Func("imapclient", "Client", "readResponseData")
	hf := p.Func("imapclient", "Client", "handleFetch")
	if rrd == nil || hf == nil {
		c.unresolvedRoot("(*Client).readResponseData / handleFetch")
		return
	}
	respCases := stringComparisons(rrd)
	fetchCases := stringComparisons(hf)
	// commands the client can issue
	begin := p.Func("imapclient", "Client", "beginCommand")
	clientCmds := map[string]bool{}
	for _, fn := range p.SrcFuncs("imapclient") {
		allInstrs(fn, func(i ssa.Instruction) {
			if call, ok := i.(*ssa.Call); ok && staticCallee(call) == begin {
				var collect func(v ssa.Value, d int)
				collect = func(v ssa.Value, d int) {
					if d > 4 {
						return
					}
					if s, ok := constString(v); ok {
						clientCmds[s] = true
						clientCmds["UID "+s] = true
					}
					switch x := v.(type) {
					case *ssa.Phi:
						for _, e := range x.Edges {
							collect(e, d+1)
						}
					case *ssa.Call:
						for _, a := range x.Call.Args {
							collect(a, d+1)
						}
					}
				}
				collect(call.Call.Args[1], 0)
			}
		})
	}
	// server functions reachable from handlers of commands the client can issue (plus greeting/poll paths)
	g := buildModGraph(p, p.VTA(), nil)
	tbl, _, _ := dispatchTable(c)
	var roots []*ssa.Function
	for _, dc := range tbl {
		issued := false
		for _, l := range dc.labels {
			if clientCmds[l] {
				issued = true
			}
		}
		if issued && dc.handler != nil {
			if f := p.SSA.FuncValue(dc.handler); f != nil {
				roots = append(roots, f)
			}
		}
	}
	for _, nm := range []string{"poll", "serve", "writeStatusResp"} {
		if f := p.Func("imapserver", "Conn", nm); f != nil && nm != "serve" {
			roots = append(roots, f)
		}
	}
	reach := reachableFrom(g, func(f *ssa.Function) bool {
		pp := pkgPathOf(f)
		return pp == modPath+"/imapserver" || pp == modPath+"/imapserver/imapmemserver"
	}, roots...)
	isEncCall := func(i ssa.Instruction, name string) (ssa.CallInstruction, bool) {
		call, ok := i.(ssa.CallInstruction)
		if !ok {
			return nil, false
		}
		obj := calleeObj(call)
		if obj == nil || !isEncoderMethod(obj) || (name != "" && obj.Name() != name) {
			return nil, false
		}
		return call, true
	}
	seenTok := map[string]bool{}
	for _, fn := range p.SrcFuncs("imapserver") {
		if fn.Parent() != nil {
			continue
		}
		isFetchWriter := false
		if obj, ok := fn.Object().(*types.Func); ok {
			if rn := recvNamed(obj); rn != nil && rn.Obj().Name() == "FetchResponseWriter" {
				isFetchWriter = true
			}
		}
		for _, b := range fn.Blocks {
			afterStar := false
			for _, i := range b.Instrs {
				call, ok := isEncCall(i, "")
				if !ok {
					continue
				}
				name := calleeObj(call).Name()
				if name == "Atom" && len(call.Common().Args) == 2 {
					tokv, isConst := constString(call.Common().Args[1])
					if isConst && tokv == "*" {
						afterStar = true
						continue
					}
					if isConst && (afterStar || isFetchWriter) && tokv != "" {
						kind, cases := "response", respCases
						if isFetchWriter && !afterStar {
							kind, cases = "FETCH item", fetchCases
						}
						if tokv == "FETCH" && fn.Name() == "CreateMessage" {
							kind, cases = "response", respCases
						}
						key := kind + " " + tokv
						if !seenTok[key] {
							seenTok[key] = true
							switch {
							case cases[tokv]:
								c.ok(rule, key, i.Pos(), "the client has a case for it")
							case !reach[fn] || onlyBehindUnissuedFlag(p, fn, reach):
								c.okTrivial(rule, key, i.Pos(), "emitted only by "+fnKey(fn)+", which no command the client can issue reaches (or only behind a flag that such a command sets)")
							default:
								c.fail(rule, key, i.Pos(), fmt.Sprintf("the server can emit the %s %q (in %s) but the client's parser has no case for it: the response fails to parse and the connection is torn down", kind, tokv, fnKey(fn)))
							}
						}
						afterStar = false
						continue
					}
				}
				if name != "SP" && name != "Number" {
					afterStar = false
				}
			}
		}
	}
}

// ruleBracketBeforeSection: C03.d.
func ruleBracketBeforeSection(c *Ctx, rule string) {
	p := c.P
	n := 0
	cf := newCtxFlow(nil, func(f facts, b *ssa.BasicBlock, s int) facts {
		var add []string
		for _, sc := range successCalls(b, s) {
			k := callKey(sc)
			if (k == "(*Decoder).Special" || k == "(*Decoder).ExpectSpecial") && len(sc.Common().Args) == 2 {
				if v, ok := constInt(sc.Common().Args[1]); ok && v == '[' {
					add = append(add, "bracket-consumed")
				}
			}
		}
		return f.with(add...)
	})
	for _, fn := range p.SrcFuncs("imapclient") {
		k := 0
		allInstrs(fn, func(i ssa.Instruction) {
			call, ok := i.(ssa.CallInstruction)
			if !ok {
				return
			}
			cal := staticCallee(call)
			if cal == nil || (cal.Name() != "readSectionPart" && cal.Name() != "readSectionSpec") || pkgPathOf(cal) != modPath+"/imapclient" {
				return
			}
			// a section helper calling another one after the bracket was consumed by its caller
			if fn.Name() == "readSectionSpec" || fn.Name() == "readSectionPart" {
				return
			}
			k++
			n++
			fs, _ := cf.at(i)
			c.check(fs.has("bracket-consumed"), rule, fmt.Sprintf("%s→%s#%d", fnKey(fn), cal.Name(), k), i.Pos(),
				"preceded on every path (through every caller) by a successful Special('[') / ExpectSpecial('[')", "the section is parsed without consuming its opening '[': every such response fails with \"expected ']'\" and the data is never delivered")
		})
	}
	if n == 0 {
		c.unresolvedRoot("calls of readSectionPart/readSectionSpec in imapclient")
	}
}

// capDeps: the capability queries (receiver field : capability) a boolean
// value depends on; other influences are reported as "other:…".
func capDeps(v ssa.Value, seen map[ssa.Value]bool) []string {
	if seen[v] {
		return nil
	}
	seen[v] = true
	switch x := v.(type) {
	case *ssa.Call:
		if callKey(x) == "CapSet.Has" && len(x.Call.Args) == 2 {
			recv := "?"
			if r, ok := loadedField(x.Call.Args[0]); ok {
				recv = r.Field.Name()
			}
			capName := "?"
			if s, ok := constString(x.Call.Args[1]); ok {
				capName = s
			}
			return []string{recv + ":" + capName}
		}
		return []string{"call:" + callKey(x)}
	case *ssa.Phi:
		var out []string
		for _, e := range x.Edges {
			out = append(out, capDeps(e, seen)...)
		}
		for _, pred := range x.Block().Preds {
			if len(pred.Instrs) > 0 {
				if ifi, ok := pred.Instrs[len(pred.Instrs)-1].(*ssa.If); ok {
					out = append(out, capDeps(ifi.Cond, seen)...)
				}
			}
		}
		return out
	case *ssa.Const:
		return nil
	case *ssa.UnOp:
		if x.Op == token.NOT {
			return capDeps(x.X, seen)
		}
		if x.Op == token.MUL {
			if al, ok := x.X.(*ssa.Alloc); ok {
				var out []string
				for _, ref := range *al.Referrers() {
					if st, ok := ref.(*ssa.Store); ok && st.Addr == ssa.Value(al) {
						out = append(out, capDeps(st.Val, seen)...)
					}
				}
				return out
			}
		}
		return []string{"load:" + x.X.Name()}
	case *ssa.BinOp:
		return append(capDeps(x.X, seen), capDeps(x.Y, seen)...)
	case *ssa.Parameter:
		return []string{"param:" + x.Name()}
	}
	return []string{fmt.Sprintf("other:%T", v)}
}

func ruleServerModeProvenance(c *Ctx, rule string) {
	p := c.P
	ne := p.Func("imapserver", "", "newResponseEncoder")
	if ne == nil {
		c.unresolvedRoot("newResponseEncoder")
		return
	}
	found := false
	allInstrs(ne, func(i ssa.Instruction) {
		st, ok := i.(*ssa.Store)
		if !ok {
			return
		}
		r, ok := fieldOf(st.Addr)
		if !ok || !r.is("Encoder", "QuotedUTF8") {
			return
		}
		found = true
		d := uniq(capDeps(st.Val, map[ssa.Value]bool{}))
		want := []string{"enabled:IMAP4rev2", "enabled:UTF8=ACCEPT"}
		c.check(strings.Join(d, ",") == strings.Join(want, ","), rule, "newResponseEncoder: QuotedUTF8", st.Pos(), "derives from "+strings.Join(d, " ∨ "),
			"the server's UTF-8 quoting derives from {"+strings.Join(d, ",")+"}, expected what the client enabled {"+strings.Join(want, ",")+"}: 8-bit quoted strings are sent to a client that did not enable them (or withheld from one that did)")
	})
	if !found {
		c.fail(rule, "newResponseEncoder: QuotedUTF8", ne.Pos(), "newResponseEncoder no longer sets Encoder.QuotedUTF8")
	}
	// the obsolete forms (plain SEARCH response, RECENT) are written only when
	// IMAP4rev2 was not enabled (and, for SEARCH, no RETURN option was given)
	capFacts := func(f facts, b *ssa.BasicBlock, s int) facts {
		var add []string
		for _, fc := range failureCalls(b, s) {
			if call, ok := fc.(*ssa.Call); ok && callKey(fc) == "CapSet.Has" {
				for _, d := range capDeps(call, map[ssa.Value]bool{}) {
					add = append(add, "not:"+d)
				}
			}
		}
		for _, a := range edgeAtoms(b, s) {
			if a.True == -1 {
				if ld, ok := a.V.(*ssa.UnOp); ok {
					if al, ok := ld.X.(*ssa.Alloc); ok {
						add = append(add, "not:local:"+al.Comment)
					}
				}
				if ph, ok := a.V.(*ssa.Phi); ok {
					add = append(add, "not:local:"+ph.Comment)
				}
			}
		}
		return f.with(add...)
	}
	for _, spec := range []struct {
		fn, callee string
		want       []string
	}{
		{"handleSearch", "writeSearch", []string{"not:enabled:IMAP4rev2", "not:local:extended"}},
		{"handleSelect", "writeObsoleteRecent", []string{"not:enabled:IMAP4rev2"}},
	} {
		callee := p.Func("imapserver", "Conn", spec.callee)
		if callee == nil {
			callee = p.Func("imapserver", "", spec.callee)
		}
		if callee == nil {
			c.unresolvedRoot("imapserver " + spec.callee)
			continue
		}
		sites := callSitesOf(p, callee)
		if len(sites) == 0 {
			c.unresolvedRoot("call sites of " + spec.callee)
			continue
		}
		cf := newCtxFlow(nil, capFacts)
		var missing []string
		var pos token.Pos
		for _, site := range sites {
			fs, _ := cf.at(site)
			pos = site.Pos()
			for _, w := range spec.want {
				if !fs.has(w) {
					missing = append(missing, w)
				}
			}
		}
		c.check(len(missing) == 0, rule, spec.fn+": "+spec.callee+" only in legacy mode", pos, "reached only on the edges "+strings.Join(spec.want, " ∧ ")+" (through every caller)",
			"the legacy response form can be written although "+strings.Join(uniq(missing), ", ")+" does not hold: a client that enabled IMAP4rev2 (or asked for RETURN options) gets a response form it does not expect")
	}
}

func uniq(l []string) []string {
	m := map[string]bool{}
	for _, x := range l {
		m[x] = true
	}
	var out []string
	for x := range m {
		out = append(out, x)
	}
	sort.Strings(out)
	return out
}

// onlyBehindUnissuedFlag: every call site of fn is dominated by the true edge
// of a boolean struct field that is set to true only in functions no issued
// command reaches (ListWriter.lsub, set by the LSUB handler only).
func onlyBehindUnissuedFlag(p *Program, fn *ssa.Function, reach map[*ssa.Function]bool) bool {
	sites := callSitesOf(p, fn)
	if len(sites) == 0 {
		return false
	}
	for _, site := range sites {
		caller := site.Parent()
		dead := false
		for _, b := range caller.Blocks {
			for si := range b.Succs {
				if !(b.Succs[si] == site.Block() || b.Succs[si].Dominates(site.Block())) {
					continue
				}
				for _, a := range edgeAtoms(b, si) {
					r, ok := loadedField(a.V)
					if !ok || a.True != 1 {
						continue
					}
					// every store of a non-false value into that field
					setters := 0
					live := false
					for _, f := range p.SrcFuncs("imapserver", "imapserver/imapmemserver") {
						allInstrs(f, func(i ssa.Instruction) {
							st, ok := i.(*ssa.Store)
							if !ok {
								return
							}
							fr, ok := fieldOf(st.Addr)
							if !ok || fr.Field != r.Field {
								return
							}
							if k, ok := st.Val.(*ssa.Const); ok && k.Value != nil && k.Value.String() == "false" {
								return
							}
							setters++
							root := f
							for root.Parent() != nil {
								root = root.Parent()
							}
							if reach[root] {
								live = true
							}
						})
					}
					if setters > 0 && !live {
						dead = true
					}
				}
			}
		}
		if !dead {
			return false
		}
	}
	return true
}

// ruleModePassThrough (C03.g): inside a recursion cycle of response writers, a
// mode parameter (same name and type in caller and callee) is handed on
// unchanged: a nested structure is written in the same mode as its parent.
func ruleModePassThrough(c *Ctx, rule string) {
	p := c.P
	g := buildModGraph(p, p.VTA(), nil)
	n := 0
	for _, comp := range g.sccs() {
		in := map[*ssa.Function]bool{}
		rel := false
		for _, f := range comp {
			in[f] = true
			if pkgPathOf(f) == modPath+"/imapserver" && f.Synthetic == "" {
				rel = true
			}
		}
		if !rel {
			continue
		}
		for _, f := range comp {
			if f.Blocks == nil || f.Synthetic != "" {
				continue
			}
			allInstrs(f, func(i ssa.Instruction) {
				call, ok := i.(*ssa.Call)
				if !ok {
					return
				}
				cal := staticCallee(call)
				if cal == nil || !in[cal] {
					return
				}
				for qi, q := range cal.Params {
					bt, isBasic := q.Type().Underlying().(*types.Basic)
					if !isBasic || bt.Info()&types.IsBoolean == 0 {
						continue // integers on a cycle are depth counters (they must change), not modes
					}
					for _, pf := range f.Params {
						if pf.Name() != q.Name() || !types.Identical(pf.Type(), q.Type()) || qi >= len(call.Call.Args) {
							continue
						}
						n++
						arg := call.Call.Args[qi]
						key := fmt.Sprintf("%s→%s:%s", fnKey(f), fnKey(cal), q.Name())
						if _, done := c.seen[rule+"|"+key]; done {
							key += fmt.Sprintf("#%d", countKey(c, rule, key)+1)
						}
						c.check(arg == ssa.Value(pf) || paramOf(arg) == pf, rule, key, call.Pos(), "the mode parameter is passed on unchanged",
							"a nested structure is written with a different "+q.Name()+" mode than its parent (a constant or another value is passed): data the backend supplied for the nested parts is silently omitted or altered")
					}
				}
			})
		}
	}
	if n == 0 {
		c.unresolvedRoot("mode parameters in recursive response writers")
	}
}

// Defaulting of an option on the server that legitimately depends on
// something other than the options themselves.
var allowedDefaultingDeps = map[string]string{
	"FetchOptions.UID←numKind": "UID FETCH implies the UID item (RFC 9051 6.4.9)",
}

// ruleOptionDefaulting (C03.h): when a handler fills in a default for an option
// (a constant stored into an *Options field outside the keyword switches), the
// decision depends only on the options the client sent, not on connection
// modes: otherwise the response form and the requested items can disagree.
func ruleOptionDefaulting(c *Ctx, rule string) {
	p := c.P
	n := 0
	tbl, _, _ := dispatchTable(c)
	handlers := map[*ssa.Function]bool{}
	for _, dc := range tbl {
		if dc.handler != nil {
			if f := p.SSA.FuncValue(dc.handler); f != nil {
				handlers[f] = true
			}
		}
	}
	for fn := range handlers {
		pd := postDominators(fn)
		allInstrs(fn, func(i ssa.Instruction) {
			st, ok := i.(*ssa.Store)
			if !ok {
				return
			}
			r, ok := fieldOf(st.Addr)
			if !ok || r.Owner == nil || !strings.HasSuffix(r.Owner.Obj().Name(), "Options") || r.Owner.Obj().Pkg().Path() != modPath {
				return
			}
			if _, isConst := st.Val.(*ssa.Const); !isConst {
				return
			}
			n++
			var foreign []string
			for x := range transitiveDeps(fn, pd, st.Block()) {
				ifi, isIf := x.Instrs[len(x.Instrs)-1].(*ssa.If)
				if !isIf {
					continue
				}
				// conditions made of this struct's fields, or failure tests (early error returns), are fine
				flds := fieldsInCond(ifi.Cond, map[ssa.Value]bool{})
				own := false
				for _, f := range flds {
					if f.Owner == r.Owner {
						own = true
					}
				}
				if own {
					continue
				}
				isErrTest := false
				for _, a := range atomsOf(ifi.Cond, true) {
					if a.Nil != 0 {
						isErrTest = true
					}
					if cl, _ := callOf(a.V); cl != nil {
						isErrTest = true // Expect*/checkState results
					}
				}
				// a loop-continuation flag fed by constants and decoder results
				// (`for more := true; more; more = dec.SP()`) is input-driven,
				// not a mode
				if ph, ok := ifi.Cond.(*ssa.Phi); ok {
					inputOnly := true
					sawCall := false
					seenL := map[ssa.Value]bool{}
					var leaves func(v ssa.Value)
					leaves = func(v ssa.Value) {
						if seenL[v] {
							return
						}
						seenL[v] = true
						switch x := v.(type) {
						case *ssa.Const:
						case *ssa.Phi:
							for _, e := range x.Edges {
								leaves(e)
							}
						default:
							if cl, _ := callOf(v); cl == nil || !isDecoderMethodCall(cl) {
								inputOnly = false
							} else {
								sawCall = true
							}
						}
					}
					leaves(ph)
					// (a merge of constants alone is a mode flag, e.g. `extended`)
					if inputOnly && sawCall {
						continue
					}
				}
				if isErrTest {
					continue
				}
				// what does the condition read?
				desc := "?"
				if bo, ok := ifi.Cond.(*ssa.BinOp); ok {
					if pp := paramOf(bo.X); pp != nil {
						desc = pp.Name()
					} else if ld, ok := bo.X.(*ssa.UnOp); ok {
						if al, ok := ld.X.(*ssa.Alloc); ok {
							desc = al.Comment
						}
					}
				} else if ld, ok := ifi.Cond.(*ssa.UnOp); ok {
					if al, ok := ld.X.(*ssa.Alloc); ok {
						desc = al.Comment
					}
					if in, ok := ld.X.(*ssa.UnOp); ok {
						if al, ok := in.X.(*ssa.Alloc); ok {
							desc = al.Comment
						}
					}
				} else if ph, ok := ifi.Cond.(*ssa.Phi); ok {
					desc = ph.Comment
				}
				foreign = append(foreign, desc)
			}
			foreign = uniq(foreign)
			key := fmt.Sprintf("%s:default %s.%s", fnKey(fn), r.Owner.Obj().Name(), r.Field.Name())
			var bad []string
			for _, d := range foreign {
				if _, ok := allowedDefaultingDeps[r.Owner.Obj().Name()+"."+r.Field.Name()+"←"+d]; !ok {
					bad = append(bad, d)
				}
			}
			c.check(len(bad) == 0, rule, key, st.Pos(), "the default depends only on the options the client sent"+map[bool]string{true: " (and the documented " + strings.Join(foreign, ",") + ")", false: ""}[len(foreign) > 0],
				fmt.Sprintf("the default for %s.%s is applied only under a condition on {%s}: in the other mode the option stays unset, the backend's results are computed but the writer omits them", r.Owner.Obj().Name(), r.Field.Name(), strings.Join(bad, ",")))
		})
	}
	if n == 0 {
		c.unresolvedRoot("option defaulting stores in the handlers")
	}
}
