package main

import (
	"fmt"
	"go/token"
	"go/types"
	"sort"
	"strings"

	"golang.org/x/tools/go/ssa"
)

// isDecoderCall: call is a method call on *imapwire.Decoder.
func isDecoderCall(call ssa.CallInstruction) bool {
	o := calleeObj(call)
	if o == nil {
		return false
	}
	n := recvNamed(o)
	return n != nil && n.Obj().Name() == "Decoder" && n.Obj().Pkg() != nil && strings.HasSuffix(n.Obj().Pkg().Path(), "/internal/imapwire")
}

// ruleParsedValueReturned: C12.k. Sibling success returns of a response
// parser agree on what they hand back: when a result slot of a parser returns,
// at one success return, the value of a local cell that a Decoder method
// filled in (`dec.ExpectAString(&tag)`), every other success return that the
// filling call can reach returns that cell too — a constant there throws the
// parsed value (a command tag, a mailbox name) away and the response is then
// routed or attributed without it.
func ruleParsedValueReturned(c *Ctx, rule string, pkgs ...string) {
	p := c.P
	funcs := p.SrcFuncs(pkgs...)
	sort.Slice(funcs, func(i, j int) bool { return funcs[i].Pos() < funcs[j].Pos() })
	n := 0
	for _, fn := range funcs {
		if fn.Signature.Results().Len() < 2 {
			continue
		}
		rets := returnsOf(fn)
		if len(rets) < 2 {
			continue
		}
		nres := fn.Signature.Results().Len()
		success := func(r *ssa.Return) bool {
			last := unspill(r.Results[nres-1])
			if isErrorType(fn.Signature.Results().At(nres - 1).Type()) {
				return isNilConst(last)
			}
			if b, ok := last.(*ssa.Const); ok && b.Value != nil && b.Value.String() == "true" {
				return true
			}
			return false
		}
		// cells filled by the decoder
		filled := map[*ssa.Alloc][]ssa.CallInstruction{}
		allInstrs(fn, func(i ssa.Instruction) {
			call, ok := i.(ssa.CallInstruction)
			if !ok || !isDecoderCall(call) {
				return
			}
			for _, a := range call.Common().Args {
				if cell, ok := a.(*ssa.Alloc); ok {
					filled[cell] = append(filled[cell], call)
				}
			}
		})
		if len(filled) == 0 {
			continue
		}
		for idx := 0; idx < nres-1; idx++ {
			if !isBasic(fn.Signature.Results().At(idx).Type()) {
				continue
			}
			var cell *ssa.Alloc
			for _, r := range rets {
				if !success(r) {
					continue
				}
				v := unspill(r.Results[idx])
				if ld, ok := v.(*ssa.UnOp); ok && ld.Op == token.MUL {
					if a, ok := ld.X.(*ssa.Alloc); ok && filled[a] != nil {
						cell = a
					}
				}
			}
			if cell == nil {
				continue
			}
			for _, r := range rets {
				if !success(r) {
					continue
				}
				v := unspill(r.Results[idx])
				_, isConst := v.(*ssa.Const)
				reach := false
				for _, call := range filled[cell] {
					if call.Block() == r.Block() || reaches(call.Block(), r.Block()) {
						reach = true
					}
				}
				if !reach {
					continue
				}
				n++
				key := fmt.Sprintf("%s: result %d success return#%d", fnKey(fn), idx, countKey(c, rule, fmt.Sprintf("%s: result %d success return#", fnKey(fn), idx))+1)
				c.check(!isConst, rule, key, r.Pos(),
					"returns the value the decoder filled in",
					fmt.Sprintf("this success return hands back a constant where the other success returns hand back %s, which the decoder may already have filled in: the parsed value is dropped", cell.Comment))
			}
		}
	}
	if n == 0 {
		c.unresolvedRoot("parsers returning a decoder-filled cell")
	}
}

// matcherClosures lists the function literals passed to findPendingCmdFunc.
func matcherClosures(p *Program) []*ssa.Function {
	find := p.Func("imapclient", "Client", "findPendingCmdFunc")
	if find == nil {
		return nil
	}
	var out []*ssa.Function
	for _, site := range callSitesOf(p, find) {
		args := site.Common().Args
		if mc, ok := args[len(args)-1].(*ssa.MakeClosure); ok {
			out = append(out, mc.Fn.(*ssa.Function))
		}
	}
	return out
}

// ruleClaimOnce: C12.l. A response matcher that records what it has claimed
// (adds the response's number to a set kept in the command) is a test-and-set:
// the add is preceded on every path by a failed membership test of the same
// set. Without the test the first matching command in the pending list claims
// every response in its range, however many it already got, and a later
// pipelined command (or the unilateral handler) never sees its own.
func ruleClaimOnce(c *Ctx, rule string) {
	p := c.P
	ms := matcherClosures(p)
	if len(ms) == 0 {
		c.unresolvedRoot("matcher closures of findPendingCmdFunc")
		return
	}
	seenFn := map[*ssa.Function]bool{}
	n := 0
	isSetMethod := func(call ssa.CallInstruction, prefix string) (fieldRef, bool) {
		o := calleeObj(call)
		if o == nil || !strings.HasPrefix(o.Name(), prefix) {
			return fieldRef{}, false
		}
		rn := recvNamed(o)
		if rn == nil || rn.Obj().Pkg() == nil || !strings.HasPrefix(rn.Obj().Pkg().Path(), modPath) {
			return fieldRef{}, false
		}
		args := call.Common().Args
		if len(args) == 0 {
			return fieldRef{}, false
		}
		if r, ok := fieldOf(args[0]); ok && r.Field != nil {
			return r, true
		}
		if r, ok := loadedField(args[0]); ok && r.Field != nil {
			return r, true
		}
		return fieldRef{}, false
	}
	for _, m := range ms {
		for _, fn := range helperClosure(m, 2) {
			if seenFn[fn] {
				continue
			}
			seenFn[fn] = true
			var adds []ssa.CallInstruction
			allInstrs(fn, func(i ssa.Instruction) {
				if call, ok := i.(ssa.CallInstruction); ok {
					if _, ok := isSetMethod(call, "Add"); ok {
						adds = append(adds, call)
					}
				}
			})
			if len(adds) == 0 {
				continue
			}
			edge := func(f facts, b *ssa.BasicBlock, succ int) facts {
				for _, a := range edgeAtoms(b, succ) {
					if a.True != -1 {
						continue
					}
					if call, ok := a.V.(*ssa.Call); ok {
						if r, ok := isSetMethod(call, "Contains"); ok {
							f = f.with("absent:" + r.Field.Name())
						}
					}
				}
				return f
			}
			gen := func(f facts, i ssa.Instruction) facts {
				if call, ok := i.(ssa.CallInstruction); ok {
					if r, ok := isSetMethod(call, "Add"); ok {
						f = f.without(func(s string) bool { return s == "absent:"+r.Field.Name() })
					}
				}
				return f
			}
			flow := mustFlow(fn, facts{}, gen, edge)
			for _, call := range adds {
				r, _ := isSetMethod(call, "Add")
				f, reach := flow.at(call)
				if !reach {
					continue
				}
				n++
				c.check(f.has("absent:"+r.Field.Name()), rule, fmt.Sprintf("%s: %s", fnKey(fn), r.String()), call.Pos(),
					"the number is added to the claimed set only after Contains reported it absent",
					fmt.Sprintf("this matcher records the response's number in %s without having tested that it is not there yet: a command that already received this message's data claims the response again, and the command it answers never gets it", r.String()))
			}
		}
	}
	if n == 0 {
		c.unresolvedRoot("recording matchers (a set Add in a findPendingCmdFunc matcher)")
	}
}

// ruleRoutingIndependentOfMirror: C12.m. Whether untagged data is delivered
// into a pending command's result is decided by the pending-list lookup (and
// the response), not by the client's mirror of the connection state: the
// mirror lags behind the server (it changes only on tagged completions), so a
// store into the command found by findPendingCmd* must not be control
// dependent on Client.state / mailbox / caps.
func ruleRoutingIndependentOfMirror(c *Ctx, rule string) {
	p := c.P
	finders := map[*ssa.Function]bool{}
	for _, fn := range p.SrcFuncs("imapclient") {
		base := fn
		if fn.Origin() != nil {
			base = fn.Origin()
		}
		if strings.HasPrefix(base.Name(), "findPendingCmd") {
			finders[fn] = true
		}
	}
	if len(finders) == 0 {
		c.unresolvedRoot("findPendingCmd* lookups")
		return
	}
	mirror := map[string]bool{"state": true, "mailbox": true, "caps": true, "enabled": true}
	var dependsOnMirror func(v ssa.Value, seen map[ssa.Value]bool) string
	dependsOnMirror = func(v ssa.Value, seen map[ssa.Value]bool) string {
		if v == nil || seen[v] || len(seen) > 200 {
			return ""
		}
		seen[v] = true
		if r, ok := loadedField(v); ok && r.Owner != nil && r.Owner.Obj().Name() == "Client" && mirror[r.Field.Name()] {
			return "Client." + r.Field.Name()
		}
		if call, ok := v.(*ssa.Call); ok {
			if o := calleeObj(call); o != nil {
				if rn := recvNamed(o); rn != nil && rn.Obj().Name() == "Client" && rn.Obj().Pkg() != nil && strings.HasSuffix(rn.Obj().Pkg().Path(), "/imapclient") {
					switch o.Name() {
					case "State", "Mailbox", "Caps":
						return "Client." + o.Name() + "()"
					}
				}
			}
		}
		if in, ok := v.(ssa.Instruction); ok {
			for _, op := range in.Operands(nil) {
				if *op == nil {
					continue
				}
				if _, isFn := (*op).(*ssa.Function); isFn {
					continue
				}
				if s := dependsOnMirror(*op, seen); s != "" {
					return s
				}
			}
		}
		return ""
	}
	n := 0
	for _, fn := range p.SrcFuncs("imapclient") {
		var finds []*ssa.Call
		allInstrs(fn, func(i ssa.Instruction) {
			if call, ok := i.(*ssa.Call); ok {
				if cal := staticCallee(call); cal != nil && (finders[cal] || cal.Origin() != nil && finders[cal.Origin()] || strings.HasPrefix(cal.Name(), "findPendingCmd")) {
					finds = append(finds, call)
				}
			}
		})
		if len(finds) == 0 || finders[fn] {
			continue
		}
		// values rooted at a lookup result
		rooted := func(v ssa.Value) *ssa.Call {
			for k := 0; k < 12 && v != nil; k++ {
				switch x := v.(type) {
				case *ssa.Call:
					for _, f := range finds {
						if f == x {
							return f
						}
					}
					return nil
				case *ssa.FieldAddr:
					v = x.X
				case *ssa.TypeAssert:
					v = x.X
				case *ssa.Extract:
					v = x.Tuple
				case *ssa.UnOp:
					v = x.X
				case *ssa.IndexAddr:
					v = x.X
				case *ssa.Phi:
					// take any rooted edge
					var nx ssa.Value
					for _, e := range x.Edges {
						if !isNilConst(e) {
							nx = e
						}
					}
					v = nx
				default:
					return nil
				}
			}
			return nil
		}
		pd := postDominators(fn)
		for _, b := range fn.Blocks {
			for _, i := range b.Instrs {
				st, ok := i.(*ssa.Store)
				if !ok {
					continue
				}
				if _, isFA := st.Addr.(*ssa.FieldAddr); !isFA {
					continue
				}
				find := rooted(st.Addr)
				if find == nil {
					continue
				}
				// transitive control dependences, limited to tests made after the lookup
				seenB := map[*ssa.BasicBlock]bool{}
				work := []*ssa.BasicBlock{b}
				bad := ""
				var badPos token.Pos
				for len(work) > 0 {
					x := work[0]
					work = work[1:]
					for cb := range controlDeps(fn, pd, x) {
						if seenB[cb] {
							continue
						}
						seenB[cb] = true
						work = append(work, cb)
						if cb != find.Block() && !reaches(find.Block(), cb) {
							continue
						}
						ifi := cb.Instrs[len(cb.Instrs)-1].(*ssa.If)
						if s := dependsOnMirror(ifi.Cond, map[ssa.Value]bool{}); s != "" && bad == "" {
							bad, badPos = s, condPos(ifi)
						}
					}
				}
				n++
				r, _ := fieldOf(st.Addr)
				key := fmt.Sprintf("%s: store %s#%d", fnKey(fn), r.String(), countKey(c, rule, fmt.Sprintf("%s: store %s#", fnKey(fn), r.String()))+1)
				c.check(bad == "", rule, key, st.Pos(),
					"the delivery into the pending command depends on the lookup and the response only",
					fmt.Sprintf("whether this response datum is delivered into the pending command depends on %s (tested at %s): the mirror changes only on tagged completions, so data the server sends for the command in progress is attributed by a stale state", bad, p.pos(badPos)))
			}
		}
	}
	if n == 0 {
		c.unresolvedRoot("stores into commands found by findPendingCmd*")
	}
}

// ruleSentinelTests: C03.n / C08.l. An index sentinel — a local that is -1
// until a loop stores the (non-negative) range index into it — means "found"
// exactly when it is >= 0. Every comparison of such a variable with a
// constant must put -1 on one side and every index, 0 included, on the other:
// `> 0` treats a hit at position 0 as a miss (Poll then drops the whole
// update queue when the first queued update is an EXPUNGE).
func ruleSentinelTests(c *Ctx, rule string, pkgs ...string) {
	p := c.P
	funcs := p.SrcFuncs(pkgs...)
	sort.Slice(funcs, func(i, j int) bool { return funcs[i].Pos() < funcs[j].Pos() })
	isMinusOne := func(v ssa.Value) bool {
		k, ok := constInt(v)
		return ok && k == -1
	}
	rangeIndexPhi := func(v ssa.Value) bool {
		ph, ok := v.(*ssa.Phi)
		if !ok || len(ph.Edges) != 2 {
			return false
		}
		for k := 0; k < 2; k++ {
			if isMinusOne(ph.Edges[k]) {
				if bo, ok := ph.Edges[1-k].(*ssa.BinOp); ok && bo.Op == token.ADD && bo.X == ssa.Value(ph) {
					if one, ok := constInt(bo.Y); ok && one == 1 {
						return true
					}
				}
			}
		}
		return false
	}
	nonNeg := func(v ssa.Value) bool {
		if bo, ok := v.(*ssa.BinOp); ok && bo.Op == token.ADD && rangeIndexPhi(bo.X) {
			if one, ok := constInt(bo.Y); ok && one == 1 {
				return true
			}
		}
		return false
	}
	n := 0
	for _, fn := range funcs {
		sentinel := map[*ssa.Phi]bool{}
		allInstrs(fn, func(i ssa.Instruction) {
			ph, ok := i.(*ssa.Phi)
			if !ok || rangeIndexPhi(ph) {
				return
			}
			if b, ok := ph.Type().Underlying().(*types.Basic); !ok || b.Info()&types.IsInteger == 0 {
				return
			}
			neg, idx, other := false, false, false
			seen := map[ssa.Value]bool{}
			var leaves func(v ssa.Value)
			leaves = func(v ssa.Value) {
				if seen[v] {
					return
				}
				seen[v] = true
				switch {
				case isMinusOne(v):
					neg = true
				case nonNeg(v):
					idx = true
				default:
					if q, ok := v.(*ssa.Phi); ok && !rangeIndexPhi(q) {
						for _, e := range q.Edges {
							leaves(e)
						}
						return
					}
					other = true
				}
			}
			leaves(ph)
			if neg && idx && !other {
				sentinel[ph] = true
			}
		})
		if len(sentinel) == 0 {
			continue
		}
		eval := func(op token.Token, x, k int64, flipped bool) bool {
			a, b := x, k
			if flipped {
				a, b = k, x
			}
			switch op {
			case token.EQL:
				return a == b
			case token.NEQ:
				return a != b
			case token.LSS:
				return a < b
			case token.LEQ:
				return a <= b
			case token.GTR:
				return a > b
			case token.GEQ:
				return a >= b
			}
			return false
		}
		allInstrs(fn, func(i ssa.Instruction) {
			bo, ok := i.(*ssa.BinOp)
			if !ok {
				return
			}
			switch bo.Op {
			case token.EQL, token.NEQ, token.LSS, token.LEQ, token.GTR, token.GEQ:
			default:
				return
			}
			var k int64
			flipped := false
			var s *ssa.Phi
			if ph, ok := bo.X.(*ssa.Phi); ok && sentinel[ph] {
				if kk, ok := constInt(bo.Y); ok {
					s, k = ph, kk
				}
			} else if ph, ok := bo.Y.(*ssa.Phi); ok && sentinel[ph] {
				if kk, ok := constInt(bo.X); ok {
					s, k, flipped = ph, kk, true
				}
			}
			if s == nil {
				return
			}
			n++
			name := s.Comment
			if name == "" {
				name = s.Name()
			}
			good := eval(bo.Op, -1, k, flipped) != eval(bo.Op, 0, k, flipped) && eval(bo.Op, 0, k, flipped) == eval(bo.Op, 1<<40, k, flipped) && eval(bo.Op, 0, k, flipped) == eval(bo.Op, 1, k, flipped)
			key := fmt.Sprintf("%s: %s test#%d", fnKey(fn), name, countKey(c, rule, fmt.Sprintf("%s: %s test#", fnKey(fn), name))+1)
			c.check(good, rule, key, bo.Pos(),
				"the comparison separates the sentinel -1 from every index",
				fmt.Sprintf("%s is -1 until the loop stores a range index (>= 0) into it, but this comparison does not separate -1 from all indexes (index 0 falls on the sentinel's side or indexes are split): a hit at that position is handled as a miss", name))
		})
	}
	if n == 0 {
		c.okTrivial(rule, "no index sentinel", token.NoPos, "no local merges -1 with a range index in "+strings.Join(pkgs, ","))
	}
}

// ruleOverwrittenVerdict: C09.j. A boolean that a loop overwrites on every
// round with a fresh verdict (not an accumulation: the new value does not
// depend on the old one) and that is read after the loop carries the verdict
// of the LAST round only — unless the loop branches on the fresh value before
// going round again (`if match { break }`), which makes the carried value a
// known constant. "Matches any of the patterns" written without the break
// means "matches the last pattern".
func ruleOverwrittenVerdict(c *Ctx, rule string, pkgs ...string) {
	p := c.P
	funcs := p.SrcFuncs(pkgs...)
	sort.Slice(funcs, func(i, j int) bool { return funcs[i].Pos() < funcs[j].Pos() })
	n := 0
	for _, fn := range funcs {
		type inst struct {
			ph   *ssa.Phi
			pred *ssa.BasicBlock
			v    ssa.Value
		}
		var insts []inst
		for _, b := range fn.Blocks {
			for _, i := range b.Instrs {
				ph, ok := i.(*ssa.Phi)
				if !ok {
					break
				}
				if bt, ok := ph.Type().Underlying().(*types.Basic); !ok || bt.Kind() != types.Bool {
					continue
				}
				// read outside the loop-carried cycle?
				used := false
				for _, r := range *ph.Referrers() {
					if r != ssa.Instruction(ph) {
						used = true
					}
				}
				if !used {
					continue
				}
				// `for cond { …; cond = f() }`: the header itself branches on
				// the carried value
				if ifi, ok := b.Instrs[len(b.Instrs)-1].(*ssa.If); ok {
					hdr := false
					for _, a := range atomsOf(ifi.Cond, true) {
						if a.V == ssa.Value(ph) && a.True != 0 {
							hdr = true
						}
					}
					if hdr {
						continue
					}
				}
				for k, e := range ph.Edges {
					pred := b.Preds[k]
					if !b.Dominates(pred) {
						continue // not a back edge
					}
					if _, isConst := e.(*ssa.Const); isConst {
						continue
					}
					if e == ssa.Value(ph) {
						continue
					}
					// an accumulation depends on the carried value
					dep := false
					seen := map[ssa.Value]bool{}
					var walk func(v ssa.Value, d int)
					walk = func(v ssa.Value, d int) {
						if v == nil || seen[v] || d > 8 {
							return
						}
						seen[v] = true
						if v == ssa.Value(ph) {
							dep = true
							return
						}
						if in, ok := v.(ssa.Instruction); ok {
							for _, op := range in.Operands(nil) {
								if *op != nil {
									walk(*op, d+1)
								}
							}
						}
					}
					walk(e, 0)
					if dep {
						continue
					}
					insts = append(insts, inst{ph, pred, e})
				}
			}
		}
		if len(insts) == 0 {
			continue
		}
		edge := func(f facts, b *ssa.BasicBlock, succ int) facts {
			for _, a := range edgeAtoms(b, succ) {
				if a.True != 0 {
					f = f.with("decided:" + a.V.Name())
				}
			}
			return f
		}
		flow := mustFlow(fn, facts{}, nil, edge)
		for _, in := range insts {
			f, reach := flow.atEnd(in.pred)
			if !reach {
				continue
			}
			for k, sc := range in.pred.Succs {
				if sc == in.ph.Block() {
					f = edge(f, in.pred, k)
				}
			}
			n++
			name := in.ph.Comment
			if name == "" {
				name = in.ph.Name()
			}
			key := fmt.Sprintf("%s: %s#%d", fnKey(fn), name, countKey(c, rule, fmt.Sprintf("%s: %s#", fnKey(fn), name))+1)
			c.check(f.has("decided:"+in.v.Name()), rule, key, in.ph.Pos(),
				"the loop branches on the fresh verdict before the next round overwrites it",
				fmt.Sprintf("%s is overwritten on every round of the loop with a verdict that does not depend on the previous one, and the loop goes round again without having branched on it: after the loop only the last round counts (\"any of\" became \"the last of\")", name))
		}
	}
	if n == 0 {
		c.okTrivial(rule, "no overwritten loop verdict", token.NoPos, "no boolean is overwritten per round and read after its loop in "+strings.Join(pkgs, ","))
	}
}

// ruleEnumerationFailureWitness: C15.e. The enumerators of internal/imapnum
// (functions returning ([]uint32, bool): Range.append, Set.Nums) report
// ok=false only with a witness: a bound of a range compared equal to 0 (the
// range is dynamic, '*'), or a failed call of another enumerator. A false
// that reaches a return without a witness — e.g. the zero value of a named
// result on the path where the loop body never ran — makes a static (possibly
// empty) set look dynamic, and SearchData.AllSeqNums/AllUIDs panic on it.
func ruleEnumerationFailureWitness(c *Ctx, rule string) {
	p := c.P
	isFamily := func(sig *types.Signature) bool {
		r := sig.Results()
		if r.Len() != 2 {
			return false
		}
		sl, ok := r.At(0).Type().Underlying().(*types.Slice)
		if !ok {
			return false
		}
		if b, ok := sl.Elem().Underlying().(*types.Basic); !ok || b.Kind() != types.Uint32 {
			return false
		}
		b, ok := r.At(1).Type().Underlying().(*types.Basic)
		return ok && b.Kind() == types.Bool
	}
	var fam []*ssa.Function
	for _, fn := range p.SrcFuncs("internal/imapnum") {
		if fn.Parent() == nil && isFamily(fn.Signature) {
			fam = append(fam, fn)
		}
	}
	sort.Slice(fam, func(i, j int) bool { return fam[i].Pos() < fam[j].Pos() })
	if len(fam) == 0 {
		c.unresolvedRoot("enumerators of internal/imapnum (results ([]uint32, bool))")
		return
	}
	famCall := func(v ssa.Value) bool {
		ex, ok := v.(*ssa.Extract)
		if !ok || ex.Index != 1 {
			return false
		}
		call, ok := ex.Tuple.(*ssa.Call)
		if !ok {
			return false
		}
		cal := staticCallee(call)
		return cal != nil && pkgPathOf(cal) == modPath+"/internal/imapnum" && isFamily(cal.Signature)
	}
	isBoundZero := func(v ssa.Value) bool {
		bo, ok := v.(*ssa.BinOp)
		if !ok || bo.Op != token.EQL {
			return false
		}
		for _, pr := range [][2]ssa.Value{{bo.X, bo.Y}, {bo.Y, bo.X}} {
			if k, ok := constInt(pr[1]); ok && k == 0 {
				if r, ok := loadedField(pr[0]); ok && r.Owner != nil && r.Owner.Obj().Name() == "Range" {
					return true
				}
			}
		}
		return false
	}
	isBoundNonZero := func(v ssa.Value) bool {
		bo, ok := v.(*ssa.BinOp)
		if !ok || bo.Op != token.NEQ {
			return false
		}
		for _, pr := range [][2]ssa.Value{{bo.X, bo.Y}, {bo.Y, bo.X}} {
			if k, ok := constInt(pr[1]); ok && k == 0 {
				if r, ok := loadedField(pr[0]); ok && r.Owner != nil && r.Owner.Obj().Name() == "Range" {
					return true
				}
			}
		}
		return false
	}
	// witnessWhen(h, want): the unexported boolean helper h of the package
	// returns `want` only with a witness (`isDynamic()` for want=true,
	// `static()` for want=false)
	predCache := map[string]int{}
	var edgeOf func(fn *ssa.Function) func(f facts, b *ssa.BasicBlock, succ int) facts
	var witnessWhen func(h *ssa.Function, want bool) bool
	witnessWhen = func(h *ssa.Function, want bool) bool {
		key := fmt.Sprintf("%p/%v", h, want)
		if v, ok := predCache[key]; ok {
			return v == 1
		}
		predCache[key] = 0
		if h == nil || h.Blocks == nil || pkgPathOf(h) != modPath+"/internal/imapnum" || h.Signature.Results().Len() != 1 {
			return false
		}
		if b, ok := h.Signature.Results().At(0).Type().Underlying().(*types.Basic); !ok || b.Kind() != types.Bool {
			return false
		}
		edge := edgeOf(h)
		flow := mustFlow(h, facts{}, nil, edge)
		var evalT func(v ssa.Value, want bool, f facts, seen map[ssa.Value]bool) bool
		evalT = func(v ssa.Value, want bool, f facts, seen map[ssa.Value]bool) bool {
			if seen[v] {
				return true
			}
			seen[v] = true
			switch x := v.(type) {
			case *ssa.Const:
				if x.Value != nil && (x.Value.String() == "true") != want {
					return true
				}
				return f.has("witness")
			case *ssa.UnOp:
				if x.Op == token.NOT {
					return evalT(x.X, !want, f, seen)
				}
			case *ssa.Phi:
				for k, e := range x.Edges {
					pred := x.Block().Preds[k]
					pf, reach := flow.atEnd(pred)
					if !reach {
						continue
					}
					for j, sc := range pred.Succs {
						if sc == x.Block() {
							pf = edge(pf, pred, j)
						}
					}
					if !evalT(e, want, pf, seen) {
						return false
					}
				}
				return true
			}
			if want && isBoundZero(v) || !want && isBoundNonZero(v) {
				return true
			}
			return f.has("witness")
		}
		for _, r := range returnsOf(h) {
			f, reach := flow.at(r)
			if !reach {
				continue
			}
			if !evalT(unspill(r.Results[0]), want, f, map[ssa.Value]bool{}) {
				return false
			}
		}
		predCache[key] = 1
		return true
	}
	edgeOf = func(fn *ssa.Function) func(f facts, b *ssa.BasicBlock, succ int) facts {
		return func(f facts, b *ssa.BasicBlock, succ int) facts {
			for _, a := range edgeAtoms(b, succ) {
				if a.Op == token.EQL && a.Const != nil {
					if k, ok := constInt(a.Const); ok && k == 0 {
						if r, ok := loadedField(a.V); ok && r.Owner != nil && r.Owner.Obj().Name() == "Range" {
							f = f.with("witness")
						}
					}
				}
				if a.True == -1 && famCall(a.V) {
					f = f.with("witness")
				}
				if a.True != 0 {
					if call, ok := a.V.(*ssa.Call); ok {
						if h := staticCallee(call); h != nil && h != fn && !famCall(a.V) && witnessWhen(h, a.True == 1) {
							f = f.with("witness")
						}
					}
				}
			}
			return f
		}
	}
	for _, fn := range fam {
		edge := edgeOf(fn)
		flow := mustFlow(fn, facts{}, nil, edge)
		var eval func(v ssa.Value, f facts, seen map[ssa.Value]bool) string
		eval = func(v ssa.Value, f facts, seen map[ssa.Value]bool) string {
			if seen[v] {
				return ""
			}
			seen[v] = true
			switch x := v.(type) {
			case *ssa.Const:
				if x.Value != nil && x.Value.String() == "true" {
					return ""
				}
				if f.has("witness") {
					return ""
				}
				return "false reaches this return on a path without a dynamic bound or a failed enumerator call"
			case *ssa.Phi:
				for k, e := range x.Edges {
					pred := x.Block().Preds[k]
					pf, reach := flow.atEnd(pred)
					if !reach {
						continue
					}
					for j, sc := range pred.Succs {
						if sc == x.Block() {
							pf = edge(pf, pred, j)
						}
					}
					if s := eval(e, pf, seen); s != "" {
						return s
					}
				}
				return ""
			}
			if famCall(v) {
				return ""
			}
			return "the reported ok is neither a constant nor the ok of another enumerator"
		}
		for k, r := range returnsOf(fn) {
			f, reach := flow.at(r)
			if !reach {
				continue
			}
			why := eval(unspill(r.Results[1]), f, map[ssa.Value]bool{})
			c.check(why == "", rule, fmt.Sprintf("%s: return#%d", fnKey(fn), k+1), r.Pos(),
				"ok=false only with a witness (dynamic bound or failed enumerator)", why+": a static set is reported as not enumerable")
		}
	}
}

// ruleMarkerIdentity: C15.f. imap.SearchRes() hands out a marker value that
// is an ordinary empty UIDSet in content; the predicate that recognises it
// can only be right if it consults the marker itself (its identity). A
// predicate computed from the argument's content alone mistakes every empty
// non-nil set for '$'.
func ruleMarkerIdentity(c *Ctx, rule string) {
	p := c.P
	mk := p.Func("", "", "SearchRes")
	is := p.Func("", "", "IsSearchRes")
	if mk == nil || is == nil {
		c.unresolvedRoot("imap.SearchRes / imap.IsSearchRes")
		return
	}
	// the global(s) the constructor returns
	markers := map[*ssa.Global]bool{}
	for _, r := range returnsOf(mk) {
		v := unspill(r.Results[0])
		for k := 0; k < 4; k++ {
			switch x := v.(type) {
			case *ssa.UnOp:
				if g, ok := x.X.(*ssa.Global); ok {
					markers[g] = true
				}
				v = x.X
			case *ssa.ChangeType:
				v = x.X
			case *ssa.MakeInterface:
				v = x.X
			}
		}
	}
	if len(markers) == 0 {
		c.unresolvedRoot("the package-level marker returned by imap.SearchRes")
		return
	}
	// globals derived from the marker in the package initialiser
	derived := map[*ssa.Global]bool{}
	for g := range markers {
		derived[g] = true
	}
	if ipkg := mk.Pkg; ipkg != nil {
		if initFn := ipkg.Func("init"); initFn != nil {
			for changed := true; changed; {
				changed = false
				allInstrs(initFn, func(i ssa.Instruction) {
					st, ok := i.(*ssa.Store)
					if !ok {
						return
					}
					g, ok := st.Addr.(*ssa.Global)
					if !ok || derived[g] {
						return
					}
					if dependsOnGlobal(st.Val, derived, map[ssa.Value]bool{}) {
						derived[g] = true
						changed = true
					}
				})
			}
		}
	}
	uses := false
	for _, f := range helperClosure(is, 2) {
		allInstrs(f, func(i ssa.Instruction) {
			for _, op := range i.Operands(nil) {
				if g, ok := (*op).(*ssa.Global); ok && derived[g] {
					uses = true
				}
			}
		})
	}
	var names []string
	for g := range derived {
		names = append(names, g.Name())
	}
	sort.Strings(names)
	c.check(uses, rule, "IsSearchRes consults the marker", is.Pos(),
		"the predicate reads "+strings.Join(names, "/"),
		"IsSearchRes never reads the marker returned by SearchRes() ("+strings.Join(names, "/")+") nor anything derived from it: it decides from the argument's content alone, and in content the marker is just an empty set")
	// and its result depends on the comparison: every return value is derived from a marker read
	for k, r := range returnsOf(is) {
		v := unspill(r.Results[0])
		ok := dependsOnGlobal(v, derived, map[ssa.Value]bool{})
		c.check(ok, rule, fmt.Sprintf("IsSearchRes return#%d depends on the marker", k+1), r.Pos(),
			"the verdict is computed from a read of the marker", "this verdict of IsSearchRes does not depend on the marker's identity")
	}
}

func dependsOnGlobal(v ssa.Value, gs map[*ssa.Global]bool, seen map[ssa.Value]bool) bool {
	if v == nil || seen[v] || len(seen) > 300 {
		return false
	}
	seen[v] = true
	if g, ok := v.(*ssa.Global); ok {
		return gs[g]
	}
	if in, ok := v.(ssa.Instruction); ok {
		for _, op := range in.Operands(nil) {
			if *op != nil && dependsOnGlobal(*op, gs, seen) {
				return true
			}
		}
	}
	return false
}

// ruleListElementsReject: C19.g. A list-valued criterion (Flag, NotFlag,
// Header, Body, Text, Not, Or, SeqNum, UID) is the conjunction of its
// elements: every element can reject the message on its own. In the matcher,
// a loop over such a list that leaves early must leave towards rejection; when
// the loop lives in a helper, the value the helper returns from inside the
// loop must be the value on which the matcher rejects. A helper that leaves
// early with "false" and a caller that rejects on "true" rejects only when ALL
// elements fire — NOT(f1 AND f2) instead of NOT f1 AND NOT f2.
func ruleListElementsReject(c *Ctx, rule string) {
	p := c.P
	fn := p.Func("imapserver/imapmemserver", "message", "search")
	crit := p.Named("", "SearchCriteria")
	if fn == nil || crit == nil {
		c.unresolvedRoot("(*imapmemserver.message).search")
		return
	}
	closure := helperClosure(fn, 2)
	inClosure := map[*ssa.Function]bool{}
	for _, g := range closure {
		inClosure[g] = true
	}
	critList := func(v ssa.Value) string {
		if r, ok := loadedField(v); ok && r.Owner == crit {
			if _, isSl := r.Field.Type().Underlying().(*types.Slice); isSl {
				return r.Field.Name()
			}
		}
		return ""
	}
	constBool := func(v ssa.Value) (bool, bool) {
		k, ok := v.(*ssa.Const)
		if !ok || k.Value == nil {
			return false, false
		}
		switch k.Value.String() {
		case "true":
			return true, true
		case "false":
			return false, true
		}
		return false, false
	}
	// in-loop returns of g over list value v
	loopReturns := func(g *ssa.Function, v ssa.Value) (found bool, rets []*ssa.Return) {
		for _, b := range g.Blocks {
			for _, i := range b.Instrs {
				ia, ok := i.(*ssa.IndexAddr)
				if !ok || ia.X != v {
					continue
				}
				found = true
				for _, r := range returnsOf(g) {
					if b.Dominates(r.Block()) {
						rets = append(rets, r)
					}
				}
			}
		}
		return
	}
	rejecting := func(b *ssa.BasicBlock) bool {
		for _, i := range b.Instrs {
			switch x := i.(type) {
			case *ssa.DebugRef:
			case *ssa.Return:
				if len(x.Results) == 1 {
					if v, ok := constBool(unspill(x.Results[0])); ok && !v {
						return true
					}
				}
				return false
			default:
				return false
			}
		}
		return false
	}
	n := 0
	for _, g := range closure {
		allInstrs(g, func(i ssa.Instruction) {
			// direct loops in the matcher
			if ld, ok := i.(*ssa.UnOp); ok && g == fn {
				if name := critList(ld); name != "" {
					found, rets := loopReturns(g, ld)
					if found && len(rets) > 0 {
						okAll := true
						for _, r := range rets {
							if v, isC := constBool(unspill(r.Results[0])); !isC || v {
								okAll = false
							}
						}
						n++
						c.check(okAll, rule, "message.search: loop over "+name, ld.Pos(),
							"an element that fails leaves the loop towards `return false`",
							"the loop over criteria."+name+" leaves early with something other than rejection")
					}
				}
			}
			call, ok := i.(*ssa.Call)
			if !ok {
				return
			}
			h := staticCallee(call)
			if h == nil || !inClosure[h] || h == fn {
				return
			}
			for ai, a := range call.Call.Args {
				name := critList(a)
				if name == "" {
					continue
				}
				pi := ai
				if pi >= len(h.Params) {
					continue
				}
				found, rets := loopReturns(h, h.Params[pi])
				if !found || len(rets) == 0 {
					continue
				}
				inVals := map[bool]bool{}
				computed := false
				for _, r := range rets {
					if len(r.Results) != 1 {
						computed = true
						continue
					}
					if v, isC := constBool(unspill(r.Results[0])); isC {
						inVals[v] = true
					} else {
						computed = true
					}
				}
				// on which value does the matcher reject?
				var rejectOn *bool
				blk := call.Block()
				if ifi, ok := blk.Instrs[len(blk.Instrs)-1].(*ssa.If); ok {
					for _, at := range atomsOf(ifi.Cond, true) {
						if at.V == ssa.Value(call) && at.True != 0 {
							tBlk, fBlk := blk.Succs[0], blk.Succs[1]
							if at.True == -1 {
								tBlk, fBlk = fBlk, tBlk
							}
							// tBlk: reached when the helper returned true
							switch {
							case rejecting(tBlk) && !rejecting(fBlk):
								t := true
								rejectOn = &t
							case rejecting(fBlk) && !rejecting(tBlk):
								f := false
								rejectOn = &f
							}
						}
					}
				}
				key := fmt.Sprintf("%s: %s(criteria.%s)", fnKey(g), h.Name(), name)
				n++
				switch {
				case computed || len(inVals) != 1:
					c.undecided(rule, key, call.Pos(), "the helper leaves its loop with a computed value or with both constants")
				case rejectOn == nil:
					c.undecided(rule, key, call.Pos(), "cannot tell on which value of the helper the matcher rejects")
				default:
					c.check(inVals[*rejectOn], rule, key, call.Pos(),
						"the value the helper returns from inside its loop is the value on which the matcher rejects",
						fmt.Sprintf("%s leaves its loop over the list early returning %v, but the matcher rejects when it returns %v, i.e. only after the helper ran through ALL elements of criteria.%s: one element alone can no longer reject the message (the conjunction over the list became a disjunction)", h.Name(), !*rejectOn, *rejectOn, name))
				}
			}
		})
	}
	if n == 0 {
		c.unresolvedRoot("loops over list criteria in message.search")
	}
}

// condPos: a source position for a branch (go/ssa gives If no position): the
// condition's, or that of the nearest operand that has one.
func condPos(ifi *ssa.If) token.Pos {
	seen := map[ssa.Value]bool{}
	var rec func(v ssa.Value, d int) token.Pos
	rec = func(v ssa.Value, d int) token.Pos {
		if v == nil || seen[v] || d > 6 {
			return token.NoPos
		}
		seen[v] = true
		if v.Pos().IsValid() {
			return v.Pos()
		}
		if in, ok := v.(ssa.Instruction); ok {
			for _, op := range in.Operands(nil) {
				if *op != nil {
					if p := rec(*op, d+1); p.IsValid() {
						return p
					}
				}
			}
		}
		return token.NoPos
	}
	if p := rec(ifi.Cond, 0); p.IsValid() {
		return p
	}
	for _, i := range ifi.Block().Instrs {
		if i.Pos().IsValid() {
			return i.Pos()
		}
	}
	return token.NoPos
}

// derivedReaderFields: struct fields of internal/imapwire into which a value
// derived from Decoder.r is stored (LiteralReader.r = io.LimitReader(dec.r, n)):
// reading through them consumes the connection's input just like dec.r.
var derivedReaderCache map[*types.Var]bool

func derivedReaderFields(p *Program) map[*types.Var]bool {
	if derivedReaderCache != nil {
		return derivedReaderCache
	}
	out := map[*types.Var]bool{}
	var fromR func(v ssa.Value, d int) bool
	fromR = func(v ssa.Value, d int) bool {
		if v == nil || d > 6 {
			return false
		}
		if r, ok := loadedField(v); ok && (r.is("Decoder", "r") || out[r.Field]) {
			return true
		}
		switch x := v.(type) {
		case *ssa.MakeInterface:
			return fromR(x.X, d+1)
		case *ssa.ChangeInterface:
			return fromR(x.X, d+1)
		case *ssa.Call:
			if o := calleeObj(x); o != nil && o.Pkg() != nil && (o.Pkg().Path() == "io" || o.Pkg().Path() == "bufio") {
				for _, a := range x.Call.Args {
					if fromR(a, d+1) {
						return true
					}
				}
			}
		}
		return false
	}
	for changed := true; changed; {
		changed = false
		for _, fn := range p.SrcFuncs("internal/imapwire") {
			allInstrs(fn, func(i ssa.Instruction) {
				st, ok := i.(*ssa.Store)
				if !ok {
					return
				}
				fa, ok := st.Addr.(*ssa.FieldAddr)
				if !ok {
					return
				}
				r, ok := fieldOf(fa)
				if !ok || r.Field == nil || out[r.Field] || r.is("Decoder", "r") {
					return
				}
				if fromR(st.Val, 0) {
					out[r.Field] = true
					changed = true
				}
			})
		}
	}
	derivedReaderCache = out
	return out
}

// ruleEOLFlagOnConsumption: C04.i, the converse of C04.g. Whoever consumes
// input from the connection (a read on Decoder.r or on a reader derived from
// it) leaves the end-of-line flag cleared: the store of false precedes the
// read on every path (or the reading object is detached from the decoder —
// its back-pointer tested nil), or it follows on every path to a return. A
// reader that consumes a literal's payload without clearing the flag leaves
// DiscardLine believing the line has ended, and the rest of the command line
// is then parsed as the next command.
func ruleEOLFlagOnConsumption(c *Ctx, rule string) {
	p := c.P
	n := 0
	isReader := func(v ssa.Value) bool {
		for {
			if mi, ok := v.(*ssa.MakeInterface); ok {
				v = mi.X
				continue
			}
			if ci, ok := v.(*ssa.ChangeInterface); ok {
				v = ci.X
				continue
			}
			break
		}
		r, ok := loadedField(v)
		return ok && (r.is("Decoder", "r") || derivedReaderFields(p)[r.Field])
	}
	reading := map[string]bool{"ReadByte": true, "Read": true, "ReadString": true, "ReadLine": true, "ReadBytes": true, "ReadRune": true, "ReadSlice": true, "Discard": true, "WriteTo": true}
	consumes := func(call ssa.CallInstruction) bool {
		cc := call.Common()
		o := calleeObj(call)
		if o == nil {
			return false
		}
		if len(cc.Args) > 0 && !cc.IsInvoke() && isReader(cc.Args[0]) && reading[o.Name()] {
			return true
		}
		if cc.IsInvoke() && isReader(cc.Value) && reading[o.Name()] {
			return true
		}
		if o.Pkg() != nil && o.Pkg().Path() == "io" {
			switch o.Name() {
			case "CopyN", "Copy", "CopyBuffer", "ReadFull", "ReadAtLeast", "ReadAll":
				for _, a := range cc.Args {
					if isReader(a) {
						return true
					}
				}
			}
		}
		return false
	}
	for _, fn := range p.SrcFuncs("internal/imapwire") {
		var sites []ssa.CallInstruction
		allInstrs(fn, func(i ssa.Instruction) {
			if call, ok := i.(ssa.CallInstruction); ok && consumes(call) {
				sites = append(sites, call)
			}
		})
		if len(sites) == 0 {
			continue
		}
		gen := func(f facts, i ssa.Instruction) facts {
			if st, ok := i.(*ssa.Store); ok {
				if r, ok := fieldOf(st.Addr); ok && r.is("Decoder", "crlf") {
					if k, ok := st.Val.(*ssa.Const); ok && k.Value != nil {
						if k.Value.String() == "false" {
							return f.with("cleared")
						}
						return f.without(func(s string) bool { return s == "cleared" })
					}
				}
			}
			if call, ok := i.(ssa.CallInstruction); ok {
				// a peek: the byte is put back
				if o := calleeObj(call); o != nil && (o.Name() == "mustUnreadByte" || o.Name() == "UnreadByte") {
					return f.with("unread")
				}
				if consumes(call) {
					return f.without(func(s string) bool { return s == "unread" || strings.HasPrefix(s, "failed:") })
				}
			}
			return f
		}
		errOf := func(v ssa.Value) ssa.CallInstruction {
			if ex, ok := v.(*ssa.Extract); ok {
				if call, ok := ex.Tuple.(*ssa.Call); ok && consumes(call) && isErrorType(ex.Type()) {
					return call
				}
			}
			return nil
		}
		edge := func(f facts, b *ssa.BasicBlock, succ int) facts {
			for _, a := range edgeAtoms(b, succ) {
				// the read failed (nothing consumed, or the decoder is in error anyway)
				if call := errOf(a.V); call != nil {
					if a.Nil == -1 || (a.Op == token.EQL && a.Other != nil) {
						f = f.with(fmt.Sprintf("failed:%p", call))
					}
				}
				if a.Nil == 1 {
					if r, ok := loadedField(a.V); ok && r.Field != nil {
						if pt, ok := r.Field.Type().Underlying().(*types.Pointer); ok {
							if nm, ok := pt.Elem().(*types.Named); ok && nm.Obj().Name() == "Decoder" {
								f = f.with("cleared") // detached from the decoder: nothing of the connection is read through it
							}
						}
					}
				}
			}
			return f
		}
		flow := mustFlow(fn, facts{}, gen, edge)
		for _, site := range sites {
			f, reach := flow.at(site)
			if !reach {
				continue
			}
			ok := f.has("cleared") || f.has("detached")
			if !ok {
				// cleared afterwards on every path to a return?
				ok = true
				any := false
				for _, r := range returnsOf(fn) {
					if r.Block() != site.Block() && !reaches(site.Block(), r.Block()) {
						continue
					}
					any = true
					rf, rr := flow.at(r)
					if rr && !rf.has("cleared") && !rf.has("unread") && !rf.has(fmt.Sprintf("failed:%p", site)) {
						ok = false
					}
				}
				if !any {
					ok = false
				}
			}
			n++
			key := fmt.Sprintf("%s: read#%d", fnKey(fn), countKey(c, rule, fnKey(fn)+": read#")+1)
			c.check(ok, rule, key, site.Pos(),
				"the end-of-line flag is cleared around this read of the connection (or the reader is detached from the decoder)",
				"this reads input from the connection (a literal's payload) and leaves Decoder.crlf as it was — still true after the CRLF of the literal header: DiscardLine then takes the line for finished, and what follows the literal on the same command line is parsed as the next command")
		}
	}
	if n == 0 {
		c.unresolvedRoot("reads of the connection in internal/imapwire")
	}
}

// ruleNoFreeTextInHandlers: C04.j. Decoder.Text/ExpectText take everything up
// to the end of the line, a trailing literal header ("{9+}") included; a
// handler that fails after such a read leaves DiscardLine nothing to see, and
// the announced literal's payload is then read as commands. On the server
// only DiscardLine may read free text.
func ruleNoFreeTextInHandlers(c *Ctx, rule string) {
	p := c.P
	text := p.Func("internal/imapwire", "Decoder", "Text")
	if text == nil {
		c.unresolvedRoot("(*Decoder).Text")
		return
	}
	isText := func(cal *ssa.Function) bool {
		if cal == nil {
			return false
		}
		if cal == text {
			return true
		}
		// a thin wrapper (ExpectText)
		if pkgPathOf(cal) == modPath+"/internal/imapwire" && cal != p.Func("internal/imapwire", "Decoder", "DiscardLine") {
			w := false
			allInstrs(cal, func(i ssa.Instruction) {
				if call, ok := i.(ssa.CallInstruction); ok && staticCallee(call) == text {
					w = true
				}
			})
			return w
		}
		return false
	}
	n, bad := 0, 0
	for _, fn := range p.SrcFuncs("imapserver", "imapserver/imapmemserver") {
		allInstrs(fn, func(i ssa.Instruction) {
			call, ok := i.(ssa.CallInstruction)
			if !ok {
				return
			}
			if !isDecoderCall(call) {
				return
			}
			n++
			if isText(staticCallee(call)) {
				bad++
				c.fail(rule, fmt.Sprintf("%s: free text#%d", fnKey(fn), countKey(c, rule, fnKey(fn)+": free text#")+1), call.Pos(),
					"this server-side parser reads the remainder of the line as free text: a trailing literal header is swallowed with it, so when the command is then refused DiscardLine cannot skip the literal and its payload is executed as commands")
			}
		})
	}
	if n == 0 {
		c.unresolvedRoot("decoder calls in imapserver")
		return
	}
	if bad == 0 {
		c.ok(rule, "no free-text read in the server's parsers", token.NoPos, fmt.Sprintf("%d decoder calls in imapserver, none of them Text/ExpectText (only DiscardLine reads free text)", n))
	}
}

// ruleHandOverReleasedOnError: C10.m. A reader wrapper that hands the
// connection back to the read goroutine by closing a channel (the goroutine
// waits on it while the consumer reads a literal) must do so on every error
// of the inner read, not only at io.EOF: after a read error in the middle of
// the literal (connection closed by Client.Close, read deadline, reset) no
// EOF ever comes, the read goroutine waits for ever and Client.Close blocks
// on it. Every return of such a Read either reports a nil error, or has
// closed the channel, or has found it already nil.
func ruleHandOverReleasedOnError(c *Ctx, rule string) {
	p := c.P
	n := 0
	for _, fn := range p.SrcFuncs("imapclient") {
		if fn.Name() != "Read" || fn.Signature.Recv() == nil || fn.Signature.Results().Len() != 2 || !isErrorType(fn.Signature.Results().At(1).Type()) {
			continue
		}
		// closes a channel field of its receiver?
		var chanField *types.Var
		isChanLoad := func(v ssa.Value) *types.Var {
			if r, ok := loadedField(v); ok && r.Field != nil {
				if _, isCh := r.Field.Type().Underlying().(*types.Chan); isCh {
					return r.Field
				}
			}
			return nil
		}
		deepInstrs(fn, 2, func(i ssa.Instruction) {
			if call, ok := i.(*ssa.Call); ok {
				if b, ok := call.Call.Value.(*ssa.Builtin); ok && b.Name() == "close" && len(call.Call.Args) == 1 {
					if f := isChanLoad(call.Call.Args[0]); f != nil {
						chanField = f
					}
				}
			}
		})
		if chanField == nil {
			continue
		}
		// a helper that closes the channel (or finds it nil) on all of its paths
		var releases func(h *ssa.Function, d int) bool
		var gen func(f facts, i ssa.Instruction) facts
		nilEdge := func(f facts, b *ssa.BasicBlock, succ int) facts {
			for _, a := range edgeAtoms(b, succ) {
				if a.Nil == 1 && isChanLoad(a.V) == chanField {
					f = f.with("released")
				}
			}
			return f
		}
		releases = func(h *ssa.Function, d int) bool {
			if h == nil || h.Blocks == nil || d == 0 || h == fn {
				return false
			}
			hf := mustFlow(h, facts{}, gen, nilEdge)
			all := len(returnsOf(h)) > 0
			for _, r := range returnsOf(h) {
				if f, reach := hf.at(r); reach && !f.has("released") {
					all = false
				}
			}
			return all
		}
		// the inner read: a call returning (int, error) whose error is what this Read returns
		gen = func(f facts, i ssa.Instruction) facts {
			if call, ok := i.(*ssa.Call); ok {
				if b, ok := call.Call.Value.(*ssa.Builtin); ok && b.Name() == "close" && len(call.Call.Args) == 1 && isChanLoad(call.Call.Args[0]) == chanField {
					return f.with("released")
				}
				if h := staticCallee(call); h != nil && inModule(h) && isHelperOf(h, fn, 2) && releases(h, 2) {
					return f.with("released")
				}
			}
			return f
		}
		edge := func(f facts, b *ssa.BasicBlock, succ int) facts {
			for _, a := range edgeAtoms(b, succ) {
				if a.Nil == 1 {
					if isErrorType(a.V.Type()) {
						f = f.with("released") // nothing failed on this path
					}
					if isChanLoad(a.V) == chanField {
						f = f.with("released") // already handed back
					}
				}
			}
			return f
		}
		flow := mustFlow(fn, facts{}, gen, edge)
		for k, r := range returnsOf(fn) {
			f, reach := flow.at(r)
			if !reach {
				continue
			}
			ev := unspill(r.Results[1])
			if isNilConst(ev) {
				continue
			}
			// a sticky error returned without touching the inner reader: the hand-over happened when it was recorded
			if ld, ok := loadedField(ev); ok && ld.Field != nil && isErrorType(ld.Field.Type()) {
				continue
			}
			n++
			c.check(f.has("released"), rule, fmt.Sprintf("%s: return#%d", fnKey(fn), k+1), r.Pos(),
				"the hand-over channel is closed (or already nil) whenever a non-nil error is returned",
				"this Read can return a non-nil error of the inner reader without closing "+chanField.Name()+": only io.EOF hands the connection back, so after a read error in the middle of a literal the read goroutine waits on the channel for ever and Client.Close never returns")
		}
	}
	if n == 0 {
		c.unresolvedRoot("Read wrappers that close a hand-over channel")
	}
}

// ruleReaderClosedChannelsSelected: C10.n. A channel that only the read
// goroutine closes, at a point it reaches conditionally (after parsing the
// rest of a response), may never be closed: the goroutine can fail first. A
// receive on such a channel outside the read goroutine must therefore be a
// select that also watches the goroutine's termination channel (Client.decCh,
// closed by its deferred teardown). Channels closed by completeCommand /
// closeWithError (guaranteed by C10.a–c) and by deferred calls are exempt.
func ruleReaderClosedChannelsSelected(c *Ctx, rule string) {
	p := c.P
	read := p.Func("imapclient", "Client", "read")
	cwe := p.Func("imapclient", "Client", "closeWithError")
	cc := p.Func("imapclient", "Client", "completeCommand")
	if read == nil || cwe == nil || cc == nil {
		c.unresolvedRoot("(*Client).read / closeWithError / completeCommand")
		return
	}
	guaranteed := staticReach([]*ssa.Function{cwe, cc}, 6)
	readerAll := staticReach([]*ssa.Function{read}, 12)
	reader := map[*ssa.Function]bool{}
	for f := range readerAll {
		if !guaranteed[f] {
			reader[f] = true
		}
	}
	chanClass := func(v ssa.Value) (field *types.Var, mk *ssa.MakeChan) {
		for k := 0; k < 6 && v != nil; k++ {
			if r, ok := loadedField(v); ok && r.Field != nil {
				return r.Field, nil
			}
			switch x := v.(type) {
			case *ssa.MakeChan:
				// stored into a field?
				for _, ref := range *x.Referrers() {
					switch u := ref.(type) {
					case *ssa.Store:
						if r, ok := fieldOf(u.Addr); ok && r.Field != nil {
							return r.Field, x
						}
					case *ssa.ChangeType:
						for _, r2 := range *u.Referrers() {
							if st, ok := r2.(*ssa.Store); ok {
								if r, ok := fieldOf(st.Addr); ok && r.Field != nil {
									return r.Field, x
								}
							}
						}
					}
				}
				return nil, x
			case *ssa.ChangeType:
				v = x.X
			case *ssa.UnOp:
				if x.Op == token.MUL {
					if al, ok := x.X.(*ssa.Alloc); ok {
						// a local cell: its single store
						var sv ssa.Value
						for _, ref := range *al.Referrers() {
							if st, ok := ref.(*ssa.Store); ok && st.Addr == ssa.Value(al) {
								sv = st.Val
							}
						}
						v = sv
						continue
					}
				}
				return nil, nil
			default:
				return nil, nil
			}
		}
		return nil, nil
	}
	// close sites per field
	type site struct {
		fn       *ssa.Function
		deferred bool
		pos      token.Pos
	}
	closes := map[*types.Var][]site{}
	for _, fn := range p.SrcFuncs("imapclient") {
		allInstrs(fn, func(i ssa.Instruction) {
			ci, ok := i.(ssa.CallInstruction)
			if !ok {
				return
			}
			b, ok := ci.Common().Value.(*ssa.Builtin)
			if !ok || b.Name() != "close" || len(ci.Common().Args) != 1 {
				return
			}
			f, _ := chanClass(ci.Common().Args[0])
			if f == nil {
				return
			}
			_, isDefer := i.(*ssa.Defer)
			closes[f] = append(closes[f], site{fn, isDefer, i.Pos()})
		})
	}
	decCh := func(v ssa.Value) bool {
		r, ok := loadedField(v)
		return ok && r.is("Client", "decCh")
	}
	n := 0
	check := func(fn *ssa.Function, at ssa.Instruction, ch ssa.Value, pos token.Pos, selected bool) {
		f, _ := chanClass(ch)
		if f == nil {
			return
		}
		cs := closes[f]
		if len(cs) == 0 {
			return
		}
		for _, s := range cs {
			if !reader[s.fn] || s.deferred {
				return // closed from somewhere that does not depend on the reader's progress
			}
		}
		n++
		// …and the event is signalled only when the command succeeded: the
		// wait must come after the command's own successful Wait
		gfl := gateFlow(fn, facts{})
		okWait := false
		if fs, reach := gfl.at(at); reach {
			for _, fact := range fs.list() {
				if strings.HasPrefix(fact, "ok:") && strings.HasSuffix(fact, ".Wait") {
					okWait = true
				}
			}
		}
		// only events of a command (a field of a …Command struct)
		ownerCmd := false
		if nm := ownerOfField(p, f); nm != nil && strings.HasSuffix(strings.ToLower(nm.Obj().Name()), "command") {
			ownerCmd = true
		}
		if !ownerCmd {
			okWait = true
		}
		c.check(okWait, rule, fmt.Sprintf("%s: <-%s after the command's success", fnKey(fn), f.Name()), pos,
			"the receive is reached only after the command's Wait returned nil",
			fmt.Sprintf("%s is closed only when the command succeeded, but it is waited for before (or regardless of) the command's own Wait: when the server answers NO/BAD the event never comes and, the connection being alive, nothing else ends the wait", f.Name()))
		key := fmt.Sprintf("%s: <-%s", fnKey(fn), f.Name())
		c.check(selected, rule, key, pos,
			"the receive is a select that also watches the read goroutine's termination (decCh)",
			fmt.Sprintf("%s is closed only by the read goroutine, at %s, which it reaches only if the rest of the response parses; this blocking receive has no alternative, so when the connection fails first (e.g. it is cut between the tagged OK and its CRLF) the caller waits for ever", f.Name(), p.pos(cs[0].pos)))
	}
	for _, fn := range p.SrcFuncs("imapclient") {
		if reader[fn] || guaranteed[fn] {
			continue
		}
		allInstrs(fn, func(i ssa.Instruction) {
			switch x := i.(type) {
			case *ssa.UnOp:
				if x.Op == token.ARROW {
					check(fn, x, x.X, x.Pos(), false)
				}
			case *ssa.Select:
				if !x.Blocking {
					return
				}
				watch := false
				for _, st := range x.States {
					if st.Dir == types.RecvOnly && decCh(st.Chan) {
						watch = true
					}
				}
				for _, st := range x.States {
					if st.Dir == types.RecvOnly && !decCh(st.Chan) {
						check(fn, x, st.Chan, st.Pos, watch)
					}
				}
			}
		})
	}
	if n == 0 {
		c.unresolvedRoot("receives on channels closed only by the read goroutine")
	}
}

// ruleRefusalIsNotTeardown: C12.n. When the server answers a synchronising
// literal with a tagged NO/BAD instead of a continuation request, the
// encoder is put into its error state with that *imap.Error (so that nothing
// more of the command is written) and the command's flush then sees it as the
// result of writing the CRLF. That error completed the command; it is not a
// connection failure: every teardown (closeWithError) fed by an encoder
// error must be guarded by a failed errors.As(err, **imap.Error).
func ruleRefusalIsNotTeardown(c *Ctx, rule string) {
	p := c.P
	cwe := p.Func("imapclient", "Client", "closeWithError")
	if cwe == nil {
		c.unresolvedRoot("(*Client).closeWithError")
		return
	}
	isRefusalTest := func(v ssa.Value) bool {
		call, ok := v.(*ssa.Call)
		if !ok {
			return false
		}
		o := calleeObj(call)
		if o == nil || o.Pkg() == nil || o.Pkg().Path() != "errors" || o.Name() != "As" || len(call.Call.Args) != 2 {
			return false
		}
		t := call.Call.Args[1].Type()
		if mi, ok := call.Call.Args[1].(*ssa.MakeInterface); ok {
			t = mi.X.Type()
		}
		return strings.Contains(t.String(), modPath+".Error")
	}
	fromEncoder := func(v ssa.Value) bool {
		seen := map[ssa.Value]bool{}
		var rec func(v ssa.Value, d int) bool
		rec = func(v ssa.Value, d int) bool {
			if v == nil || seen[v] || d > 6 {
				return false
			}
			seen[v] = true
			switch x := v.(type) {
			case *ssa.Call:
				if o := calleeObj(x); o != nil {
					if rn := recvNamed(o); rn != nil && rn.Obj().Name() == "Encoder" {
						return true
					}
				}
			case *ssa.Extract:
				return rec(x.Tuple, d+1)
			case *ssa.Phi:
				for _, e := range x.Edges {
					if rec(e, d+1) {
						return true
					}
				}
			case *ssa.Parameter:
				// a helper handed the error: look at its callers
				fn := x.Parent()
				idx := -1
				for k, pr := range fn.Params {
					if pr == x {
						idx = k
					}
				}
				for _, site := range callSitesOf(p, fn) {
					args := site.Common().Args
					if idx >= 0 && idx < len(args) && rec(args[idx], d+1) {
						return true
					}
				}
			}
			return false
		}
		return rec(v, 0)
	}
	n := 0
	for _, fn := range p.SrcFuncs("imapclient") {
		var sites []*ssa.Call
		allInstrs(fn, func(i ssa.Instruction) {
			if call, ok := i.(*ssa.Call); ok && staticCallee(call) == cwe && len(call.Call.Args) == 2 && fromEncoder(call.Call.Args[1]) {
				sites = append(sites, call)
			}
		})
		if len(sites) == 0 {
			continue
		}
		edge := func(f facts, b *ssa.BasicBlock, succ int) facts {
			for _, a := range edgeAtoms(b, succ) {
				if a.True == -1 && isRefusalTest(a.V) {
					f = f.with("not-refusal")
				}
				if call, ok := a.V.(*ssa.Call); ok && a.True == 1 && connFailurePredicate(staticCallee(call)) {
					f = f.with("not-refusal")
				}
			}
			return f
		}
		flow := mustFlow(fn, entryContextOr(fn, "not-refusal", isRefusalTest), nil, edge)
		for _, site := range sites {
			f, reach := flow.at(site)
			if !reach {
				continue
			}
			n++
			c.check(f.has("not-refusal"), rule, fmt.Sprintf("%s: teardown on encoder error#%d", fnKey(fn), countKey(c, rule, fnKey(fn)+": teardown on encoder error#")+1), site.Pos(),
				"the teardown is reached only when the encoder's error is not the server's tagged refusal",
				"the client is torn down on any error of the command encoder, including the *imap.Error with which a refused synchronising literal (tagged NO/BAD instead of '+') poisons it: one refused command closes the connection and fails every other pending command")
		}
	}
	if n == 0 {
		c.unresolvedRoot("teardowns fed by a command-encoder error")
	}
}

// entryContextOr: when fn is a helper whose every call site already holds the
// fact (established by the same kind of edge in the caller), the fact holds
// at entry.
func entryContextOr(fn *ssa.Function, fact string, isTest func(ssa.Value) bool) facts {
	sites := callSitesOf(gateProg, fn)
	if len(sites) == 0 || fn.Object() == nil || fn.Object().Exported() {
		return facts{}
	}
	for _, site := range sites {
		caller := site.Parent()
		edge := func(f facts, b *ssa.BasicBlock, succ int) facts {
			for _, a := range edgeAtoms(b, succ) {
				if a.True == -1 && isTest(a.V) {
					f = f.with(fact)
				}
			}
			return f
		}
		flow := mustFlow(caller, facts{}, nil, edge)
		f, reach := flow.at(site)
		if reach && !f.has(fact) {
			return facts{}
		}
	}
	return facts{}.with(fact)
}
