package main

import (
	"fmt"
	"go/token"
	"go/types"
	"sort"
	"strings"

	"golang.org/x/tools/go/ssa"
)

func init() {
	register("C10", "Decided: (a) the reader goroutine registers, before doing anything that can block, the closing of decCh and a deferred function that recovers and runs closeWithError with a non-nil error; closeWithError, on every path, closes the connection, takes the whole pending list under the mutex and completes each of its commands; (b) a command removed from the pending list by tag is completed exactly once on every path (the deferred error completion included); (c) every command type that streams results over a channel has that channel closed by completeCommand, and done is sent-then-closed unconditionally; (d) a failed flush of a command closes the client with that error; (e) completing a command cancels its pending continuation requests and Wait callers stop on the error; (f) a command is fully initialised before it becomes visible in the pending list. Not decided: termination under every fault offset (liveness in general), the caller's side of the streaming contract.", checkC10)
}

func checkC10(c *Ctx) {
	p := c.P
	c.rule("C10.a", "reader exit: decCh closed, recover + closeWithError(non-nil) deferred first; closeWithError completes every pending command on all paths", 5)
	c.rule("C10.b", "removal from the pending list is paired with exactly one completion", 8)
	c.rule("C10.c", "stream channels of every command type are closed on completion; done is sent then closed", 4)
	c.rule("C10.d", "a failed command flush closes the client", 1)
	c.rule("C10.e", "completion cancels continuation requests; Wait errors are honoured", 3)
	c.rule("C10.f", "publication after initialisation", 1)
	c.rule("C10.L", "layering lemma", 1)
	c.assume("callers honour the documented contract: streaming commands are consumed or closed")

	read := p.Func("imapclient", "Client", "read")
	cwe := p.Func("imapclient", "Client", "closeWithError")
	complete := p.Func("imapclient", "Client", "completeCommand")
	if read == nil || cwe == nil || complete == nil {
		c.unresolvedRoot("(*Client).read / closeWithError / completeCommand")
		return
	}
	// ---- (a) read ----------------------------------------------------------
	var closesDecCh, defersTeardown bool
	var firstBlocking ssa.Instruction
	for _, i := range read.Blocks[0].Instrs {
		switch x := i.(type) {
		case *ssa.Defer:
			if b, ok := x.Call.Value.(*ssa.Builtin); ok && b.Name() == "close" {
				if r, ok := loadedField(x.Call.Args[0]); ok && r.is("Client", "decCh") {
					closesDecCh = true
				}
			}
			var cl *ssa.Function
			if mc, ok := x.Call.Value.(*ssa.MakeClosure); ok {
				cl = mc.Fn.(*ssa.Function)
			} else if cal := staticCallee(x); cal != nil && inModule(cal) && cal.Blocks != nil {
				cl = cal // `defer c.finishRead()`: recover() is still called directly by the deferred function
			}
			if cl != nil {
				if hasRecoverIn(cl) {
					// closeWithError on every path of the closure, with a non-nil error
					gf := mustFlow(cl, facts{}, func(f facts, j ssa.Instruction) facts {
						if call, ok := j.(*ssa.Call); ok && staticCallee(call) == cwe {
							return f.with("torn-down")
						}
						return f
					}, nil)
					all := true
					for _, ret := range returnsOf(cl) {
						fs, reach := gf.at(ret)
						if reach && !fs.has("torn-down") {
							all = false
						}
					}
					nonNil := true
					allInstrs(cl, func(j ssa.Instruction) {
						if call, ok := j.(*ssa.Call); ok && staticCallee(call) == cwe {
							if !knownNonNilError(cl, call.Call.Args[1]) {
								nonNil = false
							}
						}
					})
					defersTeardown = all
					c.check(nonNil, "C10.a", "read: teardown error is never nil", x.Pos(), "closeWithError receives the decoder error or, when that is nil, io.ErrUnexpectedEOF",
						"the reader can tear the client down with a nil error: commands whose completion never arrived report success")
				}
			}
		case ssa.CallInstruction:
			if firstBlocking == nil {
				if _, isDefer := i.(*ssa.Defer); !isDefer {
					firstBlocking = i
				}
			}
		}
	}
	c.check(closesDecCh, "C10.a", "read: defer close(decCh)", read.Pos(), "registered in the entry block, before the read loop", "the reader no longer closes decCh on exit: Close() and WaitGreeting() block for ever")
	c.check(defersTeardown, "C10.a", "read: defer recover+closeWithError", read.Pos(), "a deferred function recovers and calls closeWithError on all of its paths", "the reader's deferred teardown does not always run closeWithError: pending commands hang after the connection is lost")
	// ---- (a) closeWithError -------------------------------------------------
	ruleTeardownTakesAll(c, "C10.a", cwe, complete)
	// only the taken (local) list is iterated; the lock is released before completing (completeCommand locks)
	// ---- (b), (f) via the C13 rules ------------------------------------------
	cut := layeringCut(c, "C10.L")
	roots := append(exportedRoots(p, "imapclient"), goTargets(p, "imapclient")...)
	la := newLockAnalysis(p, roots, cut)
	guards := guardedFields(p, "imapclient")
	var clientGuard *guardInfo
	client := p.Named("imapclient", "Client")
	for v, g := range guards {
		if g.owner == client {
			clientGuard = g
		} else {
			delete(guards, v)
		}
	}
	if clientGuard == nil {
		c.unresolvedRoot("Client guard")
		return
	}
	ruleCompletionPairing(c, "C10.b", la, clientGuard)
	rulePublication(c, "C10.f", la, guards, clientGuard)
	// ---- (c) ---------------------------------------------------------------
	ruleStreamChannelsClosed(c, "C10.c", complete)
	// ---- (d) ---------------------------------------------------------------
	flush := p.Func("imapclient", "commandEncoder", "flush")
	ruleFlushCloses(c, "C10.d", flush, cwe)
	// ---- (e) ---------------------------------------------------------------
	ruleContReqCancelled(c, "C10.e")
	c.rule("C10.g", "a continuation request is registered before the bytes that provoke it are flushed", 3)
	ruleRegisterBeforeFlush(c, "C10.g")
	c.rule("C10.h", "while a response is being read the read deadline is always finite", 3)
	ruleReadDeadline(c, "C10.h")
	c.rule("C10.i", "the encoder lock taken by beginCommand is released on every path, or owned by a command object that reaches the caller and whose Close releases it", 35)
	ruleCommandEncoderPairing(c, "C10.i")
	c.rule("C10.j", "a hand-over counter compared with cap(ch) is incremented before the send of the same round", 1)
	ruleCountBeforeSend(c, "C10.j")
	c.rule("C10.k", "no blocking channel operation while Client.mutex is held", 1)
	ruleNoBlockingUnderClientMutex(c, "C10.k", la)
	c.rule("C10.l", "merged sub-command errors: a later error is taken only while none is recorded", 0)
	ruleFirstErrorWins(c, "C10.l", "imapclient")
	c.rule("C10.m", "a literal reader hands the connection back to the read goroutine on every read error, not only at EOF", 1)
	ruleHandOverReleasedOnError(c, "C10.m")
	c.rule("C10.n", "a receive on a channel that only the read goroutine closes also watches the goroutine's termination", 1)
	ruleReaderClosedChannelsSelected(c, "C10.n")
	c.rule("C10.o", "no function that may issue and await a command is called while the command encoder is held", 20)
	ruleNoCommandWhileEncoding(c, "C10.o")
	c.rule("C10.p", "a continuation request taken off the queue is resolved (Done/Cancel) on every path", 1)
	ruleContReqResolved(c, "C10.p")
}

// ruleRegisterBeforeFlush: in every client function that both registers
// continuation requests and flushes bytes to the server (command flush, SASL
// response), each flush happens with a registered, not yet awaited request:
// otherwise the server's reply can be handled (and the command completed)
// before the request exists, nothing ever cancels it and Wait blocks for ever.
func ruleRegisterBeforeFlush(c *Ctx, rule string) {
	p := c.P
	reg := p.Func("imapclient", "Client", "registerContReq")
	if reg == nil {
		c.unresolvedRoot("(*Client).registerContReq")
		return
	}
	isFlush := func(call ssa.CallInstruction) bool {
		switch callKey(call) {
		case "(*commandEncoder).flush", "(*Client).writeSASLResp":
			return true
		}
		return false
	}
	n := 0
	for _, fn := range p.SrcFuncs("imapclient") {
		if fn.Parent() != nil {
			continue
		}
		regs, flushes := 0, 0
		allInstrs(fn, func(i ssa.Instruction) {
			if call, ok := i.(ssa.CallInstruction); ok {
				if staticCallee(call) == reg {
					regs++
				}
				if isFlush(call) {
					flushes++
				}
			}
		})
		if regs == 0 || flushes == 0 {
			continue
		}
		gf := mustFlow(fn, facts{}, func(f facts, i ssa.Instruction) facts {
			if call, ok := i.(ssa.CallInstruction); ok {
				if _, isDefer := i.(*ssa.Defer); isDefer {
					return f
				}
				if staticCallee(call) == reg {
					return f.with("registered")
				}
				if callKey(call) == "(*ContinuationRequest).Wait" {
					return f.without(func(s string) bool { return s == "registered" })
				}
			}
			return f
		}, nil)
		k := 0
		allInstrs(fn, func(i ssa.Instruction) {
			call, ok := i.(ssa.CallInstruction)
			if !ok || !isFlush(call) {
				return
			}
			if _, isDefer := i.(*ssa.Defer); isDefer {
				return
			}
			k++
			n++
			fs, reach := gf.at(i)
			if !reach {
				return
			}
			c.check(fs.has("registered"), rule, fmt.Sprintf("%s:flush#%d", fnKey(fn), k), i.Pos(), "a continuation request registered since the last Wait is pending when the bytes are flushed",
				"bytes that make the server answer are flushed before the continuation request for that answer is registered: if the reader handles the reply first, the late request is never completed or cancelled and Wait blocks for ever")
		})
	}
	if n == 0 {
		c.unresolvedRoot("functions that register continuation requests and flush")
	}
}

// ruleReadDeadline: readResponse arms a finite read deadline first thing, and
// nothing it calls re-arms the deadline with a non-positive duration ("no
// timeout"): a server that stalls in the middle of a response is timed out.
func ruleReadDeadline(c *Ctx, rule string) {
	p := c.P
	rr := p.Func("imapclient", "Client", "readResponse")
	srt := p.Func("imapclient", "Client", "setReadTimeout")
	if rr == nil || srt == nil {
		c.unresolvedRoot("(*Client).readResponse / setReadTimeout")
		return
	}
	// first call of readResponse
	first := false
	for _, i := range rr.Blocks[0].Instrs {
		if call, ok := i.(*ssa.Call); ok {
			if staticCallee(call) == srt {
				if k, ok := constInt(call.Call.Args[1]); ok && k > 0 {
					first = true
				}
			}
			break
		}
	}
	c.check(first, rule, "readResponse arms a finite deadline first", rr.Pos(), "setReadTimeout(positive constant) is the first call", "readResponse no longer starts by arming a finite read deadline")
	g := buildModGraph(p, p.VTA(), nil)
	reach := reachableFrom(g, func(f *ssa.Function) bool { return pkgPathOf(f) == modPath+"/imapclient" }, rr)
	var fns []*ssa.Function
	for f := range reach {
		fns = append(fns, f)
	}
	sort.Slice(fns, func(i, j int) bool { return fns[i].String() < fns[j].String() })
	n := 0
	for _, fn := range fns {
		if fn.Blocks == nil {
			continue
		}
		allInstrs(fn, func(i ssa.Instruction) {
			call, ok := i.(ssa.CallInstruction)
			if !ok || staticCallee(call) != srt {
				return
			}
			if _, isDefer := i.(*ssa.Defer); isDefer && fn == rr {
				return // the deferred reset to the idle deadline when the response is complete
			}
			n++
			k, isConst := constInt(call.Common().Args[1])
			c.check(isConst && k > 0, rule, fmt.Sprintf("%s:setReadTimeout#%d", fnKey(fn), countKey(c, rule, fnKey(fn)+":setReadTimeout#")+1), i.Pos(),
				"re-armed with a positive constant", "the read deadline is disabled in the middle of a response: a server stalling there is never timed out and the command's Next/Close/Wait hang")
		})
	}
	if n < 2 {
		c.unresolvedRoot("setReadTimeout calls below readResponse")
	}
}

// knownNonNilError: v (an argument of closeWithError in fn) cannot be nil:
// every phi edge is either a value tested non-nil on that edge or a load of a
// package-level error variable.
func knownNonNilError(fn *ssa.Function, v ssa.Value) bool {
	gf := mustFlow(fn, facts{}, valueGen, func(f facts, b *ssa.BasicBlock, s int) facts { return f.with(valueEdgeFacts(b, s)...) })
	var ok func(v ssa.Value, fs facts, seen map[ssa.Value]bool) bool
	ok = func(v ssa.Value, fs facts, seen map[ssa.Value]bool) bool {
		if _, isPhi := v.(*ssa.Phi); isPhi {
			if seen[v] {
				return true // a cycle through phis adds no new source
			}
			seen[v] = true
		}
		if fs.has("nonnil:" + v.Name()) {
			return true
		}
		switch x := v.(type) {
		case *ssa.UnOp:
			if x.Op == token.MUL {
				if g, isG := x.X.(*ssa.Global); isG && isErrorType(x.Type()) && g.Pkg != nil && !inModule2(g.Pkg.Pkg.Path()) {
					return true // e.g. io.ErrUnexpectedEOF
				}
			}
		case *ssa.MakeInterface:
			return true
		case *ssa.Call:
			if o := calleeObj(x); o != nil && o.Pkg() != nil && (o.Pkg().Path()+"."+o.Name() == "fmt.Errorf" || o.Pkg().Path()+"."+o.Name() == "errors.New") {
				return true
			}
		case *ssa.Phi:
			for i, e := range x.Edges {
				pred := x.Block().Preds[i]
				pf, reach := gf.atEnd(pred)
				if !reach {
					continue
				}
				for si, s := range pred.Succs {
					if s == x.Block() {
						pf = pf.with(valueEdgeFacts(pred, si)...)
					}
				}
				if !ok(e, pf, seen) {
					return false
				}
			}
			return true
		}
		return false
	}
	var at facts
	allInstrs(fn, func(i ssa.Instruction) {
		if call, isCall := i.(*ssa.Call); isCall {
			for _, a := range call.Call.Args {
				if a == v {
					at, _ = gf.at(call)
				}
			}
		}
	})
	return ok(v, at, map[ssa.Value]bool{})
}

func inModule2(path string) bool {
	return path == modPath || len(path) > len(modPath) && path[:len(modPath)+1] == modPath+"/"
}

// ruleStreamChannelsClosed: C10.c.
func ruleStreamChannelsClosed(c *Ctx, rule string, complete *ssa.Function) {
	p := c.P
	pk := p.Pkgs[modPath+"/imapclient"]
	cmdIface, _ := pk.Types.Scope().Lookup("command").Type().Underlying().(*types.Interface)
	if cmdIface == nil {
		c.unresolvedRoot("imapclient.command interface")
		return
	}
	closed := map[string]bool{}
	deepInstrs(complete, 2, func(i ssa.Instruction) {
		call, ok := i.(*ssa.Call)
		if !ok {
			return
		}
		b, ok := call.Call.Value.(*ssa.Builtin)
		if !ok || b.Name() != "close" {
			return
		}
		if r, ok := loadedField(call.Call.Args[0]); ok && r.Owner != nil {
			closed[r.Owner.Obj().Name()+"."+r.Field.Name()] = true
		}
	})
	var names []string
	for _, n := range pk.Types.Scope().Names() {
		names = append(names, n)
	}
	sort.Strings(names)
	for _, n := range names {
		tn, ok := pk.Types.Scope().Lookup(n).(*types.TypeName)
		if !ok || tn.IsAlias() {
			continue
		}
		st, ok := tn.Type().Underlying().(*types.Struct)
		if !ok || !types.Implements(types.NewPointer(tn.Type()), cmdIface) {
			continue
		}
		for i := 0; i < st.NumFields(); i++ {
			f := st.Field(i)
			ch, isChan := f.Type().Underlying().(*types.Chan)
			if !isChan || ch.Dir() == types.RecvOnly {
				continue
			}
			// channels the command itself owns for streaming results (not signalling channels handed in by the caller)
			if ch.Dir() == types.SendOnly {
				continue
			}
			key := tn.Name() + "." + f.Name()
			c.check(closed[key], rule, "completeCommand closes "+key, f.Pos(), "closed in completeCommand", "completeCommand never closes "+key+": a caller ranging over / receiving from it blocks for ever after the command completed")
		}
	}
	// done: sent then closed unconditionally at the start of completeCommand
	var sent, closedDone bool
	for _, i := range complete.Blocks[0].Instrs {
		switch x := i.(type) {
		case *ssa.Send:
			if r, ok := loadedField(x.Chan); ok && r.is("Command", "done") {
				sent = true
			}
		case *ssa.Call:
			if b, ok := x.Call.Value.(*ssa.Builtin); ok && b.Name() == "close" && sent {
				if r, ok := loadedField(x.Call.Args[0]); ok && r.is("Command", "done") {
					closedDone = true
				}
			}
		}
	}
	c.check(sent && closedDone, rule, "completeCommand: done <- err; close(done)", complete.Pos(), "the result is sent and the channel closed unconditionally, first thing", "completeCommand does not unconditionally deliver the result on done and close it")
}

// ruleFlushCloses: a failed write of a command tears the client down on every
// path (C10.d; also run under C13) — except where the error is established to
// be the server's own tagged refusal (errors.As(err, **imap.Error) succeeded):
// that error completed the command already and is not a connection failure.
func ruleFlushCloses(c *Ctx, rule string, flush, cwe *ssa.Function) {
	if flush == nil {
		c.unresolvedRoot("(*commandEncoder).flush")
		return
	}
	isRefusalTest := func(v ssa.Value) bool {
		call, ok := v.(*ssa.Call)
		if !ok {
			return false
		}
		o := calleeObj(call)
		if o == nil || o.Pkg() == nil || o.Pkg().Path() != "errors" || o.Name() != "As" || len(call.Call.Args) != 2 {
			return false
		}
		t := call.Call.Args[1].Type()
		if mi, ok := call.Call.Args[1].(*ssa.MakeInterface); ok {
			t = mi.X.Type()
		}
		return strings.Contains(t.String(), modPath+".Error")
	}
	// escapesFrom: a return of fn is reachable from block x without passing a
	// block that calls a closer — edges on which the error is known to be the
	// server's refusal excepted
	var closers map[*ssa.Function]bool
	escapesFrom := func(fn *ssa.Function, x *ssa.BasicBlock) bool {
		closes := map[*ssa.BasicBlock]bool{}
		allInstrs(fn, func(i ssa.Instruction) {
			if call, ok := i.(ssa.CallInstruction); ok && closers[staticCallee(call)] {
				if _, isDefer := i.(*ssa.Defer); !isDefer {
					closes[call.Block()] = true
				}
			}
		})
		if len(closes) == 0 {
			return true
		}
		seenB := map[*ssa.BasicBlock]bool{}
		var esc func(x *ssa.BasicBlock) bool
		esc = func(x *ssa.BasicBlock) bool {
			if closes[x] || seenB[x] {
				return false
			}
			seenB[x] = true
			if len(x.Instrs) > 0 {
				if _, isRet := x.Instrs[len(x.Instrs)-1].(*ssa.Return); isRet {
					return true
				}
			}
			for k, s2 := range x.Succs {
				exempt := false
				for _, a := range edgeAtoms(x, k) {
					if a.True == 1 && isRefusalTest(a.V) {
						exempt = true
					}
				}
				if exempt {
					continue
				}
				if esc(s2) {
					return true
				}
			}
			return false
		}
		return esc(x)
	}
	// helpers of flush that tear the client down on all of their paths (but the refusal one)
	closers = map[*ssa.Function]bool{cwe: true}
	for round := 0; round < 2; round++ {
		for _, h := range helperClosure(flush, 2) {
			if h == flush || closers[h] || len(h.Blocks) == 0 {
				continue
			}
			if !escapesFrom(h, h.Blocks[0]) {
				closers[h] = true
			}
		}
	}
	okD, found := false, false
	// `if err := enc.CRLF(); isConnFailure(err) { … }`: a predicate that is true
	// exactly for a non-nil error other than the refusal
	for _, b := range flush.Blocks {
		for si := range b.Succs {
			for _, a := range edgeAtoms(b, si) {
				call, ok := a.V.(*ssa.Call)
				if !ok || a.True != 1 || len(call.Call.Args) == 0 {
					continue
				}
				if !connFailurePredicate(staticCallee(call)) {
					continue
				}
				fromCRLF := false
				for _, arg := range call.Call.Args {
					if cl, _ := callOf(arg); cl != nil && callKey(cl) == "(*Encoder).CRLF" {
						fromCRLF = true
					}
				}
				if !fromCRLF {
					continue
				}
				found = true
				okD = !escapesFrom(flush, b.Succs[si])
			}
		}
	}
	for _, b := range flush.Blocks {
		for si := range b.Succs {
			for _, fc := range failureCalls(b, si) {
				if callKey(fc) != "(*Encoder).CRLF" {
					continue
				}
				found = true
				okD = !escapesFrom(flush, b.Succs[si])
			}
		}
	}
	if !found {
		c.fail(rule, "flush: write error closes the client", flush.Pos(), "flush no longer tests the result of writing the command's CRLF: a failed write of a command is ignored")
		return
	}
	c.check(okD, rule, "flush: write error closes the client", flush.Pos(), "the failure edge of CRLF() leads to closeWithError on every path (except where the error is the server's own tagged refusal)", "a failed write of a command is ignored: the command stays pending for ever although it was never sent")
}

// ruleTeardownTakesAll: closeWithError closes the connection, takes the whole
// pending list and completes each command, on every path (C10.a; also run
// under C13: "every submitted command completes exactly once").
func ruleTeardownTakesAll(c *Ctx, rule string, cwe, complete *ssa.Function) {
	gf := mustFlowDeep(cwe, facts{}, func(f facts, i ssa.Instruction) facts {
		switch x := i.(type) {
		case *ssa.Store:
			if r, ok := fieldOf(x.Addr); ok && r.is("Client", "pendingCmds") && isNilConst(x.Val) {
				return f.with("took-list")
			}
		case ssa.CallInstruction:
			cc := x.Common()
			if cc.IsInvoke() && cc.Method.Name() == "Close" {
				if r, ok := loadedField(cc.Value); ok && r.is("Client", "conn") {
					return f.with("conn-closed")
				}
			}
		}
		return f
	}, nil)
	okAll, n := true, 0
	var bad = cwe.Pos()
	for _, ret := range returnsOf(cwe) {
		fs, reach := gf.at(ret)
		if !reach {
			continue
		}
		n++
		if !fs.has("took-list") || !fs.has("conn-closed") {
			okAll = false
			bad = ret.Pos()
		}
	}
	c.check(okAll && n > 0, rule, "closeWithError: every path closes the connection and takes the pending list", bad,
		fmt.Sprintf("all %d return paths have closed the connection and emptied pendingCmds", n),
		"a path of closeWithError returns without taking the pending commands: they are never completed and their Wait() blocks for ever")
	// the loop completing each taken command
	loops := false
	allInstrs(cwe, func(i ssa.Instruction) {
		if call, ok := i.(*ssa.Call); ok && staticCallee(call) == complete && reaches2(call.Block(), call.Block()) {
			loops = true
		}
	})
	c.check(loops, rule, "closeWithError: completes each taken command", cwe.Pos(), "completeCommand is called in a loop over the taken list", "closeWithError no longer completes the commands it removed from the pending list")
}
