package main

import (
	"fmt"
	"strings"

	"golang.org/x/tools/go/ssa"
)

// ruleNoSwallowedError (engine E8): in a function that parses from a Decoder,
// a return that yields a nil error on a path where an error value is known
// non-nil (true edge of `x != nil`) or a Decoder.Expect* call is known to have
// failed drops a parse failure: the command goes on with partial arguments.
func ruleNoSwallowedError(c *Ctx, rule string, pkgSuffixes ...string) {
	p := c.P
	n := 0
	for _, fn := range p.SrcFuncs(pkgSuffixes...) {
		res := fn.Signature.Results()
		if res.Len() == 0 || !isErrorType(res.At(res.Len()-1).Type()) {
			continue
		}
		// only functions that handle a decoder (directly or captured)
		usesDec := false
		allInstrs(fn, func(i ssa.Instruction) {
			if call, ok := i.(ssa.CallInstruction); ok && isDecoderMethodCall(call) {
				usesDec = true
			}
		})
		if !usesDec {
			continue
		}
		gf := mustFlow(fn, facts{}, nil, func(f facts, b *ssa.BasicBlock, s int) facts {
			add := valueEdgeFacts(b, s)
			for _, a := range edgeAtoms(b, s) {
				if a.Nil == -1 && isErrorType(a.V.Type()) {
					add = append(add, "some-error-nonnil", "err:"+a.V.Name())
				}
			}
			return f.with(add...)
		})
		k := 0
		for _, ret := range returnsOf(fn) {
			fs, reach := gf.at(ret)
			if !reach {
				continue
			}
			failed := fs.has("some-error-nonnil") || fs.has("fail:decoder-expect")
			if !failed {
				continue
			}
			k++
			n++
			key := fmt.Sprintf("%s:failure-path return#%d", fnKey(fn), k)
			ev := ret.Results[len(ret.Results)-1]
			cls := classifyErr(ev, fs, nil, map[ssa.Value]bool{})
			what := "a failed Decoder.Expect*"
			for f := range fs {
				if strings.HasPrefix(f, "err:") {
					what = "the non-nil error " + strings.TrimPrefix(f, "err:")
				}
			}
			c.check(cls != errNil, rule, key, ret.Pos(), "the failure is propagated (returned error is not nil on this path)",
				"returns a nil error on a path where "+what+" is known: the parse failure is swallowed and the command is executed with whatever was parsed so far (a weaker or different request)")
		}
	}
	if n == 0 {
		c.unresolvedRoot("failure-path returns in " + strings.Join(pkgSuffixes, ","))
	}
}
