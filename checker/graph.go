package main

import (
	"go/types"
	"sort"
	"strings"

	"golang.org/x/tools/go/callgraph"
	"golang.org/x/tools/go/ssa"
)

// modGraph is the call graph restricted to functions of the module (synthetic
// wrappers included), built from VTA (static, closure and resolved dynamic
// edges).
type modGraph struct {
	succ  map[*ssa.Function]map[*ssa.Function][]ssa.CallInstruction
	nodes []*ssa.Function
}

func buildModGraph(p *Program, cg *callgraph.Graph, dropOutEdgesOf map[*ssa.Function]bool) *modGraph {
	g := &modGraph{succ: map[*ssa.Function]map[*ssa.Function][]ssa.CallInstruction{}}
	chaAdded := map[ssa.CallInstruction]bool{}
	for fn, node := range cg.Nodes {
		if fn == nil || !inModule(fn) {
			continue
		}
		g.nodes = append(g.nodes, fn)
		if dropOutEdgesOf[fn] {
			continue
		}
		for _, e := range node.Out {
			cal := e.Callee.Func
			if cal == nil || !inModule(cal) {
				continue
			}
			if g.succ[fn] == nil {
				g.succ[fn] = map[*ssa.Function][]ssa.CallInstruction{}
			}
			g.succ[fn][cal] = append(g.succ[fn][cal], e.Site)
		}
	}
	// Invokes on interfaces declared in the module (Session, command, NumSet…)
	// that VTA could not resolve to any module implementation fall back to CHA:
	// the session value reaches Conn through the user-supplied NewSession
	// callback, which VTA does not follow through the copied Options struct.
	chaG := p.CHA()
	for fn, node := range chaG.Nodes {
		if fn == nil || !inModule(fn) || dropOutEdgesOf[fn] {
			continue
		}
		for _, e := range node.Out {
			if e.Site == nil || !e.Site.Common().IsInvoke() {
				continue
			}
			cal := e.Callee.Func
			if cal == nil || !inModule(cal) {
				continue
			}
			it, ok := e.Site.Common().Value.Type().(*types.Named)
			if !ok || it.Obj().Pkg() == nil || !strings.HasPrefix(it.Obj().Pkg().Path(), modPath) {
				continue
			}
			// already resolved by VTA?
			resolved := false
			for _, sites := range g.succ[fn] {
				for _, s := range sites {
					if s == e.Site {
						resolved = true
					}
				}
			}
			if resolved && !chaAdded[e.Site] {
				continue
			}
			chaAdded[e.Site] = true
			if g.succ[fn] == nil {
				g.succ[fn] = map[*ssa.Function][]ssa.CallInstruction{}
			}
			g.succ[fn][cal] = append(g.succ[fn][cal], e.Site)
		}
	}
	sort.Slice(g.nodes, func(i, j int) bool { return g.nodes[i].String() < g.nodes[j].String() })
	return g
}

// sccs returns the non-trivial strongly connected components (size > 1, or a
// self-loop).
func (g *modGraph) sccs() [][]*ssa.Function {
	index := map[*ssa.Function]int{}
	low := map[*ssa.Function]int{}
	on := map[*ssa.Function]bool{}
	var stack []*ssa.Function
	var out [][]*ssa.Function
	n := 0
	var strong func(v *ssa.Function)
	strong = func(v *ssa.Function) {
		index[v], low[v] = n, n
		n++
		stack = append(stack, v)
		on[v] = true
		var succs []*ssa.Function
		for w := range g.succ[v] {
			succs = append(succs, w)
		}
		sort.Slice(succs, func(i, j int) bool { return succs[i].String() < succs[j].String() })
		for _, w := range succs {
			if _, seen := index[w]; !seen {
				strong(w)
				if low[w] < low[v] {
					low[v] = low[w]
				}
			} else if on[w] && index[w] < low[v] {
				low[v] = index[w]
			}
		}
		if low[v] == index[v] {
			var comp []*ssa.Function
			for {
				w := stack[len(stack)-1]
				stack = stack[:len(stack)-1]
				on[w] = false
				comp = append(comp, w)
				if w == v {
					break
				}
			}
			if len(comp) > 1 || g.succ[v][v] != nil {
				sort.Slice(comp, func(i, j int) bool { return comp[i].String() < comp[j].String() })
				out = append(out, comp)
			}
		}
	}
	for _, v := range g.nodes {
		if _, seen := index[v]; !seen {
			strong(v)
		}
	}
	sort.Slice(out, func(i, j int) bool { return out[i][0].String() < out[j][0].String() })
	return out
}

// reachable returns the functions reachable from the roots.
func (g *modGraph) reachable(roots ...*ssa.Function) map[*ssa.Function]bool {
	seen := map[*ssa.Function]bool{}
	var walk func(f *ssa.Function)
	walk = func(f *ssa.Function) {
		if f == nil || seen[f] {
			return
		}
		seen[f] = true
		for w := range g.succ[f] {
			walk(w)
		}
	}
	for _, r := range roots {
		walk(r)
	}
	return seen
}
