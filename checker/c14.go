package main

import (
	"fmt"
	"go/token"
	"go/types"
	"sort"
	"strings"

	"golang.org/x/tools/go/ssa"
)

func init() {
	register("C14", "Decided: (a) the lock-order graph over all mutex classes of imapserver and imapmemserver, built from every acquisition reachable from the serving goroutine and the IDLE goroutine (direct acquisitions and acquisitions inside callees, closures and interface implementations, with lock-transfer summaries for the response-encoder wrappers), is acyclic, including nesting of two locks of the same class; (b) static lockset for every field laid out under a mutex in Mailbox, User, both trackers, both Servers, Conn and for message.flags: each access holds its guard on the same object, or the object is unshared, or it is a read confined to the serving goroutine of a field only that goroutine writes, or all accesses share another lock; functions named …Locked are only called with their receiver's mutex held; (c) no blocking channel operation while a tracker or mailbox lock is held. Not decided: that every command completes (liveness beyond lock order).", checkC14)
}

// serverRoots: the goroutines of a running server.
func serverRoots(p *Program) []*ssa.Function {
	var roots []*ssa.Function
	if f := p.Func("imapserver", "Conn", "serve"); f != nil {
		roots = append(roots, f)
	}
	roots = append(roots, goTargets(p, "imapserver", "imapserver/imapmemserver")...)
	return roots
}

func checkC14(c *Ctx) {
	p := c.P
	c.rule("C14.a", "lock-order graph acyclic (same-class nesting included)", 8)
	c.rule("C14.b", "lockset for guarded fields of the server and the in-memory backend; …Locked functions called with the lock held", 80)
	c.rule("C14.c", "no blocking channel operation under a mailbox or tracker lock", 1)
	c.rule("C14.L", "layering lemma used to prune the call graph", 1)
	c.rule("C14.d", "every mutex taken in a function is released on every exit (or held at all exits: transfer wrapper)", 30)
	ruleBalancedLocks(c, "C14.d", "imapserver", "imapserver/imapmemserver")
	c.assume("roots are the serving goroutine of each connection and the IDLE goroutine; Server.Close/Serve and direct use of the exported tracker API by other backends are outside the property's quantifier")
	c.assume("locks are identified by access path where resolvable and by class otherwise (no points-to analysis is available offline)")

	cut := layeringCut(c, "C14.L")
	serve := p.Func("imapserver", "Conn", "serve")
	if serve == nil {
		c.unresolvedRoot("(*Conn).serve")
		return
	}
	roots := serverRoots(p)
	la := newLockAnalysis(p, roots, cut)

	ruleLockOrder(c, "C14.a", la)

	// ---- (b) lockset -------------------------------------------------------
	guards := guardedFields(p, "imapserver", "imapserver/imapmemserver")
	c.rule("C14.e", "a reference loaded from a guarded map/slice field is used only while the lock is held", 10)
	ruleGuardedRefEscapes(c, "C14.e", la, guards, "imapserver", "imapserver/imapmemserver")
	c.rule("C14.f", "a channel field that another function sends on outside the lock is never closed", 1)
	ruleNoCloseOfSharedSendChannel(c, "C14.f", "imapserver", "imapserver/imapmemserver")
	var glist []string
	seenG := map[string]bool{}
	for v, g := range guards {
		if !seenG[g.class+"/"+v.Name()] {
			seenG[g.class+"/"+v.Name()] = true
			glist = append(glist, short(g.class)+"⊢"+v.Name())
		}
	}
	sort.Strings(glist)
	c.note("guarded fields (struct layout convention and 'protected by' comments): %s", strings.Join(glist, ", "))
	if len(glist) < 15 {
		c.unresolvedRoot("guarded-field table of the server packages")
		return
	}
	serveReach := la.g.reachable(serve)
	var others []*ssa.Function
	for _, r := range roots {
		if r != serve {
			others = append(others, r)
		}
	}
	otherReach := la.g.reachable(others...)
	serveOnly := func(f *ssa.Function) bool { return serveReach[f] && !otherReach[f] }

	acc := la.accesses(guards)
	byField := map[*types.Var][]fieldAccess{}
	for _, a := range acc {
		byField[a.field] = append(byField[a.field], a)
	}
	counts := map[string]int{}
	for _, a := range acc {
		g := guards[a.field]
		rw := "read"
		if a.write {
			rw = "write"
		}
		k := fmt.Sprintf("%s:%s %s.%s", fnKey(a.fn), rw, ownerName(a.field, guards), a.field.Name())
		counts[k]++
		key := fmt.Sprintf("%s#%d", k, counts[k])
		base := pathOf(a.base)
		sameStruct := g.owner != nil && g.mutex != nil
		want := ""
		if sameStruct {
			want = base + "." + g.mutex.Name()
		}
		switch {
		case sameStruct && base != "" && a.held[want] == g.class:
			c.ok("C14.b", key, a.ins.Pos(), "holds "+want)
		case (!sameStruct || base == "") && a.held.hasClass(g.class):
			c.ok("C14.b", key, a.ins.Pos(), "holds "+short(g.class)+" (class level)")
		case sameStruct && a.held["~"+g.class] != "":
			c.ok("C14.b", key, a.ins.Pos(), "holds "+short(g.class)+" (held by every caller; instance not tracked across the call)")
		case isFreshLocal(a.base) || a.held["~fresh"] != "":
			c.okTrivial("C14.b", key, a.ins.Pos(), "object under construction, not yet shared")
		default:
			// read confined to the serving goroutine of a field only it writes
			// (valid only for the per-connection object: each Conn is served by exactly
			// one goroutine; mailboxes, users and trackers are shared between the
			// serving goroutines of different connections)
			if !a.write && serveOnly(a.fn) && g.owner != nil && g.owner.Obj().Name() == "Conn" {
				conf := true
				for _, o := range byField[a.field] {
					if o.write && !serveOnly(o.fn) {
						conf = false
					}
				}
				if conf {
					c.ok("C14.b", key, a.ins.Pos(), "unlocked read on the serving goroutine of a field only the serving goroutine writes")
					continue
				}
			}
			// writer-locks discipline: every write of the field (outside
			// constructors) holds the set W of locks; an access is safe if it
			// holds at least one lock of W (a writer excludes it)
			var W map[string]bool
			for _, o := range byField[a.field] {
				if !o.write || isFreshLocal(o.base) || o.held["~fresh"] != "" {
					continue
				}
				cl := map[string]bool{}
				for _, k := range o.held.classes() {
					cl[k] = true
				}
				if W == nil {
					W = cl
				} else {
					for k := range W {
						if !cl[k] {
							delete(W, k)
						}
					}
				}
			}
			var shared []string
			for _, k := range a.held.classes() {
				if W[k] {
					shared = append(shared, short(k))
				}
			}
			if len(shared) > 0 {
				var wl []string
				for k := range W {
					wl = append(wl, short(k))
				}
				sort.Strings(wl)
				c.ok("C14.b", key, a.ins.Pos(), fmt.Sprintf("every write of the field holds {%s}; this access holds %s, which excludes the writers", strings.Join(wl, ","), strings.Join(shared, ",")))
				continue
			}
			c.fail("C14.b", key, a.ins.Pos(), fmt.Sprintf("%s of %s.%s without %s (held: %s) and it shares no lock with the writers of the field: data race between sessions", rw, ownerName(a.field, guards), a.field.Name(), short(g.class), a.held))
		}
	}
	// …Locked functions
	for fn := range la.reach {
		if fn.Blocks == nil || la.entry[fn] == nil {
			continue
		}
		allInstrs(fn, func(i ssa.Instruction) {
			call, ok := i.(ssa.CallInstruction)
			if !ok {
				return
			}
			cal := staticCallee(call)
			if cal == nil || !strings.HasSuffix(cal.Name(), "Locked") || len(call.Common().Args) == 0 {
				return
			}
			obj, _ := cal.Object().(*types.Func)
			rn := recvNamed(obj)
			if rn == nil {
				return
			}
			// the receiver type's mutex class
			var cls string
			for _, g := range guards {
				if g.owner == rn {
					cls = g.class
				}
			}
			if cls == "" {
				// promoted through an embedded pointer (MailboxView embeds *Mailbox)
				if st, ok := rn.Underlying().(*types.Struct); ok {
					for k := 0; k < st.NumFields(); k++ {
						if st.Field(k).Embedded() {
							t := st.Field(k).Type()
							if pt, ok := t.(*types.Pointer); ok {
								t = pt.Elem()
							}
							for _, g := range guards {
								if g.owner != nil && types.Identical(g.owner, t) {
									cls = g.class
								}
							}
						}
					}
				}
			}
			if cls == "" {
				return
			}
			h, _ := la.heldAt(i)
			c.check(h.hasClass(cls), "C14.b", fmt.Sprintf("%s→%s", fnKey(fn), fnKey(cal)), i.Pos(),
				"called with "+short(cls)+" held", fmt.Sprintf("%s requires %s but is called holding %s", fnKey(cal), short(cls), h))
		})
	}

	// ---- (c) blocking under a lock ----------------------------------------
	nblock := 0
	for _, bo := range la.blockOps {
		var bad []string
		for _, k := range bo.held.classes() {
			if strings.Contains(k, "Tracker.") || strings.Contains(k, "Mailbox.") || strings.Contains(k, "User.") {
				bad = append(bad, short(k))
			}
		}
		if pkgPathOf(bo.fn) != modPath+"/imapserver" && pkgPathOf(bo.fn) != modPath+"/imapserver/imapmemserver" {
			continue
		}
		nblock++
		key := fmt.Sprintf("%s:%s#%d", fnKey(bo.fn), bo.what, nblock)
		// a receive/send inside a select with default is not blocking: ssa.Select covers those; plain ops are blocking
		c.check(len(bad) == 0, "C14.c", key, bo.ins.Pos(), "no mailbox/tracker/user lock held ("+bo.held.String()+")",
			bo.what+" while holding "+strings.Join(bad, ",")+": every other session touching that mailbox blocks behind it")
	}
	if nblock == 0 {
		c.okTrivial("C14.c", "no blocking channel operation in the server packages", token.NoPos, "0 sites")
	}
}

func short(class string) string {
	if i := strings.Index(class, "."); i >= 0 {
		pkg := class[:i]
		rest := class[i+1:]
		if pkg == "imapmemserver" {
			return "mem." + rest
		}
		return rest
	}
	return class
}

func ownerName(f *types.Var, guards map[*types.Var]*guardInfo) string {
	if g := guards[f]; g != nil && g.owner != nil {
		return g.owner.Obj().Name()
	}
	// find the struct declaring f
	if f.Pkg() != nil {
		sc := f.Pkg().Scope()
		for _, n := range sc.Names() {
			if tn, ok := sc.Lookup(n).(*types.TypeName); ok {
				if st, ok := tn.Type().Underlying().(*types.Struct); ok {
					for i := 0; i < st.NumFields(); i++ {
						if st.Field(i) == f {
							return tn.Name()
						}
					}
				}
			}
		}
	}
	return "?"
}

// ruleLockOrder: the lock-order graph over the server's mutex classes is
// acyclic, same-class nesting included (also run under C06: a connection
// goroutine that deadlocks on itself never ends and never closes its session).
func ruleLockOrder(c *Ctx, rule string, la *lockAnalysis) {
	p := c.P
	// ---- (a) lock order ----------------------------------------------------
	type edgeKey struct{ from, to string }
	byPair := map[edgeKey][]orderEdge{}
	for _, e := range la.edges {
		if !strings.HasPrefix(e.from, "imapserver.") && !strings.HasPrefix(e.from, "imapmemserver.") {
			continue
		}
		if !strings.HasPrefix(e.to, "imapserver.") && !strings.HasPrefix(e.to, "imapmemserver.") {
			continue
		}
		byPair[edgeKey{e.from, e.to}] = append(byPair[edgeKey{e.from, e.to}], e)
	}
	adj := map[string][]string{}
	var pairs []edgeKey
	for k := range byPair {
		pairs = append(pairs, k)
		adj[k.from] = append(adj[k.from], k.to)
	}
	sort.Slice(pairs, func(i, j int) bool {
		if pairs[i].from != pairs[j].from {
			return pairs[i].from < pairs[j].from
		}
		return pairs[i].to < pairs[j].to
	})
	// classes on a cycle
	onCycle := func(a, b string) bool { // is there a path b →* a ?
		seen := map[string]bool{}
		var walk func(x string) bool
		walk = func(x string) bool {
			if x == a {
				return true
			}
			if seen[x] {
				return false
			}
			seen[x] = true
			for _, y := range adj[x] {
				if walk(y) {
					return true
				}
			}
			return false
		}
		return walk(b)
	}
	for _, k := range pairs {
		es := byPair[k]
		sort.Slice(es, func(i, j int) bool { return p.pos(es[i].site.Pos()) < p.pos(es[j].site.Pos()) })
		if k.from == k.to {
			// same-class nesting: one obligation per function where it happens
			byFn := map[string]orderEdge{}
			for _, e := range es {
				root := e.fn
				for root.Parent() != nil {
					root = root.Parent()
				}
				if _, ok := byFn[fnKey(root)]; !ok {
					byFn[fnKey(root)] = e
				}
			}
			var fns []string
			for f := range byFn {
				fns = append(fns, f)
			}
			sort.Strings(fns)
			for _, f := range fns {
				e := byFn[f]
				via := ""
				if e.via != "" {
					via = " (acquired inside " + e.via + ")"
				}
				c.fail(rule, fmt.Sprintf("lockorder|%s→%s|%s", short(k.from), short(k.to), f), e.site.Pos(),
					fmt.Sprintf("%s is acquired%s while another %s (%s) is held: sync.Mutex is not reentrant (self-deadlock if it is the same object) and two sessions nesting the two objects in opposite orders deadlock", short(k.to), via, short(k.from), e.fromPath))
			}
			continue
		}
		if onCycle(k.from, k.to) {
			e := es[0]
			c.fail(rule, fmt.Sprintf("lockorder|%s→%s", short(k.from), short(k.to)), e.site.Pos(),
				fmt.Sprintf("%s is acquired while %s is held (in %s) and the reverse order also exists: lock-order cycle", short(k.to), short(k.from), fnKey(e.fn)))
			continue
		}
		e := es[0]
		c.ok(rule, fmt.Sprintf("lockorder|%s→%s", short(k.from), short(k.to)), e.site.Pos(), fmt.Sprintf("%d nesting sites, e.g. in %s; not on a cycle", len(es), fnKey(e.fn)))
	}

}
