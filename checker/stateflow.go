package main

// Abstract interpretation of a connection-state variable (a struct field of
// type imap.ConnState) through SSA: a may-analysis over the five states,
// refined on branch edges by tests of the field and by the results of
// functions that read it (checkState, canAuth, …), interprocedural over the
// functions of the module that touch the field.

import (
	"fmt"
	"go/constant"
	"go/token"
	"go/types"
	"os"
	"sort"
	"strings"

	"golang.org/x/tools/go/ssa"
)

type stateSet uint8

const allStates stateSet = 0x1f

var stateNames = []string{"None", "NotAuthenticated", "Authenticated", "Selected", "Logout"}

func (s stateSet) String() string {
	var l []string
	for i, n := range stateNames {
		if s&(1<<uint(i)) != 0 {
			l = append(l, n)
		}
	}
	return "{" + strings.Join(l, ",") + "}"
}

const (
	stNone stateSet = 1 << iota
	stNotAuth
	stAuth
	stSelected
	stLogout
)

type stateAnalysis struct {
	p           *Program
	owner       string // struct name owning the state field, e.g. "Conn"
	pkg         string // package path suffix
	touches     map[*ssa.Function]bool
	writes      map[*ssa.Function]bool
	memo        map[string]*stateSummary
	provisional map[string]*stateSummary
	memoLog     []string
	inflight    map[string]bool
	// observers
	onCall func(fn *ssa.Function, call ssa.CallInstruction, s stateSet)
	// visited call sites with the union of states over all contexts
	siteStates map[ssa.Instruction]stateSet
	// stores seen: instruction → (state before, value stored)
	storeSeen map[*ssa.Store]stateSet
	problems  []string
}

type stateSummary struct {
	out stateSet // states at normal returns
	// for functions returning bool or error as first/only "status" result:
	// per entry state, which outcomes are possible
	outcome map[stateSet]outcomeSet // key: singleton state
}

type outcomeSet uint8

const (
	ocSuccess outcomeSet = 1 // error == nil / bool true
	ocFailure outcomeSet = 2
)

func (a *stateAnalysis) isStateField(r fieldRef) bool {
	if r.Owner == nil || r.Owner.Obj().Name() != a.owner || r.Owner.Obj().Pkg() == nil {
		return false
	}
	if !strings.HasSuffix(r.Owner.Obj().Pkg().Path(), a.pkg) {
		return false
	}
	n, ok := r.Field.Type().(*types.Named)
	return ok && n.Obj().Name() == "ConnState"
}

func newStateAnalysis(p *Program, pkgSuffix, owner string, interesting func(ssa.Instruction) bool) *stateAnalysis {
	a := &stateAnalysis{p: p, owner: owner, pkg: pkgSuffix, touches: map[*ssa.Function]bool{}, writes: map[*ssa.Function]bool{},
		memo: map[string]*stateSummary{}, inflight: map[string]bool{}, siteStates: map[ssa.Instruction]stateSet{}, storeSeen: map[*ssa.Store]stateSet{}}
	// direct touches
	funcs := p.SrcFuncs()
	for _, fn := range funcs {
		allInstrs(fn, func(i ssa.Instruction) {
			if interesting != nil && interesting(i) {
				a.touches[fn] = true
			}
			if fa, ok := i.(*ssa.FieldAddr); ok {
				if r, _ := fieldOf(fa); a.isStateField(r) {
					a.touches[fn] = true
					for _, ref := range *fa.Referrers() {
						if st, ok := ref.(*ssa.Store); ok && st.Addr == fa {
							a.writes[fn] = true
						}
					}
				}
			}
		})
	}
	// close over the call graph (callers of touching functions touch)
	cg := p.VTA()
	changed := true
	for changed {
		changed = false
		for fn, node := range cg.Nodes {
			if fn == nil || !inModule(fn) {
				continue
			}
			for _, e := range node.Out {
				cal := e.Callee.Func
				if a.touches[cal] && !a.touches[fn] {
					a.touches[fn] = true
					changed = true
				}
				if a.writes[cal] && !a.writes[fn] {
					a.writes[fn] = true
					changed = true
				}
			}
		}
		// a function touches if one of its closures does
		for _, fn := range funcs {
			if fn.Parent() != nil && a.touches[fn] && !a.touches[fn.Parent()] {
				a.touches[fn.Parent()] = true
				changed = true
			}
			if fn.Parent() != nil && a.writes[fn] && !a.writes[fn.Parent()] {
				a.writes[fn.Parent()] = true
				changed = true
			}
		}
	}
	return a
}

func stateOfConst(v ssa.Value) (stateSet, bool) {
	c, ok := v.(*ssa.Const)
	if !ok || c.Value == nil || c.Value.Kind() != constant.Int {
		return 0, false
	}
	n := c.Int64()
	if n < 0 || n > 4 {
		return 0, false
	}
	return 1 << uint(n), true
}

type binding map[*ssa.Parameter]*ssa.Const

func (b binding) key(fn *ssa.Function) string {
	var l []string
	for p, c := range b {
		if p.Parent() == fn {
			l = append(l, p.Name()+"="+c.String())
		}
	}
	sort.Strings(l)
	return strings.Join(l, ",")
}

// analyze runs fn from the entry state set `in` with constant parameter
// bindings; it returns the summary and, through observers, reports every call
// site with the state set holding just before it.
func (a *stateAnalysis) analyze(fn *ssa.Function, in stateSet, bind binding) *stateSummary {
	key := fmt.Sprintf("%p|%d|%s", fn, in, bind.key(fn))
	if s := a.memo[key]; s != nil {
		return s
	}
	if a.inflight[key] {
		// recursion: use the provisional summary (least fixpoint iteration below)
		if prov := a.provisional[key]; prov != nil {
			return prov
		}
		return &stateSummary{out: 0}
	}
	a.inflight[key] = true
	defer delete(a.inflight, key)
	if a.provisional == nil {
		a.provisional = map[string]*stateSummary{}
	}
	a.provisional[key] = &stateSummary{out: 0}
	var sum *stateSummary
	for iter := 0; iter < 8; iter++ {
		mark := len(a.memoLog)
		sum = a.run(fn, in, bind)
		if sum.out == a.provisional[key].out {
			break
		}
		// results memoised during this iteration relied on a provisional
		// summary that has just changed: forget them
		for _, k := range a.memoLog[mark:] {
			delete(a.memo, k)
		}
		a.memoLog = a.memoLog[:mark]
		a.provisional[key] = sum
	}
	delete(a.provisional, key)
	a.memo[key] = sum
	a.memoLog = append(a.memoLog, key)
	return sum
}

type callOutcome struct {
	bySingle map[stateSet]outcomeSet
	at       stateSet
}

func (a *stateAnalysis) run(fn *ssa.Function, in stateSet, bind binding) *stateSummary {
	if len(fn.Blocks) == 0 {
		return &stateSummary{out: in}
	}
	outcomes := map[ssa.Value]map[stateSet]outcomeSet{} // call value → singleton state → outcomes
	// clean: block → the tested value was computed in this block with no state
	// change afterwards (checked at refinement time)
	L := lattice[stateSet]{
		join:  func(x, y stateSet) stateSet { return x | y },
		equal: func(x, y stateSet) bool { return x == y },
	}
	var transfer func(s stateSet, ins ssa.Instruction, observe bool) stateSet
	transfer = func(s stateSet, ins ssa.Instruction, observe bool) stateSet {
		switch i := ins.(type) {
		case *ssa.Store:
			if r, ok := fieldOf(i.Addr); ok && a.isStateField(r) {
				if observe {
					a.storeSeen[i] |= s
				}
				if k, ok := stateOfConst(i.Val); ok {
					return k
				}
				return allStates
			}
		case ssa.CallInstruction:
			if observe {
				a.siteStates[ins] |= s
				if a.onCall != nil {
					a.onCall(fn, i, s)
				}
			}
			if _, isDefer := ins.(*ssa.Defer); isDefer {
				return s // runs at exit; handled at returns
			}
			if _, isGo := ins.(*ssa.Go); isGo {
				a.spawn(i, s, bind)
				return s
			}
			callee := staticCallee(i)
			if callee != nil && callee.Blocks != nil && inModule(callee) {
				if !a.touches[callee] {
					a.enterClosuresPassed(i, s, bind)
					return s
				}
				nb := binding{}
				for k, v := range bind {
					nb[k] = v
				}
				args := i.Common().Args
				for idx, prm := range callee.Params {
					if idx < len(args) {
						if c, ok := args[idx].(*ssa.Const); ok {
							nb[prm] = c
						} else if pp, ok := args[idx].(*ssa.Parameter); ok && bind[pp] != nil {
							nb[prm] = bind[pp]
						}
					}
				}
				// closures: free variables are not rebound; parameters only
				if observe {
					if v, ok := ins.(ssa.Value); ok {
						m := map[stateSet]outcomeSet{}
						for b := 0; b < 5; b++ {
							single := stateSet(1 << uint(b))
							if s&single == 0 {
								continue
							}
							m[single] = a.outcomeOf(callee, single, nb)
						}
						outcomes[v] = m
					}
				}
				sum := a.analyze(callee, s, nb)
				a.enterClosuresPassed(i, s, bind)
				return sum.out
			}
			// dynamic or external call: closures passed to it may run now
			a.enterClosuresPassed(i, s, bind)
			if a.dynMayWrite(fn, i) {
				// resolved callees with bodies are analysed; anything else is ⊤
				out := stateSet(0)
				node := a.p.VTA().Nodes[fn]
				for _, e := range node.Out {
					if e.Site != i {
						continue
					}
					cal := e.Callee.Func
					if cal == nil || cal.Blocks == nil || !inModule(cal) {
						if debugState {
							println("TOP at", a.p.pos(i.Pos()), "in", fnKey(fn), "callee", cal.String())
						}
						return allStates
					}
					if !a.touches[cal] {
						out |= s
						continue
					}
					out |= a.analyze(cal, s, a.bindArgs(cal, i, bind)).out
				}
				if out == 0 {
					return allStates
				}
				return out
			}
			return s
		}
		return s
	}
	ins := func(s stateSet, i ssa.Instruction) stateSet { return transfer(s, i, false) }
	edge := func(s stateSet, b *ssa.BasicBlock, succ int) (stateSet, bool) {
		for _, at := range edgeAtoms(b, succ) {
			s = a.refine(s, b, at, bind, outcomes)
		}
		return s, s != 0
	}
	// Two passes: the first computes outcomes/fixpoint quietly, the second
	// replays each reachable block once with observers on.
	// (outcomes must exist before edges are refined, so observe in pass one
	// only for outcome tables.)
	pre := func(s stateSet, i ssa.Instruction) stateSet {
		// compute outcome tables without reporting call sites
		if c, ok := i.(ssa.CallInstruction); ok {
			if v, ok := i.(ssa.Value); ok {
				callee := staticCallee(c)
				if callee != nil && callee.Blocks != nil && inModule(callee) && a.touches[callee] {
					nb := a.bindArgs(callee, c, bind)
					m := outcomes[v]
					if m == nil {
						m = map[stateSet]outcomeSet{}
						outcomes[v] = m
					}
					for b := 0; b < 5; b++ {
						single := stateSet(1 << uint(b))
						if s&single != 0 {
							if _, done := m[single]; !done {
								m[single] = a.outcomeOf(callee, single, nb)
							}
						}
					}
				}
			}
		}
		return ins(s, i)
	}
	inMap := forward(fn, L, in, pre, edge)
	out := stateSet(0)
	for _, b := range fn.Blocks {
		p := inMap[b]
		if p == nil {
			continue
		}
		cur := *p
		for _, i := range b.Instrs {
			cur = transfer(cur, i, true)
			if _, ok := i.(*ssa.Return); ok {
				out |= cur
			}
		}
	}
	// deferred calls run at exit with the exit states
	allInstrs(fn, func(i ssa.Instruction) {
		if d, ok := i.(*ssa.Defer); ok {
			if inMap[d.Block()] == nil {
				return
			}
			callee := staticCallee(d)
			if callee != nil && callee.Blocks != nil && inModule(callee) && a.touches[callee] {
				sum := a.analyze(callee, out|in, a.bindArgs(callee, d, bind))
				if a.writes[callee] {
					out = sum.out | out
				}
			}
			if mc, ok := d.Common().Value.(*ssa.MakeClosure); ok {
				cl := mc.Fn.(*ssa.Function)
				a.analyze(cl, out|in, bind)
			}
		}
	})
	return &stateSummary{out: out}
}

func (a *stateAnalysis) bindArgs(callee *ssa.Function, c ssa.CallInstruction, bind binding) binding {
	nb := binding{}
	for k, v := range bind {
		nb[k] = v
	}
	args := c.Common().Args
	for idx, prm := range callee.Params {
		if idx < len(args) {
			if k, ok := args[idx].(*ssa.Const); ok {
				nb[prm] = k
			} else if pp, ok := args[idx].(*ssa.Parameter); ok && bind[pp] != nil {
				nb[prm] = bind[pp]
			}
		}
	}
	return nb
}

// spawn analyses the target of a go statement with the state at spawn time.
func (a *stateAnalysis) spawn(c ssa.CallInstruction, s stateSet, bind binding) {
	if mc, ok := c.Common().Value.(*ssa.MakeClosure); ok {
		a.analyze(mc.Fn.(*ssa.Function), s, bind)
		return
	}
	if callee := staticCallee(c); callee != nil && inModule(callee) && a.touches[callee] {
		a.analyze(callee, s, a.bindArgs(callee, c, bind))
	}
}

// enterClosuresPassed: a call that receives a closure (or a value derived from
// one, e.g. the sasl.Server built around it) may invoke it now: analyse the
// closure with the state holding at this call.
func (a *stateAnalysis) enterClosuresPassed(c ssa.CallInstruction, s stateSet, bind binding) {
	cc := c.Common()
	vals := append([]ssa.Value{}, cc.Args...)
	if cc.IsInvoke() {
		vals = append(vals, cc.Value)
	}
	for _, v := range vals {
		for _, mc := range closuresBehind(v, map[ssa.Value]bool{}) {
			cl := mc.Fn.(*ssa.Function)
			a.analyze(cl, s, bind)
		}
	}
}

// closuresBehind returns the MakeClosure values that v is, wraps, or was
// built from by a call (carriers).
func closuresBehind(v ssa.Value, seen map[ssa.Value]bool) []*ssa.MakeClosure {
	if seen[v] {
		return nil
	}
	seen[v] = true
	switch x := v.(type) {
	case *ssa.MakeClosure:
		return []*ssa.MakeClosure{x}
	case *ssa.Phi:
		var out []*ssa.MakeClosure
		for _, e := range x.Edges {
			out = append(out, closuresBehind(e, seen)...)
		}
		return out
	case *ssa.Call:
		var out []*ssa.MakeClosure
		for _, arg := range x.Call.Args {
			out = append(out, closuresBehind(arg, seen)...)
		}
		return out
	case *ssa.Extract:
		return closuresBehind(x.Tuple, seen)
	case *ssa.MakeInterface:
		return closuresBehind(x.X, seen)
	case *ssa.ChangeInterface:
		return closuresBehind(x.X, seen)
	case *ssa.ChangeType:
		return closuresBehind(x.X, seen)
	case *ssa.UnOp:
		// load from a local cell: look at what was stored there
		if al, ok := x.X.(*ssa.Alloc); ok && x.Op == token.MUL {
			var out []*ssa.MakeClosure
			for _, ref := range *al.Referrers() {
				if st, ok := ref.(*ssa.Store); ok && st.Addr == al {
					out = append(out, closuresBehind(st.Val, seen)...)
				}
			}
			return out
		}
	}
	return nil
}

func (a *stateAnalysis) dynMayWrite(fn *ssa.Function, c ssa.CallInstruction) bool {
	node := a.p.VTA().Nodes[fn]
	if node == nil {
		return true
	}
	found := false
	for _, e := range node.Out {
		if e.Site == c {
			found = true
			if a.writes[e.Callee.Func] {
				return true
			}
		}
	}
	_ = found
	return false
}

// outcomeOf evaluates callee from a single entry state and classifies its
// first error/bool result over all feasible paths.
func (a *stateAnalysis) outcomeOf(callee *ssa.Function, single stateSet, bind binding) outcomeSet {
	res := callee.Signature.Results()
	if res.Len() == 0 {
		return ocSuccess | ocFailure
	}
	idx := -1
	for i := 0; i < res.Len(); i++ {
		t := res.At(i).Type()
		if isErrorType(t) {
			idx = i
		}
	}
	if idx < 0 {
		if b, ok := res.At(0).Type().Underlying().(*types.Basic); ok && b.Kind() == types.Bool {
			idx = 0
		}
	}
	if idx < 0 {
		return ocSuccess | ocFailure
	}
	L := lattice[stateSet]{join: func(x, y stateSet) stateSet { return x | y }, equal: func(x, y stateSet) bool { return x == y }}
	outcomes := map[ssa.Value]map[stateSet]outcomeSet{}
	ins := func(s stateSet, i ssa.Instruction) stateSet {
		switch x := i.(type) {
		case *ssa.Store:
			if r, ok := fieldOf(x.Addr); ok && a.isStateField(r) {
				if k, ok := stateOfConst(x.Val); ok {
					return k
				}
				return allStates
			}
		case ssa.CallInstruction:
			cal := staticCallee(x)
			if cal != nil && a.writes[cal] {
				return allStates
			}
			if cal == nil && a.dynMayWrite(callee, x) {
				return allStates
			}
		}
		return s
	}
	edge := func(s stateSet, b *ssa.BasicBlock, succ int) (stateSet, bool) {
		for _, at := range edgeAtoms(b, succ) {
			s = a.refine(s, b, at, bind, outcomes)
		}
		return s, s != 0
	}
	// nested state-reading helpers (a wrapper around checkState): their own
	// outcome tables refine the edges inside this callee
	okey := fmt.Sprintf("%p|%d|%s", callee, single, bind.key(callee))
	if outcomeInProgress[okey] {
		return ocSuccess | ocFailure
	}
	outcomeInProgress[okey] = true
	defer delete(outcomeInProgress, okey)
	pre := func(s stateSet, i ssa.Instruction) stateSet {
		if c, ok := i.(ssa.CallInstruction); ok {
			if v, ok := i.(ssa.Value); ok {
				cal := staticCallee(c)
				if cal != nil && cal.Blocks != nil && inModule(cal) && a.touches[cal] && !a.writes[cal] {
					nb := a.bindArgs(cal, c, bind)
					m := outcomes[v]
					if m == nil {
						m = map[stateSet]outcomeSet{}
						outcomes[v] = m
					}
					for b := 0; b < 5; b++ {
						one := stateSet(1 << uint(b))
						if s&one != 0 {
							if _, done := m[one]; !done {
								m[one] = a.outcomeOf(cal, one, nb)
							}
						}
					}
				}
			}
		}
		return ins(s, i)
	}
	inMap := forward(callee, L, single, pre, edge)
	// what is known about the returned value on the path to each return
	vf := mustFlow(callee, facts{}, valueGen, func(f facts, b *ssa.BasicBlock, s int) facts { return f.with(valueEdgeFacts(b, s)...) })
	var oc outcomeSet
	for _, b := range callee.Blocks {
		if inMap[b] == nil {
			continue
		}
		ret, ok := b.Instrs[len(b.Instrs)-1].(*ssa.Return)
		if !ok {
			continue
		}
		rv := unspill(ret.Results[idx])
		if f, ok := vf.at(ret); ok && rv.Name() != "" {
			if f.has("nonnil:"+rv.Name()) || f.has("false:"+rv.Name()) {
				oc |= ocFailure
				continue
			}
			if f.has("nil:"+rv.Name()) || f.has("true:"+rv.Name()) {
				oc |= ocSuccess
				continue
			}
		}
		oc |= classifyResult(rv, b, inMap, map[ssa.Value]bool{})
	}
	return oc
}

var outcomeInProgress = map[string]bool{}

// classifyResult: may the returned value be nil/true (success) or
// non-nil/false (failure)? Phi edges from unreachable predecessors are ignored.
func classifyResult(v ssa.Value, at *ssa.BasicBlock, reach map[*ssa.BasicBlock]*stateSet, seen map[ssa.Value]bool) outcomeSet {
	if seen[v] {
		return 0
	}
	seen[v] = true
	switch x := v.(type) {
	case *ssa.Const:
		if x.Value == nil {
			return ocSuccess // nil error
		}
		if x.Value.Kind() == constant.Bool {
			if constant.BoolVal(x.Value) {
				return ocSuccess
			}
			return ocFailure
		}
	case *ssa.MakeInterface:
		return ocFailure // a concrete value in an error interface is non-nil
	case *ssa.Phi:
		var oc outcomeSet
		for i, e := range x.Edges {
			if reach[x.Block().Preds[i]] == nil {
				continue
			}
			oc |= classifyResult(e, at, reach, seen)
		}
		return oc
	case *ssa.Call:
		if cal := staticCallee(x); cal != nil && cal.Blocks != nil && !classifyInProgress[cal] {
			classifyInProgress[cal] = true
			defer delete(classifyInProgress, cal)
			// a function all of whose returns are non-nil (newClientBugError)
			var oc outcomeSet
			ok := true
			for _, b := range cal.Blocks {
				if r, isRet := b.Instrs[len(b.Instrs)-1].(*ssa.Return); isRet && len(r.Results) == 1 {
					all := map[*ssa.BasicBlock]*stateSet{}
					one := stateSet(1)
					for _, bb := range cal.Blocks {
						all[bb] = &one
					}
					oc |= classifyResult(r.Results[0], b, all, map[ssa.Value]bool{})
				} else if isRet {
					ok = false
				}
			}
			if ok && oc != 0 {
				return oc
			}
		}
	}
	return ocSuccess | ocFailure
}

// refine narrows s by what the branch edge says.
func (a *stateAnalysis) refine(s stateSet, b *ssa.BasicBlock, at condAtom, bind binding, outcomes map[ssa.Value]map[stateSet]outcomeSet) stateSet {
	constOf := func(v ssa.Value) (stateSet, bool) {
		if k, ok := stateOfConst(v); ok {
			return k, true
		}
		if p, ok := v.(*ssa.Parameter); ok && bind[p] != nil {
			return stateOfConst(bind[p])
		}
		return 0, false
	}
	isStateLoad := func(v ssa.Value) bool {
		r, ok := loadedField(v)
		if !ok || !a.isStateField(r) {
			return false
		}
		return a.freshIn(v, b)
	}
	if at.Op == token.EQL || at.Op == token.NEQ {
		var other ssa.Value
		if at.Const != nil {
			other = at.Const
		} else {
			other = at.Other
		}
		lhs, rhs := at.V, other
		if other != nil {
			if !isStateLoad(lhs) && isStateLoad(rhs) {
				lhs, rhs = rhs, lhs
			}
			if isStateLoad(lhs) {
				if k, ok := constOf(rhs); ok {
					if at.Op == token.EQL {
						return s & k
					}
					return s &^ k
				}
				return s
			}
			// parameter (bound) compared with a constant: decidable
			k1, ok1 := constOf(lhs)
			k2, ok2 := constOf(rhs)
			if ok1 && ok2 {
				if (k1 == k2) == (at.Op == token.EQL) {
					return s
				}
				return 0
			}
		}
	}
	// a disjunction/conjunction of state tests materialised as a named boolean
	// (`ok := st == A || st == B; if !ok`): evaluated per state value by
	// following the pure test blocks from the dominator of the join
	if ph, ok := at.V.(*ssa.Phi); ok && at.True != 0 {
		if bt, ok := ph.Type().Underlying().(*types.Basic); ok && bt.Kind() == types.Bool {
			pure := func(x *ssa.BasicBlock) bool {
				for _, i := range x.Instrs {
					switch i.(type) {
					case *ssa.FieldAddr, *ssa.UnOp, *ssa.BinOp, *ssa.If, *ssa.DebugRef, *ssa.Phi, *ssa.Jump:
					default:
						return false
					}
				}
				return true
			}
			evalFor := func(single stateSet) (bool, bool) {
				var evalV func(v ssa.Value) (bool, bool)
				evalV = func(v ssa.Value) (bool, bool) {
					switch x := v.(type) {
					case *ssa.Const:
						if x.Value != nil && x.Value.Kind() == constant.Bool {
							return constant.BoolVal(x.Value), true
						}
					case *ssa.UnOp:
						if x.Op == token.NOT {
							r, ok := evalV(x.X)
							return !r, ok
						}
					case *ssa.BinOp:
						if x.Op == token.EQL || x.Op == token.NEQ {
							l, r := x.X, x.Y
							if !isStateLoad(l) && isStateLoad(r) {
								l, r = r, l
							}
							if ld, ok := loadedField(l); ok && a.isStateField(ld) {
								if k, ok := constOf(r); ok {
									return (single&k != 0) == (x.Op == token.EQL), true
								}
							}
						}
					}
					return false, false
				}
				head := ph.Block().Idom()
				if head == nil {
					return false, false
				}
				for _, pr := range ph.Block().Preds {
					if ph.Block().Dominates(pr) {
						return false, false // a loop-carried flag: not a function of the state alone
					}
				}
				var prev *ssa.BasicBlock
				cur := head
				for k := 0; k < 16; k++ {
					if cur == ph.Block() {
						for j, pr := range cur.Preds {
							if pr == prev {
								return evalV(ph.Edges[j])
							}
						}
						return false, false
					}
					if cur != head && !pure(cur) {
						return false, false
					}
					switch t := cur.Instrs[len(cur.Instrs)-1].(type) {
					case *ssa.If:
						v, ok := evalV(t.Cond)
						if !ok {
							return false, false
						}
						prev = cur
						if v {
							cur = cur.Succs[0]
						} else {
							cur = cur.Succs[1]
						}
					case *ssa.Jump:
						prev, cur = cur, cur.Succs[0]
					default:
						return false, false
					}
				}
				return false, false
			}
			var ns stateSet
			decided := true
			for bit := 0; bit < 5; bit++ {
				single := stateSet(1 << uint(bit))
				if s&single == 0 {
					continue
				}
				v, ok := evalFor(single)
				if !ok {
					decided = false
					break
				}
				if v == (at.True == 1) {
					ns |= single
				}
			}
			if decided {
				return ns
			}
			return s
		}
	}
	// result of a state-reading function
	if c, idx := callOf(at.V); c != nil {
		_ = idx
		v, _ := c.(ssa.Value)
		if m := outcomes[v]; m != nil && a.freshIn(v, b) {
			var want outcomeSet
			switch {
			case at.Nil == 1 || at.True == 1:
				want = ocSuccess
			case at.Nil == -1 || at.True == -1:
				want = ocFailure
			default:
				return s
			}
			var ns stateSet
			for single, oc := range m {
				if s&single != 0 && oc&want != 0 {
					ns |= single
				}
			}
			// states not in the table (table built for the states at call time)
			for bit := 0; bit < 5; bit++ {
				single := stateSet(1 << uint(bit))
				if s&single != 0 {
					if _, ok := m[single]; !ok {
						ns |= single
					}
				}
			}
			return ns
		}
	}
	return s
}

// freshIn: v was computed before the end of block b, and on no path from its
// computation to the end of b can the state change (so a test of v on b's
// outgoing edge speaks about the current state).
func (a *stateAnalysis) freshIn(v ssa.Value, b *ssa.BasicBlock) bool {
	ins, ok := v.(ssa.Instruction)
	if !ok {
		return false
	}
	if e, ok := v.(*ssa.Extract); ok {
		ins, _ = e.Tuple.(ssa.Instruction)
		if ins == nil {
			return false
		}
	}
	changes := func(i ssa.Instruction) bool {
		switch x := i.(type) {
		case *ssa.Store:
			if r, ok := fieldOf(x.Addr); ok && a.isStateField(r) {
				return true
			}
		case *ssa.Call:
			cal := staticCallee(x)
			if cal != nil && a.writes[cal] {
				return true
			}
			if cal == nil && a.dynMayWrite(x.Parent(), x) {
				return true
			}
		}
		return false
	}
	src := ins.Block()
	if src == b {
		after := false
		for _, i := range b.Instrs {
			if i == ins {
				after = true
				continue
			}
			if after && changes(i) {
				return false
			}
		}
		return after
	}
	if !src.Dominates(b) {
		return false
	}
	// blocks on some path src → b
	fwd := map[*ssa.BasicBlock]bool{}
	var walk func(x *ssa.BasicBlock)
	walk = func(x *ssa.BasicBlock) {
		if fwd[x] {
			return
		}
		fwd[x] = true
		if x == b {
			return
		}
		for _, s := range x.Succs {
			walk(s)
		}
	}
	walk(src)
	bwd := map[*ssa.BasicBlock]bool{}
	var back func(x *ssa.BasicBlock)
	back = func(x *ssa.BasicBlock) {
		if bwd[x] {
			return
		}
		bwd[x] = true
		if x == src {
			return
		}
		for _, p := range x.Preds {
			back(p)
		}
	}
	back(b)
	for blk := range fwd {
		if !bwd[blk] {
			continue
		}
		after := blk != src
		for _, i := range blk.Instrs {
			if i == ins {
				after = true
				continue
			}
			if after && changes(i) {
				return false
			}
		}
	}
	return true
}

var debugState = os.Getenv("VERIF_DEBUG_STATE") != ""

// classifyInProgress guards classifyResult against mutually recursive callees.
var classifyInProgress = map[*ssa.Function]bool{}
