package main

import (
	"fmt"
	"go/ast"
	"go/constant"
	"go/token"
	"go/types"
	"sort"
	"strings"

	"golang.org/x/tools/go/packages"
)

// keyword tables -------------------------------------------------------------

type kwPair struct {
	token string
	field *types.Var
	pos   token.Pos
}

type kwTable struct {
	fn    string
	owner *types.Named // struct type whose fields are mapped
	pairs []kwPair
	pos   token.Pos
}

// moduleFieldsIn lists the struct fields (of module structs) selected in e.
func moduleFieldsIn(pk *packages.Package, e ast.Node) []*types.Var {
	var out []*types.Var
	ast.Inspect(e, func(n ast.Node) bool {
		se, ok := n.(*ast.SelectorExpr)
		if !ok {
			return true
		}
		sel := pk.TypesInfo.Selections[se]
		if sel == nil || sel.Kind() != types.FieldVal {
			return true
		}
		v, _ := sel.Obj().(*types.Var)
		if v != nil && v.Pkg() != nil && inModule2(v.Pkg().Path()) {
			out = append(out, v)
		}
		return true
	})
	return out
}

func ownerOfField(p *Program, f *types.Var) *types.Named {
	if f.Pkg() == nil {
		return nil
	}
	sc := f.Pkg().Scope()
	for _, n := range sc.Names() {
		tn, ok := sc.Lookup(n).(*types.TypeName)
		if !ok || tn.IsAlias() {
			continue
		}
		st, ok := tn.Type().Underlying().(*types.Struct)
		if !ok {
			continue
		}
		for i := 0; i < st.NumFields(); i++ {
			if st.Field(i) == f {
				return tn.Type().(*types.Named)
			}
		}
	}
	return nil
}

func constStringOf(pk *packages.Package, e ast.Expr) (string, bool) {
	tv, ok := pk.TypesInfo.Types[e]
	if !ok || tv.Value == nil || tv.Value.Kind() != constant.String {
		return "", false
	}
	return constant.StringVal(tv.Value), true
}

// clientKeywordTables extracts field→token tables from the writer side:
// `map[string]bool{"TOKEN": x.F, …}` and `if x.F { … "TOKEN" … }`.
func writerKeywordTables(p *Program, pkgSuffix string) []*kwTable {
	pk := p.Pkgs[modPath+"/"+pkgSuffix]
	var out []*kwTable
	for _, file := range pk.Syntax {
		for _, d := range file.Decls {
			fd, ok := d.(*ast.FuncDecl)
			if !ok || fd.Body == nil {
				continue
			}
			byOwner := map[*types.Named]*kwTable{}
			add := func(tok string, f *types.Var, pos token.Pos) {
				o := ownerOfField(p, f)
				if o == nil {
					return
				}
				t := byOwner[o]
				if t == nil {
					t = &kwTable{fn: fd.Name.Name, owner: o, pos: fd.Pos()}
					byOwner[o] = t
				}
				t.pairs = append(t.pairs, kwPair{tok, f, pos})
			}
			inIf := map[ast.Node]bool{}
			ast.Inspect(fd.Body, func(n ast.Node) bool {
				if ifs, ok := n.(*ast.IfStmt); ok {
					ast.Inspect(ifs.Body, func(m ast.Node) bool {
						if es, ok := m.(*ast.ExprStmt); ok {
							inIf[es] = true
						}
						return true
					})
				}
				return true
			})
			ast.Inspect(fd.Body, func(n ast.Node) bool {
				switch x := n.(type) {
				case *ast.CompositeLit:
					if _, isMap := pk.TypesInfo.TypeOf(x).Underlying().(*types.Map); !isMap {
						return true
					}
					for _, el := range x.Elts {
						kv, ok := el.(*ast.KeyValueExpr)
						if !ok {
							continue
						}
						tok, ok := constStringOf(pk, kv.Key)
						if !ok {
							continue
						}
						for _, f := range moduleFieldsIn(pk, kv.Value) {
							add(tok, f, kv.Pos())
						}
					}
				case *ast.ExprStmt:
					// `enc….Atom("TOKEN")….Number(data.F)`: token and data field in one statement
					var toks []string
					ast.Inspect(x, func(m ast.Node) bool {
						if call, ok := m.(*ast.CallExpr); ok {
							if se, ok := call.Fun.(*ast.SelectorExpr); ok && se.Sel.Name == "Atom" && len(call.Args) == 1 {
								if tok, ok := constStringOf(pk, call.Args[0]); ok && tok != "" && tok != "*" {
									toks = append(toks, tok)
								}
							}
						}
						return true
					})
					if len(toks) == 1 && inIf[x] {
						for _, f := range moduleFieldsIn(pk, x) {
							add(toks[0], f, x.Pos())
						}
					}
				case *ast.IfStmt:
					fields := moduleFieldsIn(pk, x.Cond)
					if len(fields) == 0 {
						return true
					}
					// constants emitted directly in the body (not in nested ifs)
					for _, st := range x.Body.List {
						ast.Inspect(st, func(m ast.Node) bool {
							if _, nested := m.(*ast.IfStmt); nested {
								return false
							}
							call, ok := m.(*ast.CallExpr)
							if !ok {
								return true
							}
							isAppend := false
							if id, ok := call.Fun.(*ast.Ident); ok && id.Name == "append" {
								isAppend = true
							}
							isAtom := false
							if se, ok := call.Fun.(*ast.SelectorExpr); ok && se.Sel.Name == "Atom" {
								isAtom = true
							}
							if !isAppend && !isAtom {
								return true
							}
							for _, a := range call.Args {
								if tok, ok := constStringOf(pk, a); ok && tok != "" {
									for _, f := range fields {
										add(tok, f, call.Pos())
									}
								}
							}
							return true
						})
					}
				}
				return true
			})
			for _, t := range byOwner {
				if len(t.pairs) >= 2 {
					out = append(out, t)
				}
			}
		}
	}
	sort.Slice(out, func(i, j int) bool { return out[i].fn+out[i].owner.Obj().Name() < out[j].fn+out[j].owner.Obj().Name() })
	return out
}

type kwSwitch struct {
	fn    string
	cases map[string]map[*types.Var]bool // token → fields assigned
	pos   token.Pos
}

// readerKeywordSwitches extracts token→field tables from the reader side:
// `switch … { case "TOKEN": x.F = … }`, following calls to helpers of the same
// package one level deep.
func readerKeywordSwitches(p *Program, pkgSuffix string) []*kwSwitch {
	pk := p.Pkgs[modPath+"/"+pkgSuffix]
	funcs := map[string]*ast.FuncDecl{}
	for _, file := range pk.Syntax {
		for _, d := range file.Decls {
			if fd, ok := d.(*ast.FuncDecl); ok && fd.Body != nil && fd.Recv == nil {
				funcs[fd.Name.Name] = fd
			}
		}
	}
	var assigned func(n ast.Node, depth int) map[*types.Var]bool
	assigned = func(n ast.Node, depth int) map[*types.Var]bool {
		out := map[*types.Var]bool{}
		ast.Inspect(n, func(m ast.Node) bool {
			switch x := m.(type) {
			case *ast.AssignStmt:
				for _, l := range x.Lhs {
					if se, ok := l.(*ast.SelectorExpr); ok {
						if sel := pk.TypesInfo.Selections[se]; sel != nil && sel.Kind() == types.FieldVal {
							if v, ok := sel.Obj().(*types.Var); ok && v.Pkg() != nil && inModule2(v.Pkg().Path()) {
								out[v] = true
							}
						}
					}
					if st, ok := l.(*ast.StarExpr); ok {
						_ = st
					}
				}
			case *ast.UnaryExpr:
				// &x.F handed to a decoder call fills the field
				if x.Op == token.AND {
					if se, ok := x.X.(*ast.SelectorExpr); ok {
						if sel := pk.TypesInfo.Selections[se]; sel != nil && sel.Kind() == types.FieldVal {
							if v, ok := sel.Obj().(*types.Var); ok && v.Pkg() != nil && inModule2(v.Pkg().Path()) {
								out[v] = true
							}
						}
					}
				}
			case *ast.CompositeLit:
				// &T{F: …} built in the case: its keyed fields are being set
				if _, ok := pk.TypesInfo.TypeOf(x).Underlying().(*types.Struct); ok {
					for _, el := range x.Elts {
						if kv, ok := el.(*ast.KeyValueExpr); ok {
							if id, ok := kv.Key.(*ast.Ident); ok {
								if v, ok := pk.TypesInfo.Uses[id].(*types.Var); ok && v.IsField() && v.Pkg() != nil && inModule2(v.Pkg().Path()) {
									out[v] = true
								}
							}
						}
					}
				}
			case *ast.CallExpr:
				if depth > 0 {
					if id, ok := x.Fun.(*ast.Ident); ok {
						if fd := funcs[id.Name]; fd != nil {
							for v := range assigned(fd.Body, depth-1) {
								out[v] = true
							}
						}
					}
				}
			}
			return true
		})
		return out
	}
	var out []*kwSwitch
	for _, file := range pk.Syntax {
		for _, d := range file.Decls {
			fd, ok := d.(*ast.FuncDecl)
			if !ok || fd.Body == nil {
				continue
			}
			ast.Inspect(fd.Body, func(n ast.Node) bool {
				sw, ok := n.(*ast.SwitchStmt)
				if !ok || sw.Tag == nil {
					return true
				}
				if b, ok := pk.TypesInfo.TypeOf(sw.Tag).Underlying().(*types.Basic); !ok || b.Info()&types.IsString == 0 {
					return true
				}
				ks := &kwSwitch{fn: fd.Name.Name, cases: map[string]map[*types.Var]bool{}, pos: sw.Pos()}
				for _, cc := range sw.Body.List {
					cl := cc.(*ast.CaseClause)
					fields := map[*types.Var]bool{}
					// a nested switch on a string inside a multi-label clause
					// (case "SINCE", "ON", …: … switch key { case "ON": … }) refines
					// the clause per token: what its cases assign belongs to their
					// own token only
					perTok := map[string]map[*types.Var]bool{}
					for _, st := range cl.Body {
						if inner, ok := st.(*ast.SwitchStmt); ok && inner.Tag != nil && len(cl.List) > 1 {
							if b, ok := pk.TypesInfo.TypeOf(inner.Tag).Underlying().(*types.Basic); ok && b.Info()&types.IsString != 0 {
								for _, icc := range inner.Body.List {
									icl := icc.(*ast.CaseClause)
									fs := map[*types.Var]bool{}
									for _, ist := range icl.Body {
										for v := range assigned(ist, 1) {
											fs[v] = true
										}
									}
									for _, e := range icl.List {
										if tok, ok := constStringOf(pk, e); ok {
											perTok[tok] = fs
										}
									}
								}
								continue
							}
						}
						for v := range assigned(st, 1) {
							fields[v] = true
						}
					}
					for _, e := range cl.List {
						if tok, ok := constStringOf(pk, e); ok {
							fs := map[*types.Var]bool{}
							for v := range fields {
								fs[v] = true
							}
							for v := range perTok[tok] {
								fs[v] = true
							}
							ks.cases[tok] = fs
						}
					}
				}
				// `x.F = name == "TOKEN"` or `if name == "TOKEN" { x.F = … }`
				// elsewhere in the same function — or in a function that calls
				// this one (the switch extracted into a helper) — is a case of
				// the same table
				extra := func(body ast.Node) {
					add := func(tok string, v *types.Var) {
						if ks.cases[tok] == nil {
							ks.cases[tok] = map[*types.Var]bool{}
						}
						ks.cases[tok][v] = true
					}
					ast.Inspect(body, func(m ast.Node) bool {
						switch x := m.(type) {
						case *ast.AssignStmt:
							if len(x.Lhs) != 1 || len(x.Rhs) != 1 {
								return true
							}
							be, ok := x.Rhs[0].(*ast.BinaryExpr)
							if !ok || be.Op != token.EQL {
								return true
							}
							tok, ok := constStringOf(pk, be.Y)
							if !ok {
								return true
							}
							if se, ok := x.Lhs[0].(*ast.SelectorExpr); ok {
								if sel := pk.TypesInfo.Selections[se]; sel != nil && sel.Kind() == types.FieldVal {
									if v, ok := sel.Obj().(*types.Var); ok {
										add(tok, v)
									}
								}
							}
						case *ast.IfStmt:
							be, ok := x.Cond.(*ast.BinaryExpr)
							if !ok || be.Op != token.EQL {
								return true
							}
							tok, ok := constStringOf(pk, be.Y)
							if !ok {
								return true
							}
							// only direct assignments of the then-branch (not what a nested helper call assigns)
							for _, st := range x.Body.List {
								if as, ok := st.(*ast.AssignStmt); ok {
									for v := range assigned(as, 0) {
										add(tok, v)
									}
								}
							}
						}
						return true
					})
				}
				extra(fd.Body)
				for _, caller := range funcs {
					if caller == fd || caller.Body == nil {
						continue
					}
					calls := false
					ast.Inspect(caller.Body, func(m ast.Node) bool {
						if ce, ok := m.(*ast.CallExpr); ok {
							switch f := ce.Fun.(type) {
							case *ast.Ident:
								if f.Name == fd.Name.Name {
									calls = true
								}
							case *ast.SelectorExpr:
								if f.Sel.Name == fd.Name.Name {
									calls = true
								}
							}
						}
						return true
					})
					if calls {
						extra(caller.Body)
					}
				}
				if len(ks.cases) >= 2 {
					out = append(out, ks)
				}
				return true
			})
		}
	}
	return out
}

// ruleKeywordRoundTrip: for every writer table field→token there is a reader
// switch in the peer package in which that token assigns that very field.
func ruleKeywordRoundTrip(c *Ctx, rule string, writerPkg, readerPkg string, minTables int) {
	p := c.P
	tables := writerKeywordTables(p, writerPkg)
	switches := readerKeywordSwitches(p, readerPkg)
	n := 0
	for _, t := range tables {
		// pair with the reader switch sharing most (token, owner) information
		var best *kwSwitch
		bestScore := 0
		for _, sw := range switches {
			score := 0
			for _, pr := range t.pairs {
				if fs, ok := sw.cases[pr.token]; ok {
					for f := range fs {
						if ownerOfField(p, f) == t.owner {
							score++
							break
						}
					}
				}
			}
			if score > bestScore {
				best, bestScore = sw, score
			}
		}
		if best == nil {
			continue // not a keyword table with a counterpart on the peer (e.g. response-side helpers)
		}
		n++
		seen := map[string]bool{}
		for _, pr := range t.pairs {
			key := fmt.Sprintf("%s.%s:%q→%s.%s", writerPkg, t.fn, pr.token, t.owner.Obj().Name(), pr.field.Name())
			if seen[key] {
				continue
			}
			seen[key] = true
			if ownerOfField(p, pr.field) != t.owner {
				continue
			}
			fs, ok := best.cases[pr.token]
			if !ok {
				if requiresUnadvertisable(c, pr.field) {
					c.okTrivial(rule, key, pr.pos, "no reader case, but the field's own comment ties it to an extension the server cannot advertise")
					continue
				}
				c.fail(rule, key, pr.pos, fmt.Sprintf("the writer emits %q for %s.%s but %s.%s has no case for it: the option is refused or ignored by the peer", pr.token, t.owner.Obj().Name(), pr.field.Name(), readerPkg, best.fn))
				continue
			}
			if fs[pr.field] {
				c.ok(rule, key, pr.pos, fmt.Sprintf("%s.%s maps %q back to the same field", readerPkg, best.fn, pr.token))
				continue
			}
			var got []string
			for f := range fs {
				got = append(got, f.Name())
			}
			sort.Strings(got)
			c.fail(rule, key, pr.pos, fmt.Sprintf("the writer emits %q for %s but %s.%s assigns {%s} on that keyword: the argument reaches the peer as a different option", pr.token, pr.field.Name(), readerPkg, best.fn, strings.Join(got, ",")))
		}
	}
	if n < minTables {
		c.unresolvedRoot(fmt.Sprintf("keyword tables %s→%s (found %d paired tables)", writerPkg, readerPkg, n))
	}
}

// docRequiresUnadvertisable: the doc text says "requires (support for) X [or Y]
// (extension)" and none of the named capabilities can be advertised by the
// module's server.
func docRequiresUnadvertisable(p *Program, doc string) (bool, string) {
	low := strings.ToLower(doc)
	idx := strings.Index(low, "requires ")
	if idx < 0 {
		return false, ""
	}
	adv := advertisableCaps(p)
	rest := doc[idx+len("requires "):]
	rest = strings.TrimPrefix(rest, "support for ")
	words := strings.FieldsFunc(rest, func(r rune) bool { return r == ' ' || r == ',' || r == '\n' })
	var named []string
	for _, w := range words {
		w = strings.Trim(w, ".;")
		switch strings.ToLower(w) {
		case "or", "and", "the", "":
			continue
		case "extension", "extensions":
			goto done
		}
		if w != strings.ToUpper(w) && !strings.HasPrefix(w, "IMAP4") {
			break
		}
		named = append(named, w)
	}
done:
	if len(named) == 0 {
		return false, ""
	}
	for _, n := range named {
		if adv[n] {
			return false, strings.Join(named, ",")
		}
	}
	return true, strings.Join(named, ",")
}
