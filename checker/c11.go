package main

import (
	"fmt"
	"go/token"
	"go/types"
	"strings"

	"golang.org/x/tools/go/ssa"
)

func init() {
	register("C11", "Decided: (a) every recursion cycle of the client that consumes server input is depth-bounded (through Decoder.List's checked guard, or a capped, strictly increasing counter); (b) a number read from the wire reaches a result set (AddNum) only after a non-zero test: sequence number / UID zero is rejected instead of being delivered; (c) every number set parsed from the wire is tested with Dynamic() and refused when it contains '*'; (d) the reader goroutine recovers from panics and tears the client down (shared with C10.a); (e) enumerating a static number set terminates at the uint32 boundary (shared with C15.a). Not decided: absence of every other panic in accessors, cost bounds (super-linear time/memory).", checkC11)
}

func checkC11(c *Ctx) {
	p := c.P
	c.rule("C11.a", "input-driven recursion in the client is depth-bounded", 2)
	c.rule("C11.b", "wire numbers are tested non-zero before entering a result set", 2)
	c.rule("C11.c", "wire number sets are refused when dynamic", 3)
	c.rule("C11.d", "the reader goroutine recovers and tears down", 2)
	c.rule("C11.e", "enumeration of a static set cannot wrap at 2^32-1", 1)
	c.rule("C11.f", "nil-able command fields are dereferenced only after a non-nil test (own or the matcher's)", 2)
	c.rule("C11.g", "parsed wire numbers are never narrowed after parsing", 5)
	c.rule("C11.h", "message numbers and UIDs read from the wire are tested non-zero before they are handed to the caller", 5)
	ruleRecursion(c, "C11.a", func(f *ssa.Function) bool { return pkgPathOf(f) == modPath+"/imapclient" })
	ruleZeroFromWire(c, "C11.b")
	ruleDynamicRefused(c, "C11.c")
	// (d)
	read := p.Func("imapclient", "Client", "read")
	if read == nil {
		c.unresolvedRoot("(*Client).read")
	} else {
		rec, closes := false, false
		for _, i := range read.Blocks[0].Instrs {
			if d, ok := i.(*ssa.Defer); ok {
				var dfn *ssa.Function
				if mc, ok := d.Call.Value.(*ssa.MakeClosure); ok {
					dfn = mc.Fn.(*ssa.Function)
				} else if cal := staticCallee(d); cal != nil && inModule(cal) && cal.Blocks != nil {
					dfn = cal
				}
				if dfn != nil && hasRecoverIn(dfn) {
					rec = true
					allInstrs(dfn, func(j ssa.Instruction) {
						if call, ok := j.(*ssa.Call); ok && callKey(call) == "(*Client).closeWithError" {
							closes = true
						}
					})
				}
			}
		}
		c.check(rec, "C11.d", "read: deferred recover", read.Pos(), "a panic while parsing a response is recovered in the reader goroutine", "a panic in the response parser is not recovered: arbitrary server bytes can crash the client's process")
		c.check(closes, "C11.d", "read: teardown after recover", read.Pos(), "the recovering function runs closeWithError", "after a recovered panic the client is not torn down: pending commands hang")
	}
	ruleEnumerationBoundary(c, "C11.e")
	ruleNilableFields(c, "C11.f")
	ruleNoNarrowing(c, "C11.g")
	ruleDeliveredNumbers(c, "C11.h")
	c.rule("C11.i", "the decoder un-reads a byte only directly after a successful byte read (bufio typestate; mustUnreadByte panics otherwise)", 9)
	ruleUnreadTypestate(c, "C11.i")
	c.rule("C11.j", "no allocation is sized by a number the peer announced", 4)
	ruleNoWireSizedAlloc(c, "C11.j")
	c.rule("C11.k", "every round of a parsing loop consumes input or leaves the loop", 10)
	ruleParseLoopProgress(c, "C11.k", "imapclient", "internal")
	c.rule("C11.l", "interface fields of delivered data that can hold the nil interface (NIL on the wire) are called through only after a non-nil test", 3)
	ruleNilableIfaceFields(c, "C11.l", "imapclient", "")
	c.rule("C11.m", "a map field that is written through is never reset to nil", 1)
	ruleMapFieldsNeverNil(c, "C11.m", "imapclient")
}

// ruleZeroFromWire: C11.b.
func ruleZeroFromWire(c *Ctx, rule string) {
	p := c.P
	n := 0
	for _, fn := range p.SrcFuncs("imapclient") {
		allInstrs(fn, func(i ssa.Instruction) {
			call, ok := i.(ssa.CallInstruction)
			if !ok {
				return
			}
			k := callKey(call)
			if k != "(*SeqSet).AddNum" && k != "(*UIDSet).AddNum" {
				return
			}
			// variadic: the numbers are the elements of the slice literal
			var nums []ssa.Value
			for _, a := range call.Common().Args[1:] {
				if sl, ok := a.(*ssa.Slice); ok {
					if arr, ok := sl.X.(*ssa.Alloc); ok {
						for _, ref := range *arr.Referrers() {
							if ia, ok := ref.(*ssa.IndexAddr); ok {
								for _, r2 := range *ia.Referrers() {
									if st, ok := r2.(*ssa.Store); ok && st.Addr == ssa.Value(ia) {
										nums = append(nums, st.Val)
									}
								}
							}
						}
					}
				}
			}
			for _, num := range nums {
				checkWireNum(c, rule, &n, fn, i, num, i.Pos(), 2)
			}
		})
	}
	if n == 0 {
		c.unresolvedRoot("wire numbers added to result sets in imapclient")
	}
}

// ruleDynamicRefused: C11.c.
func ruleDynamicRefused(c *Ctx, rule string) {
	p := c.P
	n := 0
	for _, fn := range p.SrcFuncs("imapclient") {
		allInstrs(fn, func(i ssa.Instruction) {
			call, ok := i.(ssa.CallInstruction)
			if !ok || !isDecoderMethodCall(call) {
				return
			}
			name := calleeObj(call).Name()
			if name != "ExpectNumSet" && name != "ExpectUIDSet" {
				return
			}
			n++
			// the destination: last argument is the address of a variable/field
			dst := call.Common().Args[len(call.Common().Args)-1]
			key := fmt.Sprintf("%s:%s#%d", fnKey(fn), name, countKey(c, rule, fnKey(fn)+":"+name+"#")+1)
			// a Dynamic() call on a load of the same destination whose true edge leads to an error return
			found := false
			allInstrs(fn, func(j ssa.Instruction) {
				dc, ok := j.(ssa.CallInstruction)
				if !ok {
					return
				}
				dk := callKey(dc)
				if !strings.HasSuffix(dk, ".Dynamic") {
					return
				}
				// receiver: load of dst (or interface holding it)
				recv := dc.Common().Value
				if !dc.Common().IsInvoke() && len(dc.Common().Args) > 0 {
					recv = dc.Common().Args[0]
				}
				var base ssa.Value
				switch r := recv.(type) {
				case *ssa.UnOp:
					base = r.X
				}
				same := base == dst
				if fa, ok := base.(*ssa.FieldAddr); ok {
					if fb, ok := dst.(*ssa.FieldAddr); ok && fa.Field == fb.Field && pathOf(fa) == pathOf(fb) {
						same = true
					}
				}
				if !same || !precedes(call.(ssa.Instruction), j) {
					return
				}
				// the true edge returns a non-nil error
				v, _ := j.(ssa.Value)
				blk := j.Block()
				if ifi, ok := blk.Instrs[len(blk.Instrs)-1].(*ssa.If); ok && ifi.Cond == v {
					tb := blk.Succs[0]
					if ret, ok := tb.Instrs[len(tb.Instrs)-1].(*ssa.Return); ok {
						ev := unspill(ret.Results[len(ret.Results)-1])
						if _, isMI := ev.(*ssa.MakeInterface); isMI {
							found = true
						}
						if cl, ok := ev.(*ssa.Call); ok && calleeObj(cl) != nil && calleeObj(cl).Name() == "Errorf" {
							found = true
						}
					}
				}
			})
			c.check(found, rule, key, i.Pos(), "followed by a Dynamic() test whose true edge returns an error",
				"a number set parsed from the server is used without refusing '*': accessors such as Nums()/AllUIDs() panic or loop on a dynamic set")
		})
	}
	if n == 0 {
		c.unresolvedRoot("ExpectNumSet/ExpectUIDSet calls in imapclient")
	}
}

// ruleEnumerationBoundary: C11.e / C15.a (engine E9.i).
func ruleEnumerationBoundary(c *Ctx, rule string) {
	p := c.P
	n := 0
	for _, fn := range p.SrcFuncs("internal/imapnum", "") {
		for _, b := range fn.Blocks {
			if len(b.Instrs) == 0 {
				continue
			}
			ifi, ok := b.Instrs[len(b.Instrs)-1].(*ssa.If)
			if !ok {
				continue
			}
			bo, ok := ifi.Cond.(*ssa.BinOp)
			if !ok || (bo.Op != token.LEQ && bo.Op != token.LSS) {
				continue
			}
			ph, ok := bo.X.(*ssa.Phi)
			if !ok {
				continue
			}
			bt, ok := ph.Type().Underlying().(*types.Basic)
			if !ok || bt.Info()&types.IsUnsigned == 0 {
				continue
			}
			// loop variable incremented by one on the back edge
			inc := false
			for _, e := range ph.Edges {
				if add, ok := e.(*ssa.BinOp); ok && add.Op == token.ADD && add.X == ssa.Value(ph) {
					if k, ok := constInt(add.Y); ok && k == 1 {
						inc = true
					}
				}
			}
			if !inc {
				continue
			}
			if bo.Op == token.LSS {
				// `n < bound+k`: the sum itself wraps when bound is the maximum
				sum, ok := bo.Y.(*ssa.BinOp)
				if !ok || sum.Op != token.ADD {
					continue
				}
				if _, isConst := sum.X.(*ssa.Const); isConst {
					continue
				}
				if k, ok := constInt(sum.Y); !ok || k < 1 {
					continue
				}
				n++
				c.fail(rule, fmt.Sprintf("%s: for %s < bound+k; %s++", fnKey(fn), ph.Comment, ph.Comment), bo.Pos(),
					fmt.Sprintf("the loop limit is an unsigned %s sum bound+k with a non-constant bound: when the bound is the maximum value the sum wraps to a small number and the loop ends early (enumerating a set that contains 4294967295 silently drops members)", bt.Name()))
				continue
			}
			n++
			key := fmt.Sprintf("%s: for %s <= bound; %s++", fnKey(fn), ph.Comment, ph.Comment)
			// safe if the bound is a constant below the type's maximum
			if k, ok := bo.Y.(*ssa.Const); ok && k.Value != nil {
				c.ok(rule, key, bo.Pos(), "constant bound")
				continue
			}
			// or the loop body leaves the loop when the variable equals the bound before incrementing
			guarded := false
			for _, blk := range fn.Blocks {
				if len(blk.Instrs) == 0 {
					continue
				}
				if i2, ok := blk.Instrs[len(blk.Instrs)-1].(*ssa.If); ok {
					if eq, ok := i2.Cond.(*ssa.BinOp); ok && (eq.Op == token.EQL || eq.Op == token.GEQ) && eq.X == ssa.Value(ph) && b.Dominates(blk) {
						guarded = true
					}
				}
			}
			c.check(guarded, rule, key, bo.Pos(), "the body leaves the loop when the variable reaches the bound, before the increment can wrap",
				fmt.Sprintf("`for n := start; n <= stop; n++` over an unsigned %s with a non-constant bound: when stop is the maximum value n wraps to 0 and the loop never ends (enumerating a set that contains 4294967295 hangs and exhausts memory)", bt.Name()))
		}
	}
	// (iii) positional accumulation n = n*K + digit in a loop: without a bound
	// test inside the loop the accumulator wraps for long inputs and a check
	// after the loop sees the wrapped value
	for _, fn := range p.SrcFuncs("internal/imapnum", "", "internal/imapwire") {
		for _, b := range fn.Blocks {
			for _, i := range b.Instrs {
				ph, ok := i.(*ssa.Phi)
				if !ok {
					continue
				}
				bt, ok := ph.Type().Underlying().(*types.Basic)
				if !ok || bt.Info()&types.IsInteger == 0 {
					continue
				}
				acc := false
				var upd ssa.Value
				for k, e := range ph.Edges {
					if !b.Dominates(b.Preds[k]) {
						continue
					}
					if add, ok := e.(*ssa.BinOp); ok && add.Op == token.ADD {
						for _, side := range []ssa.Value{add.X, add.Y} {
							if mul, ok := side.(*ssa.BinOp); ok && mul.Op == token.MUL && (mul.X == ssa.Value(ph) || mul.Y == ssa.Value(ph)) {
								if _, isC := mul.X.(*ssa.Const); isC || func() bool { _, c2 := mul.Y.(*ssa.Const); return c2 }() {
									acc, upd = true, add
								}
							}
						}
					}
				}
				if !acc {
					continue
				}
				n++
				// a comparison of the accumulator (or its update) with something, inside the loop
				guarded := false
				for _, blk := range fn.Blocks {
					if !b.Dominates(blk) || !reaches2(blk, b) {
						continue
					}
					for _, j := range blk.Instrs {
						if cmp, ok := j.(*ssa.BinOp); ok {
							switch cmp.Op {
							case token.GTR, token.GEQ, token.LSS, token.LEQ:
								if cmp.X == ssa.Value(ph) || cmp.Y == ssa.Value(ph) || cmp.X == upd || cmp.Y == upd {
									guarded = true
								}
							}
						}
					}
				}
				c.check(guarded, rule, fmt.Sprintf("%s: accumulator %s = %s*K + digit", fnKey(fn), ph.Comment, ph.Comment), ph.Pos(), "bounded inside the loop",
					fmt.Sprintf("the %s accumulator is multiplied and added in a loop with no bound test inside the loop: a long digit string wraps around and a range check after the loop accepts the wrapped value (e.g. 18446744073709551617 parsed as 1)", bt.Name()))
			}
		}
	}
	if n == 0 {
		c.okTrivial(rule, "no `n <= bound; n++` loop over an unsigned variable with a dynamic bound", token.NoPos, "0 such loops in imapnum and imap")
	}
}

// checkWireNum: num (used at instruction `at` of fn) is added to a result
// set. If it is a load of a local cell filled by a Decoder method, it must be
// dominated by a non-zero test; if it is a parameter of an unexported helper,
// the obligation moves to the helper's call sites.
func checkWireNum(c *Ctx, rule string, n *int, fn *ssa.Function, at ssa.Instruction, num ssa.Value, pos token.Pos, depth int) {
	src := num
	for {
		if cv, ok := src.(*ssa.Convert); ok {
			src = cv.X
			continue
		}
		if ct, ok := src.(*ssa.ChangeType); ok {
			src = ct.X
			continue
		}
		break
	}
	if prm := paramOf(src); prm != nil && depth > 0 && prm.Parent() == fn {
		if o, ok := fn.Object().(*types.Func); ok && o.Exported() {
			return
		}
		idx := -1
		for k, q := range fn.Params {
			if q == prm {
				idx = k
			}
		}
		for _, site := range callSitesOf(c.P, fn) {
			args := site.Common().Args
			if idx >= 0 && idx < len(args) && site.Parent() != nil {
				checkWireNum(c, rule, n, site.Parent(), site, args[idx], site.Pos(), depth-1)
			}
		}
		return
	}
	ld, ok := src.(*ssa.UnOp)
	if !ok || ld.Op != token.MUL {
		return
	}
	cell, ok := ld.X.(*ssa.Alloc)
	if !ok {
		return
	}
	fromWire := false
	for _, ref := range *cell.Referrers() {
		if dc, ok := ref.(ssa.CallInstruction); ok && isDecoderMethodCall(dc) {
			fromWire = true
		}
	}
	if !fromWire {
		return
	}
	*n++
	gf := mustFlow(fn, facts{}, nil, func(f facts, b *ssa.BasicBlock, s int) facts {
		var add []string
		for _, a := range edgeAtoms(b, s) {
			if a.Const == nil {
				continue
			}
			if kk, ok := constInt(a.Const); ok && kk == 0 && (a.Op == token.NEQ || a.Op == token.GTR) {
				v := a.V
				if cv, ok := v.(*ssa.Convert); ok {
					v = cv.X
				}
				if l2, ok := v.(*ssa.UnOp); ok {
					if al, ok := l2.X.(*ssa.Alloc); ok {
						add = append(add, "nonzero:"+al.Name())
					}
				}
			}
		}
		return f.with(add...)
	})
	fs, _ := gf.at(at)
	key := fmt.Sprintf("%s:AddNum(%s)#%d", fnKey(fn), cell.Comment, countKey(c, rule, fnKey(fn)+":AddNum(")+1)
	c.check(fs.has("nonzero:"+cell.Name()), rule, key, pos, "dominated by a non-zero test of the number read from the wire",
		"a number read from the server is added to the result set without a zero test: '* SEARCH 0' yields a set containing '*' (0 means '*'), and AllSeqNums()/AllUIDs() panic on it")
}
