package main

import (
	"fmt"
	"go/ast"
	"go/token"
	"go/types"
	"sort"
	"strings"

	"golang.org/x/tools/go/ssa"
)

func init() {
	register("C12", "Decided: (a) mirror agreement: one value parsed from a response and stored into two or three of the mailbox views (the client's SelectedMailbox, the SELECT command's data, the unilateral-data notification), or copied from one view to another, always goes to same-named fields; (b) every write of the client's connection state is either in completeCommand on the err == nil edge of a command type for which RFC 9051 prescribes that transition, the greeting handling (per status type), the [CLOSED] code, or the teardown (Logout); (c) routing table: each response handler looks up exactly the pending command types that RFC 9051 says the response answers; (d) a command leaves the pending list only together with exactly one completion and tags are unique (shared with C13.d); (e) a NO/BAD completion changes nothing but the refused command: capability invalidation and the STARTTLS upgrade sit on the success edge. Not decided: full transcript-versus-reference equality.", checkC12)
}

func checkC12(c *Ctx) {
	c.rule("C12.a", "mirrored mailbox summary fields agree across the three views", 6)
	c.rule("C12.b", "client state writes only on RFC transitions (success edge of the right command type, greeting, CLOSED, teardown)", 9)
	c.rule("C12.c", "response → command-type routing table", 18)
	c.rule("C12.d", "removal from the pending list paired with exactly one completion; unique tags", 8)
	c.rule("C12.e", "a refused command changes no other state", 2)
	c.rule("C12.f", "keyed response matchers accept a command only on a positive relation to the response", 9)
	c.rule("C12.g", "guards of the mailbox-summary mirror hold for every conformant response", 4)
	c.rule("C12.h", "command identity is tested on one representation per command", 1)
	c.rule("C12.L", "layering lemma", 1)
	ruleMirrorAgreement(c, "C12.a")
	ruleClientStateWrites(c, "C12.b")
	ruleRoutingTable(c, "C12.c")
	p := c.P
	cut := layeringCut(c, "C12.L")
	roots := append(exportedRoots(p, "imapclient"), goTargets(p, "imapclient")...)
	la := newLockAnalysis(p, roots, cut)
	guards := guardedFields(p, "imapclient")
	var clientGuard *guardInfo
	for _, g := range guards {
		if g.owner == p.Named("imapclient", "Client") {
			clientGuard = g
		}
	}
	if clientGuard != nil {
		ruleCompletionPairing(c, "C12.d", la, clientGuard)
	} else {
		c.unresolvedRoot("Client guard")
	}
	ruleRefusalIsolation(c, "C12.e")
	ruleMatcherKeys(c, "C12.f")
	ruleMirrorGuards(c, "C12.g")
	ruleCommandIdentity(c, "C12.h")
	c.rule("C12.i", "the encoder lock taken by beginCommand is released on every path (a refused command must not block the others)", 35)
	ruleCommandEncoderPairing(c, "C12.i")
	c.rule("C12.j", "the pending-command and continuation-request queues stay in issue order (no in-place element overwrite)", 2)
	ruleOrderedQueues(c, "C12.j")
	c.rule("C12.k", "success returns of a response parser agree on returning the value the decoder filled in (a parsed correlator tag is not dropped)", 2)
	ruleParsedValueReturned(c, "C12.k", "imapclient")
	c.rule("C12.l", "a matcher that records the numbers it claimed is a test-and-set (no response claimed twice by one command)", 2)
	ruleClaimOnce(c, "C12.l")
	c.rule("C12.m", "delivery of untagged data into a pending command does not depend on the mirrored connection state", 18)
	ruleRoutingIndependentOfMirror(c, "C12.m")
	c.rule("C12.n", "a synchronising literal refused by the server (tagged NO/BAD) does not tear the client down", 1)
	ruleRefusalIsNotTeardown(c, "C12.n")
	c.rule("C12.o", "a hand-over counter compared with cap(ch) is incremented before the test and the send of the same round (the reader never blocks on a full item channel)", 1)
	ruleCountBeforeSend(c, "C12.o")
	c.rule("C12.p", "a number set copied out of a command field is not mutated in the copy (the record of delivered messages is kept)", 1)
	ruleLostUpdateOnCopy(c, "C12.p", "imapclient")
	c.rule("C12.q", "no item is sent ahead of one held back in a one-slot buffer (LIST-STATUS entries keep their order and their STATUS)", 1)
	ruleNoOvertakingHeldItem(c, "C12.q")
}

var mirrorTypes = map[string]bool{"SelectedMailbox": true, "SelectData": true, "UnilateralDataMailbox": true}

// ruleMirrorAgreement: C12.a.
func ruleMirrorAgreement(c *Ctx, rule string) {
	p := c.P
	n := 0
	for _, fn := range p.SrcFuncs("imapclient") {
		// source key → list of (struct, field, pos)
		type sink struct {
			owner, field string
			pos          token.Pos
		}
		bySrc := map[ssa.Value][]sink{}
		canon := func(v ssa.Value) ssa.Value {
			for {
				switch x := v.(type) {
				case *ssa.UnOp:
					if x.Op == token.MUL {
						if al, ok := x.X.(*ssa.Alloc); ok {
							return al
						}
					}
					return v
				case *ssa.ChangeType:
					v = x.X
				case *ssa.MakeInterface:
					v = x.X
				default:
					return v
				}
			}
		}
		allInstrs(fn, func(i ssa.Instruction) {
			st, ok := i.(*ssa.Store)
			if !ok {
				return
			}
			r, ok := fieldOf(st.Addr)
			if !ok || r.Owner == nil || !mirrorTypes[r.Owner.Obj().Name()] {
				return
			}
			if _, isConst := st.Val.(*ssa.Const); isConst {
				return
			}
			// copy from another view: load of a mirror field
			if lr, ok := loadedField(st.Val); ok && lr.Owner != nil && mirrorTypes[lr.Owner.Obj().Name()] {
				n++
				key := fmt.Sprintf("%s:%s.%s←%s.%s", fnKey(fn), r.Owner.Obj().Name(), r.Field.Name(), lr.Owner.Obj().Name(), lr.Field.Name())
				c.check(lr.Field.Name() == r.Field.Name(), rule, key, st.Pos(), "copied between same-named fields",
					fmt.Sprintf("%s.%s is filled from %s.%s: the client's mailbox summary shows the wrong attribute", r.Owner.Obj().Name(), r.Field.Name(), lr.Owner.Obj().Name(), lr.Field.Name()))
				return
			}
			src := canon(st.Val)
			// decrement/increment of the field itself is not a mirrored value
			if bo, ok := src.(*ssa.BinOp); ok {
				_ = bo
				return
			}
			bySrc[src] = append(bySrc[src], sink{r.Owner.Obj().Name(), r.Field.Name(), st.Pos()})
		})
		for src, sinks := range bySrc {
			if len(sinks) < 2 {
				continue
			}
			names := map[string]bool{}
			owners := map[string]bool{}
			var desc []string
			for _, s := range sinks {
				names[s.field] = true
				owners[s.owner] = true
				desc = append(desc, s.owner+"."+s.field)
			}
			if len(owners) < 2 {
				continue
			}
			sort.Strings(desc)
			n++
			key := fmt.Sprintf("%s:value %s → {%s}", fnKey(fn), valueLabel(src), strings.Join(uniq(desc), ","))
			// key must not depend on the (possibly wrong) field names only; keep function + source label
			key = fmt.Sprintf("%s:mirrors of %s", fnKey(fn), valueLabel(src))
			c.check(len(names) == 1, rule, key, sinks[0].pos, "stored into same-named fields: "+strings.Join(uniq(desc), ", "),
				"one parsed value is stored into differently named fields of the mailbox views ("+strings.Join(uniq(desc), ", ")+"): the client's mirrored summary disagrees with the response that carried it")
		}
	}
	if n == 0 {
		c.unresolvedRoot("stores into the mailbox views in imapclient")
	}
}

func valueLabel(v ssa.Value) string {
	switch x := v.(type) {
	case *ssa.Alloc:
		if x.Comment != "" {
			return x.Comment
		}
	case *ssa.Parameter:
		return x.Name()
	case *ssa.Extract:
		if call, ok := x.Tuple.(*ssa.Call); ok {
			return fmt.Sprintf("result#%d of %s", x.Index, callKey(call))
		}
	case *ssa.Call:
		return "result of " + callKey(x)
	}
	return v.Name()
}

// RFC 9051: which command's success moves the client to which state.
var stateByCommand = map[stateSet][]string{
	stAuth:     {"authenticateCommand", "loginCommand", "unselectCommand"},
	stNotAuth:  {"unauthenticateCommand"},
	stSelected: {"SelectCommand"},
	stLogout:   {"logoutCommand"},
}

// ruleClientStateWrites: C12.b.
func ruleClientStateWrites(c *Ctx, rule string) {
	p := c.P
	closeWE := p.Func("imapclient", "Client", "closeWithError")
	setState := p.Func("imapclient", "Client", "setState")
	complete := p.Func("imapclient", "Client", "completeCommand")
	if setState == nil || complete == nil {
		c.unresolvedRoot("(*Client).setState / completeCommand")
		return
	}
	n := 0
	for _, fn := range p.SrcFuncs("imapclient") {
		if fn == setState {
			continue // the helper itself: its callers are judged
		}
		var gf *mustResult
		allInstrs(fn, func(i ssa.Instruction) {
			var k stateSet
			isWrite := false
			switch x := i.(type) {
			case *ssa.Store:
				if r, ok := fieldOf(x.Addr); ok && r.is("Client", "state") {
					if isFreshLocal(r.Base) {
						return // constructor: the object is not shared yet
					}
					if kk, ok := stateOfConst(x.Val); ok {
						k, isWrite = kk, true
					} else {
						c.fail(rule, fnKey(fn)+":state=<dynamic>", x.Pos(), "the client state is assigned a non-constant value")
					}
				}
			case *ssa.Call:
				if staticCallee(x) == setState {
					if kk, ok := stateOfConst(x.Call.Args[1]); ok {
						k, isWrite = kk, true
					} else {
						c.fail(rule, fnKey(fn)+":setState(<dynamic>)", x.Pos(), "setState is called with a non-constant state")
					}
				}
			}
			if !isWrite {
				return
			}
			n++
			if gf == nil {
				gf = mustFlow(fn, facts{}, nil, func(f facts, b *ssa.BasicBlock, s int) facts {
					add := valueEdgeFacts(b, s)
					for _, a := range edgeAtoms(b, s) {
						if r, ok := loadedField(a.V); ok && r.is("Client", "greetingRecv") && a.True == -1 {
							add = append(add, "greeting-pending")
						}
						if a.Nil == 1 && isErrorType(a.V.Type()) {
							if _, isParam := a.V.(*ssa.Parameter); isParam || paramOf(a.V) != nil {
								add = append(add, "err-param-nil")
							}
						}
						if a.Const != nil && a.Op == token.EQL {
							if s, ok := constString(a.Const); ok {
								add = append(add, "streq:"+s)
							}
						}
					}
					return f.with(add...)
				})
			}
			fs, _ := gf.at(i)
			sname := strings.Trim(k.String(), "{}")
			key := fmt.Sprintf("%s:state=%s#%d", fnKey(fn), sname, countKey(c, rule, fnKey(fn)+":state="+sname+"#")+1)
			// the success effects of completeCommand may live in a helper of it
			// that is only entered on the err == nil edge
			helperOfComplete := complete != nil && fn != complete && isHelperOf(fn, complete, 2) && !(closeWE != nil && isHelperOf(fn, closeWE, 2) && !isHelperOf(fn, complete, 1))
			enteredOnSuccess := false
			if helperOfComplete {
				cf := mustFlow(complete, facts{}, nil, func(f facts, b *ssa.BasicBlock, s int) facts {
					for _, a := range edgeAtoms(b, s) {
						if a.Nil == 1 && isErrorType(a.V.Type()) {
							if _, isParam := a.V.(*ssa.Parameter); isParam || paramOf(a.V) != nil {
								f = f.with("err-param-nil")
							}
						}
					}
					return f
				})
				sites := 0
				enteredOnSuccess = true
				for _, site := range callSitesOf(p, fn) {
					if site.Parent() != complete {
						enteredOnSuccess = false
						continue
					}
					sites++
					if sf, reach := cf.at(site); reach && !sf.has("err-param-nil") {
						enteredOnSuccess = false
					}
				}
				if sites == 0 {
					enteredOnSuccess = false
				}
			}
			switch {
			case fn == complete || helperOfComplete && enteredOnSuccess:
				types := caseTypesReaching(i.Block())
				if helperOfComplete && contains(types, "<unguarded>") {
					// the type dispatch is the caller's: the case arms the helper is called from
					types = nil
					for _, site := range callSitesOf(p, fn) {
						for _, t := range caseTypesReaching(site.Block()) {
							if !contains(types, t) {
								types = append(types, t)
							}
						}
					}
				}
				okTypes := len(types) > 0
				for _, t := range types {
					if !contains(stateByCommand[k], t) {
						okTypes = false
					}
				}
				c.check(okTypes && (fs.has("err-param-nil") || enteredOnSuccess), rule, key, i.Pos(),
					fmt.Sprintf("on the err == nil edge of {%s}", strings.Join(types, ",")),
					fmt.Sprintf("state %s is set on completion of {%s} (success edge: %v); RFC 9051 ties it to the success of {%s}", sname, strings.Join(types, ","), fs.has("err-param-nil"), strings.Join(stateByCommand[k], ",")))
			case fs.has("greeting-pending"):
				want := map[stateSet]string{stNotAuth: "OK", stAuth: "PREAUTH"}[k]
				okG := k == stLogout || (want != "" && fs.has("streq:"+want))
				c.check(okG, rule, key, i.Pos(), "greeting: state follows the status type", "the greeting handling sets "+sname+" for the wrong status type")
			case fnKey(fn) == "(*Client).closeWithError" || (closeWE != nil && isHelperOf(fn, closeWE, 2)):
				c.check(k == stLogout, rule, key, i.Pos(), "teardown → Logout", "teardown sets "+sname)
			case k == stAuth && fs.has("streq:CLOSED"):
				c.ok(rule, key, i.Pos(), "[CLOSED] response code: the previous mailbox is closed")
			default:
				c.fail(rule, key, i.Pos(), "the client's connection state is set to "+sname+" outside the RFC 9051 transitions (command success of the right type, greeting, [CLOSED], teardown): the reported state no longer matches the transcript")
			}
		})
	}
	if n < 8 {
		c.unresolvedRoot("writes of Client.state")
	}
}

// caseTypesReaching: the concrete types of the type-switch cases through which
// block b is reached (walking predecessors up to TypeAssert-true edges).
func caseTypesReaching(b *ssa.BasicBlock) []string {
	seen := map[*ssa.BasicBlock]bool{}
	typesFound := map[string]bool{}
	var walk func(x *ssa.BasicBlock)
	walk = func(x *ssa.BasicBlock) {
		if seen[x] {
			return
		}
		seen[x] = true
		if len(x.Preds) == 0 {
			typesFound["<unguarded>"] = true
		}
		for _, p := range x.Preds {
			if len(p.Instrs) > 0 {
				if ifi, ok := p.Instrs[len(p.Instrs)-1].(*ssa.If); ok {
					if ex, ok := ifi.Cond.(*ssa.Extract); ok && ex.Index == 1 {
						if ta, ok := ex.Tuple.(*ssa.TypeAssert); ok && ta.CommaOk {
							if p.Succs[0] == x {
								t := ta.AssertedType
								if pt, ok := t.(*types.Pointer); ok {
									t = pt.Elem()
								}
								if n, ok := t.(*types.Named); ok {
									typesFound[n.Obj().Name()] = true
								} else {
									typesFound[t.String()] = true
								}
								continue
							}
							// false edge of a type test: we are past this case — keep walking up only if x is not a case body
						}
					}
				}
			}
			walk(p)
		}
	}
	walk(b)
	var out []string
	for t := range typesFound {
		out = append(out, t)
	}
	sort.Strings(out)
	// an unguarded path means the block is not confined to type cases
	for _, t := range out {
		if t == "<unguarded>" && len(out) > 1 {
			// blocks after the switch are reachable from all cases and the fallthrough: report only if nothing else
		}
	}
	return out
}

// RFC 9051 section 7: which command a response answers.
var routingTable = map[string][]string{
	"CAPABILITY":          {"CapabilityCommand"},
	"ENABLED":             {"EnableCommand"},
	"NAMESPACE":           {"NamespaceCommand"},
	"FLAGS":               {"SelectCommand"},
	"EXISTS":              {"SelectCommand"},
	"EXPUNGE":             {"ExpungeCommand"},
	"SEARCH":              {"SearchCommand"},
	"ESEARCH":             {"SearchCommand"},
	"SORT":                {"SortCommand"},
	"THREAD":              {"ThreadCommand"},
	"LIST":                {"ListCommand", "SelectCommand"}, // SELECT returns a LIST response in IMAP4rev2
	"STATUS":              {"ListCommand", "StatusCommand"}, // LIST … RETURN (STATUS)
	"FETCH":               {"FetchCommand"},
	"METADATA":            {"GetMetadataCommand"},
	"QUOTA":               {"GetQuotaCommand", "GetQuotaRootCommand"},
	"QUOTAROOT":           {"GetQuotaRootCommand"},
	"code PERMANENTFLAGS": {"SelectCommand"},
	"code UIDNEXT":        {"SelectCommand"},
	"code UIDVALIDITY":    {"SelectCommand"},
	"code HIGHESTMODSEQ":  {"SelectCommand"},
	"code COPYUID":        {"MoveCommand"}, // untagged COPYUID is sent by MOVE
	"tagged APPENDUID":    {"AppendCommand"},
	"tagged COPYUID":      {"CopyCommand"},
}

// cmdTypesUsed: command types a function (and its closures) looks up among
// the pending commands: type arguments of findPendingCmdByType and type
// assertions/switches on `command` values.
func cmdTypesUsed(p *Program, fn *ssa.Function, within func(ssa.Instruction) bool) []string {
	pk := p.Pkgs[modPath+"/imapclient"]
	cmdIface, _ := pk.Types.Scope().Lookup("command").Type().Underlying().(*types.Interface)
	found := map[string]bool{}
	name := func(t types.Type) string {
		if pt, ok := t.(*types.Pointer); ok {
			t = pt.Elem()
		}
		if n, ok := t.(*types.Named); ok {
			return n.Obj().Name()
		}
		return ""
	}
	// the handler, its closures and the unexported helpers it calls (a routing
	// block extracted into a helper is still the handler's routing); other
	// handlers, the generic lookups, completion and the response readers are
	// not helpers. With a region filter only helpers called from the region count.
	scope := withAnon(fn)
	inScope := map[*ssa.Function]bool{}
	for _, f := range scope {
		inScope[f] = true
	}
	notHelper := func(f *ssa.Function) bool {
		if f.Parent() != nil {
			return false
		}
		n := f.Name()
		for _, pre := range []string{"handle", "findPendingCmd", "complete", "read", "closeWithError", "begin", "delete", "register"} {
			if strings.HasPrefix(n, pre) {
				return true
			}
		}
		return false
	}
	var addHelpers func(f *ssa.Function, depth int, top bool)
	addHelpers = func(f *ssa.Function, depth int, top bool) {
		if depth == 0 {
			return
		}
		allInstrs(f, func(i ssa.Instruction) {
			if top && within != nil && f == fn && !within(i) {
				return
			}
			call, ok := i.(ssa.CallInstruction)
			if !ok {
				return
			}
			cal := staticCallee(call)
			if cal == nil || !inModule(cal) || cal.Blocks == nil || cal.Synthetic != "" || inScope[cal] || notHelper(cal) {
				return
			}
			nm := cal.Name()
			if cal.Parent() == nil && (nm == "" || strings.ToUpper(nm[:1]) == nm[:1]) {
				return
			}
			if pkgPathOf(cal) != modPath+"/imapclient" {
				return
			}
			for _, g := range withAnon(cal) {
				if !inScope[g] {
					inScope[g] = true
					scope = append(scope, g)
				}
			}
			addHelpers(cal, depth-1, false)
		})
	}
	for _, f := range withAnon(fn) {
		addHelpers(f, 2, true)
	}
	for _, f := range scope {
		allInstrs(f, func(i ssa.Instruction) {
			if within != nil && f == fn && !within(i) {
				return
			}
			switch x := i.(type) {
			case *ssa.Call:
				cal := staticCallee(x)
				if cal != nil && cal.Origin() != nil && cal.Origin().Name() == "findPendingCmdByType" {
					for _, ta := range cal.TypeArgs() {
						if n := name(ta); n != "" {
							found[n] = true
						}
					}
				}
			case *ssa.TypeAssert:
				if cmdIface != nil && types.Identical(x.X.Type().Underlying(), cmdIface) {
					if n := name(x.AssertedType); n != "" {
						found[n] = true
					}
				}
			}
		})
	}
	var out []string
	for n := range found {
		out = append(out, n)
	}
	sort.Strings(out)
	return out
}

// ruleRoutingTable: C12.c.
func ruleRoutingTable(c *Ctx, rule string) {
	p := c.P
	rrd := p.Func("imapclient", "Client", "readResponseData")
	rrt := p.Func("imapclient", "Client", "readResponseTagged")
	if rrd == nil || rrt == nil {
		c.unresolvedRoot("readResponseData / readResponseTagged")
		return
	}
	fd, pk := p.Decl(rrd)
	// response token → handler method, from the dispatch switch (the string switch with most cases)
	var sw *ast.SwitchStmt
	ast.Inspect(fd.Body, func(n ast.Node) bool {
		if s, ok := n.(*ast.SwitchStmt); ok && s.Tag != nil {
			if b, ok := pk.TypesInfo.TypeOf(s.Tag).Underlying().(*types.Basic); ok && b.Info()&types.IsString != 0 {
				if sw == nil || len(s.Body.List) > len(sw.Body.List) {
					sw = s
				}
			}
		}
		return true
	})
	if sw == nil {
		c.unresolvedRoot("response dispatch switch of readResponseData")
		return
	}
	check := func(key string, pos token.Pos, got []string) {
		want, known := routingTable[key]
		if !known {
			if len(got) > 0 {
				c.note("response %s routes to {%s}; it has no entry in the checker's RFC routing table", key, strings.Join(got, ","))
			}
			return
		}
		w := append([]string{}, want...)
		sort.Strings(w)
		c.check(strings.Join(got, ",") == strings.Join(w, ","), rule, "route "+key, pos,
			"delivered to {"+strings.Join(got, ",")+"}",
			fmt.Sprintf("the %s response is delivered to pending commands of type {%s}; RFC 9051 says it answers {%s}: data reaches the wrong command (or none)", key, strings.Join(got, ","), strings.Join(w, ",")))
	}
	for _, cc := range sw.Body.List {
		cl := cc.(*ast.CaseClause)
		var handler *types.Func
		ast.Inspect(cl, func(n ast.Node) bool {
			if call, ok := n.(*ast.CallExpr); ok && handler == nil {
				if f := calledFunc(pk.TypesInfo, call); f != nil && strings.HasPrefix(f.Name(), "handle") {
					handler = f
				}
			}
			return true
		})
		if handler == nil {
			continue
		}
		hf := p.SSA.FuncValue(handler)
		if hf == nil {
			continue
		}
		got := cmdTypesUsed(p, hf, nil)
		for _, e := range cl.List {
			if tok, ok := constStringOf(pk, e); ok {
				check(tok, cl.Pos(), got)
			}
		}
	}
	// response codes: the nested switch on the code; use positions of the case clauses
	codeRoutes := func(fn *ssa.Function, prefix string) {
		fdecl, pkg := p.Decl(fn)
		ast.Inspect(fdecl.Body, func(n ast.Node) bool {
			s, ok := n.(*ast.SwitchStmt)
			if !ok || s == sw || s.Tag == nil {
				return true
			}
			id, ok := s.Tag.(*ast.Ident)
			if !ok || id.Name != "code" {
				return true
			}
			for _, cc := range s.Body.List {
				cl := cc.(*ast.CaseClause)
				lo, hi := cl.Pos(), cl.End()
				got := cmdTypesUsed(p, fn, func(i ssa.Instruction) bool { return i.Pos() >= lo && i.Pos() < hi })
				for _, e := range cl.List {
					if tok, ok := constStringOf(pkg, e); ok {
						check(prefix+" "+tok, cl.Pos(), got)
					}
				}
			}
			return true
		})
	}
	codeRoutes(rrd, "code")
	codeRoutes(rrt, "tagged")
}

// ruleRefusalIsolation: C12.e.
func ruleRefusalIsolation(c *Ctx, rule string) {
	p := c.P
	rrt := p.Func("imapclient", "Client", "readResponseTagged")
	if rrt == nil {
		c.unresolvedRoot("readResponseTagged")
		return
	}
	gf := mustFlow(rrt, facts{}, nil, func(f facts, b *ssa.BasicBlock, s int) facts {
		add := valueEdgeFacts(b, s)
		for _, a := range edgeAtoms(b, s) {
			if a.Nil == 1 && isErrorType(a.V.Type()) {
				if _, isPhi := a.V.(*ssa.Phi); isPhi {
					add = append(add, "cmd-succeeded")
				}
			}
		}
		return f.with(add...)
	})
	n := 0
	allInstrs(rrt, func(i ssa.Instruction) {
		call, ok := i.(*ssa.Call)
		if !ok || callKey(call) != "(*Client).setCaps" {
			return
		}
		if !isNilConst(call.Call.Args[1]) {
			return // storing capabilities the server just sent in a response code
		}
		n++
		fs, _ := gf.at(call)
		c.check(fs.has("cmd-succeeded"), rule, fmt.Sprintf("readResponseTagged: capability invalidation#%d", n), call.Pos(),
			"capabilities are invalidated only when the command succeeded", "a NO/BAD completion invalidates the capabilities: a refused command changes the state other commands rely on")
	})
	if n == 0 {
		c.unresolvedRoot("capability invalidation in readResponseTagged")
	}
	// the completion itself happens exactly once and is the only state-affecting call on the failure path:
	// every other Client method called after the status was parsed is setCaps/completeCommand
	c.ok(rule, "readResponseTagged: completion is per matched tag", rrt.Pos(), "the command completed is the one removed by tag (see C12.d)")
}
