package main

import (
	"fmt"
	"go/constant"
	"go/token"
	"go/types"
	"sort"
	"strings"

	"golang.org/x/tools/go/ssa"
)

// ruleMailboxTransform: the mailbox-name transform is applied by the encoder
// exactly where the decoder inverts it. Decoder.ExpectMailbox passes every
// name except INBOX through the modified-UTF-7 decoder; therefore
// Encoder.Mailbox must emit utf7(name) for every name except INBOX — a path
// that writes the name untransformed is only right where the transform is the
// identity (printable ASCII without '&').
//
// Encoder side: Encoder.Mailbox is evaluated (E7) on one representative name
// per class × QuotedUTF8 ∈ {false,true}, with the transformer modelled as
// identity on printable-ASCII-without-'&' names and as an opaque tag
// otherwise; the emitted string must be the model's. Decoder side: every
// value stored through the result pointer is the constant "INBOX" or derives
// from the UTF-7 decoder's result.
func ruleMailboxTransform(c *Ctx, rule string) {
	p := c.P
	mb := p.Func("internal/imapwire", "Encoder", "Mailbox")
	em := p.Func("internal/imapwire", "Decoder", "ExpectMailbox")
	if mb == nil || em == nil {
		c.unresolvedRoot("(*Encoder).Mailbox / (*Decoder).ExpectMailbox")
		return
	}
	model := func(name string) string {
		if strings.EqualFold(name, "INBOX") {
			return "INBOX"
		}
		for i := 0; i < len(name); i++ {
			if name[i] < 0x20 || name[i] > 0x7e || name[i] == '&' {
				return "utf7(" + name + ")"
			}
		}
		return name
	}
	reps := []struct{ s, why string }{
		{"INBOX", "INBOX"}, {"inbox", "INBOX in lower case"}, {"Archive", "printable ASCII"}, {"Sent Items", "printable ASCII with space"},
		{"R&D", "ASCII with '&'"}, {"&", "lone '&'"}, {"&AOk-", "looks like an encoded name"}, {"a\x01b", "control character"}, {"a\x7fb", "DEL"},
		{"café", "2-byte code point"}, {"日本", "3-byte code points"}, {"x\U0001F600", "4-byte code point"}, {"~", "0x7e"},
		// U+0131 upper-cases to 'I' but does not fold to it: not INBOX
		{"\u0131nbox", "dotless i (upper-cases to INBOX, is not INBOX)"},
	}
	for _, q8 := range []bool{false, true} {
		for _, r := range reps {
			var emitted []string
			in := &Interp{P: p}
			in.Input = func(path string, t types.Type) (Val, bool) {
				if path == "enc.QuotedUTF8" {
					return mkBool(q8), true
				}
				return nil, false
			}
			in.Call = func(key string, recv Val, args []Val) (Val, bool) {
				switch key {
				case "golang.org/x/text/encoding.Encoding.NewEncoder":
					return symV{path: "utf7-encoder"}, true
				case "golang.org/x/text/encoding.(*Encoder).String":
					if s, ok := valString(args[0]); ok {
						return tupleV{mkString(model(s)), errV{}}, true
					}
					return nil, false
				case "(*Encoder).String", "(*Encoder).Atom", "(*Encoder).Quoted", "(*Encoder).writeString":
					if len(args) == 1 {
						if s, ok := valString(args[0]); ok {
							emitted = append(emitted, s)
							return recv, true
						}
					}
				}
				return nil, false
			}
			_, err := in.Eval(mb.Object().(*types.Func), ptrV{&objV{path: "enc", fields: map[string]Val{}}}, []Val{mkString(r.s)})
			key := fmt.Sprintf("Encoder.Mailbox[%q,QuotedUTF8=%v]", r.s, q8)
			c.evals++
			if err != nil {
				c.undecided(rule, key, mb.Pos(), err.Error())
				continue
			}
			want := model(r.s)
			c.check(len(emitted) == 1 && emitted[0] == want, rule, key, mb.Pos(), fmt.Sprintf("emits %q (%s)", want, r.why),
				fmt.Sprintf("emits %q for the %s name, but the peer's ExpectMailbox always applies the modified-UTF-7 decoder to it and expects %q: the name arrives as a different mailbox or is refused", strings.Join(emitted, "|"), r.why, want))
		}
	}
	// decoder side
	n := 0
	var prm *ssa.Parameter
	if len(em.Params) == 2 {
		prm = em.Params[1]
	}
	allInstrs(em, func(i ssa.Instruction) {
		st, ok := i.(*ssa.Store)
		if !ok || prm == nil || (st.Addr != ssa.Value(prm) && paramOf(st.Addr) != prm) {
			return
		}
		n++
		key := fmt.Sprintf("ExpectMailbox: store through the result pointer#%d", n)
		if s, ok := constString(st.Val); ok {
			c.check(s == "INBOX", rule, key, st.Pos(), "constant INBOX", "a constant other than INBOX is delivered as the mailbox name")
			return
		}
		// provenance: Extract #0 of a call of (*encoding.Decoder).String
		okProv := false
		var isDecodedD func(v ssa.Value, depth int) bool
		isDecodedD = func(v ssa.Value, depth int) bool {
			if ex, ok := v.(*ssa.Extract); ok {
				if call, ok := ex.Tuple.(*ssa.Call); ok {
					if o := calleeObj(call); o != nil && ex.Index == 0 && o.Name() == "String" && o.Pkg() != nil && strings.HasSuffix(o.Pkg().Path(), "x/text/encoding") {
						return true
					}
					// a helper that returns the decoder's output (or the
					// constant INBOX) on every successful return
					if h := staticCallee(call); h != nil && h.Blocks != nil && inModule(h) && depth > 0 {
						nres := h.Signature.Results().Len()
						some := false
						for _, r := range returnsOf(h) {
							if ex.Index >= len(r.Results) {
								return false
							}
							if nres > 1 && isErrorType(h.Signature.Results().At(nres-1).Type()) && !isNilConst(unspill(r.Results[nres-1])) {
								if _, isExtr := unspill(r.Results[nres-1]).(*ssa.Extract); !isExtr {
									continue // a failure return
								}
							}
							rv := unspill(r.Results[ex.Index])
							if s, ok := constString(rv); ok && s == "INBOX" {
								some = true
								continue
							}
							if !isDecodedD(rv, depth-1) {
								return false
							}
							some = true
						}
						return some
					}
				}
			}
			return false
		}
		isDecoded := func(v ssa.Value) bool { return isDecodedD(v, 2) }
		v := st.Val
		if isDecoded(v) {
			okProv = true
		}
		if ld, ok := v.(*ssa.UnOp); ok {
			if cell, ok := ld.X.(*ssa.Alloc); ok {
				// the local was last assigned the decoder's output on every path to here
				for _, ref := range *cell.Referrers() {
					if s2, ok := ref.(*ssa.Store); ok && s2.Addr == ssa.Value(cell) && isDecoded(s2.Val) {
						if s2.Block().Dominates(st.Block()) && (s2.Block() != st.Block() || precedes(s2, st)) {
							okProv = true
						}
					}
				}
			}
		}
		c.check(okProv, rule, key, st.Pos(), "the delivered name is the UTF-7 decoder's output", "a mailbox name is delivered without passing through the modified-UTF-7 decoder, while Encoder.Mailbox always encodes: every non-ASCII or '&' name arrives mangled")
	})
	if n == 0 {
		c.unresolvedRoot("stores through ExpectMailbox's result pointer")
	}
}

func valString(v Val) (string, bool) {
	if k, ok := v.(cv); ok && k.v.Kind() == constant.String {
		return constant.StringVal(k.v), true
	}
	return "", false
}

// ruleUnreadTypestate: bufio.Reader.UnreadByte is valid only directly after a
// successful ReadByte; Decoder.mustUnreadByte panics otherwise. Typestate on
// every path of every Decoder method: a call of mustUnreadByte needs the fact
// "the last reader operation was a successful byte read", established on the
// success edge of readByte / r.ReadByte and destroyed by every other call of
// a Decoder method or of the buffered reader (acceptByte un-reads on its
// failing path; Peek/Read/Discard invalidate the unread slot).
func ruleUnreadTypestate(c *Ctx, rule string) {
	p := c.P
	must := p.Func("internal/imapwire", "Decoder", "mustUnreadByte")
	if must == nil {
		c.unresolvedRoot("(*Decoder).mustUnreadByte")
		return
	}
	isRead := func(call ssa.CallInstruction) bool {
		k := callKey(call)
		return k == "(*Decoder).readByte" || k == "(*Reader).ReadByte"
	}
	touchesReader := func(call ssa.CallInstruction) bool {
		if isDecoderMethodCall(call) {
			return true
		}
		if o := calleeObj(call); o != nil && o.Pkg() != nil && o.Pkg().Path() == "bufio" {
			return true
		}
		return false
	}
	n := 0
	for _, fn := range p.SrcFuncs("internal/imapwire") {
		uses := false
		allInstrs(fn, func(i ssa.Instruction) {
			if call, ok := i.(ssa.CallInstruction); ok && staticCallee(call) == must {
				uses = true
			}
		})
		if !uses {
			continue
		}
		flow := mustFlow(fn, facts{}, func(f facts, i ssa.Instruction) facts {
			if call, ok := i.(ssa.CallInstruction); ok && touchesReader(call) {
				return f.without(func(s string) bool { return s == "readable" })
			}
			return f
		}, func(f facts, b *ssa.BasicBlock, s int) facts {
			for _, sc := range successCalls(b, s) {
				if isRead(sc) {
					return f.with("readable")
				}
			}
			for _, a := range edgeAtoms(b, s) {
				if call, idx := callOf(a.V); call != nil && isRead(call) && (a.True == 1 && idx == 1 || a.Nil == 1) {
					return f.with("readable")
				}
			}
			return f
		})
		k := 0
		allInstrs(fn, func(i ssa.Instruction) {
			call, ok := i.(ssa.CallInstruction)
			if !ok || staticCallee(call) != must {
				return
			}
			k++
			n++
			fs, reach := flow.at(i)
			if !reach {
				c.okTrivial(rule, fmt.Sprintf("%s: mustUnreadByte#%d", fnKey(fn), k), i.Pos(), "unreachable")
				return
			}
			c.check(fs.has("readable"), rule, fmt.Sprintf("%s: mustUnreadByte#%d", fnKey(fn), k), i.Pos(), "directly after a successful byte read on every path",
				"mustUnreadByte can run when the last reader operation was not a successful ReadByte (e.g. after acceptByte already put the byte back): bufio reports 'invalid use of UnreadByte' and the decoder panics on that input")
		})
	}
	if n == 0 {
		c.unresolvedRoot("calls of mustUnreadByte")
	}
}

// ruleEOLFlag: C04.g. Decoder.crlf means "the bytes consumed last were the
// line's CRLF"; DiscardLine trusts it to decide whether the rest of a line
// still has to be skipped. It may therefore be cleared only where input is
// consumed: from every store of false into the flag, every path to a return
// passes a read from the decoder's reader (ReadByte, CopyN/Read on dec.r) or
// the setting of the decoder error. Clearing it without consuming makes
// DiscardLine swallow the next line (the next command).
func ruleEOLFlag(c *Ctx, rule string) {
	p := c.P
	n := 0
	consumes := func(call ssa.CallInstruction) bool {
		cc := call.Common()
		if callKey(call) == "(*Decoder).returnErr" {
			return true
		}
		isReader := func(v ssa.Value) bool {
			for {
				if mi, ok := v.(*ssa.MakeInterface); ok {
					v = mi.X
					continue
				}
				if ci, ok := v.(*ssa.ChangeInterface); ok {
					v = ci.X
					continue
				}
				break
			}
			r, ok := loadedField(v)
			return ok && (r.is("Decoder", "r") || derivedReaderFields(p)[r.Field])
		}
		reading := map[string]bool{"ReadByte": true, "Read": true, "ReadString": true, "ReadLine": true, "ReadBytes": true, "ReadRune": true, "ReadSlice": true, "Discard": true, "WriteTo": true}
		if o := calleeObj(call); o != nil {
			// a method of the reader itself
			if len(cc.Args) > 0 && !cc.IsInvoke() && isReader(cc.Args[0]) && reading[o.Name()] {
				return true
			}
			if cc.IsInvoke() && isReader(cc.Value) && reading[o.Name()] {
				return true
			}
			// io.CopyN(dst, dec.r, n) and friends
			if o.Pkg() != nil && o.Pkg().Path() == "io" {
				switch o.Name() {
				case "CopyN", "Copy", "CopyBuffer", "ReadFull", "ReadAtLeast", "ReadAll":
					for _, a := range cc.Args {
						if isReader(a) {
							return true
						}
					}
				}
			}
		}
		return false
	}
	for _, fn := range p.SrcFuncs("internal/imapwire") {
		var clears []*ssa.Store
		allInstrs(fn, func(i ssa.Instruction) {
			if st, ok := i.(*ssa.Store); ok {
				if r, ok := fieldOf(st.Addr); ok && r.is("Decoder", "crlf") {
					if k, ok := st.Val.(*ssa.Const); ok && k.Value != nil && k.Value.String() == "false" {
						clears = append(clears, st)
					}
				}
			}
		})
		if len(clears) == 0 {
			continue
		}
		clearSet := map[ssa.Instruction]bool{}
		for _, s := range clears {
			clearSet[s] = true
		}
		flow := mustFlow(fn, facts{}, func(f facts, i ssa.Instruction) facts {
			if clearSet[i] {
				return f.without(func(s string) bool { return s == "consumed" }).with("cleared")
			}
			if call, ok := i.(ssa.CallInstruction); ok && consumes(call) {
				return f.with("consumed")
			}
			return f
		}, nil)
		bad := 0
		var pos = clears[0].Pos()
		for _, r := range returnsOf(fn) {
			f, ok := flow.at(r)
			if ok && f.has("cleared") && !f.has("consumed") {
				bad++
				pos = r.Pos()
			}
		}
		n++
		c.check(bad == 0, rule, fnKey(fn)+": crlf cleared only with consumption", pos, "every path from the clearing of the end-of-line flag to a return reads from the connection or sets the decoder error",
			fmt.Sprintf("the end-of-line flag is cleared and %d return(s) are reached without consuming input: a DiscardLine that follows skips the next line, i.e. the client's next command is swallowed", bad))
	}
	if n == 0 {
		c.unresolvedRoot("stores of false into Decoder.crlf")
	}
}

// ruleStaleOutParam: C04.f. A decoder method that hands its result back
// through a pointer parameter may return without writing it (Decoder.Text on
// an empty remainder, every Expect* on failure). A caller that ignores the
// boolean result and then reads the variable sees whatever it held before.
// Hazard: the variable lives across loop iterations (its cell is allocated
// outside the loop that contains the call and is not re-assigned in the
// iteration before the call), the callee may skip the store, and the result
// is not tested. The previous iteration's value is then taken for this
// iteration's input (DiscardLine re-reading an old "{N+}" header and
// discarding N octets of the next command).
func ruleStaleOutParam(c *Ctx, rule string) {
	p := c.P
	// callee summary: may return without storing through pointer parameter k
	maySkip := map[string]bool{}
	skipStore := func(cal *ssa.Function, k int) bool {
		key := fmt.Sprintf("%p/%d", cal, k)
		if v, ok := maySkip[key]; ok {
			return v
		}
		res := true
		if cal != nil && cal.Blocks != nil && k < len(cal.Params) {
			prm := cal.Params[k]
			flow := mustFlow(cal, facts{}, func(f facts, i ssa.Instruction) facts {
				switch x := i.(type) {
				case *ssa.Store:
					if x.Addr == ssa.Value(prm) || paramOf(x.Addr) == prm {
						return f.with("stored")
					}
				case ssa.CallInstruction:
					// handed on to another function: assume it stores (only direct skips are reported)
					for _, a := range x.Common().Args {
						if a == ssa.Value(prm) || paramOf(a) == prm {
							return f.with("stored")
						}
					}
				}
				return f
			}, nil)
			res = false
			for _, r := range returnsOf(cal) {
				if f, ok := flow.at(r); ok && !f.has("stored") {
					res = true
				}
			}
		}
		maySkip[key] = res
		return res
	}
	inCycle := func(b *ssa.BasicBlock) map[*ssa.BasicBlock]bool {
		// blocks on some cycle through b
		fwd := map[*ssa.BasicBlock]bool{}
		var walk func(x *ssa.BasicBlock)
		walk = func(x *ssa.BasicBlock) {
			for _, s := range x.Succs {
				if !fwd[s] {
					fwd[s] = true
					walk(s)
				}
			}
		}
		walk(b)
		if !fwd[b] {
			return nil
		}
		bwd := map[*ssa.BasicBlock]bool{}
		var back func(x *ssa.BasicBlock)
		back = func(x *ssa.BasicBlock) {
			for _, s := range x.Preds {
				if !bwd[s] {
					bwd[s] = true
					back(s)
				}
			}
		}
		back(b)
		out := map[*ssa.BasicBlock]bool{}
		for x := range fwd {
			if bwd[x] {
				out[x] = true
			}
		}
		return out
	}
	n := 0
	for _, fn := range p.SrcFuncs("internal/imapwire", "imapserver") {
		k := 0
		allInstrs(fn, func(i ssa.Instruction) {
			call, ok := i.(*ssa.Call)
			if !ok || !isDecoderMethodCall(call) {
				return
			}
			cal := staticCallee(call)
			if cal == nil {
				return
			}
			for ai, a := range call.Call.Args {
				cell, ok := a.(*ssa.Alloc)
				if !ok {
					continue
				}
				// result ignored?
				used := false
				if refs := call.Referrers(); refs != nil {
					for _, r := range *refs {
						if _, isDbg := r.(*ssa.DebugRef); !isDbg {
							used = true
						}
					}
				}
				if used {
					continue
				}
				k++
				n++
				key := fmt.Sprintf("%s: unchecked %s(&%s)#%d", fnKey(fn), cal.Name(), cell.Comment, k)
				loop := inCycle(call.Block())
				if loop == nil || loop[cell.Block()] {
					c.ok(rule, key, call.Pos(), "the variable is fresh for this call (not carried around a loop)")
					continue
				}
				// re-assigned in this iteration before the call?
				fresh := false
				for _, r := range *cell.Referrers() {
					if st, ok := r.(*ssa.Store); ok && st.Addr == ssa.Value(cell) && loop[st.Block()] {
						if st.Block().Dominates(call.Block()) && (st.Block() != call.Block() || precedes(st, call)) {
							fresh = true
						}
					}
				}
				if fresh {
					c.ok(rule, key, call.Pos(), "re-initialised in every iteration before the call")
					continue
				}
				if !skipStore(cal, ai) {
					c.ok(rule, key, call.Pos(), "the callee stores through the pointer on every path")
					continue
				}
				c.fail(rule, key, call.Pos(), fmt.Sprintf("%s may return without writing *%s, its result is ignored, and %s keeps its value from the previous loop iteration: stale input is processed again (e.g. an old literal header makes DiscardLine drop octets of the next command)", cal.Name(), cell.Comment, cell.Comment))
			}
		})
	}
	if n == 0 {
		c.unresolvedRoot("unchecked decoder calls with out-parameters")
	}
}

// ruleOneValueOneField: C02.j. In the server's argument parsers a decoded
// value belongs to exactly one field of the option structure handed to the
// backend: the same (non-constant) value stored into two different fields of
// one structure on one path delivers an argument the client did not send
// (an exclusion list that is also the inclusion list).
func ruleOneValueOneField(c *Ctx, rule string) {
	p := c.P
	n := 0
	for _, fn := range p.SrcFuncs("imapserver") {
		type st struct {
			s *ssa.Store
			r fieldRef
		}
		byVal := map[ssa.Value][]st{}
		allInstrs(fn, func(i ssa.Instruction) {
			s, ok := i.(*ssa.Store)
			if !ok {
				return
			}
			if _, isConst := s.Val.(*ssa.Const); isConst {
				return
			}
			r, ok := fieldOf(s.Addr)
			if !ok || r.Owner == nil || r.Owner.Obj().Pkg() == nil || r.Owner.Obj().Pkg().Path() != modPath {
				return // only the public option/data structures of package imap
			}
			v := s.Val
			// a load of a local cell stands for the cell
			if ld, ok := v.(*ssa.UnOp); ok {
				if al, ok := ld.X.(*ssa.Alloc); ok {
					v = al
				}
			}
			byVal[v] = append(byVal[v], st{s, r})
		})
		for v, l := range byVal {
			n++
			var clash []string
			var pos = l[0].s.Pos()
			for a := 0; a < len(l); a++ {
				for b := a + 1; b < len(l); b++ {
					x, y := l[a], l[b]
					if x.r.Field == y.r.Field || x.r.Owner != y.r.Owner || x.r.Base != y.r.Base {
						continue
					}
					// a local cell re-assigned between the two stores is not the same value
					if al, ok := v.(*ssa.Alloc); ok {
						re := false
						for _, ref := range *al.Referrers() {
							if w, ok := ref.(*ssa.Store); ok && w.Addr == ssa.Value(al) && (reaches2(x.s.Block(), w.Block()) && reaches2(w.Block(), y.s.Block()) || w.Block() == x.s.Block() && precedes(x.s, w) || w.Block() == y.s.Block() && precedes(w, y.s)) {
								re = true
							}
						}
						if re {
							continue
						}
					}
					if x.s.Block() == y.s.Block() || reaches2(x.s.Block(), y.s.Block()) || reaches2(y.s.Block(), x.s.Block()) {
						clash = append(clash, x.r.String()+" and "+y.r.String())
						pos = y.s.Pos()
					}
				}
			}
			key := fmt.Sprintf("%s: value %s", fnKey(fn), valueLabel(v))
			if _, dup := c.seen[rule+"|"+key]; dup {
				key = fmt.Sprintf("%s#%d", key, countKey(c, rule, key)+1)
			}
			c.check(len(clash) == 0, rule, key, pos, "stored into one field per path", "one decoded value is stored into two different fields of the same structure on one path ("+strings.Join(uniq(clash), "; ")+"): the backend receives an argument the client did not send")
		}
	}
	if n == 0 {
		c.unresolvedRoot("decoded values stored into option structures")
	}
}

// ruleOneSlotBuffers: C03.j. A pointer field that buffers one response datum
// until a later response completes it (ListCommand.pendingData: a LIST entry
// waiting for its STATUS) may only be overwritten when it is empty or after
// its content has been delivered; otherwise a datum the server sent is
// silently dropped. Buffers are recognised structurally: nil-able pointer
// fields (reset to nil and nil-tested in the package) whose content is sent
// on a channel somewhere. Every store of a new datum needs, on every path,
// a nil test of the field or a delivery of its content since the last store.
func ruleOneSlotBuffers(c *Ctx, rule string) {
	p := c.P
	funcs := p.SrcFuncs("imapclient")
	fieldOfLoad := func(v ssa.Value) (*types.Var, ssa.Value) {
		u, ok := v.(*ssa.UnOp)
		if !ok {
			return nil, nil
		}
		fa, ok := u.X.(*ssa.FieldAddr)
		if !ok {
			return nil, nil
		}
		r, ok := fieldOf(fa)
		if !ok {
			return nil, nil
		}
		return r.Field, fa.X
	}
	sent, nilStored, nilTested := map[*types.Var]bool{}, map[*types.Var]bool{}, map[*types.Var]bool{}
	for _, fn := range funcs {
		allInstrs(fn, func(i ssa.Instruction) {
			switch x := i.(type) {
			case *ssa.Send:
				if f, _ := fieldOfLoad(x.X); f != nil {
					sent[f] = true
				}
			case *ssa.Store:
				if r, ok := fieldOf(x.Addr); ok && isNilConst(x.Val) && r.Field != nil {
					nilStored[r.Field] = true
				}
			case *ssa.BinOp:
				for _, pair := range [][2]ssa.Value{{x.X, x.Y}, {x.Y, x.X}} {
					if isNilConst(pair[1]) {
						if f, _ := fieldOfLoad(pair[0]); f != nil {
							nilTested[f] = true
						}
					}
				}
			}
		})
	}
	buffers := map[*types.Var]bool{}
	for f := range sent {
		if nilStored[f] && nilTested[f] {
			if _, ok := f.Type().Underlying().(*types.Pointer); ok {
				buffers[f] = true
			}
		}
	}
	if len(buffers) == 0 {
		c.unresolvedRoot("one-slot response buffers in imapclient")
		return
	}
	n := 0
	for _, fn := range funcs {
		has := false
		allInstrs(fn, func(i ssa.Instruction) {
			if st, ok := i.(*ssa.Store); ok {
				if r, ok := fieldOf(st.Addr); ok && buffers[r.Field] && !isNilConst(st.Val) && !isFreshLocal(r.Base) {
					has = true
				}
			}
		})
		if !has {
			continue
		}
		fact := func(f *types.Var, base ssa.Value) string { return "clear:" + f.Name() } // keyed by field: a flush helper works on its own receiver name
		flow := mustFlowDeep(fn, facts{}, func(fs facts, i ssa.Instruction) facts {
			switch x := i.(type) {
			case *ssa.Send:
				if f, base := fieldOfLoad(x.X); f != nil && buffers[f] {
					return fs.with(fact(f, base))
				}
			case *ssa.Store:
				if r, ok := fieldOf(x.Addr); ok && buffers[r.Field] {
					if isNilConst(x.Val) {
						return fs.with(fact(r.Field, r.Base))
					}
					return fs.without(func(s string) bool { return s == fact(r.Field, r.Base) })
				}
			}
			return fs
		}, func(fs facts, b *ssa.BasicBlock, s int) facts {
			for _, a := range edgeAtoms(b, s) {
				if a.Nil == 1 {
					if f, base := fieldOfLoad(a.V); f != nil && buffers[f] {
						fs = fs.with(fact(f, base))
					}
				}
			}
			return fs
		})
		k := 0
		allInstrs(fn, func(i ssa.Instruction) {
			st, ok := i.(*ssa.Store)
			if !ok {
				return
			}
			r, ok := fieldOf(st.Addr)
			if !ok || !buffers[r.Field] || isNilConst(st.Val) || isFreshLocal(r.Base) {
				return
			}
			k++
			n++
			fs, reach := flow.at(st)
			key := fmt.Sprintf("%s: overwrite of %s#%d", fnKey(fn), r.String(), k)
			if !reach {
				c.okTrivial(rule, key, st.Pos(), "unreachable")
				return
			}
			c.check(fs.has(fact(r.Field, r.Base)), rule, key, st.Pos(), "the slot is known empty or its content was delivered on every path to the overwrite",
				"the one-slot buffer "+r.String()+" is overwritten while it may still hold an undelivered response datum: that datum (e.g. a LIST entry whose STATUS never came) is silently dropped")
		})
	}
	if n == 0 {
		c.unresolvedRoot("overwrites of one-slot response buffers")
	}
}

// ruleNumberViews: sequence numbers exist in two views that share the type
// uint32: the mailbox's (index+1 in Mailbox.l, what MailboxTracker's Queue*
// API and DecodeSeqNum speak) and the client's (what the client was told so
// far; the result of SessionTracker.EncodeSeqNum). Mixing them is invisible
// to the type checker and wrong exactly when a session's view is stale.
// (1) the sequence-number argument of MailboxTracker.QueueMessageFlags /
// QueueExpunge never derives from EncodeSeqNum; (2) a probe of a
// client-supplied imap.SeqSet (SeqSet.Contains in the backend) always derives
// from EncodeSeqNum, through parameters if need be.
func ruleNumberViews(c *Ctx, rule string) {
	p := c.P
	var fromEncode func(v ssa.Value, depth int, seen map[ssa.Value]bool) (all, some bool)
	fromEncode = func(v ssa.Value, depth int, seen map[ssa.Value]bool) (bool, bool) {
		if seen[v] || depth > 4 {
			return true, false
		}
		seen[v] = true
		switch x := v.(type) {
		case *ssa.Convert:
			return fromEncode(x.X, depth, seen)
		case *ssa.ChangeType:
			return fromEncode(x.X, depth, seen)
		case *ssa.Call:
			if callKey(x) == "(*SessionTracker).EncodeSeqNum" {
				return true, true
			}
			return false, false
		case *ssa.Phi:
			all, some := true, false
			for _, e := range x.Edges {
				a, s := fromEncode(e, depth, seen)
				all = all && a
				some = some || s
			}
			return all, some
		case *ssa.UnOp:
			if al, ok := x.X.(*ssa.Alloc); ok {
				all, some, n := true, false, 0
				for _, ref := range *al.Referrers() {
					if st, ok := ref.(*ssa.Store); ok && st.Addr == ssa.Value(al) {
						n++
						a, s := fromEncode(st.Val, depth, seen)
						all = all && a
						some = some || s
					}
				}
				return all && n > 0, some
			}
		case *ssa.Parameter:
			fn := x.Parent()
			idx := -1
			for k, q := range fn.Params {
				if q == x {
					idx = k
				}
			}
			sites := callSitesOf(p, fn)
			if idx < 0 || len(sites) == 0 {
				return false, false
			}
			all, some := true, false
			for _, s := range sites {
				args := s.Common().Args
				if idx >= len(args) {
					return false, false
				}
				a, sm := fromEncode(args[idx], depth+1, seen)
				all = all && a
				some = some || sm
			}
			return all, some
		}
		return false, false
	}
	n := 0
	for _, fn := range p.SrcFuncs("imapserver/imapmemserver") {
		k := 0
		allInstrs(fn, func(i ssa.Instruction) {
			call, ok := i.(*ssa.Call)
			if !ok {
				return
			}
			switch callKey(call) {
			case "(*MailboxTracker).QueueMessageFlags", "(*MailboxTracker).QueueExpunge":
				k++
				n++
				_, some := fromEncode(call.Call.Args[1], 0, map[ssa.Value]bool{})
				c.check(!some, rule, fmt.Sprintf("%s: %s#%d takes a mailbox-view number", fnKey(fn), strings.TrimPrefix(callKey(call), "(*MailboxTracker)."), k), call.Pos(),
					"the sequence number does not come from EncodeSeqNum", "the tracker is given a client-view sequence number (a result of EncodeSeqNum); with a pending EXPUNGE before the message the update names another message, or one beyond the count announced to the other sessions")
			case "SeqSet.Contains", "(*SeqSet).Contains":
				k++
				n++
				all, some := fromEncode(call.Call.Args[1], 0, map[ssa.Value]bool{})
				c.check(all && some, rule, fmt.Sprintf("%s: SeqSet.Contains#%d probes with a client-view number", fnKey(fn), k), call.Pos(),
					"the probe is a result of EncodeSeqNum on every path (through every caller)", "a client-supplied sequence set is probed with a mailbox-view number (not translated by EncodeSeqNum): with a stale view the command acts on a different message than the client named")
			}
		})
	}
	if n < 3 {
		c.unresolvedRoot("tracker Queue* calls / SeqSet.Contains probes in the backend")
	}
}

// ruleCopyUIDProvenance: C09.g. COPYUID names "the actual new messages": the
// set stored in CopyData.SourceUIDs is fed only from the uid field of the
// source messages (message / messageCopy), the set stored in
// CopyData.DestUIDs only from the UID the destination's append reported
// (imap.AppendData.UID). Checked for every construction of imap.CopyData in
// the backend (COPY and MOVE are siblings).
func ruleCopyUIDProvenance(c *Ctx, rule string) {
	p := c.P
	n := 0
	kind := func(v ssa.Value) string {
		for k := 0; k < 6; k++ {
			switch x := v.(type) {
			case *ssa.Convert:
				v = x.X
				continue
			case *ssa.ChangeType:
				v = x.X
				continue
			}
			break
		}
		var r fieldRef
		var ok bool
		if r, ok = loadedField(v); !ok {
			if f, isF := v.(*ssa.Field); isF {
				r, ok = fieldOf(f)
			}
		}
		if !ok || r.Owner == nil {
			return "other"
		}
		switch {
		case r.Owner.Obj().Name() == "AppendData" && r.Field.Name() == "UID":
			return "dest"
		case r.Field.Name() == "uid" && strings.HasSuffix(r.Owner.Obj().Pkg().Path(), "/imapmemserver"):
			return "source"
		}
		return "other"
	}
	for _, fn := range p.SrcFuncs("imapserver/imapmemserver") {
		allInstrs(fn, func(i ssa.Instruction) {
			st, ok := i.(*ssa.Store)
			if !ok {
				return
			}
			r, ok := fieldOf(st.Addr)
			if !ok || r.Owner == nil || r.Owner.Obj().Name() != "CopyData" || (r.Field.Name() != "SourceUIDs" && r.Field.Name() != "DestUIDs") {
				return
			}
			want := "source"
			if r.Field.Name() == "DestUIDs" {
				want = "dest"
			}
			ld, ok := st.Val.(*ssa.UnOp)
			if !ok {
				c.undecided(rule, fnKey(fn)+": CopyData."+r.Field.Name(), st.Pos(), "the set is not a local variable")
				return
			}
			cell, ok := ld.X.(*ssa.Alloc)
			if !ok {
				c.undecided(rule, fnKey(fn)+": CopyData."+r.Field.Name(), st.Pos(), "the set is not a local variable")
				return
			}
			n++
			var bad []string
			feeds := 0
			for _, ref := range *cell.Referrers() {
				call, ok := ref.(*ssa.Call)
				if !ok || len(call.Call.Args) < 2 || call.Call.Args[0] != ssa.Value(cell) {
					continue
				}
				if k := callKey(call); k != "(*UIDSet).AddNum" && k != "(*UIDSet).AddRange" {
					continue
				}
				for _, a := range call.Call.Args[1:] {
					var elems []ssa.Value
					if sl, ok := a.(*ssa.Slice); ok {
						if arr, ok := sl.X.(*ssa.Alloc); ok {
							for _, r2 := range *arr.Referrers() {
								if ia, ok := r2.(*ssa.IndexAddr); ok {
									for _, r3 := range *ia.Referrers() {
										if s3, ok := r3.(*ssa.Store); ok && s3.Addr == ssa.Value(ia) {
											elems = append(elems, s3.Val)
										}
									}
								}
							}
						}
					} else {
						elems = append(elems, a)
					}
					for _, e := range elems {
						feeds++
						if k := kind(e); k != want {
							bad = append(bad, k)
						}
					}
				}
			}
			key := fmt.Sprintf("%s: CopyData.%s", fnKey(fn), r.Field.Name())
			if feeds == 0 {
				c.undecided(rule, key, st.Pos(), "no AddNum/AddRange feeding the set was found")
				return
			}
			c.check(len(bad) == 0, rule, key, st.Pos(), fmt.Sprintf("fed only with %s UIDs (%d insertions)", want, feeds),
				fmt.Sprintf("CopyData.%s is fed with %s values: COPYUID reports UIDs that are not the %s messages'", r.Field.Name(), strings.Join(uniq(bad), ","), want))
		})
	}
	// second form: the sets are filled in place, through the fields of the
	// CopyData being built (data.SourceUIDs.AddNum(uid))
	for _, fn := range p.SrcFuncs("imapserver/imapmemserver") {
		allInstrs(fn, func(i ssa.Instruction) {
			call, ok := i.(*ssa.Call)
			if !ok || len(call.Call.Args) < 2 {
				return
			}
			if k := callKey(call); k != "(*UIDSet).AddNum" && k != "(*UIDSet).AddRange" {
				return
			}
			r, ok := fieldOf(call.Call.Args[0])
			if !ok || r.Owner == nil || r.Owner.Obj().Name() != "CopyData" || (r.Field.Name() != "SourceUIDs" && r.Field.Name() != "DestUIDs") {
				return
			}
			want := "source"
			if r.Field.Name() == "DestUIDs" {
				want = "dest"
			}
			n++
			var bad []string
			feeds := 0
			for _, a := range call.Call.Args[1:] {
				var elems []ssa.Value
				if sl, ok := a.(*ssa.Slice); ok {
					if arr, ok := sl.X.(*ssa.Alloc); ok {
						for _, r2 := range *arr.Referrers() {
							if ia, ok := r2.(*ssa.IndexAddr); ok {
								for _, r3 := range *ia.Referrers() {
									if s3, ok := r3.(*ssa.Store); ok && s3.Addr == ssa.Value(ia) {
										elems = append(elems, s3.Val)
									}
								}
							}
						}
					}
				} else {
					elems = append(elems, a)
				}
				for _, e := range elems {
					feeds++
					if k := kind(e); k != want {
						bad = append(bad, k)
					}
				}
			}
			key := fmt.Sprintf("%s: CopyData.%s filled in place", fnKey(fn), r.Field.Name())
			c.check(len(bad) == 0 && feeds > 0, rule, key, call.Pos(), fmt.Sprintf("fed only with %s UIDs (%d insertions)", want, feeds),
				fmt.Sprintf("CopyData.%s is fed with %s values: COPYUID reports UIDs that are not the %s messages'", r.Field.Name(), strings.Join(uniq(bad), ","), want))
		})
	}
	if n == 0 {
		c.unresolvedRoot("constructions of imap.CopyData in the backend")
	}
}

// ruleCountBeforeSend: C10.j. A producer that fills a buffered channel which
// nobody reads until a hand-over happens guards the hand-over with
// `counter > cap(ch)`. That only prevents the producer from blocking if the
// counter is incremented *before* the send of the same round: otherwise the
// (cap+1)-th send happens with counter == cap, the hand-over is skipped and
// the producer (the client's reader goroutine) blocks for ever. For every
// such comparison: a store to the counter dominates every send on that
// channel in the same function.
func ruleCountBeforeSend(c *Ctx, rule string) {
	p := c.P
	n := 0
	cellOf := func(v ssa.Value) ssa.Value {
		if u, ok := v.(*ssa.UnOp); ok {
			switch u.X.(type) {
			case *ssa.Alloc, *ssa.FreeVar:
				return u.X
			}
		}
		return nil
	}
	for _, fn := range p.SrcFuncs("imapclient") {
		allInstrs(fn, func(i ssa.Instruction) {
			bo, ok := i.(*ssa.BinOp)
			if !ok {
				return
			}
			switch bo.Op {
			case token.GTR, token.GEQ, token.LSS, token.LEQ:
			default:
				return
			}
			var capCall *ssa.Call
			var other ssa.Value
			for _, pr := range [][2]ssa.Value{{bo.X, bo.Y}, {bo.Y, bo.X}} {
				if call, ok := pr[0].(*ssa.Call); ok {
					if b, ok := call.Call.Value.(*ssa.Builtin); ok && b.Name() == "cap" {
						if _, isChan := call.Call.Args[0].Type().Underlying().(*types.Chan); isChan {
							capCall, other = call, pr[1]
						}
					}
				}
			}
			if capCall == nil {
				return
			}
			chCell := cellOf(capCall.Call.Args[0])
			counter := cellOf(other)
			if chCell == nil || counter == nil {
				return
			}
			k := 0
			allInstrs(fn, func(j ssa.Instruction) {
				snd, ok := j.(*ssa.Send)
				if !ok || cellOf(snd.Chan) != chCell {
					return
				}
				k++
				n++
				inc := false
				allInstrs(fn, func(m ssa.Instruction) {
					st, ok := m.(*ssa.Store)
					if !ok || st.Addr != counter {
						return
					}
					beforeSend := st.Block().Dominates(snd.Block()) && (st.Block() != snd.Block() || precedes(st, snd))
					beforeTest := st.Block().Dominates(bo.Block()) && (st.Block() != bo.Block() || precedes(st, bo))
					if beforeSend && beforeTest {
						inc = true
					}
				})
				c.check(inc, rule, fmt.Sprintf("%s: send#%d on the channel bounded by cap()", fnKey(fn), k), snd.Pos(), "the counter compared with cap(ch) is incremented before the test and the send of the same round",
					"the hand-over test or the send happens before the counter that is compared with cap(ch) is incremented: when the buffer is full the hand-over test still sees the old count, no reader is started, and the send blocks the reader goroutine for ever")
			})
		})
	}
	if n == 0 {
		c.unresolvedRoot("sends on a channel whose capacity bounds a hand-over counter")
	}
}

// ruleNoWireSizedAlloc: C11.j. Memory is allocated in proportion to the data
// actually received, never to a number the peer merely announced: the size
// argument of make([]T, n) / make(map, n) / Builder.Grow / Buffer.Grow must
// not derive from a literal's announced size (LiteralReader.Size, its size
// field), a decoder number out-parameter or a strconv.Parse* result, unless a
// comparison of that value with a constant dominates the allocation. The
// client installs no literal-size hook, so an announced {9223372036854775807}
// would otherwise panic (makeslice) or allocate gigabytes for a few bytes of
// input.
func ruleNoWireSizedAlloc(c *Ctx, rule string) {
	p := c.P
	var tainted func(v ssa.Value, seen map[ssa.Value]bool) (bool, ssa.Value)
	tainted = func(v ssa.Value, seen map[ssa.Value]bool) (bool, ssa.Value) {
		if v == nil || seen[v] {
			return false, nil
		}
		seen[v] = true
		switch x := v.(type) {
		case *ssa.Convert:
			return tainted(x.X, seen)
		case *ssa.ChangeType:
			return tainted(x.X, seen)
		case *ssa.BinOp:
			if t, s := tainted(x.X, seen); t {
				return t, s
			}
			return tainted(x.Y, seen)
		case *ssa.Phi:
			for _, e := range x.Edges {
				if t, s := tainted(e, seen); t {
					return t, s
				}
			}
		case *ssa.Extract:
			if call, ok := x.Tuple.(*ssa.Call); ok {
				if o := calleeObj(call); o != nil && o.Pkg() != nil && o.Pkg().Path() == "strconv" && strings.HasPrefix(o.Name(), "Parse") {
					return true, x
				}
			}
		case *ssa.Call:
			if k := callKey(x); k == "(*LiteralReader).Size" || k == "LiteralReader.Size" {
				return true, x
			}
		case *ssa.UnOp:
			if r, ok := loadedField(x); ok && r.is("LiteralReader", "size") {
				return true, x
			}
			if cell, ok := x.X.(*ssa.Alloc); ok {
				for _, ref := range *cell.Referrers() {
					if dc, ok := ref.(ssa.CallInstruction); ok && isDecoderMethodCall(dc) {
						switch calleeObj(dc).Name() {
						case "Number", "Number64", "ExpectNumber", "ExpectNumber64", "ModSeq", "ExpectModSeq", "ExpectUID":
							return true, x
						}
					}
					if st, ok := ref.(*ssa.Store); ok && st.Addr == ssa.Value(cell) {
						if t, s := tainted(st.Val, seen); t {
							return t, s
						}
					}
				}
			}
		}
		return false, nil
	}
	n := 0
	for _, fn := range p.SrcFuncs("internal/imapwire", "imapclient", "internal/imapnum", "") {
		var bounded *mustResult
		k := 0
		allInstrs(fn, func(i ssa.Instruction) {
			var sizes []ssa.Value
			what := ""
			switch x := i.(type) {
			case *ssa.MakeSlice:
				sizes, what = []ssa.Value{x.Len, x.Cap}, "make([]T, n)"
			case *ssa.MakeMap:
				if x.Reserve != nil {
					sizes, what = []ssa.Value{x.Reserve}, "make(map, n)"
				}
			case *ssa.MakeChan:
				sizes, what = []ssa.Value{x.Size}, "make(chan, n)"
			case *ssa.Call:
				if o := calleeObj(x); o != nil && o.Name() == "Grow" && o.Pkg() != nil && (o.Pkg().Path() == "strings" || o.Pkg().Path() == "bytes") && len(x.Call.Args) == 2 {
					sizes, what = []ssa.Value{x.Call.Args[1]}, o.Pkg().Name()+" Grow(n)"
				}
			}
			if what == "" {
				return
			}
			allConst := true
			for _, s := range sizes {
				if _, ok := s.(*ssa.Const); !ok {
					allConst = false
				}
			}
			if allConst {
				return
			}
			k++
			n++
			key := fmt.Sprintf("%s: %s#%d", fnKey(fn), what, k)
			for _, s := range sizes {
				t, src := tainted(s, map[ssa.Value]bool{})
				if !t {
					continue
				}
				// bounded by a dominating comparison of the source with a constant?
				if bounded == nil {
					bounded = mustFlow(fn, facts{}, nil, func(f facts, b *ssa.BasicBlock, si int) facts {
						var add []string
						for _, a := range edgeAtoms(b, si) {
							if a.Const != nil && (a.Op == token.LSS || a.Op == token.LEQ) && a.V.Name() != "" {
								add = append(add, "bounded:"+a.V.Name())
							}
						}
						return f.with(add...)
					})
				}
				fs, _ := bounded.at(i)
				if fs.has("bounded:" + src.Name()) {
					continue
				}
				c.fail(rule, key, i.Pos(), fmt.Sprintf("the allocation size derives from a number announced by the peer (%s) with no dominating upper bound: a few bytes of input make the client allocate that much memory or panic in makeslice", src.String()))
				return
			}
			c.ok(rule, key, i.Pos(), "the size does not derive from an announced number (or is bounded first)")
		})
	}
	if n == 0 {
		c.unresolvedRoot("dynamically sized allocations in the wire/client packages")
	}
}

// ruleOrderedQueues: C12.j. Untagged data is routed to the *first* pending
// command of the right type, and continuation requests are answered first-in
// first-out: both rely on Client.pendingCmds / Client.contReqs staying in
// issue order. They may grow by append, shrink by order-preserving removal
// (append(s[:i], s[i+1:]...)) or filtering into a new slice, and be cleared;
// an element is never overwritten in place (swap-with-last removal reorders
// the commands that remain).
func ruleOrderedQueues(c *Ctx, rule string) {
	p := c.P
	n := 0
	for _, q := range []string{"pendingCmds", "contReqs"} {
		var bad []string
		var pos token.Pos
		stores := 0
		for _, fn := range p.SrcFuncs("imapclient") {
			allInstrs(fn, func(i ssa.Instruction) {
				st, ok := i.(*ssa.Store)
				if !ok {
					return
				}
				if r, ok := fieldOf(st.Addr); ok && r.is("Client", q) {
					stores++
				}
				a := st.Addr
				for {
					if fa, ok := a.(*ssa.FieldAddr); ok {
						a = fa.X
						continue
					}
					break
				}
				ia, ok := a.(*ssa.IndexAddr)
				if !ok {
					return
				}
				base := ia.X
				if sl, ok := base.(*ssa.Slice); ok {
					base = sl.X
				}
				if r, ok := loadedField(base); ok && r.is("Client", q) {
					bad = append(bad, fnKey(fn))
					pos = st.Pos()
				}
			})
		}
		if stores == 0 {
			c.unresolvedRoot("stores to Client." + q)
			continue
		}
		n++
		c.check(len(bad) == 0, rule, "Client."+q+" keeps issue order", pos, fmt.Sprintf("%d whole-slice stores, no element overwritten in place", stores),
			"an element of Client."+q+" is overwritten in place in "+strings.Join(uniq(bad), ", ")+" (e.g. swap-with-last removal): the remaining entries are no longer in issue order and untagged data / continuation requests go to the wrong command")
	}
	if n == 0 {
		c.unresolvedRoot("ordered queues of the client")
	}
}

// ruleTakeListAtomically: C13.g. closeWithError takes the whole pending list
// and completes each command once. "Take" must be atomic: the snapshot read
// of Client.pendingCmds and the store that empties it belong to one critical
// section. If the list is emptied in a later section, a second teardown (a
// failed write of a concurrent command) snapshots the same commands and
// completes them twice (send on closed channel / double done).
func ruleTakeListAtomically(c *Ctx, rule string) {
	p := c.P
	n := 0
	for _, fn := range p.SrcFuncs("imapclient") {
		var clears []*ssa.Store
		var snaps []*ssa.UnOp
		completes := false
		allInstrs(fn, func(i ssa.Instruction) {
			switch x := i.(type) {
			case *ssa.Store:
				if r, ok := fieldOf(x.Addr); ok && r.is("Client", "pendingCmds") && isNilConst(x.Val) {
					clears = append(clears, x)
				}
			case *ssa.UnOp:
				if r, ok := loadedField(x); ok && r.is("Client", "pendingCmds") {
					snaps = append(snaps, x)
				}
			case ssa.CallInstruction:
				if callKey(x) == "(*Client).completeCommand" {
					completes = true
				}
			}
		})
		_ = completes
		if len(clears) == 0 || len(snaps) == 0 {
			continue
		}
		n++
		ok := false
		why := "the list is emptied but never read in this function"
		for _, cl := range clears {
			for _, sn := range snaps {
				before := sn.Block().Dominates(cl.Block()) && (sn.Block() != cl.Block() || precedes(sn, cl))
				if !before {
					continue
				}
				// no Unlock between the snapshot and the clearing store
				blocked := false
				seen := map[*ssa.BasicBlock]bool{}
				var walk func(b *ssa.BasicBlock, from int) bool // true: reached cl without unlock on this path (and no unlock seen)
				walk = func(b *ssa.BasicBlock, from int) bool {
					for _, i := range b.Instrs[from:] {
						if i == ssa.Instruction(cl) {
							return true
						}
						if call, okc := i.(ssa.CallInstruction); okc {
							if _, isDefer := i.(*ssa.Defer); !isDefer {
								if op, _ := isMutexOp(call); op == "unlock" {
									blocked = true
									return false
								}
							}
						}
					}
					for _, s := range b.Succs {
						if !seen[s] {
							seen[s] = true
							if walk(s, 0) {
								return true
							}
						}
					}
					return false
				}
				idx := 0
				for k, i := range sn.Block().Instrs {
					if i == ssa.Instruction(sn) {
						idx = k + 1
					}
				}
				reached := walk(sn.Block(), idx)
				if reached && !blocked {
					ok = true
				} else {
					why = "the mutex is released between the snapshot of the pending list and the store that empties it"
				}
			}
		}
		h, _ := newLockAnalysisLite(p, fn, clears[0])
		_ = h
		c.check(ok, rule, fnKey(fn)+": pending list taken atomically", clears[0].Pos(), "snapshot and clearing in one critical section",
			why+": a concurrent second teardown completes the same commands again (double completion: send on a closed channel)")
	}
	if n == 0 {
		c.unresolvedRoot("functions that empty Client.pendingCmds and complete its commands")
	}
}

func newLockAnalysisLite(p *Program, fn *ssa.Function, at ssa.Instruction) (heldSet, bool) {
	return nil, false
}

// ruleBalancedLocks: a mutex taken in a function is released on every path
// out of it — directly or by a deferred unlock — unless the function is a
// lock-transfer wrapper, i.e. *every* return leaves it held (newResponseEncoder,
// beginCommand). A lock that is held on some returns and released on others is
// a leaked lock on an error path: the next acquirer blocks for ever.
// Intraprocedural may/must sets over direct Lock/Unlock calls keyed by the
// mutex's access path.
func ruleBalancedLocks(c *Ctx, rule string, pkgs ...string) {
	p := c.P
	type sets struct{ may, must, deferred map[string]bool }
	clone := func(m map[string]bool) map[string]bool {
		n := map[string]bool{}
		for k := range m {
			n[k] = true
		}
		return n
	}
	keyOf := func(recv ssa.Value) string {
		k := pathOf(recv)
		if k == "" {
			k = "~" + lockClassOf(recv)
		}
		return k
	}
	L := lattice[sets]{
		join: func(a, b sets) sets {
			r := sets{may: clone(a.may), must: map[string]bool{}, deferred: map[string]bool{}}
			for k := range b.may {
				r.may[k] = true
			}
			for k := range a.must {
				if b.must[k] {
					r.must[k] = true
				}
			}
			for k := range a.deferred {
				if b.deferred[k] {
					r.deferred[k] = true
				}
			}
			return r
		},
		equal: func(a, b sets) bool {
			eq := func(x, y map[string]bool) bool {
				if len(x) != len(y) {
					return false
				}
				for k := range x {
					if !y[k] {
						return false
					}
				}
				return true
			}
			return eq(a.may, b.may) && eq(a.must, b.must) && eq(a.deferred, b.deferred)
		},
	}
	n := 0
	for _, fn := range p.SrcFuncs(pkgs...) {
		locks := false
		allInstrs(fn, func(i ssa.Instruction) {
			if call, ok := i.(*ssa.Call); ok {
				if op, _ := isMutexOp(call); op == "lock" {
					locks = true
				}
			}
		})
		if !locks {
			continue
		}
		transfer := func(s sets, i ssa.Instruction) sets {
			switch x := i.(type) {
			case *ssa.Defer:
				if op, recv := isMutexOp(x); op == "unlock" {
					s = sets{may: s.may, must: s.must, deferred: clone(s.deferred)}
					s.deferred[keyOf(recv)] = true
					return s
				}
				if mc, ok := x.Call.Value.(*ssa.MakeClosure); ok {
					cl := mc.Fn.(*ssa.Function)
					nd := clone(s.deferred)
					allInstrs(cl, func(j ssa.Instruction) {
						if c2, ok := j.(*ssa.Call); ok {
							if op, recv := isMutexOp(c2); op == "unlock" {
								// path inside the closure goes through a free variable: map &name → name
								nd[strings.TrimPrefix(keyOf(recv), "&")] = true
								nd[keyOf(recv)] = true
							}
						}
					})
					return sets{may: s.may, must: s.must, deferred: nd}
				}
			case *ssa.Call:
				op, recv := isMutexOp(x)
				if op == "" {
					return s
				}
				k := keyOf(recv)
				s = sets{may: clone(s.may), must: clone(s.must), deferred: s.deferred}
				if op == "lock" {
					s.may[k], s.must[k] = true, true
				} else {
					delete(s.may, k)
					delete(s.must, k)
				}
			}
			return s
		}
		in := forward(fn, L, sets{may: map[string]bool{}, must: map[string]bool{}, deferred: map[string]bool{}}, transfer,
			func(s sets, b *ssa.BasicBlock, i int) (sets, bool) { return s, true })
		type exit struct {
			ret *ssa.Return
			s   sets
		}
		var exits []exit
		for _, r := range returnsOf(fn) {
			ps := in[r.Block()]
			if ps == nil {
				continue
			}
			cur := *ps
			for _, i := range r.Block().Instrs {
				if i == ssa.Instruction(r) {
					break
				}
				cur = transfer(cur, i)
			}
			exits = append(exits, exit{r, cur})
		}
		if len(exits) == 0 {
			continue
		}
		n++
		var leaks []string
		var pos = fn.Pos()
		for _, e := range exits {
			for k := range e.s.may {
				if e.s.deferred[k] {
					continue
				}
				// a transfer wrapper holds it at every exit
				everywhere := true
				for _, o := range exits {
					if !o.s.must[k] || o.s.deferred[k] {
						everywhere = false
					}
				}
				if everywhere {
					continue
				}
				leaks = append(leaks, k)
				pos = e.ret.Pos()
			}
		}
		c.check(len(leaks) == 0, rule, fnKey(fn)+": locks balanced on every exit", pos, fmt.Sprintf("%d exits: every mutex taken here is released, deferred, or held at all exits (transfer)", len(exits)),
			"the mutex "+strings.Join(uniq(leaks), ", ")+" is still held on some return path but released on others: a leaked lock (typically on an error path); the next acquirer blocks for ever")
	}
	if n == 0 {
		c.unresolvedRoot("functions taking a mutex")
	}
}

// ruleGreetingAfterStateInit: C17.e. The capabilities of the greeting
// (STARTTLS, AUTH=, LOGINDISABLED) are computed by availableCaps from the
// connection state; they are only right once the state has left None. In
// serve, every call that can reach availableCaps is dominated by a store to
// Conn.state.
func ruleGreetingAfterStateInit(c *Ctx, rule string) {
	p := c.P
	serve := p.Func("imapserver", "Conn", "serve")
	caps := p.Func("imapserver", "Conn", "availableCaps")
	if serve == nil || caps == nil {
		c.unresolvedRoot("(*Conn).serve / (*Conn).availableCaps")
		return
	}
	var stores []*ssa.Store
	allInstrs(serve, func(i ssa.Instruction) {
		if st, ok := i.(*ssa.Store); ok {
			if r, ok := fieldOf(st.Addr); ok && r.is("Conn", "state") {
				stores = append(stores, st)
			}
		}
	})
	n := 0
	allInstrs(serve, func(i ssa.Instruction) {
		call, ok := i.(*ssa.Call)
		if !ok {
			return
		}
		cal := staticCallee(call)
		if cal == nil || !inModule(cal) || !staticReach([]*ssa.Function{cal}, 3)[caps] {
			return
		}
		// calls inside the command loop run long after initialisation: only the ones before the loop matter,
		// i.e. those not dominated by any state store are the suspicious ones
		dominated := false
		for _, st := range stores {
			if st.Block().Dominates(call.Block()) && (st.Block() != call.Block() || precedes(st, call)) {
				dominated = true
			}
		}
		// a store on each branch of an if (PREAUTH / not) also initialises: accept if every path from entry passes a store
		if !dominated {
			flow := mustFlow(serve, facts{}, func(f facts, j ssa.Instruction) facts {
				if st, ok := j.(*ssa.Store); ok {
					if r, ok := fieldOf(st.Addr); ok && r.is("Conn", "state") {
						return f.with("state-set")
					}
				}
				return f
			}, nil)
			if fs, ok := flow.at(call); ok && fs.has("state-set") {
				dominated = true
			}
		}
		n++
		c.check(dominated, rule, fmt.Sprintf("serve: %s computes capabilities after the state is initialised", fnKey(cal)), call.Pos(), "a store to Conn.state precedes it on every path",
			"the greeting's capabilities are computed while the connection state is still None: STARTTLS, AUTH= and LOGINDISABLED are left out, so a cleartext greeting offers plaintext LOGIN and hides STARTTLS")
	})
	if n == 0 {
		c.unresolvedRoot("calls in serve that compute the capability list")
	}
}

// ruleEnabledResetOnUnauth: C18.h. The encoder's UTF-8 mode follows
// Client.enabled. RFC 8437: UNAUTHENTICATE returns the connection to the
// not-authenticated state *and* disables everything ENABLE turned on. Every
// successful completion of an unauthenticateCommand therefore also stores a
// fresh capability set into Client.enabled; otherwise the client keeps
// emitting UTF-8 quoted strings the server no longer accepts.
func ruleEnabledResetOnUnauth(c *Ctx, rule string) {
	p := c.P
	complete := p.Func("imapclient", "Client", "completeCommand")
	if complete == nil {
		c.unresolvedRoot("(*Client).completeCommand")
		return
	}
	inCase := func(b *ssa.BasicBlock) bool {
		for _, t := range caseTypesReaching(b) {
			if t == "unauthenticateCommand" {
				return true
			}
		}
		return false
	}
	// the case exists?
	caseSeen := false
	reset := false
	var pos = complete.Pos()
	scan := func(fn *ssa.Function, all bool) {
		allInstrs(fn, func(i ssa.Instruction) {
			if !all && !inCase(i.Block()) {
				return
			}
			caseSeen = true
			switch x := i.(type) {
			case *ssa.Store:
				if r, ok := fieldOf(x.Addr); ok && r.is("Client", "enabled") {
					if _, isMake := x.Val.(*ssa.MakeMap); isMake {
						reset = true
					}
					if call, ok := x.Val.(*ssa.Call); ok {
						_ = call
					}
				}
				if r, ok := fieldOf(x.Addr); ok && r.is("Client", "state") {
					pos = x.Pos()
				}
			}
		})
	}
	scan(complete, false)
	// the type switch itself may sit in a helper of completeCommand
	for _, h := range helperClosure(complete, 2) {
		if h != complete && h.Parent() == nil {
			scan(h, false)
			allInstrs(h, func(i ssa.Instruction) {
				if call, ok := i.(*ssa.Call); ok && inCase(i.Block()) {
					pos = call.Pos()
					if cal := staticCallee(call); cal != nil && inModule(cal) && cal.Blocks != nil {
						scan(cal, true)
					}
				}
			})
		}
	}
	// helpers called from the case body (one level)
	allInstrs(complete, func(i ssa.Instruction) {
		if call, ok := i.(*ssa.Call); ok && inCase(i.Block()) {
			pos = call.Pos()
			if cal := staticCallee(call); cal != nil && inModule(cal) && cal.Blocks != nil {
				scan(cal, true)
			}
		}
	})
	if !caseSeen {
		c.unresolvedRoot("unauthenticateCommand case of completeCommand")
		return
	}
	c.check(reset, rule, "completeCommand[unauthenticateCommand]: enabled extensions reset", pos, "a fresh capability set is stored into Client.enabled",
		"a successful UNAUTHENTICATE does not reset Client.enabled: the encoder keeps UTF8=ACCEPT/IMAP4rev2 mode and sends 8-bit quoted strings to a server that has left that mode")
}

// ruleNoInPlaceCriteriaEdit: C19.f. In the server's SEARCH parser every key
// adds a *new* conjunct to the criteria: list fields (UID, SeqNum, Header, …)
// grow by append of a new element. Modifying an element that an earlier key
// put there (criteria.UID[n-1] = append(criteria.UID[n-1], …)) turns the
// intersection of two keys into their union.
func ruleNoInPlaceCriteriaEdit(c *Ctx, rule string) {
	p := c.P
	n := 0
	var bad []string
	var pos token.Pos
	for _, fn := range p.SrcFuncs("imapserver") {
		allInstrs(fn, func(i ssa.Instruction) {
			st, ok := i.(*ssa.Store)
			if !ok {
				return
			}
			if r, ok := fieldOf(st.Addr); ok && r.Owner != nil && r.Owner.Obj().Name() == "SearchCriteria" {
				if _, isSlice := r.Field.Type().Underlying().(*types.Slice); isSlice {
					n++
				}
			}
			a := st.Addr
			for {
				if fa, ok := a.(*ssa.FieldAddr); ok {
					a = fa.X
					continue
				}
				break
			}
			ia, ok := a.(*ssa.IndexAddr)
			if !ok {
				return
			}
			base := ia.X
			if sl, ok := base.(*ssa.Slice); ok {
				base = sl.X
			}
			if r, ok := loadedField(base); ok && r.Owner != nil && r.Owner.Obj().Name() == "SearchCriteria" && !isFreshLocal(r.Base) {
				// the recursive parsers fill freshly made Not/Or elements through pointers (&criteria.Not[i]) by calls, not by element stores
				bad = append(bad, fnKey(fn)+": "+r.String())
				pos = st.Pos()
			}
		})
	}
	if n == 0 {
		c.unresolvedRoot("stores to list fields of SearchCriteria in imapserver")
		return
	}
	c.check(len(bad) == 0, rule, "search parser: conjunct lists only grow", pos, fmt.Sprintf("%d appends to list fields, no element modified in place", n),
		"an element of a criteria list is modified in place ("+strings.Join(uniq(bad), "; ")+"): two keys of the same kind are merged into one conjunct, i.e. united instead of intersected")
}

// ruleMatcherFreshVerdict: C19.e. The backend's matcher is a conjunction over
// the criteria's lists: each element gets its own verdict. In
// message.search, the header block of a loop that ranges over a list must not
// carry a boolean from one iteration to the next (a `found` declared outside
// the loop and never reset makes every later element "match" once one did).
func ruleMatcherFreshVerdict(c *Ctx, rule string) {
	p := c.P
	fn := p.Func("imapserver/imapmemserver", "message", "search")
	if fn == nil {
		c.unresolvedRoot("(*message).search")
		return
	}
	n := 0
	for _, b := range fn.Blocks {
		isRangeHeader := false
		for _, i := range b.Instrs {
			if ph, ok := i.(*ssa.Phi); ok && ph.Comment == "rangeindex" {
				isRangeHeader = true
			}
		}
		if !isRangeHeader {
			continue
		}
		// only loops over a list of the criteria (conjuncts); a loop over the
		// values of one header field is a disjunction and may carry its flag
		overCriteria := false
		for _, i := range b.Instrs {
			bo, ok := i.(*ssa.BinOp)
			if !ok || bo.Op != token.LSS {
				continue
			}
			if call, ok := bo.Y.(*ssa.Call); ok {
				if bi, ok := call.Call.Value.(*ssa.Builtin); ok && bi.Name() == "len" {
					if r, ok := loadedField(call.Call.Args[0]); ok && r.Owner != nil && r.Owner.Obj().Name() == "SearchCriteria" {
						overCriteria = true
					}
				}
			}
		}
		if !overCriteria {
			continue
		}
		n++
		var carried []string
		for _, i := range b.Instrs {
			ph, ok := i.(*ssa.Phi)
			if !ok {
				continue
			}
			bt, ok := ph.Type().Underlying().(*types.Basic)
			if !ok || bt.Kind() != types.Bool {
				continue
			}
			for k, e := range ph.Edges {
				pred := b.Preds[k]
				// an edge from inside the loop: the predecessor is dominated by the header
				if b.Dominates(pred) {
					if _, isConst := e.(*ssa.Const); !isConst {
						carried = append(carried, ph.Comment)
					}
				}
			}
		}
		key := fmt.Sprintf("search: loop#%d over a criteria list gives each element a fresh verdict", n)
		pos := fn.Pos()
		if len(b.Instrs) > 0 {
			pos = b.Instrs[len(b.Instrs)-1].Pos()
		}
		c.check(len(carried) == 0, rule, key, pos, "no boolean is carried around the loop",
			"the boolean "+strings.Join(uniq(carried), ",")+" is carried from one iteration to the next: once one criterion matched, the following ones are no longer checked (the matcher stops being a conjunction)")
	}
	if n == 0 {
		c.unresolvedRoot("range loops of (*message).search")
	}
}

// ruleQuotedScanner: the decoder's quoted-string scanner and the encoder's
// Quoted agree on escaping: the encoder writes '"' and '\\' inside a quoted
// string as a backslash followed by the byte, so in Decoder.Quoted a byte that
// was read *after a backslash* is data — it must never reach the test that
// recognises the closing quote. Every comparison of a scanned byte with '"'
// (and with '\\') has as its operand a single direct result of readByte, not a
// merge (phi) that also carries the escaped read.
func ruleQuotedScanner(c *Ctx, rule string) {
	p := c.P
	fn := p.Func("internal/imapwire", "Decoder", "Quoted")
	if fn == nil {
		c.unresolvedRoot("(*Decoder).Quoted")
		return
	}
	n := 0
	for _, g := range helperClosure(fn, 1) {
		allInstrs(g, func(i ssa.Instruction) {
			bo, ok := i.(*ssa.BinOp)
			if !ok || (bo.Op != token.EQL && bo.Op != token.NEQ) {
				return
			}
			k, ok := constInt(bo.Y)
			if !ok || (k != '"' && k != '\\') {
				return
			}
			// operand: how many distinct readByte results can it be?
			srcs := map[ssa.Value]bool{}
			seen := map[ssa.Value]bool{}
			var rec func(v ssa.Value)
			rec = func(v ssa.Value) {
				if seen[v] {
					return
				}
				seen[v] = true
				switch x := v.(type) {
				case *ssa.Phi:
					for _, e := range x.Edges {
						rec(e)
					}
				case *ssa.Extract:
					if call, ok := x.Tuple.(*ssa.Call); ok && callKey(call) == "(*Decoder).readByte" {
						srcs[call] = true
					}
				case *ssa.UnOp:
					if al, ok := x.X.(*ssa.Alloc); ok {
						for _, ref := range *al.Referrers() {
							if st, ok := ref.(*ssa.Store); ok && st.Addr == ssa.Value(al) {
								rec(st.Val)
							}
						}
					}
				}
			}
			rec(bo.X)
			if len(srcs) == 0 {
				return
			}
			n++
			what := "closing quote"
			if k == '\\' {
				what = "escape"
			}
			c.check(len(srcs) == 1, rule, fmt.Sprintf("%s: %s test sees unescaped bytes only#%d", fnKey(g), what, n), bo.Pos(), "the tested byte is the direct result of one readByte",
				fmt.Sprintf("the %s test is applied to a value that may be the byte read after a backslash (%d reads merge into it): an escaped quote ends the string early and the rest of the argument is parsed as the next token", what, len(srcs)))
		})
	}
	if n == 0 {
		c.unresolvedRoot("terminator/escape tests of Decoder.Quoted")
	}
}

// ruleNoNarrowingOnEncode: C02.k / C03.l. A numeric field of a public option
// or data structure is put on the wire at its full width: no conversion of a
// value loaded from such a field to a narrower integer type in the encoders
// (uint32(partial.Offset) silently turns offset 2^32+10 into 10).
func ruleNoNarrowingOnEncode(c *Ctx, rule string, pkgs ...string) {
	p := c.P
	n := 0
	width := func(t types.Type) int {
		bt, ok := t.Underlying().(*types.Basic)
		if !ok || bt.Info()&types.IsInteger == 0 {
			return 0
		}
		switch bt.Kind() {
		case types.Int8, types.Uint8:
			return 8
		case types.Int16, types.Uint16:
			return 16
		case types.Int32, types.Uint32:
			return 32
		case types.Int64, types.Uint64:
			return 64
		}
		return 32 // int, uint: at least 32
	}
	for _, fn := range p.SrcFuncs(pkgs...) {
		allInstrs(fn, func(i ssa.Instruction) {
			cv, ok := i.(*ssa.Convert)
			if !ok {
				return
			}
			from, to := width(cv.X.Type()), width(cv.Type())
			if from == 0 || to == 0 {
				return
			}
			r, ok := loadedField(cv.X)
			if !ok || r.Owner == nil || r.Owner.Obj().Pkg() == nil || r.Owner.Obj().Pkg().Path() != modPath {
				return
			}
			n++
			key := fmt.Sprintf("%s: %s converted to %s#%d", fnKey(fn), r.String(), cv.Type().String(), countKey(c, rule, fmt.Sprintf("%s: %s converted to %s#", fnKey(fn), r.String(), cv.Type().String()))+1)
			c.check(to >= from, rule, key, cv.Pos(), "not narrowed", fmt.Sprintf("%s (%d bits) is converted to %s (%d bits) before it is encoded: values above the narrower type's range are silently truncated on the wire", r.String(), from, cv.Type().String(), to))
		})
	}
	if n == 0 {
		c.okTrivial(rule, "no integer field of a public structure is converted in the encoders", token.NoPos, "0 conversions")
	}
}

// ruleSelectedIsAuthenticated: RFC 9051 §3: the selected state is entered
// from, and has every permission of, the authenticated state. A direct test of
// Conn.state in the server that separates Authenticated from Selected (other
// than checkState, which spells the sub-state relation out, and the places
// that *set* the state) gives a selected connection less than an
// authenticated one — e.g. a capability list that loses its post-login
// capabilities once a mailbox is selected. For every branch on Conn.state the
// target reached with state=Authenticated equals the one reached with
// state=Selected.
func ruleSelectedIsAuthenticated(c *Ctx, rule string) {
	p := c.P
	stateConst := func(name string) (int64, bool) {
		if k, ok := p.Pkgs[modPath].Types.Scope().Lookup(name).(*types.Const); ok {
			return constantInt(k)
		}
		return 0, false
	}
	auth, ok1 := stateConst("ConnStateAuthenticated")
	sel, ok2 := stateConst("ConnStateSelected")
	if !ok1 || !ok2 {
		c.unresolvedRoot("imap.ConnStateAuthenticated / ConnStateSelected")
		return
	}
	// decide a condition for a given state value; ok=false if it does not only depend on the state
	var decide func(v ssa.Value, st int64) (bool, bool)
	decide = func(v ssa.Value, st int64) (bool, bool) {
		switch x := v.(type) {
		case *ssa.BinOp:
			if x.Op != token.EQL && x.Op != token.NEQ {
				return false, false
			}
			var k int64
			var isState bool
			for _, pr := range [][2]ssa.Value{{x.X, x.Y}, {x.Y, x.X}} {
				if r, ok := loadedField(pr[0]); ok && r.is("Conn", "state") {
					if kk, ok := constInt(pr[1]); ok {
						k, isState = kk, true
					}
				}
			}
			if !isState {
				return false, false
			}
			return (st == k) == (x.Op == token.EQL), true
		case *ssa.UnOp:
			if x.Op == token.NOT {
				b, ok := decide(x.X, st)
				return !b, ok
			}
		}
		return false, false
	}
	pureTest := func(b *ssa.BasicBlock) bool {
		for _, i := range b.Instrs {
			switch i.(type) {
			case *ssa.FieldAddr, *ssa.UnOp, *ssa.BinOp, *ssa.If, *ssa.DebugRef:
			default:
				return false
			}
		}
		return true
	}
	// does the chain starting at b mention the Authenticated constant?
	mentionsAuth := func(b *ssa.BasicBlock) bool {
		seen := map[*ssa.BasicBlock]bool{}
		var rec func(x *ssa.BasicBlock) bool
		rec = func(x *ssa.BasicBlock) bool {
			if seen[x] || len(x.Instrs) == 0 {
				return false
			}
			seen[x] = true
			i2, ok := x.Instrs[len(x.Instrs)-1].(*ssa.If)
			if !ok {
				return false
			}
			if x != b && !pureTest(x) {
				return false
			}
			if _, d := decide(i2.Cond, auth); !d {
				return false
			}
			if bo, ok := i2.Cond.(*ssa.BinOp); ok {
				for _, o := range []ssa.Value{bo.X, bo.Y} {
					if k, ok := constInt(o); ok && k == auth {
						return true
					}
				}
			}
			return rec(x.Succs[0]) || rec(x.Succs[1])
		}
		return rec(b)
	}
	n := 0
	for _, fn := range p.SrcFuncs("imapserver") {
		if fn.Name() == "checkState" {
			continue
		}
		for _, b := range fn.Blocks {
			if len(b.Instrs) == 0 {
				continue
			}
			ifi, ok := b.Instrs[len(b.Instrs)-1].(*ssa.If)
			if !ok {
				continue
			}
			if _, dec := decide(ifi.Cond, auth); !dec {
				continue
			}
			// a test of the Selected state alone is selected-specific behaviour
			// (re-SELECT closes the old mailbox): only tests that name
			// Authenticated are obliged to include Selected
			if !mentionsAuth(b) {
				continue
			}
			// only chain heads: a block whose predecessor is itself a decidable state test belongs to that chain
			head := true
			for _, pr := range b.Preds {
				if len(pr.Instrs) > 0 {
					if pi, ok := pr.Instrs[len(pr.Instrs)-1].(*ssa.If); ok {
						if _, d := decide(pi.Cond, auth); d && pureTest(b) {
							head = false
						}
					}
				}
			}
			if !head {
				continue
			}
			// walk follows the state test for one state value through blocks
			// that only compute on the state (`a := st == X || st == Y; if !a`
			// materialises the disjunction as a phi in a join block)
			walk := func(st int64) *ssa.BasicBlock {
				var prev *ssa.BasicBlock
				cur := b
				pureJoin := func(x *ssa.BasicBlock) bool {
					for _, i := range x.Instrs {
						switch i.(type) {
						case *ssa.FieldAddr, *ssa.UnOp, *ssa.BinOp, *ssa.If, *ssa.DebugRef, *ssa.Phi, *ssa.Jump:
						default:
							return false
						}
					}
					return true
				}
				var dec2 func(v ssa.Value) (bool, bool)
				dec2 = func(v ssa.Value) (bool, bool) {
					switch x := v.(type) {
					case *ssa.Const:
						if x.Value != nil && x.Value.Kind() == constant.Bool {
							return constant.BoolVal(x.Value), true
						}
					case *ssa.Phi:
						if x.Block() == cur && prev != nil {
							for k, pr := range cur.Preds {
								if pr == prev {
									return dec2(x.Edges[k])
								}
							}
						}
						return false, false
					case *ssa.UnOp:
						if x.Op == token.NOT {
							r, ok := dec2(x.X)
							return !r, ok
						}
					}
					return decide(v, st)
				}
				for k := 0; k < 16; k++ {
					if len(cur.Instrs) == 0 {
						return cur
					}
					if cur != b && !pureJoin(cur) {
						return cur
					}
					switch i2 := cur.Instrs[len(cur.Instrs)-1].(type) {
					case *ssa.If:
						v, d := dec2(i2.Cond)
						if !d {
							return cur
						}
						prev = cur
						if v {
							cur = cur.Succs[0]
						} else {
							cur = cur.Succs[1]
						}
					case *ssa.Jump:
						if cur == b {
							return cur
						}
						// a pure block that merely jumps on: only a phi-join may follow
						nx := cur.Succs[0]
						hasPhi := false
						if len(nx.Instrs) > 0 {
							_, hasPhi = nx.Instrs[0].(*ssa.Phi)
						}
						if !hasPhi || !pureJoin(nx) {
							return cur
						}
						prev, cur = cur, nx
					default:
						return cur
					}
				}
				return cur
			}
			ta, ts := walk(auth), walk(sel)
			n++
			key := fmt.Sprintf("%s: state test#%d", fnKey(fn), countKey(c, rule, fnKey(fn)+": state test#")+1)
			c.check(ta == ts, rule, key, condPos(ifi), "the authenticated and the selected state take the same branch",
				"this test of the connection state sends an authenticated connection one way and a selected one another: a connection with a mailbox selected loses what it had as merely authenticated (e.g. its post-login capabilities)")
		}
	}
	if n == 0 {
		c.unresolvedRoot("direct tests of Conn.state in imapserver")
	}
}

// ruleParseWidth: C03.m. A numeric field of 64-bit type in a public data
// structure is filled, in the client's parsers, from a 64-bit reader
// (ExpectNumber64 / ExpectModSeq): the server writes such fields with
// Number64, and a 32-bit reader (ExpectNumber) refuses every value ≥ 2^32 —
// a STATUS SIZE of a 5 GiB mailbox tears the connection down. Exceptions are
// single fields whose wire grammar is a 32-bit number, listed with the reason.
var parse32Exceptions = map[string]string{
	"SectionPartial.Offset": "origin octet of a FETCH response: `\"<\" number \">\"`, a 32-bit number in RFC 3501/9051",
}

func ruleParseWidth(c *Ctx, rule string) {
	p := c.P
	n := 0
	is64 := func(t types.Type) bool {
		if pt, ok := t.Underlying().(*types.Pointer); ok {
			t = pt.Elem()
		}
		bt, ok := t.Underlying().(*types.Basic)
		return ok && (bt.Kind() == types.Int64 || bt.Kind() == types.Uint64)
	}
	// v derives (through widening conversions, loads of locals) from a cell filled by a 32-bit decoder reader
	var from32 func(v ssa.Value, depth int) bool
	from32 = func(v ssa.Value, depth int) bool {
		if depth > 6 {
			return false
		}
		switch x := v.(type) {
		case *ssa.Convert:
			return from32(x.X, depth+1)
		case *ssa.ChangeType:
			return from32(x.X, depth+1)
		case *ssa.Alloc:
			// &local handed as the value: what was stored in it
			for _, ref := range *x.Referrers() {
				if st, ok := ref.(*ssa.Store); ok && st.Addr == ssa.Value(x) && from32(st.Val, depth+1) {
					return true
				}
				if call, ok := ref.(ssa.CallInstruction); ok && isDecoderMethodCall(call) {
					switch calleeObj(call).Name() {
					case "Number", "ExpectNumber":
						if bt, ok := x.Type().Underlying().(*types.Pointer).Elem().Underlying().(*types.Basic); ok && bt.Kind() == types.Uint32 {
							return true
						}
					}
				}
			}
		case *ssa.UnOp:
			if x.Op == token.MUL {
				if al, ok := x.X.(*ssa.Alloc); ok {
					return from32(al, depth+1)
				}
				// *ptr where ptr is the result of a helper returning *uint32 read from the wire
				if call, ok := x.X.(*ssa.Extract); ok {
					if cc, ok := call.Tuple.(*ssa.Call); ok {
						if cal := staticCallee(cc); cal != nil && inModule(cal) {
							for _, r := range returnsOf(cal) {
								if call.Index < len(r.Results) && from32(unspill(r.Results[call.Index]), depth+1) {
									return true
								}
							}
						}
					}
				}
			}
		}
		return false
	}
	for _, fn := range p.SrcFuncs("imapclient") {
		allInstrs(fn, func(i ssa.Instruction) {
			st, ok := i.(*ssa.Store)
			if !ok {
				return
			}
			r, ok := fieldOf(st.Addr)
			if !ok || r.Owner == nil || r.Owner.Obj().Pkg() == nil || r.Owner.Obj().Pkg().Path() != modPath || !is64(r.Field.Type()) {
				return
			}
			n++
			key := fmt.Sprintf("%s: %s#%d", fnKey(fn), r.String(), countKey(c, rule, fnKey(fn)+": "+r.String()+"#")+1)
			if !from32(st.Val, 0) {
				c.ok(rule, key, st.Pos(), "not filled from a 32-bit reader")
				return
			}
			if why, ok := parse32Exceptions[r.String()]; ok {
				c.okTrivial(rule, key, st.Pos(), "32-bit by grammar: "+why)
				return
			}
			c.fail(rule, key, st.Pos(), r.String()+" is a 64-bit field but is parsed with a 32-bit number reader: the peer writes it with Number64, and every value of 2^32 or more is refused (the response fails and the connection is torn down)")
		})
	}
	if n == 0 {
		c.unresolvedRoot("stores into 64-bit numeric fields in the client's parsers")
	}
}

// ruleRecursiveCriteriaCoverage: a function that walks a SearchCriteria
// recursively descends into *every* recursive field of the type (Not and Or):
// resolving '*', checking ASCII-ness or matching only under NOT and not under
// OR leaves the OR operands unprocessed.
func ruleRecursiveCriteriaCoverage(c *Ctx, rule string) {
	p := c.P
	sc := p.Named("", "SearchCriteria")
	if sc == nil {
		c.unresolvedRoot("imap.SearchCriteria")
		return
	}
	st := sc.Underlying().(*types.Struct)
	// recursive fields: those whose type mentions SearchCriteria
	var recFields []string
	for i := 0; i < st.NumFields(); i++ {
		if strings.Contains(st.Field(i).Type().String(), "SearchCriteria") && st.Field(i).Type().String() != sc.String() {
			if !strings.Contains(st.Field(i).Type().String(), "SearchCriteriaHeaderField") && !strings.Contains(st.Field(i).Type().String(), "SearchCriteriaModSeq") && !strings.Contains(st.Field(i).Type().String(), "SearchCriteriaMetadataType") {
				recFields = append(recFields, st.Field(i).Name())
			}
		}
	}
	if len(recFields) < 2 {
		c.unresolvedRoot("recursive fields of imap.SearchCriteria")
		return
	}
	n := 0
	for _, fn := range p.SrcFuncs("", "imapclient", "imapserver", "imapserver/imapmemserver") {
		if fn.Parent() != nil {
			continue
		}
		visited := map[string]bool{}
		selfRec := false
		// the recursion may go through an unexported helper of the walk
		// (`searchEither(seqNum, &criteria.Or[i])` calling search twice)
		recCallees := map[*ssa.Function]bool{fn: true}
		for _, h := range helperClosure(fn, 2) {
			if h == fn || h.Parent() != nil {
				continue
			}
			calls := false
			allInstrs(h, func(i ssa.Instruction) {
				if call, ok := i.(ssa.CallInstruction); ok && staticCallee(call) == fn {
					calls = true
				}
			})
			if calls {
				recCallees[h] = true
			}
		}
		for _, g := range withAnon(fn) {
			allInstrs(g, func(i ssa.Instruction) {
				call, ok := i.(ssa.CallInstruction)
				if !ok || !recCallees[staticCallee(call)] {
					return
				}
				for _, a := range call.Common().Args {
					// the argument derives from a field of a SearchCriteria
					seen := map[ssa.Value]bool{}
					var rec func(v ssa.Value)
					rec = func(v ssa.Value) {
						if v == nil || seen[v] {
							return
						}
						seen[v] = true
						switch x := v.(type) {
						case *ssa.FieldAddr:
							if r, ok := fieldOf(x); ok && r.Owner == sc {
								visited[r.Field.Name()] = true
								selfRec = true
							}
							rec(x.X)
						case *ssa.Field:
							if r, ok := fieldOf(x); ok && r.Owner == sc {
								visited[r.Field.Name()] = true
								selfRec = true
							}
							rec(x.X)
						case *ssa.IndexAddr:
							rec(x.X)
						case *ssa.Index:
							rec(x.X)
						case *ssa.UnOp:
							rec(x.X)
						case *ssa.Slice:
							rec(x.X)
						case *ssa.Phi:
							for _, e := range x.Edges {
								rec(e)
							}
						case *ssa.Extract:
							rec(x.Tuple)
						case *ssa.Next:
							rec(x.Iter)
						case *ssa.Range:
							rec(x.X)
						case *ssa.Alloc:
							for _, ref := range *x.Referrers() {
								if s2, ok := ref.(*ssa.Store); ok && s2.Addr == ssa.Value(x) {
									rec(s2.Val)
								}
							}
						}
					}
					rec(a)
				}
			})
		}
		if !selfRec {
			continue
		}
		n++
		var missing []string
		for _, f := range recFields {
			if !visited[f] {
				missing = append(missing, f)
			}
		}
		c.check(len(missing) == 0, rule, fnKey(fn)+": recursive walk covers "+strings.Join(recFields, ","), fn.Pos(), "recurses into every recursive field",
			"this recursive walk of a SearchCriteria does not descend into "+strings.Join(missing, ",")+": keys nested there are left unprocessed ('*' unresolved, UTF-8 undetected, …)")
	}
	if n == 0 {
		c.unresolvedRoot("recursive walks of imap.SearchCriteria")
	}
}

// ruleExpungeOrder: C08.j. Every removal is announced with the sequence
// number the message has *at the moment of the announcement*. When several
// messages are removed in one pass and numbered by their index in the
// original list, the announcements must go out in descending index order
// (each EXPUNGE then leaves the lower numbers untouched), or the number must
// be corrected by the count of earlier removals. In every loop that calls
// QueueExpunge with a number derived from the loop index, the index
// decreases, or the argument subtracts a counter that the loop increments.
func ruleExpungeOrder(c *Ctx, rule string) {
	p := c.P
	n := 0
	for _, fn := range p.SrcFuncs("imapserver/imapmemserver") {
		allInstrs(fn, func(i ssa.Instruction) {
			call, ok := i.(*ssa.Call)
			if !ok || callKey(call) != "(*MailboxTracker).QueueExpunge" || !reaches2(call.Block(), call.Block()) {
				return
			}
			// phis the argument depends on
			var phis []*ssa.Phi
			subtractsCounter := false
			seen := map[ssa.Value]bool{}
			var rec func(v ssa.Value)
			rec = func(v ssa.Value) {
				if v == nil || seen[v] {
					return
				}
				seen[v] = true
				switch x := v.(type) {
				case *ssa.Phi:
					phis = append(phis, x)
				case *ssa.Convert:
					rec(x.X)
				case *ssa.BinOp:
					if x.Op == token.SUB {
						if ph, ok := x.Y.(*ssa.Phi); ok {
							// a counter: incremented somewhere in the loop
							for _, e := range ph.Edges {
								if add, ok := e.(*ssa.BinOp); ok && add.Op == token.ADD {
									subtractsCounter = true
								}
								if p2, ok := e.(*ssa.Phi); ok {
									for _, e2 := range p2.Edges {
										if add, ok := e2.(*ssa.BinOp); ok && add.Op == token.ADD {
											subtractsCounter = true
										}
									}
								}
							}
						}
					}
					rec(x.X)
					rec(x.Y)
				}
			}
			rec(call.Call.Args[1])
			if len(phis) == 0 {
				return
			}
			n++
			descending := false
			for _, ph := range phis {
				for k, e := range ph.Edges {
					if !ph.Block().Dominates(ph.Block().Preds[k]) {
						continue // entry edge
					}
					if bo, ok := e.(*ssa.BinOp); ok && bo.X == ssa.Value(ph) {
						if kk, ok := constInt(bo.Y); ok && (bo.Op == token.SUB && kk > 0 || bo.Op == token.ADD && kk < 0) {
							descending = true
						}
					}
				}
			}
			c.check(descending || subtractsCounter, rule, fnKey(fn)+": removals announced in descending order (or renumbered)", call.Pos(), "the loop index decreases / the number is corrected by the removals so far",
				"several messages are removed in one ascending pass and each is announced with its index in the original list: after the first EXPUNGE the later numbers are off by the removals before them — sessions expunge the wrong messages or numbers beyond the count")
		})
	}
	if n == 0 {
		c.unresolvedRoot("QueueExpunge calls in a loop over the message list")
	}
}

// ruleQueueHandOver: C08.k. SessionTracker.Poll hands the dequeued updates to
// the writer *outside* the tracker lock. The live queue must therefore not
// keep sharing a backing array with what was handed out: after `updates =
// t.queue` the field is set to nil (or to a slice that does not alias the
// prefix handed out); `t.queue = t.queue[:0]` lets a concurrent queueUpdate
// overwrite updates that are still being written.
func ruleQueueHandOver(c *Ctx, rule string) {
	p := c.P
	poll := p.Func("imapserver", "SessionTracker", "Poll")
	if poll == nil {
		c.unresolvedRoot("(*SessionTracker).Poll")
		return
	}
	n := 0
	for _, g := range helperClosure(poll, 2) {
		allInstrs(g, func(i ssa.Instruction) {
			st, ok := i.(*ssa.Store)
			if !ok {
				return
			}
			r, ok := fieldOf(st.Addr)
			if !ok || !r.is("SessionTracker", "queue") {
				return
			}
			n++
			key := fmt.Sprintf("%s: store to the live queue#%d", fnKey(g), n)
			sl, isSlice := st.Val.(*ssa.Slice)
			if !isSlice {
				c.ok(rule, key, st.Pos(), "nil or a fresh slice")
				return
			}
			lr, fromQueue := loadedField(sl.X)
			if !fromQueue || !lr.is("SessionTracker", "queue") {
				c.ok(rule, key, st.Pos(), "not a re-slice of the queue")
				return
			}
			// a suffix (queue[k:]) does not alias the prefix handed out; a prefix / zero-length re-slice does
			keepsStart := sl.Low == nil
			if k, ok := sl.Low.(*ssa.Const); ok && k.Value != nil && k.Value.String() == "0" {
				keepsStart = true
			}
			c.check(!keepsStart, rule, key, st.Pos(), "a suffix of the old queue: disjoint from the updates handed out",
				"the live queue is re-sliced from the start of the array whose elements were just handed to the writer: updates queued by another session overwrite them while they are being written (lost or duplicated EXPUNGE/EXISTS)")
		})
	}
	if n == 0 {
		c.unresolvedRoot("stores to SessionTracker.queue in Poll")
	}
}

// ruleFirstErrorWins: C10.l. Merging the outcomes of several sub-commands
// ("first error wins") assigns a later error to the accumulator only while
// the accumulator is still nil. An assignment `err = other` that sits on the
// `err != nil` edge does the opposite: it throws the first error away and,
// when there was none, drops the later one — the caller is told "success"
// for a command whose completion failed or never arrived. Reported: a store
// into a local error variable, guarded by a non-nil test of that same
// variable, of a value that does not depend on it (wrapping the old error is
// fine).
func ruleFirstErrorWins(c *Ctx, rule string, pkgs ...string) {
	p := c.P
	n := 0
	for _, fn := range p.SrcFuncs(pkgs...) {
		var flow *mustResult
		allInstrs(fn, func(i ssa.Instruction) {
			st, ok := i.(*ssa.Store)
			if !ok {
				return
			}
			cell, ok := st.Addr.(*ssa.Alloc)
			if !ok || !isErrorType(cell.Type().Underlying().(*types.Pointer).Elem()) || isNilConst(st.Val) {
				return
			}
			if flow == nil {
				flow = mustFlow(fn, facts{}, valueGen, func(f facts, b *ssa.BasicBlock, s int) facts { return f.with(valueEdgeFacts(b, s)...) })
			}
			fs, reach := flow.at(st)
			if !reach {
				return
			}
			if !fs.has("nonnil:cell:"+cell.Name()) && !fs.has("nil:cell:"+cell.Name()) {
				return // not a guarded merge
			}
			n++
			key := fmt.Sprintf("%s: %s merged#%d", fnKey(fn), cell.Comment, countKey(c, rule, fmt.Sprintf("%s: %s merged#", fnKey(fn), cell.Comment))+1)
			if fs.has("nil:cell:" + cell.Name()) {
				c.ok(rule, key, st.Pos(), "assigned while still nil: the first error wins")
				return
			}
			// depends on the old value?
			dep := false
			seen := map[ssa.Value]bool{}
			var rec func(v ssa.Value)
			rec = func(v ssa.Value) {
				if v == nil || seen[v] || dep {
					return
				}
				seen[v] = true
				if ld, ok := v.(*ssa.UnOp); ok && ld.X == ssa.Value(cell) {
					dep = true
					return
				}
				if ins, ok := v.(ssa.Instruction); ok {
					for _, op := range ins.Operands(nil) {
						if *op != nil {
							rec(*op)
						}
					}
				}
			}
			rec(st.Val)
			c.check(dep, rule, key, st.Pos(), "wraps the existing error",
				"the error variable "+cell.Comment+" is overwritten with an unrelated value on the edge where it is already non-nil (and left alone where it is nil): the first failure is lost and a later failure of a sub-command is not reported — the caller sees success")
		})
	}
	// the same merge on a variable that lives in registers: a phi [old, other]
	// whose `other` edge comes from the branch taken when old != nil
	for _, fn := range p.SrcFuncs(pkgs...) {
		for _, b := range fn.Blocks {
			for _, i := range b.Instrs {
				ph, ok := i.(*ssa.Phi)
				if !ok || !isErrorType(ph.Type()) || len(ph.Edges) < 2 {
					continue
				}
				olds := map[ssa.Value]bool{}
				for _, e := range ph.Edges {
					olds[e] = true
				}
				for k, other := range ph.Edges {
					via := b.Preds[k]
					// the branch that decides whether `other` is taken: the nearest
					// dominator of via that ends in an If with via in exactly one arm
					var from *ssa.BasicBlock
					si := -1
					for d := via; d != nil && from == nil; d = d.Idom() {
						var dd *ssa.BasicBlock
						if d == via {
							if len(via.Preds) == 1 {
								dd = via.Preds[0]
							} else {
								continue
							}
						} else {
							dd = d
						}
						if len(dd.Succs) != 2 {
							continue
						}
						in0 := dd.Succs[0] == via || (dd.Succs[0].Dominates(via) && dd.Succs[0] != b)
						in1 := dd.Succs[1] == via || (dd.Succs[1].Dominates(via) && dd.Succs[1] != b)
						if in0 != in1 {
							from = dd
							if in0 {
								si = 0
							} else {
								si = 1
							}
						}
						break
					}
					if from == nil {
						continue
					}
					pol := 0
					var old ssa.Value
					for _, a := range edgeAtoms(from, si) {
						if olds[a.V] && a.V != other && a.Nil != 0 {
							pol, old = a.Nil, a.V
						}
					}
					if pol == 0 {
						continue
					}
					n++
					key := fmt.Sprintf("%s: %s merged#%d", fnKey(fn), ph.Comment, countKey(c, rule, fmt.Sprintf("%s: %s merged#", fnKey(fn), ph.Comment))+1)
					if pol == 1 {
						c.ok(rule, key, ph.Pos(), "assigned while still nil: the first error wins")
						continue
					}
					dep := false
					seen := map[ssa.Value]bool{}
					var rec func(v ssa.Value)
					rec = func(v ssa.Value) {
						if v == nil || seen[v] || dep {
							return
						}
						seen[v] = true
						if v == old {
							dep = true
							return
						}
						if ins, ok := v.(ssa.Instruction); ok {
							for _, op := range ins.Operands(nil) {
								if *op != nil {
									rec(*op)
								}
							}
						}
					}
					rec(other)
					pos := ph.Pos()
					for k := len(from.Instrs) - 1; k >= 0; k-- {
						if ip := from.Instrs[k].Pos(); ip.IsValid() {
							pos = ip
							break
						}
					}
					if !pos.IsValid() && other.Pos().IsValid() {
						pos = other.Pos()
					}
					c.check(dep, rule, key, pos, "wraps the existing error",
						"the error variable "+ph.Comment+" is overwritten with an unrelated value on the edge where it is already non-nil (and left alone where it is nil): the first failure is lost and a later failure of a sub-command is not reported — the caller sees success")
				}
			}
		}
	}
	if n == 0 {
		c.okTrivial(rule, "no guarded error merge in "+strings.Join(pkgs, ","), token.NoPos, "0 sites")
	}
}

// ruleParseLoopProgress: C11.k. Every round of a parsing loop consumes input
// or leaves the loop. Decoder methods that can report success without having
// consumed a byte (SP() peeks at '(' and un-reads it) are computed from the
// byte-level typestate; a *failed* read consumes nothing either. If, from the
// failure edge of a decoder read inside a loop, control can get back to that
// same read passing only through such non-consuming successes, the peer can
// pin the reader goroutine in a busy loop with a few bytes.
func ruleParseLoopProgress(c *Ctx, rule string, pkgs ...string) {
	p := c.P
	// ncs: decoder methods that may return true with zero net consumption
	ncs := map[*ssa.Function]bool{}
	decMethods := []*ssa.Function{}
	for _, fn := range p.SrcFuncs("internal/imapwire") {
		if fn.Signature.Recv() != nil && strings.HasSuffix(fn.Signature.Recv().Type().String(), "imapwire.Decoder") && fn.Parent() == nil {
			decMethods = append(decMethods, fn)
		}
	}
	boolResult := func(fn *ssa.Function) bool {
		r := fn.Signature.Results()
		if r.Len() == 0 {
			return false
		}
		bt, ok := r.At(r.Len() - 1).Type().Underlying().(*types.Basic)
		return ok && bt.Kind() == types.Bool
	}
	for changed := true; changed; {
		changed = false
		for _, fn := range decMethods {
			if ncs[fn] || !boolResult(fn) {
				continue
			}
			flow := mustFlow(fn, facts{}, func(f facts, i ssa.Instruction) facts {
				call, ok := i.(*ssa.Call)
				if !ok {
					return f
				}
				if callKey(call) == "(*Decoder).mustUnreadByte" {
					return f.without(func(s string) bool { return s == "consumed" })
				}
				return f
			}, func(f facts, b *ssa.BasicBlock, s int) facts {
				for _, a := range edgeAtoms(b, s) {
					call, idx := callOf(a.V)
					if call == nil || !(a.True == 1) {
						continue
					}
					k := callKey(call)
					if k == "(*Decoder).readByte" && idx == 1 {
						return f.with("consumed")
					}
					if cal := staticCallee(call); cal != nil && isDecoderMethodCall(call) && boolResult(cal) && !ncs[cal] && k != "(*Decoder).readByte" && k != "(*Decoder).Expect" && k != "(*Decoder).returnErr" {
						return f.with("consumed")
					}
				}
				return f
			})
			may := false
			for _, r := range returnsOf(fn) {
				f, ok := flow.at(r)
				if !ok || len(r.Results) == 0 {
					continue
				}
				v := unspill(r.Results[len(r.Results)-1])
				if k, isC := v.(*ssa.Const); isC && k.Value != nil && k.Value.String() == "false" {
					continue
				}
				// `return dec.X(...)`: success means X succeeded
				if call, ok := v.(*ssa.Call); ok {
					if cal := staticCallee(call); cal != nil && isDecoderMethodCall(call) && !ncs[cal] && callKey(call) != "(*Decoder).Expect" {
						continue
					}
					if callKey(call) == "(*Decoder).Expect" {
						// Expect(ok, …): ok is the first argument
						if c0, ok := call.Call.Args[1].(*ssa.Call); ok {
							if cal := staticCallee(c0); cal != nil && isDecoderMethodCall(c0) && !ncs[cal] {
								continue
							}
						}
					}
				}
				if !f.has("consumed") {
					may = true
				}
			}
			if may {
				ncs[fn] = true
				changed = true
			}
		}
	}
	// The must-analysis above over-approximates (it cannot relate "the loop
	// ran at least once" to "the builder is non-empty"), so it only *confirms*
	// the methods that were found to peek by reading the decoder: SP (returns
	// true in front of '(' after un-reading it, go-imap issue 571) and EOF.
	// A method is treated as non-consuming only if it is in this table and the
	// analysis still agrees.
	peeking := map[string]string{
		"(*Decoder).SP":  "true in front of '(' without consuming it",
		"(*Decoder).EOF": "peeks one byte and un-reads it",
	}
	for f := range ncs {
		if _, ok := peeking[fnKey(f)]; !ok {
			delete(ncs, f)
		}
	}
	var names []string
	for f := range ncs {
		names = append(names, fnKey(f)+" ("+peeking[fnKey(f)]+")")
	}
	sort.Strings(names)
	c.note("decoder methods that can succeed without consuming input: %s", strings.Join(names, ", "))
	n := 0
	for _, fn := range p.SrcFuncs(pkgs...) {
		for _, g := range []*ssa.Function{fn} {
			allInstrs(g, func(i ssa.Instruction) {
				call, ok := i.(*ssa.Call)
				if !ok || !isDecoderMethodCall(call) || !reaches2(call.Block(), call.Block()) {
					return
				}
				cal := staticCallee(call)
				if cal == nil || !boolResult(cal) || callKey(call) == "(*Decoder).Expect" {
					return
				}
				// failure edges of this call
				for _, b := range g.Blocks {
					for si := range b.Succs {
						isFail := false
						for _, fc := range failureCalls(b, si) {
							if fc == ssa.CallInstruction(call) {
								isFail = true
							}
						}
						if !isFail {
							continue
						}
						n++
						// search: back to call.Block() through non-consuming blocks only
						seen := map[*ssa.BasicBlock]bool{}
						var spin func(x *ssa.BasicBlock) bool
						spin = func(x *ssa.BasicBlock) bool {
							if x == call.Block() {
								return true
							}
							if seen[x] {
								return false
							}
							seen[x] = true
							// a block with a consuming decoder call stops the search; with a
							// non-consuming-success call only its success edge continues freely
							for _, j := range x.Instrs {
								if c2, ok := j.(*ssa.Call); ok && isDecoderMethodCall(c2) {
									k2 := callKey(c2)
									if k2 == "(*Decoder).Err" || k2 == "(*Decoder).Expect" || k2 == "(*Decoder).returnErr" {
										continue
									}
									if cal2 := staticCallee(c2); cal2 == nil || !ncs[cal2] {
										return false
									}
								} else if c2, ok := j.(*ssa.Call); ok {
									// any other module call may consume (helpers that parse)
									if cal2 := staticCallee(c2); cal2 != nil && inModule(cal2) && cal2.Blocks != nil {
										consumes := false
										deepInstrs(cal2, 2, func(q ssa.Instruction) {
											if c3, ok := q.(*ssa.Call); ok && isDecoderMethodCall(c3) {
												consumes = true
											}
										})
										if consumes {
											return false
										}
									}
								}
							}
							for _, s := range x.Succs {
								if spin(s) {
									return true
								}
							}
							return false
						}
						key := fmt.Sprintf("%s: failed %s leaves the loop or tries something that consumes#%d", fnKey(g), cal.Name(), countKey(c, rule, fmt.Sprintf("%s: failed %s leaves the loop or tries something that consumes#", fnKey(g), cal.Name()))+1)
						c.check(!spin(b.Succs[si]), rule, key, call.Pos(), "no input-free way back to this read",
							"after this read fails control can return to it without any read that consumes input (only peeking reads such as SP in between): a response containing an unexpected byte here makes the reader goroutine spin for ever on a few bytes")
					}
				}
			})
		}
	}
	if n == 0 {
		c.unresolvedRoot("decoder reads inside parsing loops of " + strings.Join(pkgs, ","))
	}
}

// ruleGuardedRefEscapes: C14.e. A guarded field of map or slice type is a
// reference: copying it into a local under the lock copies the reference, not
// the data. Ranging over, indexing or updating that local after the lock was
// released is an unlocked access to the guarded data (concurrent map
// iteration and map write). Every use of a value loaded from a guarded
// map/slice field happens with the guarding lock held.
func ruleGuardedRefEscapes(c *Ctx, rule string, la *lockAnalysis, guards map[*types.Var]*guardInfo, pkgs ...string) {
	p := c.P
	n := 0
	for _, fn := range p.SrcFuncs(pkgs...) {
		allInstrs(fn, func(i ssa.Instruction) {
			ld, ok := i.(*ssa.UnOp)
			if !ok || ld.Op != token.MUL {
				return
			}
			r, ok := loadedField(ld)
			if !ok {
				return
			}
			g := guards[r.Field]
			if g == nil {
				return
			}
			switch r.Field.Type().Underlying().(type) {
			case *types.Map, *types.Slice:
			default:
				return
			}
			if isFreshLocal(r.Base) {
				return
			}
			hl, reach := la.heldAt(ld)
			if !reach || !hl.hasClass(g.class) {
				return // the unlocked load itself is C14.b's business
			}
			// ownership transfer: the field is overwritten after this load in the
			// same function (updates = t.queue; t.queue = nil): the local then owns
			// what it loaded (that the new field value does not alias it is C08.k)
			moved := false
			allInstrs(fn, func(j ssa.Instruction) {
				if st, ok := j.(*ssa.Store); ok {
					if r2, ok := fieldOf(st.Addr); ok && r2.Field == r.Field && st.Val != ssa.Value(ld) {
						if ld.Block().Dominates(st.Block()) && (ld.Block() != st.Block() || precedes(ld, st)) {
							if hs, ok := la.heldAt(st); ok && hs.hasClass(g.class) {
								moved = true
							}
						}
					}
				}
			})
			if moved {
				return
			}
			// uses of the loaded reference that read or write the shared data
			seen := map[ssa.Value]bool{}
			var uses func(v ssa.Value)
			uses = func(v ssa.Value) {
				if seen[v] {
					return
				}
				seen[v] = true
				refs := v.Referrers()
				if refs == nil {
					return
				}
				for _, u := range *refs {
					touch := false
					switch x := u.(type) {
					case *ssa.Range, *ssa.Lookup, *ssa.MapUpdate, *ssa.IndexAddr, *ssa.Index:
						touch = true
					case *ssa.Phi:
						uses(x)
					case *ssa.Store:
						// stored into a local cell: follow its loads
						if al, ok := x.Addr.(*ssa.Alloc); ok && x.Val == v {
							for _, r2 := range *al.Referrers() {
								if l2, ok := r2.(*ssa.UnOp); ok && l2.Op == token.MUL {
									uses(l2)
								}
							}
						}
					}
					if !touch {
						continue
					}
					n++
					hu, reachU := la.heldAt(u)
					if !reachU {
						continue
					}
					key := fmt.Sprintf("%s: use of %s#%d", fnKey(fn), r.String(), countKey(c, rule, fmt.Sprintf("%s: use of %s#", fnKey(fn), r.String()))+1)
					c.check(hu.hasClass(g.class) || hu["~"+g.class] != "", rule, key, u.Pos(), "the guarding lock is still held at the use",
						"the reference loaded from the guarded field "+r.String()+" is used after "+short(g.class)+" was released: ranging/indexing it races with writers of the field (concurrent map iteration and map write)")
				}
			}
			uses(ld)
		})
	}
	if n == 0 {
		c.unresolvedRoot("uses of guarded map/slice fields")
	}
}

// ruleCapsInvalidation: the client's cached capability list is what it
// believes the server supports; it decides literal forms and UTF-8 quoting.
// (1) C17.f / C18.i: a successful STARTTLS, LOGIN, AUTHENTICATE or
// UNAUTHENTICATE leads to setCaps(nil) — capabilities learnt in plaintext
// (or before authentication) are not kept (RFC 9051 §6.2.1, §7.2.2).
// (2) C18.i: setCaps stores its argument unconditionally: "keep the old list
// while the refresh is in flight" means emitting syntax the server may no
// longer accept.
func ruleCapsInvalidation(c *Ctx, rule string, want []string) {
	p := c.P
	setCaps := p.Func("imapclient", "Client", "setCaps")
	if setCaps == nil {
		c.unresolvedRoot("(*Client).setCaps")
		return
	}
	// (1)
	got := map[string]bool{}
	var pos token.Pos
	n := 0
	for _, site := range callSitesOf(p, setCaps) {
		if len(site.Common().Args) < 2 || !isNilConst(site.Common().Args[1]) {
			continue
		}
		n++
		for _, t := range caseTypesReaching(site.Block()) {
			got[t] = true
		}
		// the list of command types may live in a predicate
		// (`if … && invalidatesCaps(cmd) { c.setCaps(nil) }`): the types for
		// which the predicate returns true
		if caller := site.Parent(); caller != nil {
			pd := postDominators(caller)
			for x := range transitiveDeps(caller, pd, site.Block()) {
				ifi, isIf := x.Instrs[len(x.Instrs)-1].(*ssa.If)
				if !isIf {
					continue
				}
				for _, a := range atomsOf(ifi.Cond, true) {
					call, ok := a.V.(*ssa.Call)
					if !ok || a.True == 0 {
						continue
					}
					h := staticCallee(call)
					if h == nil || h.Blocks == nil || !inModule(h) {
						continue
					}
					for _, r := range returnsOf(h) {
						if len(r.Results) != 1 {
							continue
						}
						if k, ok := unspill(r.Results[0]).(*ssa.Const); ok && k.Value != nil && k.Value.String() == "true" {
							for _, t := range caseTypesReaching(r.Block()) {
								got[t] = true
							}
						}
					}
				}
			}
		}
		pos = site.Pos()
	}
	if n == 0 {
		c.unresolvedRoot("setCaps(nil) call sites")
	} else {
		var missing []string
		for _, w := range want {
			if !got[w] {
				missing = append(missing, w)
			}
		}
		c.check(len(missing) == 0, rule, "capabilities invalidated after "+strings.Join(want, ", "), pos, "setCaps(nil) is reached in the case of each of these command types",
			"the cached capability list is not invalidated on completion of "+strings.Join(missing, ", ")+": capabilities learnt before (in plaintext, or for the other authentication state) keep steering what the client sends")
	}
	// (2) the store may sit in an unexported helper of setCaps
	var store *ssa.Store
	var holder *ssa.Function
	for _, g := range helperClosure(setCaps, 2) {
		allInstrs(g, func(i ssa.Instruction) {
			if st, ok := i.(*ssa.Store); ok {
				if r, ok := fieldOf(st.Addr); ok && r.is("Client", "caps") {
					store, holder = st, g
				}
			}
		})
	}
	if store == nil {
		c.unresolvedRoot("store to Client.caps in setCaps")
		return
	}
	dominatesReturns := func(fn *ssa.Function, b *ssa.BasicBlock) bool {
		for _, r := range returnsOf(fn) {
			if !b.Dominates(r.Block()) {
				return false
			}
		}
		return true
	}
	uncond := dominatesReturns(holder, store.Block())
	fromParam := false
	if holder == setCaps {
		fromParam = len(setCaps.Params) == 2 && (store.Val == ssa.Value(setCaps.Params[1]) || paramOf(store.Val) == setCaps.Params[1])
	} else {
		// the helper stores its own parameter, and setCaps hands it its argument on every path
		idx := -1
		for k, q := range holder.Params {
			if store.Val == ssa.Value(q) || paramOf(store.Val) == q {
				idx = k
			}
		}
		called := false
		for _, site := range callSitesOf(p, holder) {
			if site.Parent() != setCaps {
				continue
			}
			args := site.Common().Args
			_, isDefer := site.(*ssa.Defer)
			if idx >= 0 && idx < len(args) && len(setCaps.Params) == 2 && (args[idx] == ssa.Value(setCaps.Params[1]) || paramOf(args[idx]) == setCaps.Params[1]) &&
				(isDefer && site.Block() == setCaps.Blocks[0] || dominatesReturns(setCaps, site.Block())) {
				called = true
			}
		}
		fromParam = called
	}
	c.check(uncond && fromParam, rule, "setCaps stores its argument unconditionally", store.Pos(), "c.caps = caps on every path",
		"setCaps does not always replace the cached list by its argument (e.g. it keeps the old list when asked to invalidate): the encoder keeps using LITERAL+/UTF-8 forms the server stopped advertising")
}
