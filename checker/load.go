package main

import (
	"fmt"
	"go/ast"
	"go/token"
	"go/types"
	"os"
	"sort"
	"strings"

	"golang.org/x/tools/go/callgraph"
	"golang.org/x/tools/go/callgraph/cha"
	"golang.org/x/tools/go/callgraph/vta"
	"golang.org/x/tools/go/packages"
	"golang.org/x/tools/go/ssa"
	"golang.org/x/tools/go/ssa/ssautil"
)

const modPath = "github.com/emersion/go-imap/v2"

// Program is everything the rules look at: the type-checked packages of the
// module under /repo (current working tree), their SSA form and call graphs.
type Program struct {
	Dir      string
	Fset     *token.FileSet
	Pkgs     map[string]*packages.Package // by import path (module packages only)
	All      []*packages.Package          // module packages, sorted
	SSA      *ssa.Program
	SSAPkgs  map[string]*ssa.Package
	allFuncs map[*ssa.Function]bool
	cha      *callgraph.Graph
	vta      *callgraph.Graph
	funcDecl map[*types.Func]*ast.FuncDecl
	declPkg  map[*types.Func]*packages.Package
	NFuncs   int // source functions of the module
}

// wantPkgs are the non-test packages of the module; fewer than these loaded
// means the analysis did not see the program and must not pass.
var wantPkgs = []string{
	modPath,
	modPath + "/cmd/imapmemserver",
	modPath + "/imapclient",
	modPath + "/imapserver",
	modPath + "/imapserver/imapmemserver",
	modPath + "/internal",
	modPath + "/internal/imapnum",
	modPath + "/internal/imapwire",
	modPath + "/internal/utf7",
}

func loadProgram(dir string, goarch string) (*Program, error) {
	env := append(os.Environ(), "GOFLAGS=-mod=mod", "GOPROXY=off", "GOSUMDB=off", "GOWORK=off", "GOTOOLCHAIN=local")
	if goarch != "" {
		env = append(env, "GOARCH="+goarch)
	}
	cfg := &packages.Config{
		Mode:  packages.LoadAllSyntax,
		Dir:   dir,
		Env:   env,
		Tests: false,
	}
	pkgs, err := packages.Load(cfg, "./...")
	if err != nil {
		return nil, fmt.Errorf("load: %w", err)
	}
	var errs []string
	packages.Visit(pkgs, nil, func(p *packages.Package) {
		for _, e := range p.Errors {
			errs = append(errs, e.Error())
		}
	})
	if len(errs) > 0 {
		return nil, fmt.Errorf("type/parse errors in the tree under analysis:\n  %s", strings.Join(errs, "\n  "))
	}
	p := &Program{Dir: dir, Pkgs: map[string]*packages.Package{}, SSAPkgs: map[string]*ssa.Package{},
		funcDecl: map[*types.Func]*ast.FuncDecl{}, declPkg: map[*types.Func]*packages.Package{}}
	for _, pk := range pkgs {
		if pk.PkgPath == modPath || strings.HasPrefix(pk.PkgPath, modPath+"/") {
			p.Pkgs[pk.PkgPath] = pk
			p.All = append(p.All, pk)
			p.Fset = pk.Fset
		}
	}
	sort.Slice(p.All, func(i, j int) bool { return p.All[i].PkgPath < p.All[j].PkgPath })
	for _, w := range wantPkgs {
		if p.Pkgs[w] == nil {
			return nil, fmt.Errorf("package %s was not loaded (got %d module packages): the analysis would not see the whole program", w, len(p.All))
		}
	}
	prog, spkgs := ssautil.AllPackages(pkgs, ssa.InstantiateGenerics)
	prog.Build()
	p.SSA = prog
	for i, pk := range pkgs {
		if spkgs[i] != nil && p.Pkgs[pk.PkgPath] != nil {
			p.SSAPkgs[pk.PkgPath] = spkgs[i]
		}
	}
	for _, pk := range p.All {
		for _, f := range pk.Syntax {
			for _, d := range f.Decls {
				if fd, ok := d.(*ast.FuncDecl); ok {
					if obj, ok := pk.TypesInfo.Defs[fd.Name].(*types.Func); ok {
						p.funcDecl[obj] = fd
						p.declPkg[obj] = pk
						p.NFuncs++
					}
				}
			}
		}
	}
	buildAnchorAliases(p)
	return p, nil
}

func (p *Program) AllFuncs() map[*ssa.Function]bool {
	if p.allFuncs == nil {
		p.allFuncs = ssautil.AllFunctions(p.SSA)
	}
	return p.allFuncs
}

func (p *Program) CHA() *callgraph.Graph {
	if p.cha == nil {
		p.cha = cha.CallGraph(p.SSA)
	}
	return p.cha
}

func (p *Program) VTA() *callgraph.Graph {
	if p.vta == nil {
		p.vta = vta.CallGraph(p.AllFuncs(), p.CHA())
	}
	return p.vta
}

// inModule reports whether fn belongs to the module under analysis.
func inModule(fn *ssa.Function) bool {
	if fn == nil {
		return false
	}
	if fn.Pkg != nil {
		pp := fn.Pkg.Pkg.Path()
		return pp == modPath || strings.HasPrefix(pp, modPath+"/")
	}
	if o := fn.Origin(); o != nil && o != fn {
		return inModule(o)
	}
	if fn.Parent() != nil {
		return inModule(fn.Parent())
	}
	// synthetic wrappers (promoted methods, bound methods, thunks) of module methods
	if obj := fn.Object(); obj != nil && obj.Pkg() != nil {
		pp := obj.Pkg().Path()
		return pp == modPath || strings.HasPrefix(pp, modPath+"/")
	}
	return false
}

func pkgPathOf(fn *ssa.Function) string {
	for fn != nil {
		if fn.Pkg != nil {
			return fn.Pkg.Pkg.Path()
		}
		if fn.Synthetic != "" && fn.Parent() == nil && fn.Origin() == nil {
			if obj := fn.Object(); obj != nil && obj.Pkg() != nil {
				return obj.Pkg().Path()
			}
		}
		if o := fn.Origin(); o != nil && o != fn {
			fn = o
			continue
		}
		fn = fn.Parent()
	}
	return ""
}

// Func finds a package-level function or method by (package suffix, receiver
// type name or "", name). nil if absent.
func (p *Program) Func(pkgSuffix, recv, name string) *ssa.Function {
	path := modPath
	if pkgSuffix != "" {
		path = modPath + "/" + pkgSuffix
	}
	sp := p.SSAPkgs[path]
	if sp == nil {
		return nil
	}
	if recv == "" {
		return sp.Func(name)
	}
	m := sp.Members[recv]
	tn, ok := m.(*ssa.Type)
	if !ok {
		return nil
	}
	T := tn.Type()
	buildAnchorAliases(p)
	if alt := anchorTarget[sp.Pkg.Name()+"."+recv+"."+name]; alt != nil {
		name = alt.Name()
	}
	for _, t := range []types.Type{T, types.NewPointer(T)} {
		ms := p.SSA.MethodSets.MethodSet(t)
		for i := 0; i < ms.Len(); i++ {
			sel := ms.At(i)
			if sel.Obj().Name() == name && len(sel.Index()) == 1 {
				if f := p.SSA.MethodValue(sel); f != nil && f.Synthetic == "" {
					return f
				}
			}
		}
	}
	return nil
}

// Named returns the named type pkg.name of the module.
func (p *Program) Named(pkgSuffix, name string) *types.Named {
	path := modPath
	if pkgSuffix != "" {
		path = modPath + "/" + pkgSuffix
	}
	pk := p.Pkgs[path]
	if pk == nil {
		return nil
	}
	o := pk.Types.Scope().Lookup(name)
	if o == nil {
		return nil
	}
	n, _ := o.Type().(*types.Named)
	return n
}

// SrcFuncs returns every source-level function of the given module packages
// (suffixes; nil = all), including anonymous functions, in a stable order.
func (p *Program) SrcFuncs(pkgSuffixes ...string) []*ssa.Function {
	want := map[string]bool{}
	for _, s := range pkgSuffixes {
		if s == "" {
			want[modPath] = true
		} else {
			want[modPath+"/"+s] = true
		}
	}
	var out []*ssa.Function
	for fn := range p.AllFuncs() {
		if fn.Synthetic != "" && !strings.HasPrefix(fn.Synthetic, "instance of") {
			continue
		}
		if fn.Blocks == nil || !inModule(fn) {
			continue
		}
		if len(want) > 0 && !want[pkgPathOf(fn)] {
			continue
		}
		out = append(out, fn)
	}
	sort.Slice(out, func(i, j int) bool {
		pi, pj := p.Fset.Position(out[i].Pos()), p.Fset.Position(out[j].Pos())
		if pi.Filename != pj.Filename {
			return pi.Filename < pj.Filename
		}
		if pi.Line != pj.Line {
			return pi.Line < pj.Line
		}
		return out[i].String() < out[j].String()
	})
	return out
}

func (p *Program) pos(pos token.Pos) string {
	if !pos.IsValid() {
		return "-"
	}
	ps := p.Fset.Position(pos)
	f := strings.TrimPrefix(ps.Filename, p.Dir+"/")
	return fmt.Sprintf("%s:%d", f, ps.Line)
}

// Decl returns the syntax of a source function.
func (p *Program) Decl(fn *ssa.Function) (*ast.FuncDecl, *packages.Package) {
	if fn == nil {
		return nil, nil
	}
	obj, _ := fn.Object().(*types.Func)
	if obj == nil {
		return nil, nil
	}
	return p.funcDecl[obj], p.declPkg[obj]
}

func (p *Program) DeclOf(obj *types.Func) (*ast.FuncDecl, *packages.Package) {
	if obj == nil {
		return nil, nil
	}
	obj = obj.Origin()
	return p.funcDecl[obj], p.declPkg[obj]
}

// shortName renders a function without the module prefix.
func shortName(fn *ssa.Function) string {
	if fn == nil {
		return "<nil>"
	}
	s := fn.String()
	s = strings.ReplaceAll(s, modPath+"/", "")
	s = strings.ReplaceAll(s, modPath, "imap")
	return s
}
