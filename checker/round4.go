package main

import (
	"fmt"
	"go/constant"
	"go/token"
	"go/types"
	"sort"
	"strings"

	"golang.org/x/tools/go/ssa"
)

// ruleMapFieldsNeverNil: C11.m. A map field that the package writes through
// (m[k] = v) must never be assigned nil: reads of a nil map work, so the slip
// is invisible until the writing response arrives, and the write then panics
// in the read goroutine (with the client's mutex held).
func ruleMapFieldsNeverNil(c *Ctx, rule string, pkgs ...string) {
	p := c.P
	written := map[*types.Var]token.Pos{}
	funcs := p.SrcFuncs(pkgs...)
	for _, fn := range funcs {
		allInstrs(fn, func(i ssa.Instruction) {
			if mu, ok := i.(*ssa.MapUpdate); ok {
				if r, ok := loadedField(mu.Map); ok && r.Field != nil {
					written[r.Field] = mu.Pos()
				}
			}
		})
	}
	if len(written) == 0 {
		c.unresolvedRoot("map fields written through in " + strings.Join(pkgs, ","))
		return
	}
	n := 0
	var names []string
	for f := range written {
		names = append(names, f.Name())
	}
	sort.Strings(names)
	for _, fn := range funcs {
		allInstrs(fn, func(i ssa.Instruction) {
			st, ok := i.(*ssa.Store)
			if !ok {
				return
			}
			r, ok := fieldOf(st.Addr)
			if !ok || r.Field == nil {
				return
			}
			if _, w := written[r.Field]; !w {
				return
			}
			n++
			key := fmt.Sprintf("%s: store %s#%d", fnKey(fn), r.String(), countKey(c, rule, fnKey(fn)+": store "+r.String()+"#")+1)
			c.check(!isNilConst(st.Val), rule, key, st.Pos(), "a non-nil map is stored",
				fmt.Sprintf("%s is reset to nil here but written through at %s: the next write panics (assignment to entry in nil map) in the read goroutine", r.String(), p.pos(written[r.Field])))
		})
	}
	if n == 0 {
		c.okTrivial(rule, "map fields written through ("+strings.Join(names, ",")+") are only initialised in composite literals", token.NoPos, "0 stores")
	}
}

// ruleUpgradeBeforeRelease: C17.g. The channel that releases Client.startTLS
// (upgradeDone) is closed only after upgradeStartTLS has re-seated the
// connection on TLS: released earlier, the caller goes on to send LOGIN on the
// plaintext stream.
func ruleUpgradeBeforeRelease(c *Ctx, rule string) {
	p := c.P
	up := p.Func("imapclient", "Client", "upgradeStartTLS")
	if up == nil {
		c.unresolvedRoot("(*Client).upgradeStartTLS")
		return
	}
	n := 0
	for _, fn := range p.SrcFuncs("imapclient") {
		var closes []ssa.Instruction
		allInstrs(fn, func(i ssa.Instruction) {
			ci, ok := i.(ssa.CallInstruction)
			if !ok {
				return
			}
			b, ok := ci.Common().Value.(*ssa.Builtin)
			if !ok || b.Name() != "close" || len(ci.Common().Args) != 1 {
				return
			}
			if r, ok := loadedField(ci.Common().Args[0]); ok && r.Owner != nil && r.Owner.Obj().Name() == "startTLSCommand" {
				closes = append(closes, i)
			}
		})
		if len(closes) == 0 {
			continue
		}
		flow := mustFlow(fn, facts{}, func(f facts, i ssa.Instruction) facts {
			if call, ok := i.(ssa.CallInstruction); ok && staticCallee(call) == up {
				if _, isDefer := i.(*ssa.Defer); !isDefer {
					return f.with("upgraded")
				}
			}
			return f
		}, nil)
		for _, cl := range closes {
			f, reach := flow.at(cl)
			if !reach {
				continue
			}
			_, isDefer := cl.(*ssa.Defer)
			n++
			c.check(f.has("upgraded") && !isDefer, rule, fmt.Sprintf("%s: close(upgradeDone)#%d", fnKey(fn), n), cl.Pos(),
				"the TLS upgrade has run on every path to the release",
				"the STARTTLS caller is released before upgradeStartTLS has switched the connection to TLS (or on paths where it never runs): what it sends next (LOGIN …) goes out in plaintext")
		}
	}
	if n == 0 {
		c.unresolvedRoot("close of startTLSCommand.upgradeDone")
	}
}

// rulePublishBeforeClose: C18.j. A method that wakes a waiter by closing a
// channel of its receiver has stored everything the waiter reads afterwards
// before the close: no store into another field of the same receiver is
// reachable after close(recv.ch). (ContinuationRequest.Cancel: err before
// done — otherwise the writer blocked in Wait sees a nil error after a tagged
// NO and writes the literal payload.)
func rulePublishBeforeClose(c *Ctx, rule string, pkgs ...string) {
	p := c.P
	n := 0
	for _, fn := range p.SrcFuncs(pkgs...) {
		if fn.Signature.Recv() == nil || len(fn.Params) == 0 {
			continue
		}
		recv := fn.Params[0]
		var closes []ssa.Instruction
		allInstrs(fn, func(i ssa.Instruction) {
			ci, ok := i.(ssa.CallInstruction)
			if !ok {
				return
			}
			b, ok := ci.Common().Value.(*ssa.Builtin)
			if !ok || b.Name() != "close" || len(ci.Common().Args) != 1 {
				return
			}
			if r, ok := loadedField(ci.Common().Args[0]); ok && (r.Base == ssa.Value(recv) || paramOf(r.Base) == recv) {
				if _, isDefer := i.(*ssa.Defer); !isDefer {
					closes = append(closes, i)
				}
			}
		})
		if len(closes) == 0 {
			continue
		}
		// stores into other fields of the receiver
		var stores []*ssa.Store
		allInstrs(fn, func(i ssa.Instruction) {
			if st, ok := i.(*ssa.Store); ok {
				if r, ok := fieldOf(st.Addr); ok && (r.Base == ssa.Value(recv) || paramOf(r.Base) == recv) {
					if _, isChan := r.Field.Type().Underlying().(*types.Chan); !isChan {
						stores = append(stores, st)
					}
				}
			}
		})
		if len(stores) == 0 {
			continue
		}
		for _, cl := range closes {
			late := token.NoPos
			for _, st := range stores {
				if st.Block() == cl.Block() {
					if precedes(cl, st) {
						late = st.Pos()
					}
				} else if reaches(cl.Block(), st.Block()) {
					late = st.Pos()
				}
			}
			n++
			c.check(!late.IsValid(), rule, fmt.Sprintf("%s: publish before close#%d", fnKey(fn), countKey(c, rule, fnKey(fn)+": publish before close#")+1), cl.Pos(),
				"every store into the receiver precedes the close that wakes the waiter",
				fmt.Sprintf("a field of the receiver is stored (at %s) after the channel that wakes the waiter has been closed: the waiter can read the old value (for a continuation request: no error after a tagged NO, so the literal payload is written after the refusal)", p.pos(late)))
		}
	}
	if n == 0 {
		c.unresolvedRoot("methods that store receiver fields and close a receiver channel")
	}
}

// ruleResetRestoresState: C16.h. A transformer with state (fields) declares
// its own Reset, and Reset stores into every field: transform.String and the
// x/text encoding wrappers call Reset before reuse and rely on it.
func ruleResetRestoresState(c *Ctx, rule string) {
	p := c.P
	pk := p.Pkgs[modPath+"/internal/utf7"]
	if pk == nil {
		c.unresolvedRoot("package internal/utf7")
		return
	}
	n := 0
	sc := pk.Types.Scope()
	for _, name := range sc.Names() {
		tn, ok := sc.Lookup(name).(*types.TypeName)
		if !ok {
			continue
		}
		st, ok := tn.Type().Underlying().(*types.Struct)
		if !ok {
			continue
		}
		ptr := types.NewPointer(tn.Type())
		tr, _, _ := types.LookupFieldOrMethod(ptr, true, pk.Types, "Transform")
		if tr == nil {
			continue
		}
		var state []*types.Var
		for i := 0; i < st.NumFields(); i++ {
			if f := st.Field(i); !f.Embedded() {
				state = append(state, f)
			}
		}
		if len(state) == 0 {
			continue
		}
		n++
		obj, _, _ := types.LookupFieldOrMethod(ptr, true, pk.Types, "Reset")
		fnObj, _ := obj.(*types.Func)
		key := tn.Name() + ": Reset restores the state"
		if fnObj == nil || fnObj.Pkg() != pk.Types {
			c.fail(rule, key, tn.Pos(), "the stateful transformer "+tn.Name()+" has no Reset of its own (a promoted no-op Reset leaves the shift state of an aborted decode in place: the next, valid name is refused or mis-decoded)")
			continue
		}
		fn := p.SSA.FuncValue(fnObj)
		stored := map[*types.Var]bool{}
		if fn != nil {
			allInstrs(fn, func(i ssa.Instruction) {
				if s2, ok := i.(*ssa.Store); ok {
					if r, ok := fieldOf(s2.Addr); ok && r.Field != nil {
						stored[r.Field] = true
					}
				}
			})
		}
		var missing []string
		for _, f := range state {
			if !stored[f] {
				missing = append(missing, f.Name())
			}
		}
		c.check(len(missing) == 0, rule, key, fnObj.Pos(), "Reset stores into every state field",
			"Reset does not restore "+strings.Join(missing, ",")+": state of a previous (aborted) transformation leaks into the next one")
	}
	if n == 0 {
		c.okTrivial(rule, "no stateful transformer in internal/utf7", token.NoPos, "0 types")
	}
}

// ruleNoCloseOfSharedSendChannel: C14.f. A channel stored in a field and sent
// on by another function after it has copied the field under the lock (and
// released the lock) must never be closed: the sender may still hold the copy
// and a send on a closed channel panics in an unrelated session's handler.
func ruleNoCloseOfSharedSendChannel(c *Ctx, rule string, pkgs ...string) {
	p := c.P
	fieldOfChan := func(v ssa.Value) *types.Var {
		seen := map[ssa.Value]bool{}
		for k := 0; k < 6 && v != nil && !seen[v]; k++ {
			seen[v] = true
			if r, ok := loadedField(v); ok && r.Field != nil {
				if _, isCh := r.Field.Type().Underlying().(*types.Chan); isCh {
					return r.Field
				}
			}
			switch x := v.(type) {
			case *ssa.ChangeType:
				v = x.X
			case *ssa.UnOp:
				if al, ok := x.X.(*ssa.Alloc); ok {
					var sv ssa.Value
					for _, ref := range *al.Referrers() {
						if st, ok := ref.(*ssa.Store); ok && st.Addr == ssa.Value(al) {
							sv = st.Val
						}
					}
					v = sv
				} else {
					return nil
				}
			case *ssa.Phi:
				var nx ssa.Value
				for _, e := range x.Edges {
					if !isNilConst(e) {
						nx = e
					}
				}
				v = nx
			default:
				return nil
			}
		}
		return nil
	}
	sentIn := map[*types.Var]*ssa.Function{}
	funcs := p.SrcFuncs(pkgs...)
	for _, fn := range funcs {
		allInstrs(fn, func(i ssa.Instruction) {
			switch x := i.(type) {
			case *ssa.Send:
				if f := fieldOfChan(x.Chan); f != nil {
					sentIn[f] = fn
				}
			case *ssa.Select:
				for _, st := range x.States {
					if st.Dir == types.SendOnly {
						if f := fieldOfChan(st.Chan); f != nil {
							sentIn[f] = fn
						}
					}
				}
			}
		})
	}
	// which make(chan) ends up in which field
	madeFor := map[ssa.Value]*types.Var{}
	for _, fn := range funcs {
		allInstrs(fn, func(i ssa.Instruction) {
			st, ok := i.(*ssa.Store)
			if !ok {
				return
			}
			r, ok := fieldOf(st.Addr)
			if !ok || r.Field == nil {
				return
			}
			if _, isCh := r.Field.Type().Underlying().(*types.Chan); !isCh {
				return
			}
			for _, src := range chanSources(st.Val, map[ssa.Value]bool{}) {
				madeFor[src] = r.Field
			}
		})
	}
	n := 0
	for _, fn := range funcs {
		for _, g := range withAnon(fn) {
			if g != fn && g.Parent() == nil {
				continue
			}
			allInstrs(g, func(i ssa.Instruction) {
				ci, ok := i.(ssa.CallInstruction)
				if !ok {
					return
				}
				b, ok := ci.Common().Value.(*ssa.Builtin)
				if !ok || b.Name() != "close" || len(ci.Common().Args) != 1 {
					return
				}
				v := ci.Common().Args[0]
				f := fieldOfChan(v)
				if f == nil {
					// a (captured) local that was also stored into a field
					for _, src := range chanSources(v, map[ssa.Value]bool{}) {
						if ff := madeFor[src]; ff != nil {
							f = ff
						}
					}
				}
				if f == nil {
					return
				}
				sender, shared := sentIn[f]
				if !shared {
					return
				}
				root := g
				for root.Parent() != nil {
					root = root.Parent()
				}
				if sender == root {
					return
				}
				n++
				c.fail(rule, fmt.Sprintf("%s: close of %s", fnKey(g), f.Name()), i.Pos(),
					fmt.Sprintf("the channel in %s is closed here, but %s sends on a copy of it taken under the lock after releasing the lock: a send racing with this close panics (send on closed channel) in another session's command", f.Name(), fnKey(sender)))
			})
		}
	}
	if n == 0 {
		var names []string
		for f := range sentIn {
			names = append(names, f.Name())
		}
		sort.Strings(names)
		c.ok(rule, "no close of a channel field that another function sends on", token.NoPos, "channel fields with sends: "+strings.Join(names, ","))
	}
}

// ruleUpdateWritersUnconditional: C08.m. The connection's update writers
// (writeExists, writeExpunge, …: what UpdateWriter hands the tracker's queue
// to) put their response on the wire on every path: an update the tracker
// delivered is the client's only way to learn the new count, it may not be
// suppressed by connection-local state.
func ruleUpdateWritersUnconditional(c *Ctx, rule string) {
	p := c.P
	uw := p.Named("imapserver", "UpdateWriter")
	if uw == nil {
		c.unresolvedRoot("imapserver.UpdateWriter")
		return
	}
	n := 0
	seen := map[*ssa.Function]bool{}
	for _, fn := range p.SrcFuncs("imapserver") {
		if fn.Signature.Recv() == nil || recvNamedOfFn(fn) != uw {
			continue
		}
		allInstrs(fn, func(i ssa.Instruction) {
			call, ok := i.(ssa.CallInstruction)
			if !ok {
				return
			}
			w := staticCallee(call)
			if w == nil || seen[w] || !strings.HasPrefix(w.Name(), "write") || w.Signature.Recv() == nil {
				return
			}
			seen[w] = true
			// helpers that write on all of their paths count as writes
			var alwaysWrites func(h *ssa.Function, d int) bool
			awCache := map[*ssa.Function]int{}
			var genW func(d int) func(f facts, j ssa.Instruction) facts
			genW = func(d int) func(f facts, j ssa.Instruction) facts {
				return func(f facts, j ssa.Instruction) facts {
					if c2, ok := j.(ssa.CallInstruction); ok {
						if k := callKey(c2); strings.HasPrefix(k, "(*Encoder).") || strings.Contains(k, "newResponseEncoder") {
							return f.with("wrote")
						}
						if h := staticCallee(c2); h != nil && d > 0 && inModule(h) && alwaysWrites(h, d-1) {
							return f.with("wrote")
						}
					}
					return f
				}
			}
			alwaysWrites = func(h *ssa.Function, d int) bool {
				if v, ok := awCache[h]; ok {
					return v == 1
				}
				awCache[h] = 0
				if h.Blocks == nil {
					return false
				}
				hf := mustFlow(h, facts{}, genW(d), nil)
				all := len(returnsOf(h)) > 0
				for _, r := range returnsOf(h) {
					if f, reach := hf.at(r); reach && !f.has("wrote") {
						all = false
					}
				}
				if all {
					awCache[h] = 1
				}
				return all
			}
			flow := mustFlow(w, facts{}, genW(2), nil)
			bad := token.NoPos
			for _, r := range returnsOf(w) {
				f, reach := flow.at(r)
				if reach && !f.has("wrote") {
					bad = r.Pos()
				}
			}
			n++
			c.check(!bad.IsValid(), rule, fnKey(w)+": writes on every path", w.Pos(), "every return has passed the response encoder",
				"a path of "+fnKey(w)+" returns without writing the update (at "+p.pos(bad)+"): an update dequeued from the tracker is dropped, and the client's view of the mailbox no longer matches the sequence numbers the server uses")
		})
	}
	if n == 0 {
		c.unresolvedRoot("write* methods called by UpdateWriter")
	}
}

func recvNamedOfFn(fn *ssa.Function) *types.Named {
	r := fn.Signature.Recv()
	if r == nil {
		return nil
	}
	t := r.Type()
	if pt, ok := t.(*types.Pointer); ok {
		t = pt.Elem()
	}
	n, _ := types.Unalias(t).(*types.Named)
	return n
}

// ruleSearchResDiscipline: C09.k / C19.i. The saved search result (SEARCHRES,
// `$`) of a mailbox view is (1) replaced whenever SAVE was requested — the
// store depends on option fields only, not on what the search found — and (2)
// written only after the criteria of the running command have been resolved
// against the previous value (the call that reads the field dominates every
// store).
func ruleSearchResDiscipline(c *Ctx, rule string) {
	p := c.P
	n := 0
	for _, fn := range p.SrcFuncs("imapserver/imapmemserver") {
		var stores []*ssa.Store
		allInstrs(fn, func(i ssa.Instruction) {
			if st, ok := i.(*ssa.Store); ok {
				if r, ok := fieldOf(st.Addr); ok && r.Field != nil && r.Field.Name() == "searchRes" {
					stores = append(stores, st)
				}
			}
		})
		if len(stores) == 0 || fn.Signature.Recv() == nil {
			continue
		}
		// readers of the field: callees (depth 2) that load it
		reads := func(g *ssa.Function) bool {
			found := false
			for _, h := range helperClosure(g, 2) {
				allInstrs(h, func(i ssa.Instruction) {
					if fa, ok := i.(*ssa.FieldAddr); ok {
						if r, ok := fieldOf(fa); ok && r.Field != nil && r.Field.Name() == "searchRes" {
							for _, ref := range *fa.Referrers() {
								if u, ok := ref.(*ssa.UnOp); ok && u.Op == token.MUL {
									found = true
								}
							}
						}
					}
				})
			}
			return found
		}
		var readerCalls []ssa.Instruction
		allInstrs(fn, func(i ssa.Instruction) {
			if call, ok := i.(ssa.CallInstruction); ok {
				if cal := staticCallee(call); cal != nil && cal != fn && inModule(cal) && reads(cal) {
					readerCalls = append(readerCalls, i)
				}
			}
		})
		pd := postDominators(fn)
		for _, st := range stores {
			if isFreshLocal(st.Addr.(*ssa.FieldAddr).X) {
				continue
			}
			n++
			k := countKey(c, rule, fnKey(fn)+": store searchRes#") + 1
			// (1)
			var foreign []string
			for x := range transitiveDeps(fn, pd, st.Block()) {
				ifi, isIf := x.Instrs[len(x.Instrs)-1].(*ssa.If)
				if !isIf {
					continue
				}
				opt := false
				for _, f := range fieldsInCond(ifi.Cond, map[ssa.Value]bool{}) {
					if f.Owner != nil && strings.HasSuffix(f.Owner.Obj().Name(), "Options") {
						opt = true
					}
				}
				onlyOpt := opt
				// a conjunction with something else is foreign
				for _, a := range atomsOf(ifi.Cond, true) {
					if r, ok := loadedField(a.V); ok && r.Owner != nil && strings.HasSuffix(r.Owner.Obj().Name(), "Options") {
						continue
					}
					if _, isPhi := a.V.(*ssa.Phi); isPhi {
						continue
					}
					onlyOpt = false
				}
				isErr := false
				for _, a := range atomsOf(ifi.Cond, true) {
					if a.Nil != 0 && isErrorType(a.V.Type()) {
						isErr = true
					}
				}
				if isErr || onlyOpt {
					continue
				}
				foreign = append(foreign, p.pos(condPos(ifi)))
			}
			c.check(len(foreign) == 0, rule, fmt.Sprintf("%s: store searchRes#%d depends on options only", fnKey(fn), k), st.Pos(),
				"the saved result is replaced whenever the SAVE option asks for it",
				"the saved search result is replaced only under a further condition (tested at "+strings.Join(uniq(foreign), ", ")+"): a SEARCH RETURN (SAVE) that does not meet it leaves the previous result in `$`, and later commands act on stale messages")
			// (2)
			if len(readerCalls) > 0 {
				okDom := false
				for _, rc := range readerCalls {
					if rc.Block() == st.Block() && precedes(rc, st) || rc.Block() != st.Block() && rc.Block().Dominates(st.Block()) {
						okDom = true
					}
				}
				c.check(okDom, rule, fmt.Sprintf("%s: store searchRes#%d after the criteria are resolved", fnKey(fn), k), st.Pos(),
					"the call that reads the previous saved result dominates the store",
					"the saved search result is overwritten before the running command's criteria have been resolved against it: a `$` key in a SEARCH RETURN (SAVE) sees the reset value instead of the previous result")
			}
		}
	}
	if n == 0 {
		c.unresolvedRoot("stores into the saved search result of the in-memory backend")
	}
}

// ruleAtomicGuardedClose: C13.n. A type that carries an atomic flag
// (sync/atomic.Bool …) is meant to be used from several goroutines; a
// close(ch) of one of its channels in a method is a one-shot action and must be
// guarded by the flag's atomic read-modify-write (Swap / CompareAndSwap), not
// by a plain Load followed by a later Store: two concurrent callers both pass
// a Load and the second close panics.
func ruleAtomicGuardedClose(c *Ctx, rule string, pkgs ...string) {
	p := c.P
	n := 0
	hasAtomicField := func(nm *types.Named) bool {
		st, ok := nm.Underlying().(*types.Struct)
		if !ok {
			return false
		}
		for i := 0; i < st.NumFields(); i++ {
			if strings.HasPrefix(st.Field(i).Type().String(), "sync/atomic.") {
				return true
			}
		}
		return false
	}
	for _, fn := range p.SrcFuncs(pkgs...) {
		nm := recvNamedOfFn(fn)
		if nm == nil || !hasAtomicField(nm) || len(fn.Params) == 0 {
			continue
		}
		// only what the user can call (concurrently): the type's own
		// goroutine runs once
		if o, ok := fn.Object().(*types.Func); !ok || !o.Exported() {
			continue
		}
		recv := fn.Params[0]
		var closes []ssa.Instruction
		allInstrs(fn, func(i ssa.Instruction) {
			ci, ok := i.(ssa.CallInstruction)
			if !ok {
				return
			}
			b, ok := ci.Common().Value.(*ssa.Builtin)
			if !ok || b.Name() != "close" || len(ci.Common().Args) != 1 {
				return
			}
			if r, ok := loadedField(ci.Common().Args[0]); ok && (r.Base == ssa.Value(recv) || paramOf(r.Base) == recv) {
				closes = append(closes, i)
			}
		})
		if len(closes) == 0 {
			continue
		}
		flow := mustFlow(fn, facts{}, nil, func(f facts, b *ssa.BasicBlock, s int) facts {
			for _, a := range edgeAtoms(b, s) {
				call, ok := a.V.(*ssa.Call)
				if !ok || a.True == 0 {
					continue
				}
				o := calleeObj(call)
				if o == nil || o.Pkg() == nil || o.Pkg().Path() != "sync/atomic" {
					continue
				}
				// Swap(true) returning false, or CompareAndSwap returning true: this caller won
				if o.Name() == "Swap" && a.True == -1 || o.Name() == "CompareAndSwap" && a.True == 1 {
					f = f.with("won")
				}
			}
			return f
		})
		for _, cl := range closes {
			f, reach := flow.at(cl)
			if !reach {
				continue
			}
			n++
			c.check(f.has("won"), rule, fmt.Sprintf("%s: close#%d", fnKey(fn), countKey(c, rule, fnKey(fn)+": close#")+1), cl.Pos(),
				"the close is reached only by the caller that won the atomic test-and-set",
				"the channel is closed without an atomic test-and-set on the type's flag (a Load followed by a later Store lets two concurrent callers through): the second close panics")
		}
	}
	if n == 0 {
		c.unresolvedRoot("channel closes in methods of types with an atomic flag")
	}
}

// ruleEncoderEndOnce: C13.o. A command object that owns the command encoder
// (and with it Client.encMutex) releases it at most once: the call of
// commandEncoder.end() through the owning field is guarded by a non-nil test
// of that field and followed, on every path, by resetting the field to nil. A
// second Close otherwise unlocks a mutex that another goroutine's command
// holds (its literal is then interleaved with a third command) or panics.
func ruleEncoderEndOnce(c *Ctx, rule string) {
	p := c.P
	end := p.Func("imapclient", "commandEncoder", "end")
	if end == nil {
		c.unresolvedRoot("(*commandEncoder).end")
		return
	}
	n := 0
	for _, fn := range p.SrcFuncs("imapclient") {
		// what the user can call again: methods with an exported name
		if o, ok := fn.Object().(*types.Func); !ok || !o.Exported() || fn.Signature.Recv() == nil {
			continue
		}
		var sites []*ssa.Call
		allInstrs(fn, func(i ssa.Instruction) {
			if call, ok := i.(*ssa.Call); ok && staticCallee(call) == end && len(call.Call.Args) > 0 {
				if r, ok := loadedField(call.Call.Args[0]); ok && r.Field != nil && r.Owner != nil {
					sites = append(sites, call)
				}
			}
		})
		for _, site := range sites {
			r, _ := loadedField(site.Call.Args[0])
			flow := mustFlow(fn, facts{}, func(f facts, i ssa.Instruction) facts {
				if st, ok := i.(*ssa.Store); ok {
					if r2, ok := fieldOf(st.Addr); ok && r2.Field == r.Field {
						if isNilConst(st.Val) {
							return f.with("reset")
						}
						return f.without(func(s string) bool { return s == "reset" })
					}
				}
				if i == ssa.Instruction(site) {
					return f.without(func(s string) bool { return s == "reset" })
				}
				return f
			}, func(f facts, b *ssa.BasicBlock, s int) facts {
				for _, a := range edgeAtoms(b, s) {
					if a.Nil == -1 {
						if r2, ok := loadedField(a.V); ok && r2.Field == r.Field {
							f = f.with("nonnil")
						}
					}
					if a.Nil == 1 {
						if r2, ok := loadedField(a.V); ok && r2.Field == r.Field {
							f = f.with("reset") // already released
						}
					}
				}
				return f
			})
			f, reach := flow.at(site)
			if !reach {
				continue
			}
			okReset := true
			for _, ret := range returnsOf(fn) {
				if ret.Block() != site.Block() && !reaches(site.Block(), ret.Block()) {
					continue
				}
				rf, rr := flow.at(ret)
				if rr && !rf.has("reset") {
					okReset = false
				}
			}
			n++
			c.check(f.has("nonnil") && okReset, rule, fmt.Sprintf("%s: %s.end()", fnKey(fn), r.String()), site.Pos(),
				"guarded by a non-nil test of the owning field and followed by resetting it",
				"the encoder held in "+r.String()+" is ended without the `!= nil` guard or without resetting the field afterwards: a second call releases Client.encMutex again — while another goroutine's command holds it (commands interleave on the wire) or when nobody does (fatal unlock of unlocked mutex)")
		}
	}
	if n == 0 {
		c.unresolvedRoot("commandEncoder.end() through an owning field")
	}
}

// ruleNoCommandWhileEncoding: C10.o. Between beginCommand (which takes
// Client.encMutex) and the end of the command's encoding no function that may
// itself issue a command and wait for it (Client.Caps → Capability().Wait())
// is called: it would wait for the very lock this goroutine holds.
func ruleNoCommandWhileEncoding(c *Ctx, rule string) {
	p := c.P
	begin := p.Func("imapclient", "Client", "beginCommand")
	if begin == nil {
		c.unresolvedRoot("(*Client).beginCommand")
		return
	}
	// functions that may issue a command and wait for its completion
	issues := map[*ssa.Function]bool{}
	waits := map[*ssa.Function]bool{}
	for _, fn := range p.SrcFuncs("imapclient") {
		allInstrs(fn, func(i ssa.Instruction) {
			if call, ok := i.(ssa.CallInstruction); ok {
				if _, isGo := i.(*ssa.Go); isGo {
					return
				}
				if cal := staticCallee(call); cal != nil {
					if cal == begin {
						issues[fn] = true
					}
					if cal.Name() == "Wait" && pkgPathOf(cal) == modPath+"/imapclient" {
						waits[fn] = true
					}
				}
				// a blocking receive counts as waiting too
			}
			if u, ok := i.(*ssa.UnOp); ok && u.Op == token.ARROW {
				waits[fn] = true
			}
		})
	}
	// transitive: reaches an issuing function and a wait (not through go statements)
	var reach func(fn *ssa.Function, target map[*ssa.Function]bool, seen map[*ssa.Function]bool, d int) bool
	reach = func(fn *ssa.Function, target map[*ssa.Function]bool, seen map[*ssa.Function]bool, d int) bool {
		if fn == nil || seen[fn] || d > 5 || fn.Blocks == nil {
			return false
		}
		seen[fn] = true
		if target[fn] {
			return true
		}
		found := false
		allInstrs(fn, func(i ssa.Instruction) {
			if _, isGo := i.(*ssa.Go); isGo {
				return
			}
			if call, ok := i.(ssa.CallInstruction); ok && !found {
				if cal := staticCallee(call); cal != nil && inModule(cal) && reach(cal, target, seen, d+1) {
					found = true
				}
			}
		})
		return found
	}
	blocking := func(fn *ssa.Function) bool {
		return reach(fn, issues, map[*ssa.Function]bool{}, 0) && reach(fn, waits, map[*ssa.Function]bool{}, 0)
	}
	n := 0
	for _, fn := range p.SrcFuncs("imapclient") {
		if fn == begin {
			continue
		}
		var bsite *ssa.Call
		allInstrs(fn, func(i ssa.Instruction) {
			if call, ok := i.(*ssa.Call); ok && staticCallee(call) == begin && bsite == nil {
				bsite = call
			}
		})
		if bsite == nil {
			continue
		}
		n++
		bad := ""
		var badPos token.Pos
		allInstrs(fn, func(i ssa.Instruction) {
			call, ok := i.(*ssa.Call)
			if !ok || call == bsite {
				return
			}
			cal := staticCallee(call)
			if cal == nil || !inModule(cal) || cal == begin {
				return
			}
			after := call.Block() == bsite.Block() && precedes(bsite, call) || call.Block() != bsite.Block() && bsite.Block().Dominates(call.Block())
			if !after {
				return
			}
			// the encoder has been ended explicitly before this call
			ended := false
			allInstrs(fn, func(j ssa.Instruction) {
				e, ok := j.(*ssa.Call)
				if !ok || e == call {
					return
				}
				if k := callKey(e); k != "(*commandEncoder).end" {
					return
				}
				if e.Block() == call.Block() && precedes(e, call) || e.Block() != call.Block() && e.Block().Dominates(call.Block()) {
					ended = true
				}
			})
			if ended {
				return
			}
			// the command's own Wait after its encoding has ended is the normal pattern:
			// only calls that *issue* another command are a problem
			if blocking(cal) && reach(cal, issues, map[*ssa.Function]bool{}, 0) {
				bad, badPos = fnKey(cal), call.Pos()
			}
		})
		c.check(bad == "", rule, fnKey(fn)+": no command issued while holding the encoder", bsite.Pos(),
			"no call between beginCommand and the end of the function can issue and await another command",
			fmt.Sprintf("%s is called (at %s) after beginCommand has taken the encoder lock; it may issue a command of its own and wait for it — which needs the same lock: the goroutine waits for itself and the client hangs", bad, p.pos(badPos)))
	}
	if n == 0 {
		c.unresolvedRoot("callers of beginCommand")
	}
}

// ruleContReqResolved: C10.p. A continuation request taken off the client's
// queue is resolved — Done or Cancel — on every path that follows: its writer
// blocks in Wait until then, and nothing else will ever find the request
// again. (Parsing the rest of the '+' line must therefore come first, or its
// failure path must cancel.)
func ruleContReqResolved(c *Ctx, rule string) {
	p := c.P
	n := 0
	for _, fn := range p.SrcFuncs("imapclient") {
		var pops []*ssa.Store
		allInstrs(fn, func(i ssa.Instruction) {
			st, ok := i.(*ssa.Store)
			if !ok {
				return
			}
			r, ok := fieldOf(st.Addr)
			if !ok || !r.is("Client", "contReqs") || isNilConst(st.Val) {
				return
			}
			// a pop: the stored value is built from a re-slice of the field starting at 1
			isPop := false
			seen := map[ssa.Value]bool{}
			var walk func(v ssa.Value, d int)
			walk = func(v ssa.Value, d int) {
				if v == nil || seen[v] || d > 6 {
					return
				}
				seen[v] = true
				if sl, ok := v.(*ssa.Slice); ok && sl.Low != nil {
					if k, ok := constInt(sl.Low); ok && k >= 1 {
						isPop = true
					}
				}
				if in, ok := v.(ssa.Instruction); ok {
					for _, op := range in.Operands(nil) {
						if *op != nil {
							walk(*op, d+1)
						}
					}
				}
			}
			walk(st.Val, 0)
			if isPop {
				pops = append(pops, st)
			}
		})
		if len(pops) == 0 {
			continue
		}
		// a helper that pops and hands the request back: the obligation is its callers'
		returnsReq := false
		for k := 0; k < fn.Signature.Results().Len(); k++ {
			if strings.HasSuffix(fn.Signature.Results().At(k).Type().String(), "ContinuationRequest") {
				returnsReq = true
			}
		}
		if returnsReq {
			for _, site := range callSitesOf(p, fn) {
				caller := site.Parent()
				cflow := mustFlow(caller, facts{}, func(f facts, i ssa.Instruction) facts {
					if call, ok := i.(ssa.CallInstruction); ok {
						if k := callKey(call); k == "(*ContinuationRequest).Done" || k == "(*ContinuationRequest).Cancel" {
							return f.with("resolved")
						}
					}
					return f
				}, func(f facts, b *ssa.BasicBlock, s int) facts {
					for _, a := range edgeAtoms(b, s) {
						if a.Nil == 1 && strings.HasSuffix(a.V.Type().String(), "ContinuationRequest") {
							f = f.with("resolved")
						}
					}
					return f
				})
				bad := token.NoPos
				for _, ret := range returnsOf(caller) {
					if ret.Block() != site.Block() && !reaches(site.Block(), ret.Block()) {
						continue
					}
					if f, reach := cflow.at(ret); reach && !f.has("resolved") {
						bad = ret.Pos()
					}
				}
				n++
				c.check(!bad.IsValid(), rule, fmt.Sprintf("%s: request popped by %s#%d", fnKey(caller), fn.Name(), n), site.Pos(),
					"every return after the pop has called Done or Cancel on the request",
					"a return (at "+p.pos(bad)+") follows the removal of the oldest continuation request from the queue without Done or Cancel: the writer blocked in Wait (IDLE, a synchronising literal) is never woken")
			}
			continue
		}
		flow := mustFlow(fn, facts{}, func(f facts, i ssa.Instruction) facts {
			if call, ok := i.(ssa.CallInstruction); ok {
				if k := callKey(call); k == "(*ContinuationRequest).Done" || k == "(*ContinuationRequest).Cancel" {
					return f.with("resolved")
				}
			}
			return f
		}, func(f facts, b *ssa.BasicBlock, s int) facts {
			for _, a := range edgeAtoms(b, s) {
				// the request variable is nil: nothing was taken off the queue
				if a.Nil == 1 && strings.HasSuffix(a.V.Type().String(), "ContinuationRequest") {
					f = f.with("resolved")
				}
			}
			return f
		})
		for _, pop := range pops {
			bad := token.NoPos
			for _, ret := range returnsOf(fn) {
				if ret.Block() != pop.Block() && !reaches(pop.Block(), ret.Block()) {
					continue
				}
				f, reach := flow.at(ret)
				if reach && !f.has("resolved") {
					bad = ret.Pos()
				}
			}
			n++
			c.check(!bad.IsValid(), rule, fmt.Sprintf("%s: popped continuation request#%d", fnKey(fn), n), pop.Pos(),
				"every return after the pop has called Done or Cancel on the request",
				"a return (at "+p.pos(bad)+") follows the removal of the oldest continuation request from the queue without Done or Cancel: the writer blocked in Wait (IDLE, a synchronising literal) is never woken")
		}
	}
	if n == 0 {
		c.unresolvedRoot("pops of Client.contReqs")
	}
}

// ruleLostUpdateOnCopy: C12.p / C03.o. Number sets are slice types whose
// mutators have pointer receivers. `s := cmd.set; s.AddNum(n)` mutates a copy
// of the slice header: when the local is not read again (and not stored back)
// after the mutating call, the update is lost — the command forgets which
// messages it has already been given.
func ruleLostUpdateOnCopy(c *Ctx, rule string, pkgs ...string) {
	p := c.P
	n := 0
	for _, fn := range p.SrcFuncs(pkgs...) {
		allInstrs(fn, func(i ssa.Instruction) {
			call, ok := i.(*ssa.Call)
			if !ok || len(call.Call.Args) == 0 {
				return
			}
			o := calleeObj(call)
			if o == nil || recvNamed(o) == nil {
				return
			}
			sig, _ := o.Type().(*types.Signature)
			if sig == nil || sig.Recv() == nil {
				return
			}
			if _, isPtr := sig.Recv().Type().(*types.Pointer); !isPtr {
				return
			}
			if !strings.HasPrefix(o.Name(), "Add") && !strings.HasPrefix(o.Name(), "Remove") && !strings.HasPrefix(o.Name(), "Insert") {
				return
			}
			cell, ok := call.Call.Args[0].(*ssa.Alloc)
			if !ok {
				return
			}
			// the local was initialised from a field (a copy of shared state)
			var from *fieldRef
			for _, ref := range *cell.Referrers() {
				if st, ok := ref.(*ssa.Store); ok && st.Addr == ssa.Value(cell) {
					if r, ok := loadedField(st.Val); ok && r.Field != nil {
						rr := r
						from = &rr
					}
				}
			}
			if from == nil {
				return
			}
			n++
			// read again after the call?
			usedAfter := false
			for _, ref := range *cell.Referrers() {
				if ref == ssa.Instruction(call) {
					continue
				}
				if _, isStore := ref.(*ssa.Store); isStore {
					continue
				}
				rb := ref.Block()
				if rb == call.Block() && precedes(call, ref) || rb != call.Block() && reaches(call.Block(), rb) {
					usedAfter = true
				}
			}
			c.check(usedAfter, rule, fmt.Sprintf("%s: %s on a copy of %s", fnKey(fn), o.Name(), from.String()), call.Pos(),
				"the mutated local is read again (stored back or used) after the call",
				fmt.Sprintf("%s is copied into a local, the copy is mutated through the pointer-receiver method %s and never read again: the update is lost in %s (slice header copied by value)", from.String(), o.Name(), from.String()))
		})
	}
	if n == 0 {
		c.okTrivial(rule, "no pointer-receiver mutation of a local copy of a field", token.NoPos, "0 sites in "+strings.Join(pkgs, ","))
	}
}

// ruleNoRuneReencoding: C01.k / C03.p. The wire encoder carries strings as
// bytes. Iterating a string by rune on the write path and writing the runes
// back replaces every byte that is not valid UTF-8 by U+FFFD: a value the
// backend supplied (raw 8-bit header data) arrives changed.
func ruleNoRuneReencoding(c *Ctx, rule string) {
	p := c.P
	n, bad := 0, 0
	for _, fn := range p.SrcFuncs("internal/imapwire") {
		if nm := recvNamedOfFn(fn); nm == nil || nm.Obj().Name() != "Encoder" {
			continue
		}
		allInstrs(fn, func(i ssa.Instruction) {
			rg, ok := i.(*ssa.Range)
			if !ok {
				return
			}
			if b, ok := rg.X.Type().Underlying().(*types.Basic); !ok || b.Info()&types.IsString == 0 {
				return
			}
			n++
			// does the rune (Extract #2 of Next) flow into a write?
			writes := false
			var walk func(v ssa.Value, d int)
			seen := map[ssa.Value]bool{}
			walk = func(v ssa.Value, d int) {
				if v == nil || seen[v] || d > 6 || v.Referrers() == nil {
					return
				}
				seen[v] = true
				for _, ref := range *v.Referrers() {
					switch u := ref.(type) {
					case *ssa.Next:
						walk(u, d+1)
					case *ssa.Extract:
						if u.Index == 2 {
							walk(u, d+1)
						}
					case *ssa.Convert:
						walk(u, d+1)
					case ssa.CallInstruction:
						if o := calleeObj(u); o != nil && (strings.HasPrefix(o.Name(), "Write") || strings.HasPrefix(o.Name(), "Append") || o.Name() == "writeString") {
							writes = true
						}
					case *ssa.BinOp:
						if u.Op == token.ADD {
							writes = true // string concatenation
						}
					case *ssa.Phi:
						walk(u, d+1)
					}
				}
			}
			walk(rg, 0)
			if writes {
				bad++
				c.fail(rule, fmt.Sprintf("%s: range over string#%d", fnKey(fn), bad), rg.Pos(),
					"the encoder iterates a string by rune and writes the runes back: bytes that are not valid UTF-8 are replaced by U+FFFD on the wire (the value no longer round-trips)")
			}
		})
	}
	if bad == 0 {
		c.ok(rule, "the wire encoder never re-encodes runes", token.NoPos, fmt.Sprintf("%d range-over-string loops in Encoder methods, none writes the rune back", n))
	}
}

// ruleConstIndexGuarded: C06.l / C15.g. An index or re-slice with a constant
// offset into a string or slice that can be empty (a decoded atom after
// TrimSuffix, a caller-supplied set) needs a dominating length test: `x[0]`,
// `x[1:]`, `&x[0]`.
func ruleConstIndexGuarded(c *Ctx, rule string, pkgs ...string) {
	p := c.P
	n := 0
	for _, fn := range p.SrcFuncs(pkgs...) {
		type site struct {
			at   ssa.Instruction
			base ssa.Value
			k    int64
		}
		var sites []site
		allInstrs(fn, func(i ssa.Instruction) {
			switch x := i.(type) {
			case *ssa.Lookup:
				if b, ok := x.X.Type().Underlying().(*types.Basic); ok && b.Info()&types.IsString != 0 {
					if k, ok := constInt(x.Index); ok {
						sites = append(sites, site{i, x.X, k})
					}
				}
			case *ssa.IndexAddr:
				if _, ok := x.X.Type().Underlying().(*types.Slice); ok {
					if k, ok := constInt(x.Index); ok {
						sites = append(sites, site{i, x.X, k})
					}
				}
			case *ssa.Slice:
				if x.Low != nil {
					if k, ok := constInt(x.Low); ok && k > 0 {
						if _, isArr := x.X.Type().Underlying().(*types.Pointer); !isArr {
							sites = append(sites, site{i, x.X, k - 1})
						}
					}
				}
			}
		})
		if len(sites) == 0 {
			continue
		}
		// names under which a value is known: itself, and the cell it was loaded from
		keyOf := func(v ssa.Value) string {
			if ld, ok := v.(*ssa.UnOp); ok && ld.Op == token.MUL {
				if al, ok := ld.X.(*ssa.Alloc); ok {
					return "cell:" + al.Name()
				}
				if r, ok := loadedField(v); ok && r.Field != nil {
					return "field:" + r.String() + "@" + r.Base.Name()
				}
			}
			return "val:" + v.Name()
		}
		lenOf := func(v ssa.Value) (ssa.Value, bool) {
			if call, ok := v.(*ssa.Call); ok {
				if b, ok := call.Call.Value.(*ssa.Builtin); ok && b.Name() == "len" && len(call.Call.Args) == 1 {
					return call.Call.Args[0], true
				}
			}
			return nil, false
		}
		edge := func(f facts, b *ssa.BasicBlock, s int) facts {
			for _, a := range edgeAtoms(b, s) {
				// len(x) > k, len(x) >= k, len(x) != 0, len(x) == k
				if x, ok := lenOf(a.V); ok && a.Const != nil {
					if k, ok := constInt(a.Const); ok {
						min := int64(-1)
						switch a.Op {
						case token.GTR:
							min = k + 1
						case token.GEQ:
							min = k
						case token.NEQ:
							if k == 0 {
								min = 1
							}
						case token.EQL:
							min = k
						}
						for m := int64(1); m <= min && m <= 8; m++ {
							f = f.with(fmt.Sprintf("len>=%d:%s", m, keyOf(x)))
						}
					}
				}
				// x != ""
				if a.Const != nil && a.Op == token.NEQ {
					if sv, ok := constString(a.Const); ok && sv == "" {
						f = f.with("len>=1:" + keyOf(a.V))
					}
				}
				// strings.HasPrefix(x, "lit") true
				if call, ok := a.V.(*ssa.Call); ok && a.True == 1 {
					if o := calleeObj(call); o != nil && o.Pkg() != nil && o.Pkg().Path() == "strings" && (o.Name() == "HasPrefix" || o.Name() == "HasSuffix") && len(call.Call.Args) == 2 {
						if lit, ok := constString(call.Call.Args[1]); ok {
							for m := 1; m <= len(lit) && m <= 8; m++ {
								f = f.with(fmt.Sprintf("len>=%d:%s", m, keyOf(call.Call.Args[0])))
							}
						}
					}
				}
			}
			return f
		}
		gen := func(f facts, i ssa.Instruction) facts {
			// a store into a cell forgets what was known about it
			if st, ok := i.(*ssa.Store); ok {
				if al, ok := st.Addr.(*ssa.Alloc); ok {
					suffix := ":cell:" + al.Name()
					return f.without(func(s string) bool { return strings.HasSuffix(s, suffix) })
				}
			}
			return f
		}
		flow := mustFlow(fn, facts{}, gen, edge)
		for _, st := range sites {
			// constant-length sources are fine
			if _, isConst := st.base.(*ssa.Const); isConst {
				continue
			}
			if sl, ok := st.base.(*ssa.Slice); ok {
				if _, isArr := sl.X.Type().Underlying().(*types.Pointer); isArr {
					continue // a slice of a fixed-size array (varargs)
				}
			}
			if _, isMk := st.base.(*ssa.MakeSlice); isMk {
				continue
			}
			// a buffer the function builds itself with append: its length is
			// the function's own business (value-level), not an input
			built := func(v ssa.Value) bool {
				seen := map[ssa.Value]bool{}
				var rec func(v ssa.Value) bool
				rec = func(v ssa.Value) bool {
					if seen[v] {
						return true
					}
					seen[v] = true
					switch x := v.(type) {
					case *ssa.Call:
						if b, ok := x.Call.Value.(*ssa.Builtin); ok && b.Name() == "append" {
							return true
						}
						if o := calleeObj(x); o != nil && o.Pkg() != nil && o.Pkg().Path() == "strconv" {
							return true
						}
					case *ssa.MakeSlice:
						return true
					case *ssa.Slice:
						// make([]T, 0, const) is lowered to a slice of a fresh array
						if al, ok := x.X.(*ssa.Alloc); ok {
							if _, isArr := al.Type().Underlying().(*types.Pointer).Elem().Underlying().(*types.Array); isArr {
								return true
							}
						}
						// buf[:0]: an emptied scratch buffer that is appended to
						if x.High != nil {
							if k, ok := constInt(x.High); ok && k == 0 {
								return true
							}
						}
						return rec(x.X)
					case *ssa.Phi:
						for _, e := range x.Edges {
							if !rec(e) {
								return false
							}
						}
						return true
					}
					return false
				}
				return rec(v)
			}
			if built(st.base) {
				continue
			}
			// loop indexes guarded by the loop condition are not constants: only constants get here
			f, reach := flow.at(st.at)
			if !reach {
				continue
			}
			n++
			key := fmt.Sprintf("%s: constant index %d#%d", fnKey(fn), st.k, countKey(c, rule, fmt.Sprintf("%s: constant index %d#", fnKey(fn), st.k))+1)
			c.check(f.has(fmt.Sprintf("len>=%d:%s", st.k+1, keyOf(st.base))), rule, key, st.at.Pos(),
				"dominated by a length test that covers the index",
				fmt.Sprintf("index/offset %d is applied without a preceding length test on every path: on an empty (or shorter) value this panics — a string decoded from the wire can be empty after trimming, a caller's set can be empty", st.k))
		}
	}
	if n == 0 {
		c.okTrivial(rule, "no constant index into a variable-length value", token.NoPos, "0 sites in "+strings.Join(pkgs, ","))
	}
}

// instrPos: a source position for an instruction that has none of its own
// (stores of constants, synthetic slices): an operand's, or the nearest
// instruction's in the block.
func instrPos(i ssa.Instruction) token.Pos {
	if i.Pos().IsValid() {
		return i.Pos()
	}
	for _, op := range i.Operands(nil) {
		if *op != nil && (*op).Pos().IsValid() {
			return (*op).Pos()
		}
	}
	if b := i.Block(); b != nil {
		after := false
		for _, j := range b.Instrs {
			if j == i {
				after = true
			}
			if after && j.Pos().IsValid() {
				return j.Pos()
			}
		}
		for _, j := range b.Instrs {
			if j.Pos().IsValid() {
				return j.Pos()
			}
		}
	}
	if fn := i.Parent(); fn != nil {
		return fn.Pos()
	}
	return token.NoPos
}

// ruleNestedKeysRecorded: C19.j. A NOT or OR search key the parser has read
// is recorded in criteria.Not / criteria.Or whatever it contains: the store
// is control dependent only on the key dispatch (string comparisons of the key
// atom) and on parse failures. A "simplification" that folds some parsed keys
// away under a predicate on their content loses whatever the predicate forgot
// to look at.
func ruleNestedKeysRecorded(c *Ctx, rule string) {
	p := c.P
	crit := p.Named("", "SearchCriteria")
	if crit == nil {
		c.unresolvedRoot("imap.SearchCriteria")
		return
	}
	n := 0
	for _, fn := range p.SrcFuncs("imapserver") {
		pd := postDominators(fn)
		allInstrs(fn, func(i ssa.Instruction) {
			st, ok := i.(*ssa.Store)
			if !ok {
				return
			}
			r, ok := fieldOf(st.Addr)
			if !ok || r.Owner != crit || (r.Field.Name() != "Not" && r.Field.Name() != "Or") {
				return
			}
			if isFreshLocal(r.Base) {
				return
			}
			n++
			var foreign []string
			for x := range transitiveDeps(fn, pd, st.Block()) {
				ifi, isIf := x.Instrs[len(x.Instrs)-1].(*ssa.If)
				if !isIf {
					continue
				}
				for _, a := range atomsOf(ifi.Cond, true) {
					switch {
					case a.Const != nil && a.Const.Value != nil && a.Const.Value.Kind().String() == "String":
						// key dispatch
					case a.Nil != 0 && isErrorType(a.V.Type()):
						// parse failure
					default:
						if cl, _ := callOf(a.V); cl != nil {
							if isDecoderMethodCall(cl) {
								continue
							}
							if o := calleeObj(cl); o != nil && o.Pkg() != nil && o.Pkg().Path() == "strings" {
								continue
							}
							foreign = append(foreign, callKey(cl))
							continue
						}
						if _, isPhi := a.V.(*ssa.Phi); isPhi {
							continue
						}
						if _, isParam := a.V.(*ssa.Parameter); isParam {
							continue
						}
						if bo, ok := a.V.(*ssa.BinOp); ok {
							_ = bo
							continue
						}
						foreign = append(foreign, a.V.String())
					}
				}
			}
			key := fmt.Sprintf("%s: criteria.%s recorded#%d", fnKey(fn), r.Field.Name(), countKey(c, rule, fmt.Sprintf("%s: criteria.%s recorded#", fnKey(fn), r.Field.Name()))+1)
			c.check(len(foreign) == 0, rule, key, instrPos(st), "recorded whenever the key was parsed",
				"the parsed "+strings.ToUpper(r.Field.Name())+" key is recorded only under a condition on its content ("+strings.Join(uniq(foreign), ", ")+"): keys for which the condition fails are folded away, and whatever the condition does not look at (dates, sizes) is lost from the conjunction")
		})
	}
	if n == 0 {
		c.unresolvedRoot("stores into criteria.Not / criteria.Or in the SEARCH parser")
	}
}

// ruleWireBytesQuotedInErrors: C04.k. Bytes peeked or read raw from the
// connection enter error messages only through the %q verb (or as numbers):
// the server copies decoder messages into its BAD response text, and a raw CR
// or LF there splits the response line.
func ruleWireBytesQuotedInErrors(c *Ctx, rule string) {
	p := c.P
	n := 0
	fromReader := func(v ssa.Value) bool {
		seen := map[ssa.Value]bool{}
		var rec func(v ssa.Value, d int) bool
		rec = func(v ssa.Value, d int) bool {
			if v == nil || seen[v] || d > 8 {
				return false
			}
			seen[v] = true
			switch x := v.(type) {
			case *ssa.Call:
				if o := calleeObj(x); o != nil {
					if rn := recvNamed(o); rn != nil && rn.Obj().Pkg() != nil && rn.Obj().Pkg().Path() == "bufio" && (o.Name() == "Peek" || o.Name() == "ReadByte" || o.Name() == "ReadLine" || o.Name() == "ReadString" || o.Name() == "ReadBytes" || o.Name() == "ReadSlice") {
						return true
					}
				}
				return false
			case *ssa.Extract:
				return rec(x.Tuple, d+1)
			case *ssa.MakeInterface:
				return rec(x.X, d+1)
			case *ssa.ChangeType:
				return rec(x.X, d+1)
			case *ssa.Convert:
				return rec(x.X, d+1)
			case *ssa.UnOp:
				return rec(x.X, d+1)
			case *ssa.IndexAddr:
				return rec(x.X, d+1)
			case *ssa.Index:
				return rec(x.X, d+1)
			case *ssa.Slice:
				return rec(x.X, d+1)
			case *ssa.Phi:
				for _, e := range x.Edges {
					if rec(e, d+1) {
						return true
					}
				}
			}
			return false
		}
		return rec(v, 0)
	}
	for _, fn := range p.SrcFuncs("internal/imapwire", "imapserver") {
		allInstrs(fn, func(i ssa.Instruction) {
			call, ok := i.(*ssa.Call)
			if !ok {
				return
			}
			o := calleeObj(call)
			if o == nil || o.Pkg() == nil || o.Pkg().Path() != "fmt" || (o.Name() != "Sprintf" && o.Name() != "Errorf") || len(call.Call.Args) < 2 {
				return
			}
			format, ok := constString(call.Call.Args[0])
			if !ok {
				return
			}
			// the variadic arguments: elements of the slice literal, in order
			sl, ok := call.Call.Args[1].(*ssa.Slice)
			if !ok {
				return
			}
			arr, ok := sl.X.(*ssa.Alloc)
			if !ok {
				return
			}
			args := map[int64]ssa.Value{}
			for _, ref := range *arr.Referrers() {
				if ia, ok := ref.(*ssa.IndexAddr); ok {
					if k, ok := constInt(ia.Index); ok {
						for _, r2 := range *ia.Referrers() {
							if st, ok := r2.(*ssa.Store); ok && st.Addr == ssa.Value(ia) {
								args[k] = st.Val
							}
						}
					}
				}
			}
			// the verbs, in order
			var verbs []byte
			for k := 0; k < len(format); k++ {
				if format[k] != '%' {
					continue
				}
				k++
				for k < len(format) && strings.IndexByte("+-# 0123456789.", format[k]) >= 0 {
					k++
				}
				if k < len(format) && format[k] != '%' {
					verbs = append(verbs, format[k])
				}
			}
			for idx, verb := range verbs {
				a, ok := args[int64(idx)]
				if !ok || !fromReader(a) {
					continue
				}
				n++
				safe := verb == 'q' || verb == 'd' || verb == 'x' || verb == 'X' || verb == 'U'
				if verb == 'v' {
					// %v of a []byte prints numbers; of a byte too
					safe = true
					if b, ok := a.Type().Underlying().(*types.Basic); ok && b.Info()&types.IsString != 0 {
						safe = false
					}
					if mi, ok := a.(*ssa.MakeInterface); ok {
						if b, ok := mi.X.Type().Underlying().(*types.Basic); ok && b.Info()&types.IsString != 0 {
							safe = false
						}
					}
				}
				c.check(safe, rule, fmt.Sprintf("%s: %%%c of wire bytes#%d", fnKey(fn), verb, countKey(c, rule, fnKey(fn)+": %")+1), call.Pos(),
					"raw connection bytes are formatted quoted or numerically",
					fmt.Sprintf("bytes peeked from the connection are formatted with %%%c into an error message: the server copies that message into its tagged BAD text, so a CR or LF sent by the client ends up raw inside a response line (the response is no longer a whole well-formed line)", verb))
			}
		})
	}
	if n == 0 {
		c.unresolvedRoot("error messages that embed bytes peeked from the connection")
	}
}

// ruleListMailboxDecoded: C16.i. Every list-mailbox pattern the server hands
// on has passed the modified UTF-7 decoder, whichever syntactic form (quoted,
// literal, bare list-chars) it arrived in: each success return of a server
// parser that applies the decoder at all returns the decoder's output.
func ruleListMailboxDecoded(c *Ctx, rule string) {
	p := c.P
	n := 0
	isDecodeCall := func(v ssa.Value) bool {
		if ex, ok := v.(*ssa.Extract); ok && ex.Index == 0 {
			if call, ok := ex.Tuple.(*ssa.Call); ok {
				if o := calleeObj(call); o != nil && o.Name() == "String" && o.Pkg() != nil && strings.HasSuffix(o.Pkg().Path(), "x/text/encoding") {
					return true
				}
			}
		}
		return false
	}
	for _, fn := range p.SrcFuncs("imapserver") {
		res := fn.Signature.Results()
		if res.Len() != 2 || !isErrorType(res.At(1).Type()) {
			continue
		}
		if b, ok := res.At(0).Type().Underlying().(*types.Basic); !ok || b.Info()&types.IsString == 0 {
			continue
		}
		uses := false
		allInstrs(fn, func(i ssa.Instruction) {
			if v, ok := i.(ssa.Value); ok && isDecodeCall(v) {
				uses = true
			}
		})
		if !uses {
			continue
		}
		for k, r := range returnsOf(fn) {
			if !isNilConst(unspill(r.Results[1])) {
				// `return utf7…String(x)` returns the call's own error
				if ex, ok := unspill(r.Results[1]).(*ssa.Extract); !ok || !isDecodeCall(unspill(r.Results[0])) || ex.Tuple != unspill(r.Results[0]).(*ssa.Extract).Tuple {
					continue
				}
			}
			n++
			c.check(isDecodeCall(unspill(r.Results[0])), rule, fmt.Sprintf("%s: success return#%d", fnKey(fn), k+1), r.Pos(),
				"returns the modified UTF-7 decoder's output",
				"this success return hands back the raw string without the modified UTF-7 decoding the other forms get: a quoted or literal pattern with '&' escapes no longer matches the mailbox it names, and malformed names are accepted")
		}
	}
	if n == 0 {
		c.unresolvedRoot("server parsers that apply the modified UTF-7 decoder and return a string")
	}
}

// ruleCallbackGetsMailboxView: C08.n. The per-message callback of the
// backend's iteration helpers (forEachLocked's f(seqNum, msg)) is handed the
// mailbox-view sequence number (position in the message list); the callers
// translate it themselves where they talk to a client. A number that went
// through SessionTracker.EncodeSeqNum (the issuing session's private view)
// must not reach the callback: Store would broadcast one session's numbering
// to the others and Fetch would translate twice.
func ruleCallbackGetsMailboxView(c *Ctx, rule string) {
	p := c.P
	n := 0
	for _, fn := range p.SrcFuncs("imapserver/imapmemserver") {
		allInstrs(fn, func(i ssa.Instruction) {
			call, ok := i.(*ssa.Call)
			if !ok || call.Call.IsInvoke() || call.Call.StaticCallee() != nil {
				return
			}
			prm, ok := call.Call.Value.(*ssa.Parameter)
			if !ok {
				if pp := paramOf(call.Call.Value); pp != nil {
					prm = pp
				} else {
					return
				}
			}
			_ = prm
			for k, a := range call.Call.Args {
				b, ok := a.Type().Underlying().(*types.Basic)
				if !ok || b.Kind() != types.Uint32 {
					continue
				}
				n++
				encoded := false
				seen := map[ssa.Value]bool{}
				var rec func(v ssa.Value, d int)
				rec = func(v ssa.Value, d int) {
					if v == nil || seen[v] || d > 8 {
						return
					}
					seen[v] = true
					switch x := v.(type) {
					case *ssa.Call:
						if strings.HasSuffix(callKey(x), ".EncodeSeqNum") {
							encoded = true
						}
					case *ssa.Phi:
						for _, e := range x.Edges {
							rec(e, d+1)
						}
					case *ssa.Convert:
						rec(x.X, d+1)
					case *ssa.BinOp:
						rec(x.X, d+1)
						rec(x.Y, d+1)
					case *ssa.UnOp:
						if al, ok := x.X.(*ssa.Alloc); ok {
							for _, ref := range *al.Referrers() {
								if st, ok := ref.(*ssa.Store); ok && st.Addr == ssa.Value(al) {
									rec(st.Val, d+1)
								}
							}
						}
					}
				}
				rec(a, 0)
				c.check(!encoded, rule, fmt.Sprintf("%s: callback argument %d", fnKey(fn), k), call.Pos(),
					"the callback receives the position in the message list",
					"the number handed to the per-message callback has passed through EncodeSeqNum on some path: the callers treat it as the mailbox-view number (they queue tracker updates with it and translate it again), so other sessions are told this session's private numbering")
			}
		})
	}
	if n == 0 {
		c.unresolvedRoot("per-message callbacks taking a sequence number in the in-memory backend")
	}
}

// ruleModeFlagsAfterEncoderLock: C18.k. The wire-syntax flags of a command's
// encoder (UTF-8 quoting, LITERAL-/LITERAL+) are taken from the capability
// set after the encoder lock has been acquired: a command queued behind one
// that changes the capabilities (AUTHENTICATE, ENABLE …) must be encoded with
// what holds when its turn comes, not with what held when it was queued.
func ruleModeFlagsAfterEncoderLock(c *Ctx, rule string) {
	p := c.P
	begin := p.Func("imapclient", "Client", "beginCommand")
	if begin == nil {
		c.unresolvedRoot("(*Client).beginCommand")
		return
	}
	flow := mustFlow(begin, facts{}, func(f facts, i ssa.Instruction) facts {
		if call, ok := i.(ssa.CallInstruction); ok {
			if op, fa := isMutexOp(call); op == "lock" {
				if r, ok := fieldOf(fa); ok && r.is("Client", "encMutex") {
					return f.with("enc-locked")
				}
			}
		}
		return f
	}, nil)
	n := 0
	for _, g := range helperClosure(begin, 1) {
		gflow := flow
		if g != begin {
			// a helper of beginCommand: its capability queries are fine when
			// every call of the helper comes after the lock was taken
			entered := len(callSitesOf(p, g)) > 0
			for _, site := range callSitesOf(p, g) {
				if site.Parent() != begin {
					entered = false
					continue
				}
				if f, reach := flow.at(site); reach && !f.has("enc-locked") {
					entered = false
				}
			}
			hasQuery := false
			var qpos token.Pos
			allInstrs(g, func(i ssa.Instruction) {
				if call, ok := i.(*ssa.Call); ok {
					if o := calleeObj(call); o != nil && o.Name() == "Has" && len(call.Call.Args) > 0 {
						if r, ok := loadedField(call.Call.Args[0]); ok && r.Owner != nil && r.Owner.Obj().Name() == "Client" {
							hasQuery = true
							qpos = call.Pos()
						}
					}
				}
			})
			if hasQuery {
				n++
				c.check(entered, rule, "beginCommand: capability queries of "+fnKey(g), qpos,
					"the helper is only entered after the encoder lock was taken",
					"the capabilities are consulted for the command's wire syntax in "+fnKey(g)+", which is called before the encoder lock is acquired")
			}
			continue
		}
		allInstrs(g, func(i ssa.Instruction) {
			call, ok := i.(*ssa.Call)
			if !ok {
				return
			}
			if o := calleeObj(call); o == nil || o.Name() != "Has" || len(call.Call.Args) == 0 {
				return
			}
			r, ok := loadedField(call.Call.Args[0])
			if !ok || r.Owner == nil || r.Owner.Obj().Name() != "Client" {
				return
			}
			f, reach := gflow.at(call)
			if !reach {
				return
			}
			n++
			c.check(f.has("enc-locked"), rule, fmt.Sprintf("beginCommand: %s.Has#%d", r.String(), n), call.Pos(),
				"read after the encoder lock was taken",
				r.String()+" is consulted for the command's wire syntax before the encoder lock is acquired: while this command waits behind another one (AUTHENTICATE, ENABLE, STARTTLS) the capabilities may change, and it is then written with literal/quoting forms the server no longer (or does not yet) accept")
		})
	}
	if n == 0 {
		c.unresolvedRoot("capability queries in beginCommand")
	}
}

// ruleNoOvertakingHeldItem: C12.q / C03.q. A one-slot hold-back buffer (LIST
// with RETURN (STATUS): the mailbox is held until its STATUS arrives) keeps
// the order of delivery: while an item may be held in the slot, no other item
// is sent on the same channel ahead of it. Every send of a value that is not
// the slot's content happens where the slot is known empty (tested nil or
// just flushed) or where the hold-back mode is off.
func ruleNoOvertakingHeldItem(c *Ctx, rule string) {
	p := c.P
	funcs := p.SrcFuncs("imapclient")
	// slots: pointer fields whose content is sent on a channel field of the same struct
	type slotInfo struct {
		slot, ch *types.Var
	}
	var slots []slotInfo
	seenSlot := map[*types.Var]bool{}
	for _, fn := range funcs {
		allInstrs(fn, func(i ssa.Instruction) {
			sd, ok := i.(*ssa.Send)
			if !ok {
				return
			}
			rs, ok1 := loadedField(sd.X)
			rc, ok2 := loadedField(sd.Chan)
			if ok1 && ok2 && rs.Field != nil && rc.Field != nil && rs.Owner != nil && rs.Owner == rc.Owner && !seenSlot[rs.Field] {
				seenSlot[rs.Field] = true
				slots = append(slots, slotInfo{rs.Field, rc.Field})
			}
		})
	}
	if len(slots) == 0 {
		c.unresolvedRoot("one-slot hold-back buffers (a field sent on a channel of the same struct)")
		return
	}
	n := 0
	for _, sl := range slots {
		// the mode flags: boolean fields of the same struct under whose true edge the slot is filled
		modes := map[*types.Var]bool{}
		for _, fn := range funcs {
			pd := postDominators(fn)
			allInstrs(fn, func(i ssa.Instruction) {
				st, ok := i.(*ssa.Store)
				if !ok || isNilConst(st.Val) {
					return
				}
				r, ok := fieldOf(st.Addr)
				if !ok || r.Field != sl.slot {
					return
				}
				for x := range transitiveDeps(fn, pd, st.Block()) {
					ifi, isIf := x.Instrs[len(x.Instrs)-1].(*ssa.If)
					if !isIf {
						continue
					}
					for _, f := range fieldsInCond(ifi.Cond, map[ssa.Value]bool{}) {
						if b, ok := f.Field.Type().Underlying().(*types.Basic); ok && b.Kind() == types.Bool && f.Owner == r.Owner {
							modes[f.Field] = true
						}
					}
				}
			})
		}
		for _, fn := range funcs {
			var sends []*ssa.Send
			allInstrs(fn, func(i ssa.Instruction) {
				sd, ok := i.(*ssa.Send)
				if !ok {
					return
				}
				rc, ok := loadedField(sd.Chan)
				if !ok || rc.Field != sl.ch {
					return
				}
				if rs, ok := loadedField(sd.X); ok && rs.Field == sl.slot {
					return // the flush itself
				}
				sends = append(sends, sd)
			})
			if len(sends) == 0 {
				continue
			}
			flow := mustFlow(fn, facts{}, func(f facts, i ssa.Instruction) facts {
				switch x := i.(type) {
				case *ssa.Send:
					if rs, ok := loadedField(x.X); ok && rs.Field == sl.slot {
						return f.with("empty")
					}
				case *ssa.Store:
					if r, ok := fieldOf(x.Addr); ok && r.Field == sl.slot {
						if isNilConst(x.Val) {
							return f.with("empty")
						}
						return f.without(func(s string) bool { return s == "empty" })
					}
				}
				return f
			}, func(f facts, b *ssa.BasicBlock, s int) facts {
				for _, a := range edgeAtoms(b, s) {
					if r, ok := loadedField(a.V); ok {
						if r.Field == sl.slot && a.Nil == 1 {
							f = f.with("empty")
						}
						if modes[r.Field] && a.True == -1 {
							f = f.with("mode-off")
						}
					}
				}
				return f
			})
			for _, sd := range sends {
				f, reach := flow.at(sd)
				if !reach {
					continue
				}
				n++
				c.check(f.has("empty") || f.has("mode-off"), rule, fmt.Sprintf("%s: send on %s while %s may hold an item#%d", fnKey(fn), sl.ch.Name(), sl.slot.Name(), countKey(c, rule, fnKey(fn)+": send on ")+1), sd.Pos(),
					"the slot is known empty (or the hold-back mode is off) when another item is sent",
					fmt.Sprintf("an item is sent on %s while an earlier one may still be held back in %s: the later item overtakes the held one (entries arrive out of order) and what arrives for the held one afterwards (its STATUS) is attached to the wrong entry or dropped", sl.ch.Name(), sl.slot.Name()))
			}
		}
	}
	if n == 0 {
		c.unresolvedRoot("sends that could overtake a held-back item")
	}
}

// ruleAndSharesElements: C19.k. SearchCriteria.And merges list fields by
// appending the operand's list to the receiver's — the elements themselves,
// not copies: a number set carries identity (the SearchRes marker `$` is
// recognised by its data pointer), so an element-wise copy turns `$` into an
// empty set and the conjunct is lost.
func ruleAndSharesElements(c *Ctx, rule string) {
	p := c.P
	and := p.Func("", "SearchCriteria", "And")
	if and == nil || len(and.Params) != 2 {
		c.unresolvedRoot("(*imap.SearchCriteria).And")
		return
	}
	recv, other := and.Params[0], and.Params[1]
	n := 0
	scan := withAnon(and)
	// the appends may live in a helper called as helper(criteria, other)
	for _, h := range helperClosure(and, 2) {
		if h == and || h.Parent() != nil || len(h.Params) != 2 {
			continue
		}
		okCall := false
		for _, site := range callSitesOf(p, h) {
			args := site.Common().Args
			if site.Parent() == and && len(args) == 2 && (args[0] == ssa.Value(recv) || paramOf(args[0]) == recv) && (args[1] == ssa.Value(other) || paramOf(args[1]) == other) {
				okCall = true
			}
		}
		if okCall {
			scan = append(scan, h)
		}
	}
	for _, g := range scan {
		recv, other := recv, other
		if g != and && g.Parent() == nil {
			recv, other = g.Params[0], g.Params[1]
		}
		allInstrs(g, func(i ssa.Instruction) {
			st, ok := i.(*ssa.Store)
			if !ok {
				return
			}
			r, ok := fieldOf(st.Addr)
			if !ok || r.Field == nil || (r.Base != ssa.Value(recv) && paramOf(r.Base) != recv) {
				return
			}
			if _, isSlice := r.Field.Type().Underlying().(*types.Slice); !isSlice {
				return
			}
			n++
			okShape := false
			if call, ok := st.Val.(*ssa.Call); ok {
				if b, ok := call.Call.Value.(*ssa.Builtin); ok && b.Name() == "append" && len(call.Call.Args) == 2 {
					r0, ok0 := loadedField(call.Call.Args[0])
					r1, ok1 := loadedField(call.Call.Args[1])
					if ok0 && ok1 && r0.Field == r.Field && r1.Field == r.Field &&
						(r0.Base == ssa.Value(recv) || paramOf(r0.Base) == recv) && (r1.Base == ssa.Value(other) || paramOf(r1.Base) == other) {
						okShape = true
					}
				}
			}
			c.check(okShape, rule, "And: "+r.Field.Name()+" = append(criteria."+r.Field.Name()+", other."+r.Field.Name()+"...)", instrPos(st),
				"the operand's elements are appended as they are",
				"the list field "+r.Field.Name()+" is not merged by appending the operand's own elements (they are rebuilt or copied one by one): a copied number set loses its identity, so the `$` (SEARCHRES) marker degenerates into an empty set and that conjunct matches nothing")
		})
	}
	if n == 0 {
		c.unresolvedRoot("stores into list fields of the receiver in And")
	}
}

// ruleDecodedValueNotOverwritten: C02.n. A local that a decoder call has
// successfully filled is read before another decoder call fills it again:
// decoding a second token into the variable that still holds the first one
// (a dropped shadowing declaration) silently replaces the operand the client
// sent — the mailbox name by a parameter keyword, say.
func ruleDecodedValueNotOverwritten(c *Ctx, rule string, pkgs ...string) {
	p := c.P
	n := 0
	for _, fn := range p.SrcFuncs(pkgs...) {
		// decoder calls with the address of a local
		type wr struct {
			call ssa.CallInstruction
			cell *ssa.Alloc
		}
		var writes []wr
		cells := map[*ssa.Alloc]bool{}
		allInstrs(fn, func(i ssa.Instruction) {
			call, ok := i.(ssa.CallInstruction)
			if !ok || !(isDecoderMethodCall(call) || decodesInto(p, call)) {
				return
			}
			for _, a := range call.Common().Args {
				if al, ok := a.(*ssa.Alloc); ok {
					if b, ok := al.Type().Underlying().(*types.Pointer).Elem().Underlying().(*types.Basic); ok && b.Info()&types.IsString != 0 {
						writes = append(writes, wr{call, al})
						cells[al] = true
					}
				}
			}
		})
		if len(writes) < 2 {
			continue
		}
		entry := facts{}
		for al := range cells {
			entry = entry.with("fresh:" + al.Name())
		}
		branched := map[ssa.CallInstruction]bool{}
		for _, b := range fn.Blocks {
			for s := range b.Succs {
				for _, a := range edgeAtoms(b, s) {
					if cl, _ := callOf(a.V); cl != nil {
						branched[cl] = true
					}
				}
			}
		}
		gen := func(f facts, i ssa.Instruction) facts {
			switch x := i.(type) {
			case *ssa.UnOp:
				if al, ok := x.X.(*ssa.Alloc); ok && cells[al] && x.Op == token.MUL {
					return f.with("fresh:" + al.Name())
				}
			case *ssa.Store:
				if al, ok := x.Addr.(*ssa.Alloc); ok && cells[al] {
					return f.with("fresh:" + al.Name())
				}
			case ssa.CallInstruction:
				isDec := isDecoderMethodCall(x) || decodesInto(p, x)
				for _, a := range x.Common().Args {
					if al, ok := a.(*ssa.Alloc); ok && cells[al] {
						if !isDec {
							f = f.with("fresh:" + al.Name()) // handed to someone who reads it
						} else if !branched[x] {
							f = f.without(func(s string) bool { return s == "fresh:"+al.Name() })
						}
					}
				}
				// closures capturing the cell read it
				if mc, ok := i.(*ssa.MakeClosure); ok {
					for _, bnd := range mc.Bindings {
						if al, ok := bnd.(*ssa.Alloc); ok && cells[al] {
							f = f.with("fresh:" + al.Name())
						}
					}
				}
			case *ssa.MakeClosure:
				for _, bnd := range x.Bindings {
					if al, ok := bnd.(*ssa.Alloc); ok && cells[al] {
						f = f.with("fresh:" + al.Name())
					}
				}
			}
			return f
		}
		edge := func(f facts, b *ssa.BasicBlock, s int) facts {
			for _, a := range edgeAtoms(b, s) {
				cl, _ := callOf(a.V)
				if cl == nil || !(isDecoderMethodCall(cl) || decodesInto(p, cl)) {
					continue
				}
				success := a.True == 1 || a.Nil == 1 && isErrorType(a.V.Type())
				if !success {
					continue
				}
				for _, arg := range cl.Common().Args {
					if al, ok := arg.(*ssa.Alloc); ok && cells[al] {
						f = f.without(func(s string) bool { return s == "fresh:"+al.Name() })
					}
				}
			}
			return f
		}
		flow := mustFlow(fn, entry, gen, edge)
		// cells captured by closures are read elsewhere: skip them
		captured := map[*ssa.Alloc]bool{}
		allInstrs(fn, func(i ssa.Instruction) {
			if mc, ok := i.(*ssa.MakeClosure); ok {
				for _, bnd := range mc.Bindings {
					if al, ok := bnd.(*ssa.Alloc); ok {
						captured[al] = true
					}
				}
			}
		})
		for _, w := range writes {
			if captured[w.cell] {
				continue
			}
			f, reach := flow.at(w.call.(ssa.Instruction))
			if !reach {
				continue
			}
			n++
			key := fmt.Sprintf("%s: %s filled by %s#%d", fnKey(fn), w.cell.Comment, callKey(w.call), countKey(c, rule, fmt.Sprintf("%s: %s filled by %s#", fnKey(fn), w.cell.Comment, callKey(w.call)))+1)
			c.check(f.has("fresh:"+w.cell.Name()), rule, key, w.call.Pos(),
				"what the variable held before has been read (or nothing had been decoded into it)",
				fmt.Sprintf("%s still holds a value decoded earlier that has not been read on some path, and is decoded into again here: the first operand is replaced by the second token (the backend receives the wrong argument)", w.cell.Comment))
		}
	}
	if n == 0 {
		c.unresolvedRoot("locals filled by decoder calls")
	}
}

// ruleReadCountChecked: C01.l. io.Reader.Read may return fewer bytes than the
// buffer holds (a literal arriving in several TCP segments, or straddling the
// bufio buffer). Outside the Read wrappers themselves, a direct Read whose
// byte count is thrown away is a short read waiting to happen: the rest of
// the literal stays on the connection and is parsed as syntax. (io.ReadFull,
// io.Copy, io.ReadAll loop.)
func ruleReadCountChecked(c *Ctx, rule string, pkgs ...string) {
	p := c.P
	n, bad := 0, 0
	for _, fn := range p.SrcFuncs(pkgs...) {
		if fn.Name() == "Read" || fn.Name() == "WriteTo" || fn.Name() == "ReadFrom" {
			continue
		}
		allInstrs(fn, func(i ssa.Instruction) {
			call, ok := i.(*ssa.Call)
			if !ok {
				return
			}
			isRead := false
			if call.Call.IsInvoke() && call.Call.Method.Name() == "Read" {
				isRead = true
			} else if o := calleeObj(call); o != nil && o.Name() == "Read" {
				if sig, ok := o.Type().(*types.Signature); ok && sig.Params().Len() == 1 && sig.Results().Len() == 2 {
					isRead = true
				}
			}
			if !isRead {
				return
			}
			n++
			used := false
			for _, ref := range *call.Referrers() {
				if ex, ok := ref.(*ssa.Extract); ok && ex.Index == 0 && len(*ex.Referrers()) > 0 {
					used = true
				}
			}
			if !used {
				bad++
				c.fail(rule, fmt.Sprintf("%s: Read with the count discarded#%d", fnKey(fn), bad), call.Pos(),
					"a single Read is issued and its byte count is ignored: when the data arrives in more than one piece the buffer is only partly filled (NUL-padded value) and the unread remainder of the literal is parsed as protocol syntax")
			}
		})
	}
	if bad == 0 {
		c.ok(rule, "no direct Read discards its count", token.NoPos, fmt.Sprintf("%d direct Read calls outside Read wrappers, all use the returned count", n))
	}
}

// ruleTrailingLiteralSizes: C04.l. The helper that recognises a trailing
// non-synchronising literal header on a discarded line accepts every size the
// literal parser accepts — zero included: `{0+}` is a literal, and what
// follows it is the rest of the same command, not a new one.
func ruleTrailingLiteralSizes(c *Ctx, rule string) {
	p := c.P
	dl := p.Func("internal/imapwire", "Decoder", "DiscardLine")
	if dl == nil {
		c.unresolvedRoot("(*Decoder).DiscardLine")
		return
	}
	var helper *ssa.Function
	for _, h := range helperClosure(dl, 2) {
		if h != dl && h.Signature.Results().Len() == 2 {
			if b, ok := h.Signature.Results().At(0).Type().Underlying().(*types.Basic); ok && b.Kind() == types.Int64 {
				helper = h
			}
		}
	}
	if helper == nil {
		c.unresolvedRoot("the trailing-literal recogniser called by DiscardLine")
		return
	}
	// the parsed size: result #0 of strconv.ParseInt/ParseUint
	isSize := func(v ssa.Value) bool {
		for k := 0; k < 4; k++ {
			switch x := v.(type) {
			case *ssa.Extract:
				if call, ok := x.Tuple.(*ssa.Call); ok && x.Index == 0 {
					if o := calleeObj(call); o != nil && o.Pkg() != nil && o.Pkg().Path() == "strconv" {
						return true
					}
				}
				return false
			case *ssa.Convert:
				v = x.X
			case *ssa.UnOp:
				if al, ok := x.X.(*ssa.Alloc); ok {
					for _, ref := range *al.Referrers() {
						if st, ok := ref.(*ssa.Store); ok && st.Addr == ssa.Value(al) {
							v = st.Val
						}
					}
				} else {
					return false
				}
			default:
				return false
			}
		}
		return false
	}
	// walk the recogniser for "the header parsed, the size is 0": which return is reached?
	var parse *ssa.Call
	allInstrs(helper, func(i ssa.Instruction) {
		if call, ok := i.(*ssa.Call); ok {
			if o := calleeObj(call); o != nil && o.Pkg() != nil && o.Pkg().Path() == "strconv" {
				parse = call
			}
		}
	})
	n := 0
	if parse != nil {
		isErr := func(v ssa.Value) bool {
			for k := 0; k < 3; k++ {
				switch x := v.(type) {
				case *ssa.Extract:
					return x.Tuple == ssa.Value(parse) && x.Index == 1
				case *ssa.UnOp:
					if al, ok := x.X.(*ssa.Alloc); ok {
						for _, ref := range *al.Referrers() {
							if st, ok := ref.(*ssa.Store); ok && st.Addr == ssa.Value(al) {
								v = st.Val
							}
						}
						continue
					}
					return false
				default:
					return false
				}
			}
			return false
		}
		var prev *ssa.BasicBlock
		cur := parse.Block()
		var eval func(v ssa.Value) (bool, bool)
		eval = func(v ssa.Value) (bool, bool) {
			switch x := v.(type) {
			case *ssa.Const:
				if x.Value != nil && x.Value.Kind() == constant.Bool {
					return constant.BoolVal(x.Value), true
				}
			case *ssa.UnOp:
				if x.Op == token.NOT {
					r, ok := eval(x.X)
					return !r, ok
				}
			case *ssa.Phi:
				if x.Block() == cur && prev != nil {
					for k, pr := range cur.Preds {
						if pr == prev {
							return eval(x.Edges[k])
						}
					}
				}
			case *ssa.BinOp:
				if isErr(x.X) && isNilConst(x.Y) {
					return x.Op == token.EQL, x.Op == token.EQL || x.Op == token.NEQ
				}
				if isSize(x.X) {
					if k, ok := constInt(x.Y); ok {
						switch x.Op {
						case token.LSS:
							return 0 < k, true
						case token.LEQ:
							return 0 <= k, true
						case token.GTR:
							return 0 > k, true
						case token.GEQ:
							return 0 >= k, true
						case token.EQL:
							return 0 == k, true
						case token.NEQ:
							return 0 != k, true
						}
					}
				}
			}
			return false, false
		}
		decided := false
		accepted := false
		var at token.Pos
		for step := 0; step < 24 && !decided; step++ {
			switch t := cur.Instrs[len(cur.Instrs)-1].(type) {
			case *ssa.If:
				v, ok := eval(t.Cond)
				if !ok {
					step = 99
					break
				}
				at = condPos(t)
				prev = cur
				if v {
					cur = cur.Succs[0]
				} else {
					cur = cur.Succs[1]
				}
			case *ssa.Jump:
				prev, cur = cur, cur.Succs[0]
			case *ssa.Return:
				if len(t.Results) == 2 {
					rv := unspill(t.Results[1])
					if b, ok := eval(rv); ok {
						decided, accepted = true, b
						if !at.IsValid() {
							at = t.Pos()
						}
					}
				}
				step = 99
			default:
				step = 99
			}
		}
		if decided {
			n++
			c.check(accepted, rule, fnKey(helper)+": size 0 is a literal", at,
				"a header announcing zero octets is recognised as a literal",
				"a trailing `{0+}` is not recognised as a literal header (the size test rejects 0): after a refused command ending in an empty non-synchronising literal, the rest of that command's line is read as a new command and executed")
		}
	}
	if n == 0 {
		c.unresolvedRoot("size test in " + fnKey(helper))
	}
}

// ruleFieldEncoderEnded: C06.m. A writer object that holds the connection's
// response encoder (and with it Conn.encMutex) in a field releases it in its
// Close on every path, error paths included: every return of a method that
// ends the encoder through the field has passed end(), unless the field was
// found nil (already closed). An early `return err` before end() leaves the
// write lock held for ever — the serving goroutine then blocks on its next
// response and the session is never closed.
func ruleFieldEncoderEnded(c *Ctx, rule string) {
	p := c.P
	n := 0
	for _, fn := range p.SrcFuncs("imapserver") {
		var site *ssa.Call
		var fld *types.Var
		allInstrs(fn, func(i ssa.Instruction) {
			call, ok := i.(*ssa.Call)
			if !ok || callKey(call) != "(*responseEncoder).end" || len(call.Call.Args) == 0 {
				return
			}
			if r, ok := loadedField(call.Call.Args[0]); ok && r.Field != nil && r.Owner != nil {
				site, fld = call, r.Field
			}
		})
		if site == nil {
			continue
		}
		flow := mustFlow(fn, facts{}, func(f facts, i ssa.Instruction) facts {
			if call, ok := i.(*ssa.Call); ok && callKey(call) == "(*responseEncoder).end" {
				return f.with("ended")
			}
			return f
		}, func(f facts, b *ssa.BasicBlock, s int) facts {
			for _, a := range edgeAtoms(b, s) {
				if r, ok := loadedField(a.V); ok && r.Field == fld && a.Nil == 1 {
					f = f.with("ended") // nothing held
				}
			}
			return f
		})
		bad := token.NoPos
		for _, r := range returnsOf(fn) {
			f, reach := flow.at(r)
			if reach && !f.has("ended") {
				bad = r.Pos()
			}
		}
		n++
		c.check(!bad.IsValid(), rule, fnKey(fn)+": the held response encoder is ended on every path", site.Pos(),
			"every return has ended the encoder (or found none held)",
			"a return (at "+p.pos(bad)+") leaves the response encoder held in "+fld.Name()+" un-ended: Conn.encMutex stays locked, the connection's goroutine blocks on its next write and the backend session is never closed")
	}
	if n == 0 {
		c.unresolvedRoot("methods ending a response encoder held in a field")
	}
}

// ruleEmbeddedMessageTypes: C03.r. Sibling agreement on which media types
// carry the embedded-message extension of a body structure (envelope, nested
// structure, line count): the client's parser expects those fields for
// exactly the subtypes for which the in-memory backend supplies them (the
// server's writer emits them whenever the backend did). A subtype the backend
// knows and the client does not makes the client lose the whole FETCH.
func ruleEmbeddedMessageTypes(c *Ctx, rule string) {
	p := c.P
	collect := func(pkg string) (map[string]bool, token.Pos) {
		out := map[string]bool{}
		raw := map[string]bool{}
		var pos token.Pos
		defer func() {
			full := false
			for s := range raw {
				if strings.HasPrefix(s, "message/") {
					full = true
					out[strings.TrimPrefix(s, "message/")] = true
				}
			}
			// type and subtype compared separately: "message" and the subtypes
			if !full && raw["message"] {
				for s := range raw {
					if s != "message" && !strings.Contains(s, "/") {
						out[s] = true
					}
				}
			}
		}()
		for _, fn := range p.SrcFuncs(pkg) {
			pd := postDominators(fn)
			allInstrs(fn, func(i ssa.Instruction) {
				st, ok := i.(*ssa.Store)
				if !ok || isNilConst(st.Val) {
					return
				}
				r, ok := fieldOf(st.Addr)
				if !ok || r.Field == nil || r.Field.Name() != "MessageRFC822" {
					return
				}
				pos = st.Pos()
				seen := map[ssa.Value]bool{}
				var walk func(v ssa.Value, d int)
				condsOf := func(g *ssa.Function, b *ssa.BasicBlock) {
					gpd := postDominators(g)
					for x := range transitiveDeps(g, gpd, b) {
						if ifi, isIf := x.Instrs[len(x.Instrs)-1].(*ssa.If); isIf {
							walk(ifi.Cond, 0)
						}
					}
				}
				defer func() {
					// the guard may sit at the call sites of a helper holding the store
					for _, site := range callSitesOf(p, fn) {
						if site.Parent() != nil && pkgPathOf(site.Parent()) == pkgPathOf(fn) {
							condsOf(site.Parent(), site.Block())
						}
					}
				}()
				walk = func(v ssa.Value, d int) {
					if v == nil || seen[v] || d > 6 {
						return
					}
					seen[v] = true
					if s, ok := constString(v); ok && s != "" {
						raw[strings.ToLower(s)] = true
					}
					// a predicate helper: the constants it compares with
					if call, ok := v.(*ssa.Call); ok {
						if h := staticCallee(call); h != nil && inModule(h) && h.Blocks != nil && h.Signature.Results().Len() == 1 {
							allInstrs(h, func(j ssa.Instruction) {
								for _, op := range j.Operands(nil) {
									if *op != nil {
										if s, ok := constString(*op); ok && s != "" {
											raw[strings.ToLower(s)] = true
										}
									}
								}
							})
						}
					}
					if in, ok := v.(ssa.Instruction); ok {
						for _, op := range in.Operands(nil) {
							if *op != nil {
								if _, isFn := (*op).(*ssa.Function); !isFn {
									walk(*op, d+1)
								}
							}
						}
					}
				}
				for x := range transitiveDeps(fn, pd, st.Block()) {
					ifi, isIf := x.Instrs[len(x.Instrs)-1].(*ssa.If)
					if !isIf {
						continue
					}
					walk(ifi.Cond, 0)
				}
			})
		}
		return out, pos
	}
	backend, _ := collect("imapserver/imapmemserver")
	client, cpos := collect("imapclient")
	if len(backend) == 0 || len(client) == 0 {
		c.unresolvedRoot("the media-type tests guarding BodyStructureSinglePart.MessageRFC822 in backend and client")
		return
	}
	var missing, all []string
	for s := range backend {
		all = append(all, s)
		if !client[s] {
			missing = append(missing, s)
		}
	}
	sort.Strings(all)
	sort.Strings(missing)
	c.check(len(missing) == 0, rule, "embedded-message subtypes: backend ⊆ client", cpos,
		"the client expects the embedded-message fields for every subtype the backend supplies them for ("+strings.Join(all, ", ")+")",
		"the backend supplies (and the server writes) envelope, nested structure and line count for message/"+strings.Join(missing, ", message/")+", but the client's parser does not expect them for that subtype: the response fails to parse and the whole FETCH is lost")
}

// ruleCopySnapshotComplete: C09.l. When the backend builds an options struct
// itself to re-insert a message (COPY/MOVE snapshot → AppendOptions), it sets
// every field that the inserting code reads: a field left out silently takes
// the insert path's default (INTERNALDATE becomes "now").
func ruleCopySnapshotComplete(c *Ctx, rule string) {
	p := c.P
	funcs := p.SrcFuncs("imapserver/imapmemserver")
	// fields of module option structs read in the package
	read := map[*types.Named]map[*types.Var]bool{}
	for _, fn := range funcs {
		allInstrs(fn, func(i ssa.Instruction) {
			fa, ok := i.(*ssa.FieldAddr)
			if !ok {
				return
			}
			r, ok := fieldOf(fa)
			if !ok || r.Owner == nil || !strings.HasSuffix(r.Owner.Obj().Name(), "Options") || isFreshLocal(fa.X) {
				return
			}
			for _, ref := range *fa.Referrers() {
				if u, ok := ref.(*ssa.UnOp); ok && u.Op == token.MUL {
					if read[r.Owner] == nil {
						read[r.Owner] = map[*types.Var]bool{}
					}
					read[r.Owner][r.Field] = true
				}
			}
		})
	}
	n := 0
	for _, fn := range funcs {
		// snapshot structs: an options struct nested in a struct literal of
		// the package (messageCopy{options: imap.AppendOptions{…}})
		type key struct {
			outer ssa.Value
			fld   *types.Var
		}
		set := map[key]map[*types.Var]bool{}
		owner := map[key]*types.Named{}
		pos := map[key]token.Pos{}
		allInstrs(fn, func(i ssa.Instruction) {
			st, ok := i.(*ssa.Store)
			if !ok {
				return
			}
			inner, ok := st.Addr.(*ssa.FieldAddr)
			if !ok {
				return
			}
			outerFA, ok := inner.X.(*ssa.FieldAddr)
			if !ok {
				return
			}
			ri, ok1 := fieldOf(inner)
			ro, ok2 := fieldOf(outerFA)
			if !ok1 || !ok2 || ri.Owner == nil || read[ri.Owner] == nil || ro.Owner == nil || ro.Owner.Obj().Pkg() == nil || !strings.HasSuffix(ro.Owner.Obj().Pkg().Path(), "/imapmemserver") {
				return
			}
			if !isFreshLocal(outerFA.X) {
				return
			}
			k := key{outerFA.X, ro.Field}
			if set[k] == nil {
				set[k] = map[*types.Var]bool{}
			}
			set[k][ri.Field] = true
			owner[k] = ri.Owner
			if !pos[k].IsValid() {
				pos[k] = instrPos(st)
			}
		})
		for k, fields := range set {
			nm := owner[k]
			n++
			var missing []string
			for f := range read[nm] {
				if !fields[f] {
					missing = append(missing, f.Name())
				}
			}
			sort.Strings(missing)
			c.check(len(missing) == 0, rule, fmt.Sprintf("%s: %s nested in %s", fnKey(fn), nm.Obj().Name(), k.fld.Name()), pos[k],
				"sets every field the backend reads from such a value",
				"the "+nm.Obj().Name()+" built here leaves out "+strings.Join(missing, ", ")+", which the inserting code reads: the re-inserted message takes the default instead of the original's value (a copied message gets the time of the copy as INTERNALDATE)")
		}
	}
	// also literals nested in another struct literal (Field stores of a struct value)
	if n == 0 {
		c.unresolvedRoot("option structs built by the in-memory backend itself")
	}
}

// connFailurePredicate: h(err) is true exactly when err is non-nil and is not
// the server's tagged refusal (*imap.Error): every return is the constant
// false on the err == nil edge, or !errors.As(err, **imap.Error).
func connFailurePredicate(h *ssa.Function) bool {
	if h == nil || h.Blocks == nil || !inModule(h) || len(h.Params) == 0 || h.Signature.Results().Len() != 1 {
		return false
	}
	var prm *ssa.Parameter
	for _, q := range h.Params {
		if isErrorType(q.Type()) {
			prm = q
		}
	}
	if prm == nil {
		return false
	}
	isAs := func(v ssa.Value) bool {
		call, ok := v.(*ssa.Call)
		if !ok {
			return false
		}
		o := calleeObj(call)
		if o == nil || o.Pkg() == nil || o.Pkg().Path() != "errors" || o.Name() != "As" || len(call.Call.Args) != 2 {
			return false
		}
		t := call.Call.Args[1].Type()
		if mi, ok := call.Call.Args[1].(*ssa.MakeInterface); ok {
			t = mi.X.Type()
		}
		return strings.Contains(t.String(), modPath+".Error") && (call.Call.Args[0] == ssa.Value(prm) || paramOf(call.Call.Args[0]) == prm)
	}
	flow := mustFlow(h, facts{}, nil, func(f facts, b *ssa.BasicBlock, s int) facts {
		for _, a := range edgeAtoms(b, s) {
			if (a.V == ssa.Value(prm) || paramOf(a.V) == prm) && a.Nil == 1 {
				f = f.with("err-nil")
			}
			if a.True == 1 && isAs(a.V) {
				f = f.with("refusal")
			}
			if a.True == -1 && isAs(a.V) {
				f = f.with("not-refusal")
			}
		}
		return f
	})
	some := false
	for _, r := range returnsOf(h) {
		f, reach := flow.at(r)
		if !reach {
			continue
		}
		v := unspill(r.Results[0])
		switch x := v.(type) {
		case *ssa.Const:
			if x.Value == nil {
				return false
			}
			if x.Value.String() == "false" {
				if !f.has("err-nil") && !f.has("refusal") {
					return false
				}
			} else if !f.has("not-refusal") {
				return false
			}
		case *ssa.UnOp:
			if x.Op != token.NOT || !isAs(x.X) {
				return false
			}
			some = true
		default:
			return false
		}
	}
	return some
}

// ruleDecodedSetsKeepIdentity: C02.o. A number set the wire decoder hands to
// its caller through an out-pointer is the decoded value itself: the `$`
// marker (imap.SearchRes()) is an ordinary empty UIDSet recognised by its data
// pointer, so a decoder that copies the elements into the caller's set
// (`*ptr = append((*ptr)[:0], set...)`) turns "the saved search result" into
// "no messages".
func ruleDecodedSetsKeepIdentity(c *Ctx, rule string) {
	p := c.P
	n := 0
	isSetPtr := func(t types.Type) bool {
		pt, ok := t.(*types.Pointer)
		if !ok {
			return false
		}
		nm, ok := types.Unalias(pt.Elem()).(*types.Named)
		return ok && (nm.Obj().Name() == "UIDSet" || nm.Obj().Name() == "SeqSet" || nm.Obj().Name() == "NumSet")
	}
	for _, fn := range p.SrcFuncs("internal/imapwire") {
		if nm := recvNamedOfFn(fn); nm == nil || nm.Obj().Name() != "Decoder" {
			continue
		}
		var outs []*ssa.Parameter
		for _, q := range fn.Params {
			if isSetPtr(q.Type()) {
				outs = append(outs, q)
			}
		}
		if len(outs) == 0 {
			continue
		}
		allInstrs(fn, func(i ssa.Instruction) {
			st, ok := i.(*ssa.Store)
			if !ok {
				return
			}
			isOut := false
			for _, q := range outs {
				if st.Addr == ssa.Value(q) || paramOf(st.Addr) == q {
					isOut = true
				}
			}
			if !isOut {
				return
			}
			n++
			copied := false
			v := st.Val
			for k := 0; k < 4; k++ {
				switch x := v.(type) {
				case *ssa.MakeInterface:
					v = x.X
					continue
				case *ssa.ChangeType:
					v = x.X
					continue
				case *ssa.Call:
					if b, ok := x.Call.Value.(*ssa.Builtin); ok && (b.Name() == "append" || b.Name() == "copy") {
						copied = true
					}
				}
				break
			}
			c.check(!copied, rule, fmt.Sprintf("%s: set stored through the out-pointer#%d", fnKey(fn), countKey(c, rule, fnKey(fn)+": set stored through the out-pointer#")+1), instrPos(st),
				"the decoded set itself is handed over",
				"the decoded number set is copied element by element into the caller's set: a copy of the `$` marker (SearchRes) is an ordinary empty set, so `UID FETCH $`/`UID STORE $` reach the backend as an empty set instead of the saved search result")
		})
	}
	if n == 0 {
		c.unresolvedRoot("number sets stored through out-pointers of Decoder methods")
	}
}

// ruleRetainedSuffixCount: C08.o. When a queue is split into a delivered
// prefix (elements appended to a local list inside a loop) and a retained
// suffix (`queue = queue[n:]` with a counter n maintained by the same loop),
// the counter counts exactly the delivered elements: in every round of the
// loop the increment of n and the append happen together, so at every exit of
// the loop body n equals the number of elements delivered. A counter bumped
// at the top of the round, before the test that leaves the loop, is one too
// many: the element that stopped the loop (a held-back EXPUNGE) is dropped.
func ruleRetainedSuffixCount(c *Ctx, rule string, pkgs ...string) {
	p := c.P
	n := 0
	for _, fn := range p.SrcFuncs(pkgs...) {
		// queue = queue[n:] with n a loop-carried counter
		allInstrs(fn, func(i ssa.Instruction) {
			st, ok := i.(*ssa.Store)
			if !ok {
				return
			}
			rf, ok := fieldOf(st.Addr)
			if !ok || rf.Field == nil {
				return
			}
			sl, ok := st.Val.(*ssa.Slice)
			if !ok || sl.Low == nil || sl.High != nil {
				return
			}
			if r0, ok := loadedField(sl.X); !ok || r0.Field != rf.Field {
				return
			}
			if _, isConst := sl.Low.(*ssa.Const); isConst {
				return
			}
			// the counter's increments
			var incs []*ssa.BinOp
			seen := map[ssa.Value]bool{}
			var walk func(v ssa.Value)
			walk = func(v ssa.Value) {
				if v == nil || seen[v] {
					return
				}
				seen[v] = true
				switch x := v.(type) {
				case *ssa.Phi:
					for _, e := range x.Edges {
						walk(e)
					}
				case *ssa.BinOp:
					if x.Op == token.ADD {
						if k, ok := constInt(x.Y); ok && k == 1 {
							if _, isPhi := x.X.(*ssa.Phi); isPhi {
								// not the range index itself (phi starting at -1)
								if ph := x.X.(*ssa.Phi); len(ph.Edges) == 2 {
									if k0, ok := constInt(ph.Edges[0]); ok && k0 == -1 {
										return
									}
									if k1, ok := constInt(ph.Edges[1]); ok && k1 == -1 {
										return
									}
								}
								incs = append(incs, x)
								walk(x.X)
							}
						}
					}
				}
			}
			walk(sl.Low)
			if len(incs) == 0 {
				return
			}
			inc := incs[0]
			// the loop: blocks that can reach the increment's block and are reachable from it
			inLoop := func(b *ssa.BasicBlock) bool {
				return (b == inc.Block() || reaches(b, inc.Block())) && (b == inc.Block() || reaches2(inc.Block(), b)) && reaches2(inc.Block(), inc.Block())
			}
			if !reaches2(inc.Block(), inc.Block()) {
				return
			}
			// appends in the loop (the delivered list)
			isAppend := func(j ssa.Instruction) bool {
				call, ok := j.(*ssa.Call)
				if !ok {
					return false
				}
				b, ok := call.Call.Value.(*ssa.Builtin)
				return ok && b.Name() == "append"
			}
			hasAppend := false
			for _, b := range fn.Blocks {
				if inLoop(b) {
					for _, j := range b.Instrs {
						if isAppend(j) {
							hasAppend = true
						}
					}
				}
			}
			if !hasAppend {
				return
			}
			n++
			flow := mustFlow(fn, facts{}.with("eq"), func(f facts, j ssa.Instruction) facts {
				if !inLoop(j.Block()) {
					return f
				}
				step := func(f facts, mine, other string) facts {
					switch {
					case f.has("eq"):
						return f.without(func(s string) bool { return s == "eq" }).with(mine)
					case f.has(other):
						return f.without(func(s string) bool { return s == other }).with("eq")
					}
					return f.without(func(s string) bool { return s == "eq" || s == mine || s == other })
				}
				if j == ssa.Instruction(inc) {
					return step(f, "inc1", "app1")
				}
				if isAppend(j) {
					return step(f, "app1", "inc1")
				}
				return f
			}, nil)
			bad := token.NoPos
			for _, b := range fn.Blocks {
				if !inLoop(b) {
					continue
				}
				for _, s := range b.Succs {
					// leaving the loop, or going round again
					if !inLoop(s) || s.Dominates(b) {
						if f, reach := flow.atEnd(b); reach && !f.has("eq") {
							bad = instrPos(b.Instrs[len(b.Instrs)-1])
						}
					}
				}
			}
			c.check(!bad.IsValid(), rule, fmt.Sprintf("%s: %s = %s[n:] counts the delivered elements", fnKey(fn), rf.Field.Name(), rf.Field.Name()), st.Pos(),
				"in every round the counter is incremented exactly when an element is appended to the delivered list",
				"the offset of the retained suffix is incremented in a round that does not deliver its element (or the other way round; loop left at "+p.pos(bad)+"): the element at the boundary is neither delivered nor kept — a held-back EXPUNGE is silently dropped and the session's sequence numbers diverge")
		})
	}
	if n == 0 {
		c.okTrivial(rule, "no counted retained suffix", token.NoPos, "no queue is re-sliced at a loop-maintained counter in "+strings.Join(pkgs, ","))
	}
}

// ruleOverlappingRecursionMemoised: C06.n. A function that calls itself from
// inside a loop, on suffixes of its own string parameters (name[j:], rest),
// solves overlapping sub-problems: without remembering the ones already known
// to fail, the number of calls grows exponentially with the number of
// wildcards in a client-supplied pattern (LIST "" "*a*a*a…*b" spins the
// connection's goroutine for hours, with the backend's lock held). Such a
// function must carry a table (a map parameter or captured map) that it
// consults before recursing and updates when a sub-problem fails.
func ruleOverlappingRecursionMemoised(c *Ctx, rule string, pkgs ...string) {
	p := c.P
	n := 0
	isStr := func(t types.Type) bool {
		b, ok := t.Underlying().(*types.Basic)
		return ok && b.Info()&types.IsString != 0
	}
	for _, fn := range p.SrcFuncs(pkgs...) {
		if fn.Parent() != nil {
			continue
		}
		var strParams []*ssa.Parameter
		for _, q := range fn.Params {
			if isStr(q.Type()) {
				strParams = append(strParams, q)
			}
		}
		if len(strParams) == 0 {
			continue
		}
		// suffix of a string parameter: the parameter, a re-slice of it with an open upper bound,
		// strings.TrimPrefix of it, or a phi of those
		var isSuffix func(v ssa.Value, seen map[ssa.Value]bool) bool
		isSuffix = func(v ssa.Value, seen map[ssa.Value]bool) bool {
			if v == nil || seen[v] {
				return false
			}
			seen[v] = true
			for _, q := range strParams {
				if v == ssa.Value(q) {
					return true
				}
			}
			switch x := v.(type) {
			case *ssa.Slice:
				return x.High == nil && isSuffix(x.X, seen)
			case *ssa.Call:
				if o := calleeObj(x); o != nil && o.Pkg() != nil && o.Pkg().Path() == "strings" && o.Name() == "TrimPrefix" && len(x.Call.Args) > 0 {
					return isSuffix(x.Call.Args[0], seen)
				}
			case *ssa.Phi:
				for _, e := range x.Edges {
					if isSuffix(e, seen) {
						return true
					}
				}
			}
			return false
		}
		var site *ssa.Call
		allInstrs(fn, func(i ssa.Instruction) {
			call, ok := i.(*ssa.Call)
			if !ok || staticCallee(call) != fn {
				return
			}
			if !reaches2(call.Block(), call.Block()) {
				return // not in a loop
			}
			suffixArgs := 0
			for _, a := range call.Call.Args {
				if isStr(a.Type()) && isSuffix(a, map[ssa.Value]bool{}) {
					suffixArgs++
				}
			}
			if suffixArgs >= 2 {
				site = call
			}
		})
		if site == nil {
			continue
		}
		n++
		// a table consulted and updated
		looked, updated := false, false
		allInstrs(fn, func(i ssa.Instruction) {
			switch x := i.(type) {
			case *ssa.Lookup:
				if _, isMap := x.X.Type().Underlying().(*types.Map); isMap {
					looked = true
				}
			case *ssa.MapUpdate:
				updated = true
			}
		})
		c.check(looked && updated, rule, fnKey(fn)+": overlapping recursion is memoised", site.Pos(),
			"the function consults and updates a table of sub-problems around its recursion",
			fnKey(fn)+" calls itself from inside a loop on suffixes of its own string arguments and keeps no table of the suffix pairs already known to fail: the work is exponential in the number of wildcards of a client-supplied pattern — one LIST command keeps the connection's goroutine (and the backend's lock) busy for hours")
	}
	if n == 0 {
		c.okTrivial(rule, "no self-recursion over string suffixes inside a loop", token.NoPos, "0 functions in "+strings.Join(pkgs, ","))
	}
}
