package main

import (
	"fmt"
	"go/ast"
	"go/token"
	"go/types"

	"golang.org/x/tools/go/ssa"
)

// successFacts names what a branch edge establishes: "ok:<callee>" on the
// success edge of a call (error result nil / bool result true; for tuple
// results "ok:<callee>" for the error component and "true#i:<callee>" for a
// true boolean component i), "fail:<callee>" on the failure edge.
func edgeFacts(b *ssa.BasicBlock, succ int) []string {
	var out []string
	for _, a := range edgeAtoms(b, succ) {
		out = append(out, atomFacts(a)...)
	}
	return out
}

// atomFacts: the gate facts one condition atom establishes, including the
// success summary of a module callee.
func atomFacts(a condAtom) []string {
	var out []string
	c, idx := callOf(a.V)
	if c == nil {
		return nil
	}
	key := callKey(c)
	if key == "" {
		return nil
	}
	success := false
	switch {
	case a.Nil == 1 && isErrorType(a.V.Type()):
		out = append(out, "ok:"+key)
		success = true
	case a.Nil == -1 && isErrorType(a.V.Type()):
		out = append(out, "fail:"+key)
	case a.True == 1 && idx < 0:
		out = append(out, "ok:"+key)
		success = true
	case a.True == -1 && idx < 0:
		out = append(out, "fail:"+key)
	case a.True == 1:
		out = append(out, fmt.Sprintf("true#%d:%s", idx, key))
	case a.True == -1:
		out = append(out, fmt.Sprintf("false#%d:%s", idx, key))
	}
	if success {
		if cal := staticCallee(c); cal != nil && inModule(cal) && cal.Blocks != nil {
			for _, s := range okSummary(cal).list() {
				out = append(out, s)
			}
		}
	}
	return out
}

// gateFlow: must-analysis of "this call has succeeded on every path to here".
func gateFlow(fn *ssa.Function, entry facts) *mustResult {
	if ctx := entryContext(fn); len(ctx) > 0 {
		entry = entry.with(ctx.list()...)
	}
	return gateFlowRaw(fn, entry)
}

// gateFlowRaw: without the interprocedural entry context.
func gateFlowRaw(fn *ssa.Function, entry facts) *mustResult {
	return mustFlow(fn, entry, nil, func(f facts, b *ssa.BasicBlock, succ int) facts {
		ef := edgeFacts(b, succ)
		if len(ef) == 0 {
			return f
		}
		return f.with(ef...)
	})
}

// invocationPoints returns the call instructions of parent through which the
// closure mc (or a value built from it) may be invoked.
func invocationPoints(parent *ssa.Function, mc *ssa.MakeClosure) []ssa.CallInstruction {
	carriers := map[ssa.Value]bool{mc: true}
	cells := map[*ssa.Alloc]bool{}
	var points []ssa.CallInstruction
	seenPt := map[ssa.Instruction]bool{}
	for changed := true; changed; {
		changed = false
		allInstrs(parent, func(i ssa.Instruction) {
			uses := false
			for _, op := range i.Operands(nil) {
				if *op != nil && carriers[*op] {
					uses = true
				}
			}
			if u, ok := i.(*ssa.UnOp); ok && u.Op == token.MUL {
				if al, ok := u.X.(*ssa.Alloc); ok && cells[al] && !carriers[u] {
					carriers[u] = true
					changed = true
				}
			}
			if !uses {
				return
			}
			if st, ok := i.(*ssa.Store); ok {
				if al, ok := st.Addr.(*ssa.Alloc); ok && carriers[st.Val] && !cells[al] {
					cells[al] = true
					changed = true
				}
				return
			}
			if c, ok := i.(ssa.CallInstruction); ok && !seenPt[i] {
				seenPt[i] = true
				points = append(points, c)
				changed = true
			}
			if v, ok := i.(ssa.Value); ok && !carriers[v] {
				switch i.(type) {
				case *ssa.Call, *ssa.Phi, *ssa.MakeInterface, *ssa.ChangeInterface, *ssa.ChangeType, *ssa.Extract, *ssa.MakeClosure:
					carriers[v] = true
					changed = true
				}
			}
		})
	}
	return points
}

// closureFacts: the facts a closure may rely on at entry = intersection of the
// facts at each of its possible invocation points in the parent (for deferred
// invocations: nothing beyond the facts at the defer statement, conservatively).
func closureFacts(parentRes *mustResult, mc *ssa.MakeClosure) facts {
	pts := invocationPoints(parentRes.fn, mc)
	var acc facts
	first := true
	add := func(f facts, ok bool) {
		if !ok {
			return
		}
		if first {
			acc, first = f, false
		} else {
			acc = factsLattice.join(acc, f)
		}
	}
	for _, pt := range pts {
		add(parentRes.at(pt))
	}
	if first {
		add(parentRes.at(mc))
	}
	if acc == nil {
		acc = facts{}
	}
	return acc
}

// gateFlowDeep analyses fn and, recursively, its closures with inherited
// facts; at(instr) works for instructions of fn and of all nested closures.
type deepFlow struct {
	res map[*ssa.Function]*mustResult
}

func gateFlowDeep(fn *ssa.Function, entry facts) *deepFlow {
	d := &deepFlow{res: map[*ssa.Function]*mustResult{}}
	var rec func(f *ssa.Function, e facts)
	rec = func(f *ssa.Function, e facts) {
		r := gateFlow(f, e)
		d.res[f] = r
		allInstrs(f, func(i ssa.Instruction) {
			if mc, ok := i.(*ssa.MakeClosure); ok {
				if cl, ok := mc.Fn.(*ssa.Function); ok && d.res[cl] == nil {
					rec(cl, closureFacts(r, mc))
				}
			}
		})
	}
	rec(fn, entry)
	return d
}

func (d *deepFlow) at(i ssa.Instruction) (facts, bool) {
	r := d.res[i.Parent()]
	if r == nil {
		return nil, false
	}
	return r.at(i)
}

// ---- AST helpers -----------------------------------------------------------

// switchOn finds, in fd, the switch statement whose tag is the identifier tag.
func switchOn(fd *ast.FuncDecl, tag string) *ast.SwitchStmt {
	var found *ast.SwitchStmt
	ast.Inspect(fd.Body, func(n ast.Node) bool {
		if s, ok := n.(*ast.SwitchStmt); ok && found == nil {
			if id, ok := s.Tag.(*ast.Ident); ok && id.Name == tag {
				found = s
			}
		}
		return found == nil
	})
	return found
}

// methodCallsIn lists calls x.m(...) inside n where m resolves to a method of
// the named type recv (through the package's type info).
func methodCallsIn(info *types.Info, n ast.Node, pred func(*types.Func) bool) []*ast.CallExpr {
	var out []*ast.CallExpr
	ast.Inspect(n, func(x ast.Node) bool {
		if c, ok := x.(*ast.CallExpr); ok {
			if f := calledFunc(info, c); f != nil && pred(f) {
				out = append(out, c)
			}
		}
		return true
	})
	return out
}

// calledFunc resolves the *types.Func a call expression invokes (nil for
// conversions, builtins and calls of function values).
func calledFunc(info *types.Info, c *ast.CallExpr) *types.Func {
	switch fun := ast.Unparen(c.Fun).(type) {
	case *ast.Ident:
		f, _ := info.Uses[fun].(*types.Func)
		return f
	case *ast.SelectorExpr:
		if sel := info.Selections[fun]; sel != nil {
			f, _ := sel.Obj().(*types.Func)
			return f
		}
		f, _ := info.Uses[fun.Sel].(*types.Func)
		return f
	case *ast.IndexExpr: // generic instantiation f[T](…)
		switch g := ast.Unparen(fun.X).(type) {
		case *ast.Ident:
			f, _ := info.Uses[g].(*types.Func)
			return f
		case *ast.SelectorExpr:
			f, _ := info.Uses[g.Sel].(*types.Func)
			return f
		}
	}
	return nil
}

// callKey names the callee of c: the resolved function/method, or
// "field:<Name>" for a call of a function-valued struct field.
func callKey(c ssa.CallInstruction) string {
	if obj := calleeObj(c); obj != nil {
		return funcKey(obj)
	}
	if r, ok := loadedField(c.Common().Value); ok {
		return "field:" + r.Field.Name()
	}
	return ""
}
