package main

import (
	"go/types"
	"os"
	"strings"
)

// Method anchors that are recognisable by a signature that is unique among
// the unexported methods of their receiver. When the anchored name is gone
// (renamed by a cleanup) and exactly one unexported method of the receiver
// has the recorded signature, that method is taken for the anchor: funcKey
// reports it under the anchored name and Program.Func resolves it. Anchors
// without a unique signature stay name-bound; a missing one yields
// UNRESOLVED, never a verdict about the property.
var methodShape = map[string]string{
	"imapclient.Client.beginCommand":          "string,command→*commandEncoder",
	"imapclient.Client.closeWithError":        "error→",
	"imapclient.Client.completeCommand":       "command,error→",
	"imapclient.Client.deletePendingCmdByTag": "string→command",
	"imapclient.Client.findPendingCmdFunc":    "func(cmd command) bool→command",
	"imapclient.Client.registerContReq":       "command→*imapwire.ContinuationRequest",
	"imapclient.Client.readResponseData":      "string→error",
	"imapclient.Client.setState":              "imap.ConnState→",
	"imapserver.Conn.checkState":              "imap.ConnState→error",
	"imapserver.Conn.rejectLiteral":           "bool→",
	"imapserver.Conn.availableCaps":           "→[]imap.Cap",
}

func sigShape(sig *types.Signature) string {
	q := func(p *types.Package) string { return p.Name() }
	var ps, rs []string
	for i := 0; i < sig.Params().Len(); i++ {
		ps = append(ps, types.TypeString(sig.Params().At(i).Type(), q))
	}
	for i := 0; i < sig.Results().Len(); i++ {
		rs = append(rs, types.TypeString(sig.Results().At(i).Type(), q))
	}
	s := strings.Join(ps, ",") + "→" + strings.Join(rs, ",")
	// types of the method's own package print with their package name; drop it
	return s
}

var (
	anchorAliasDone bool
	anchorAlias     = map[*types.Func]string{} // renamed method → anchored name
	anchorTarget    = map[string]*types.Func{} // "pkg.Recv.name" → renamed method
)

func buildAnchorAliases(p *Program) {
	if anchorAliasDone {
		return
	}
	anchorAliasDone = true
	for key, shape := range methodShape {
		parts := strings.Split(key, ".")
		pkgName, recv, name := parts[0], parts[1], parts[2]
		var named *types.Named
		for _, pk := range p.All {
			if pk.Types.Name() == pkgName {
				if tn, ok := pk.Types.Scope().Lookup(recv).(*types.TypeName); ok {
					named, _ = tn.Type().(*types.Named)
				}
			}
		}
		if named == nil {
			continue
		}
		exists := false
		var cands []*types.Func
		for i := 0; i < named.NumMethods(); i++ {
			m := named.Method(i)
			if m.Name() == name {
				exists = true
			}
			if m.Exported() {
				continue
			}
			sh := strings.ReplaceAll(sigShape(m.Type().(*types.Signature)), pkgName+".", "")
			if sh == shape {
				cands = append(cands, m)
			}
		}
		if exists && os.Getenv("IMAPCHECK_DEBUG_ANCHORS") != "" {
			ok := false
			for _, m := range cands {
				if m.Name() == name {
					ok = true
				}
			}
			println("anchor", key, "shape matches:", ok, "candidates:", len(cands))
		}
		if !exists && len(cands) == 1 {
			anchorAlias[cands[0]] = name
			anchorTarget[key] = cands[0]
		}
	}
}

// anchoredName: the name rules know obj by.
func anchoredName(obj *types.Func) string {
	if n, ok := anchorAlias[obj]; ok {
		return n
	}
	return obj.Name()
}
