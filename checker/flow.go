package main

import (
	"fmt"
	"go/constant"
	"go/token"
	"go/types"
	"sort"
	"strings"

	"golang.org/x/tools/go/ssa"
)

// ---- generic forward dataflow over SSA blocks, edge-sensitive --------------

type lattice[T any] struct {
	join  func(a, b T) T
	equal func(a, b T) bool
}

// forward computes the fact at entry of every reachable block. instr
// transforms a fact across one instruction; edge across the edge b→b.Succs[i]
// (after all of b's instructions). A nil *T entry in the result means the block
// is unreachable under the analysis (edge may return ok=false to prune).
func forward[T any](fn *ssa.Function, L lattice[T], entry T,
	instr func(T, ssa.Instruction) T,
	edge func(T, *ssa.BasicBlock, int) (T, bool)) map[*ssa.BasicBlock]*T {

	in := map[*ssa.BasicBlock]*T{}
	if len(fn.Blocks) == 0 {
		return in
	}
	e := entry
	in[fn.Blocks[0]] = &e
	work := []*ssa.BasicBlock{fn.Blocks[0]}
	if fn.Recover != nil {
		// the recover block is entered after a recovered panic: no facts
		// (handled by callers that care; by default it is analysed from entry facts)
	}
	for len(work) > 0 {
		b := work[0]
		work = work[1:]
		cur := *in[b]
		for _, ins := range b.Instrs {
			cur = instr(cur, ins)
		}
		for i, s := range b.Succs {
			out, ok := edge(cur, b, i)
			if !ok {
				continue
			}
			if old := in[s]; old == nil {
				o := out
				in[s] = &o
				work = append(work, s)
			} else {
				j := L.join(*old, out)
				if !L.equal(j, *old) {
					in[s] = &j
					work = append(work, s)
				}
			}
		}
	}
	return in
}

// ---- must-facts (set of strings, meet = intersection) ----------------------

type facts map[string]bool

func (f facts) with(s ...string) facts {
	n := make(facts, len(f)+len(s))
	for k := range f {
		n[k] = true
	}
	for _, k := range s {
		n[k] = true
	}
	return n
}
func (f facts) without(pred func(string) bool) facts {
	n := make(facts, len(f))
	for k := range f {
		if !pred(k) {
			n[k] = true
		}
	}
	return n
}
func (f facts) has(s string) bool { return f[s] }
func (f facts) hasPrefix(p string) bool {
	for k := range f {
		if strings.HasPrefix(k, p) {
			return true
		}
	}
	return false
}
func (f facts) list() []string {
	var l []string
	for k := range f {
		l = append(l, k)
	}
	sort.Strings(l)
	return l
}

var factsLattice = lattice[facts]{
	join: func(a, b facts) facts {
		n := facts{}
		for k := range a {
			if b[k] {
				n[k] = true
			}
		}
		return n
	},
	equal: func(a, b facts) bool {
		if len(a) != len(b) {
			return false
		}
		for k := range a {
			if !b[k] {
				return false
			}
		}
		return true
	},
}

// mustFlow runs a must-analysis: gen(instr) adds/kills facts at an
// instruction, edgeGen adds facts on a branch edge.
type mustResult struct {
	fn  *ssa.Function
	in  map[*ssa.BasicBlock]*facts
	gen func(facts, ssa.Instruction) facts
}

func mustFlow(fn *ssa.Function, entry facts,
	gen func(facts, ssa.Instruction) facts,
	edgeGen func(f facts, b *ssa.BasicBlock, succ int) facts) *mustResult {
	if gen == nil {
		gen = func(f facts, _ ssa.Instruction) facts { return f }
	}
	in := forward(fn, factsLattice, entry, gen, func(f facts, b *ssa.BasicBlock, i int) (facts, bool) {
		if edgeGen == nil {
			return f, true
		}
		return edgeGen(f, b, i), true
	})
	return &mustResult{fn: fn, in: in, gen: gen}
}

// at returns the facts holding immediately before instr (nil, false if the
// instruction is unreachable).
func (r *mustResult) at(instr ssa.Instruction) (facts, bool) {
	b := instr.Block()
	p := r.in[b]
	if p == nil {
		return nil, false
	}
	cur := *p
	for _, ins := range b.Instrs {
		if ins == instr {
			return cur, true
		}
		cur = r.gen(cur, ins)
	}
	return cur, true
}

// atExit returns facts at the end of block b.
func (r *mustResult) atEnd(b *ssa.BasicBlock) (facts, bool) {
	p := r.in[b]
	if p == nil {
		return nil, false
	}
	cur := *p
	for _, ins := range b.Instrs {
		cur = r.gen(cur, ins)
	}
	return cur, true
}

// ---- understanding branch conditions --------------------------------------

// A condAtom describes what the edge b→Succs[succ] says about one SSA value:
// for error-typed values "isNil", for booleans "isTrue", for comparisons with
// a constant the relation.
type condAtom struct {
	V     ssa.Value   // the tested value (a call result, an Extract, a load …)
	Nil   int         // +1: V == nil on this edge, -1: V != nil, 0: n/a
	True  int         // +1: V is true on this edge, -1 false, 0 n/a
	Op    token.Token // for comparisons V Op Const (on this edge)
	Const *ssa.Const
	Other ssa.Value // for comparisons with a non-constant
}

func isNilConst(v ssa.Value) bool {
	c, ok := v.(*ssa.Const)
	return ok && c.Value == nil && !isBasic(c.Type())
}
func isBasic(t types.Type) bool {
	_, ok := t.Underlying().(*types.Basic)
	return ok
}

func negateOp(op token.Token) token.Token {
	switch op {
	case token.EQL:
		return token.NEQ
	case token.NEQ:
		return token.EQL
	case token.LSS:
		return token.GEQ
	case token.GEQ:
		return token.LSS
	case token.GTR:
		return token.LEQ
	case token.LEQ:
		return token.GTR
	}
	return token.ILLEGAL
}
func flipOp(op token.Token) token.Token {
	switch op {
	case token.LSS:
		return token.GTR
	case token.GTR:
		return token.LSS
	case token.LEQ:
		return token.GEQ
	case token.GEQ:
		return token.LEQ
	}
	return op
}

// edgeAtoms decodes the condition of the If ending b for successor succ.
func edgeAtoms(b *ssa.BasicBlock, succ int) []condAtom {
	if len(b.Instrs) == 0 {
		return nil
	}
	ifi, ok := b.Instrs[len(b.Instrs)-1].(*ssa.If)
	if !ok {
		return nil
	}
	out := atomsOf(ifi.Cond, succ == 0)
	// a condition hoisted into a named boolean (`ok := a || b; if !ok`) is a
	// phi: add what its truth value implies
	var extra []condAtom
	for _, a := range out {
		if ph, ok := a.V.(*ssa.Phi); ok && a.True != 0 {
			extra = append(extra, phiImpliedAtoms(ph, a.True == 1, 0)...)
		}
	}
	return append(out, extra...)
}

// phiImpliedAtoms: the condition atoms common to every way the boolean phi
// can take the given truth value. Edges carrying the opposite constant are
// excluded; for each remaining edge: the atoms of the edge's value for that
// truth, and the atoms of the branch edges on the chain of single
// predecessors leading to the edge (they hold whenever control arrives that
// way). Must-information: sound to add to the atoms of the testing edge.
func phiImpliedAtoms(ph *ssa.Phi, truth bool, depth int) []condAtom {
	if bt, ok := ph.Type().Underlying().(*types.Basic); !ok || bt.Kind() != types.Bool || depth > 2 {
		return nil
	}
	keyOf := func(a condAtom) string {
		return fmt.Sprintf("%p|%d|%d|%v|%p|%p", a.V, a.Nil, a.True, a.Op, a.Const, a.Other)
	}
	var acc map[string]condAtom
	for k, e := range ph.Edges {
		if c, ok := e.(*ssa.Const); ok && c.Value != nil && c.Value.Kind() == constant.Bool {
			if constant.BoolVal(c.Value) != truth {
				continue
			}
		}
		here := map[string]condAtom{}
		if _, isConst := e.(*ssa.Const); !isConst {
			for _, a := range atomsOf(e, truth) {
				here[keyOf(a)] = a
				if q, ok := a.V.(*ssa.Phi); ok && a.True != 0 && q != ph {
					for _, a2 := range phiImpliedAtoms(q, a.True == 1, depth+1) {
						here[keyOf(a2)] = a2
					}
				}
			}
		}
		cur, next := ph.Block().Preds[k], ph.Block()
		for d := 0; d < 6 && cur != nil; d++ {
			if len(cur.Instrs) > 0 {
				if ifi, ok := cur.Instrs[len(cur.Instrs)-1].(*ssa.If); ok && cur.Succs[0] != cur.Succs[1] {
					for j, sc := range cur.Succs {
						if sc == next {
							for _, a := range atomsOf(ifi.Cond, j == 0) {
								here[keyOf(a)] = a
							}
						}
					}
				}
			}
			if len(cur.Preds) != 1 {
				break
			}
			next, cur = cur, cur.Preds[0]
		}
		if acc == nil {
			acc = here
		} else {
			for key := range acc {
				if _, ok := here[key]; !ok {
					delete(acc, key)
				}
			}
		}
	}
	var keys []string
	for key := range acc {
		keys = append(keys, key)
	}
	sort.Strings(keys)
	var out []condAtom
	for _, key := range keys {
		out = append(out, acc[key])
	}
	return out
}

func atomsOf(cond ssa.Value, truth bool) []condAtom {
	switch v := cond.(type) {
	case *ssa.UnOp:
		if v.Op == token.NOT {
			return atomsOf(v.X, !truth)
		}
	case *ssa.BinOp:
		op := v.Op
		if !truth {
			op = negateOp(op)
		}
		if op == token.ILLEGAL {
			return nil
		}
		x, y := v.X, v.Y
		if _, xc := x.(*ssa.Const); xc {
			if _, yc := y.(*ssa.Const); !yc {
				x, y = y, x
				op = flipOp(op)
			}
		}
		if isNilConst(y) && (op == token.EQL || op == token.NEQ) {
			n := 1
			if op == token.NEQ {
				n = -1
			}
			return []condAtom{{V: x, Nil: n}}
		}
		if c, ok := y.(*ssa.Const); ok {
			a := condAtom{V: x, Op: op, Const: c}
			// comparison of a boolean with a constant
			if c.Value != nil && c.Value.Kind() == constant.Bool && (op == token.EQL || op == token.NEQ) {
				t := constant.BoolVal(c.Value) == (op == token.EQL)
				a.True = map[bool]int{true: 1, false: -1}[t]
			}
			return []condAtom{a}
		}
		return []condAtom{{V: x, Op: op, Other: y}}
	}
	t := 1
	if !truth {
		t = -1
	}
	return []condAtom{{V: cond, True: t}}
}

// callOf returns the call whose result v is (directly, through Extract, or
// through ChangeInterface/MakeInterface wrappers), with the tuple index.
func callOf(v ssa.Value) (ssa.CallInstruction, int) {
	for {
		switch x := v.(type) {
		case *ssa.Call:
			return x, -1
		case *ssa.Extract:
			if c, ok := x.Tuple.(*ssa.Call); ok {
				return c, x.Index
			}
			return nil, 0
		case *ssa.ChangeInterface:
			v = x.X
		case *ssa.MakeInterface:
			v = x.X
		case *ssa.ChangeType:
			v = x.X
		default:
			return nil, 0
		}
	}
}

// successCall: if the edge b→Succs[succ] is the success edge of a call (its
// error result is nil / its bool result is true), return that call.
func successCalls(b *ssa.BasicBlock, succ int) []ssa.CallInstruction {
	var out []ssa.CallInstruction
	for _, a := range edgeAtoms(b, succ) {
		c, _ := callOf(a.V)
		if c == nil {
			continue
		}
		if a.Nil == 1 && isErrorType(a.V.Type()) {
			out = append(out, c)
		}
		if a.True == 1 {
			out = append(out, c)
		}
	}
	return out
}

// failureCalls: the edge is the failure edge of the call.
func failureCalls(b *ssa.BasicBlock, succ int) []ssa.CallInstruction {
	var out []ssa.CallInstruction
	for _, a := range edgeAtoms(b, succ) {
		c, _ := callOf(a.V)
		if c == nil {
			continue
		}
		if a.Nil == -1 && isErrorType(a.V.Type()) {
			out = append(out, c)
		}
		if a.True == -1 {
			out = append(out, c)
		}
	}
	return out
}

var errorType = types.Universe.Lookup("error").Type()

func isErrorType(t types.Type) bool { return types.Identical(t, errorType) }

// ---- callee resolution -----------------------------------------------------

func staticCallee(c ssa.CallInstruction) *ssa.Function {
	if c == nil {
		return nil
	}
	return c.Common().StaticCallee()
}

// calleeObj returns the *types.Func called (static function/method, or the
// interface method for invoke-mode calls); nil for dynamic calls of values.
func calleeObj(c ssa.CallInstruction) *types.Func {
	cc := c.Common()
	if cc.IsInvoke() {
		return cc.Method
	}
	if f := cc.StaticCallee(); f != nil {
		if o, ok := f.Object().(*types.Func); ok {
			return o
		}
		if f.Origin() != nil {
			if o, ok := f.Origin().Object().(*types.Func); ok {
				return o
			}
		}
	}
	return nil
}

// recvNamed returns the named receiver type of a method object (pointer
// stripped), or nil.
func recvNamed(f *types.Func) *types.Named {
	if f == nil {
		return nil
	}
	sig, _ := f.Type().(*types.Signature)
	if sig == nil || sig.Recv() == nil {
		return nil
	}
	t := sig.Recv().Type()
	if p, ok := t.(*types.Pointer); ok {
		t = p.Elem()
	}
	n, _ := t.(*types.Named)
	return n
}

// isMethod reports whether obj is the method pkgSuffix.recv.name of the module
// (for interface methods recv is the interface's name).
func isMethod(obj *types.Func, pkgSuffix, recv, name string) bool {
	if obj == nil || obj.Name() != name || obj.Pkg() == nil {
		return false
	}
	path := modPath
	if pkgSuffix != "" {
		path += "/" + pkgSuffix
	}
	if obj.Pkg().Path() != path {
		return false
	}
	n := recvNamed(obj)
	if recv == "" {
		return n == nil
	}
	return n != nil && n.Obj().Name() == recv
}

func isExtMethod(obj *types.Func, pkgPath, recv, name string) bool {
	if obj == nil || obj.Name() != name || obj.Pkg() == nil || obj.Pkg().Path() != pkgPath {
		return false
	}
	n := recvNamed(obj)
	if recv == "" {
		return n == nil
	}
	return n != nil && n.Obj().Name() == recv
}

// funcKey renders a callee compactly: (*Conn).checkState, Session.Login, io.Copy.
func funcKey(obj *types.Func) string {
	if obj == nil {
		return "<dynamic>"
	}
	n := recvNamed(obj)
	if n != nil {
		sig := obj.Type().(*types.Signature)
		if _, ptr := sig.Recv().Type().(*types.Pointer); ptr {
			return "(*" + n.Obj().Name() + ")." + anchoredName(obj)
		}
		return n.Obj().Name() + "." + anchoredName(obj)
	}
	if obj.Pkg() != nil {
		return obj.Pkg().Name() + "." + obj.Name()
	}
	return obj.Name()
}

func fnKey(fn *ssa.Function) string {
	if fn == nil {
		return "<nil>"
	}
	if fn.Parent() != nil {
		// anonymous function: parent$N
		return fnKey(fn.Parent()) + strings.TrimPrefix(fn.Name(), fn.Parent().Name())
	}
	if o, ok := fn.Object().(*types.Func); ok {
		return funcKey(o)
	}
	if fn.Origin() != nil && fn.Origin() != fn {
		return fnKey(fn.Origin())
	}
	return fn.Name()
}

// ---- field accesses --------------------------------------------------------

// fieldRef describes v when it is a FieldAddr or Field: owner struct (named,
// if any) and the field object.
type fieldRef struct {
	Owner *types.Named
	Field *types.Var
	Base  ssa.Value
}

func fieldOf(v ssa.Value) (fieldRef, bool) {
	switch x := v.(type) {
	case *ssa.FieldAddr:
		t := types.Unalias(x.X.Type().Underlying().(*types.Pointer).Elem())
		st := t.Underlying().(*types.Struct)
		n, _ := t.(*types.Named)
		return fieldRef{n, st.Field(x.Field), x.X}, true
	case *ssa.Field:
		t := types.Unalias(x.X.Type())
		st := t.Underlying().(*types.Struct)
		n, _ := t.(*types.Named)
		return fieldRef{n, st.Field(x.Field), x.X}, true
	}
	return fieldRef{}, false
}

func (r fieldRef) is(owner, field string) bool {
	if r.Owner == nil || r.Owner.Obj().Name() != owner {
		return false
	}
	if r.Field.Name() == field {
		return true
	}
	return fieldRenamedTo(r.Owner, field) == r.Field
}

// fieldShape: unexported anchor fields that are recognisable by their type,
// so that renaming one (a plausible cleanup) does not blind or mislead the
// rules anchored on it. Used only when the struct has no field of the
// anchored name; the match must be unique.
var fieldShape = map[string]func(t types.Type) bool{
	"Client.contReqs": func(t types.Type) bool {
		sl, ok := t.Underlying().(*types.Slice)
		if !ok {
			return false
		}
		st, ok := sl.Elem().Underlying().(*types.Struct)
		if !ok {
			return false
		}
		for i := 0; i < st.NumFields(); i++ {
			if st.Field(i).Embedded() && strings.HasSuffix(st.Field(i).Type().String(), "imapwire.ContinuationRequest") {
				return true
			}
		}
		return false
	},
	"Client.pendingCmds": func(t types.Type) bool {
		sl, ok := t.Underlying().(*types.Slice)
		return ok && types.IsInterface(sl.Elem()) && strings.HasSuffix(sl.Elem().String(), "imapclient.command")
	},
	"Mailbox.l": func(t types.Type) bool {
		return strings.HasSuffix(t.String(), "[]*"+modPath+"/imapserver/imapmemserver.message")
	},
	"Server.conns": func(t types.Type) bool {
		m, ok := t.Underlying().(*types.Map)
		return ok && strings.HasSuffix(m.Key().String(), "imapserver.Conn")
	},
	"message.flags": func(t types.Type) bool {
		m, ok := t.Underlying().(*types.Map)
		return ok && strings.HasSuffix(m.Key().String(), "imap.Flag") || ok && strings.HasSuffix(m.Key().String(), modPath+".Flag")
	},
	"SessionTracker.queue": func(t types.Type) bool {
		sl, ok := t.Underlying().(*types.Slice)
		if !ok {
			return false
		}
		_, isStruct := sl.Elem().Underlying().(*types.Struct)
		return isStruct
	},
	"MailboxTracker.sessions": func(t types.Type) bool {
		m, ok := t.Underlying().(*types.Map)
		return ok && strings.HasSuffix(m.Key().String(), "imapserver.SessionTracker")
	},
	"User.mailboxes": func(t types.Type) bool {
		m, ok := t.Underlying().(*types.Map)
		return ok && strings.HasSuffix(m.Elem().String(), "imapmemserver.Mailbox")
	},
}

var fieldRenameCache = map[string]*types.Var{}

func fieldRenamedTo(owner *types.Named, field string) *types.Var {
	key := owner.Obj().Name() + "." + field
	shape := fieldShape[key]
	if shape == nil {
		return nil
	}
	ck := owner.String() + "." + field
	if v, ok := fieldRenameCache[ck]; ok {
		return v
	}
	var found *types.Var
	st, ok := owner.Underlying().(*types.Struct)
	if ok {
		n := 0
		for i := 0; i < st.NumFields(); i++ {
			if st.Field(i).Name() == field {
				found, n = nil, -1 // the anchored name exists: no alias
				break
			}
			if shape(st.Field(i).Type()) {
				found = st.Field(i)
				n++
			}
		}
		if n != 1 {
			found = nil
		}
	}
	fieldRenameCache[ck] = found
	return found
}

func (r fieldRef) String() string {
	o := "?"
	if r.Owner != nil {
		o = r.Owner.Obj().Name()
	}
	return o + "." + r.Field.Name()
}

// loadedField: v is a load (UnOp MUL) of a FieldAddr, or a Field.
func loadedField(v ssa.Value) (fieldRef, bool) {
	if u, ok := v.(*ssa.UnOp); ok && u.Op == token.MUL {
		return fieldOf(u.X)
	}
	if f, ok := v.(*ssa.Field); ok {
		return fieldOf(f)
	}
	return fieldRef{}, false
}

func constInt(v ssa.Value) (int64, bool) {
	c, ok := v.(*ssa.Const)
	if !ok || c.Value == nil || c.Value.Kind() != constant.Int {
		return 0, false
	}
	return c.Int64(), true
}

func constString(v ssa.Value) (string, bool) {
	c, ok := v.(*ssa.Const)
	if !ok || c.Value == nil || c.Value.Kind() != constant.String {
		return "", false
	}
	return constant.StringVal(c.Value), true
}

// allInstrs iterates the instructions of fn.
func allInstrs(fn *ssa.Function, f func(ssa.Instruction)) {
	for _, b := range fn.Blocks {
		for _, i := range b.Instrs {
			f(i)
		}
	}
}

// withAnon returns fn and all anonymous functions nested in it.
func withAnon(fn *ssa.Function) []*ssa.Function {
	out := []*ssa.Function{fn}
	for _, a := range fn.AnonFuncs {
		out = append(out, withAnon(a)...)
	}
	return out
}

// unspill looks through go/ssa's spilling of results in functions with defers:
// `*r = v; rundefers; t = *r; return t` — for the load t it returns v.
func unspill(v ssa.Value) ssa.Value {
	ld, ok := v.(*ssa.UnOp)
	if !ok || ld.Op != token.MUL {
		return v
	}
	cell, ok := ld.X.(*ssa.Alloc)
	if !ok {
		return v
	}
	var last ssa.Value
	for _, i := range ld.Block().Instrs {
		if i == ssa.Instruction(ld) {
			break
		}
		if st, ok := i.(*ssa.Store); ok && st.Addr == ssa.Value(cell) {
			last = st.Val
		}
	}
	if last != nil {
		return last
	}
	return v
}

// returnsOf lists the normal Return instructions of fn (the synthetic recover
// block is skipped).
func returnsOf(fn *ssa.Function) []*ssa.Return {
	var out []*ssa.Return
	for _, b := range fn.Blocks {
		if b == fn.Recover || len(b.Instrs) == 0 {
			continue
		}
		if r, ok := b.Instrs[len(b.Instrs)-1].(*ssa.Return); ok {
			out = append(out, r)
		}
	}
	return out
}

// paramOf resolves v to the parameter it is a copy of: the parameter itself,
// or a load of the cell go/ssa spills a closure-captured parameter into (the
// cell must never be reassigned, in the function or in the closures capturing
// it).
func paramOf(v ssa.Value) *ssa.Parameter {
	if p, ok := v.(*ssa.Parameter); ok {
		return p
	}
	ld, ok := v.(*ssa.UnOp)
	if !ok || ld.Op != token.MUL {
		return nil
	}
	cell, ok := ld.X.(*ssa.Alloc)
	if !ok {
		return nil
	}
	var prm *ssa.Parameter
	stores := 0
	for _, ref := range *cell.Referrers() {
		switch r := ref.(type) {
		case *ssa.Store:
			if r.Addr == ssa.Value(cell) {
				stores++
				prm, _ = r.Val.(*ssa.Parameter)
			}
		case *ssa.MakeClosure:
			cl := r.Fn.(*ssa.Function)
			for bi, b := range r.Bindings {
				if b == ssa.Value(cell) && bi < len(cl.FreeVars) {
					fv := cl.FreeVars[bi]
					for _, fr := range *fv.Referrers() {
						if st, ok := fr.(*ssa.Store); ok && st.Addr == ssa.Value(fv) {
							stores++
						}
					}
				}
			}
		}
	}
	if stores == 1 {
		return prm
	}
	return nil
}

// postDominators computes, for every block, the set of blocks that
// post-dominate it (iterative dataflow over the reversed CFG with a virtual
// exit joining all blocks without successors).
func postDominators(fn *ssa.Function) map[*ssa.BasicBlock]map[*ssa.BasicBlock]bool {
	all := map[*ssa.BasicBlock]bool{}
	for _, b := range fn.Blocks {
		all[b] = true
	}
	pd := map[*ssa.BasicBlock]map[*ssa.BasicBlock]bool{}
	for _, b := range fn.Blocks {
		if len(b.Succs) == 0 {
			pd[b] = map[*ssa.BasicBlock]bool{b: true}
		} else {
			m := map[*ssa.BasicBlock]bool{}
			for x := range all {
				m[x] = true
			}
			pd[b] = m
		}
	}
	for changed := true; changed; {
		changed = false
		for i := len(fn.Blocks) - 1; i >= 0; i-- {
			b := fn.Blocks[i]
			if len(b.Succs) == 0 {
				continue
			}
			var inter map[*ssa.BasicBlock]bool
			for _, s := range b.Succs {
				// a successor that only panics does not constrain what must follow
				if len(s.Instrs) > 0 && len(s.Succs) == 0 {
					if _, isPanic := s.Instrs[len(s.Instrs)-1].(*ssa.Panic); isPanic {
						continue
					}
				}
				if inter == nil {
					inter = map[*ssa.BasicBlock]bool{}
					for x := range pd[s] {
						inter[x] = true
					}
				} else {
					for x := range inter {
						if !pd[s][x] {
							delete(inter, x)
						}
					}
				}
			}
			if inter == nil {
				inter = map[*ssa.BasicBlock]bool{}
			}
			inter[b] = true
			if len(inter) != len(pd[b]) {
				pd[b] = inter
				changed = true
			}
		}
	}
	return pd
}

// controlDeps returns the If-terminated blocks x (with the successor index
// taken) on which block b is control dependent: b post-dominates x.Succs[i]
// (or is it) but does not post-dominate x.
func controlDeps(fn *ssa.Function, pd map[*ssa.BasicBlock]map[*ssa.BasicBlock]bool, b *ssa.BasicBlock) map[*ssa.BasicBlock]int {
	out := map[*ssa.BasicBlock]int{}
	for _, x := range fn.Blocks {
		if len(x.Succs) != 2 || x == b && false {
			continue
		}
		if pd[x][b] && x != b {
			continue
		}
		for i, s := range x.Succs {
			if s == b || pd[s][b] {
				if x != b || true {
					out[x] = i
				}
			}
		}
	}
	return out
}
