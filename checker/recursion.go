package main

import (
	"fmt"
	"go/token"
	"go/types"
	"strings"

	"golang.org/x/tools/go/ssa"
)

func isDecoderMethodCall(c ssa.CallInstruction) bool {
	obj := calleeObj(c)
	n := recvNamed(obj)
	return n != nil && n.Obj().Name() == "Decoder" && n.Obj().Pkg() != nil && strings.HasSuffix(n.Obj().Pkg().Path(), "/internal/imapwire")
}

// ruleRecursion (engine E5): every recursion cycle that consumes wire input
// must be depth-bounded: either it passes through Decoder.List (whose guard
// is checked here) or it carries a counter parameter that strictly increases
// around every cycle and is compared with a constant before recursing.
func ruleRecursion(c *Ctx, rule string, relevant func(*ssa.Function) bool) {
	p := c.P
	list := p.Func("internal/imapwire", "Decoder", "List")
	if list == nil {
		c.unresolvedRoot("(*imapwire.Decoder).List")
		return
	}
	checkListGuard(c, rule, list)
	g := buildModGraph(p, p.VTA(), map[*ssa.Function]bool{list: true})
	nInput, nOther := 0, 0
	for _, comp := range g.sccs() {
		rel := false
		for _, f := range comp {
			if relevant(f) {
				rel = true
			}
		}
		if !rel {
			continue
		}
		in := map[*ssa.Function]bool{}
		var names []string
		for _, f := range comp {
			in[f] = true
			if f.Synthetic == "" {
				names = append(names, fnKey(f))
			}
		}
		inputDriven := false
		for _, f := range comp {
			allInstrs(f, func(i ssa.Instruction) {
				if call, ok := i.(ssa.CallInstruction); ok && isDecoderMethodCall(call) {
					inputDriven = true
				}
			})
		}
		key := "cycle{" + strings.Join(names, ",") + "}"
		if !inputDriven {
			nOther++
			c.note("recursion %s does not consume decoder input (depth follows program data); not an obligation of this rule", key)
			continue
		}
		nInput++
		ok, why := rankingGuard(g, comp, in)
		pos := comp[0].Pos()
		c.check(ok, rule, key, pos, "depth-bounded: "+why,
			"recursion driven by wire input with no depth bound ("+why+"): a long enough nested input overflows the goroutine stack, which recover() cannot catch and which kills the whole process")
	}
	c.note("recursion: %d input-driven cycles outside Decoder.List, %d data-driven cycles", nInput, nOther)
}

// checkListGuard: in Decoder.List the callback is invoked only after the
// depth counter was incremented and compared with the constant cap.
func checkListGuard(c *Ctx, rule string, list *ssa.Function) {
	var inc, cmp, dec bool
	var callbackGuarded = true
	sawCallback := false
	var capVal int64
	gf := mustFlow(list, facts{}, nil, func(f facts, b *ssa.BasicBlock, s int) facts {
		for _, a := range edgeAtoms(b, s) {
			if r, ok := loadedField(a.V); ok && r.is("Decoder", "listDepth") && a.Const != nil {
				if a.Op == token.LSS || a.Op == token.LEQ {
					return f.with("depth-below-cap")
				}
			}
		}
		return f
	})
	// deferred decrementers: function literals or methods deferred by List
	// whose only stores into the counter subtract from it
	decrementers := map[*ssa.Function]bool{}
	allInstrs(list, func(i ssa.Instruction) {
		d, ok := i.(*ssa.Defer)
		if !ok {
			return
		}
		var target *ssa.Function
		if mc, ok := d.Call.Value.(*ssa.MakeClosure); ok {
			target, _ = mc.Fn.(*ssa.Function)
		} else {
			target = d.Call.StaticCallee()
		}
		if target == nil || target.Blocks == nil {
			return
		}
		subs, other := 0, 0
		allInstrs(target, func(j ssa.Instruction) {
			if st, ok := j.(*ssa.Store); ok {
				if r, ok := fieldOf(st.Addr); ok && r.is("Decoder", "listDepth") {
					if b, ok := st.Val.(*ssa.BinOp); ok && b.Op == token.SUB {
						subs++
					} else {
						other++
					}
				}
			}
		})
		if subs > 0 && other == 0 {
			decrementers[target] = true
		}
	})
	scan := withAnon(list)
	for d := range decrementers {
		if d.Parent() == nil {
			scan = append(scan, d)
		}
	}
	for _, f := range scan {
		allInstrs(f, func(i ssa.Instruction) {
			switch x := i.(type) {
			case *ssa.Store:
				if r, ok := fieldOf(x.Addr); ok && r.is("Decoder", "listDepth") {
					if b, ok := x.Val.(*ssa.BinOp); ok {
						if b.Op == token.ADD && f == list {
							inc = true
						}
						if b.Op == token.SUB && f != list && decrementers[f] {
							dec = true
						}
					}
				}
			case *ssa.BinOp:
				if r, ok := loadedField(x.X); ok && r.is("Decoder", "listDepth") {
					if k, ok := constInt(x.Y); ok && (x.Op == token.GEQ || x.Op == token.GTR) {
						cmp = true
						capVal = k
					}
				}
			case *ssa.Call:
				if f == list && x.Call.StaticCallee() == nil && !x.Call.IsInvoke() {
					if _, isParam := x.Call.Value.(*ssa.Parameter); isParam {
						sawCallback = true
						fs, _ := gf.at(x)
						if !fs.has("depth-below-cap") {
							callbackGuarded = false
						}
					}
				}
				// the callback handed on to a helper that runs the item loop
				if f == list && x.Call.StaticCallee() != nil {
					for _, a := range x.Call.Args {
						if pa, isParam := a.(*ssa.Parameter); isParam {
							if _, isFn := pa.Type().Underlying().(*types.Signature); isFn {
								sawCallback = true
								fs, _ := gf.at(x)
								if !fs.has("depth-below-cap") {
									callbackGuarded = false
								}
							}
						}
					}
				}
			}
		})
	}
	// who may write the counter: Decoder.List and its deferred decrement only —
	// a reset anywhere else (e.g. at the end of a line, which a literal header
	// also is) lets the peer restart the count in the middle of a nested value
	{
		var others []string
		var opos token.Pos
		for _, fn := range c.P.SrcFuncs("internal/imapwire") {
			root := fn
			for root.Parent() != nil {
				root = root.Parent()
			}
			if root == list {
				continue
			}
			if decrementers[fn] {
				// a method deferred by List: every call of it must be that defer
				onlyDeferred := true
				for _, site := range callSitesOf(c.P, fn) {
					if _, isDefer := site.(*ssa.Defer); !isDefer || site.Parent() != list {
						onlyDeferred = false
					}
				}
				if onlyDeferred {
					continue
				}
			}
			allInstrs(fn, func(i ssa.Instruction) {
				if st, ok := i.(*ssa.Store); ok {
					if r, ok := fieldOf(st.Addr); ok && r.is("Decoder", "listDepth") && !isFreshLocal(r.Base) {
						others = append(others, fnKey(fn))
						opos = st.Pos()
					}
				}
			})
		}
		c.check(len(others) == 0, rule, "(*Decoder).listDepth written only by List", opos, "no other function of the decoder stores into the nesting counter",
			"the nesting counter is also written by "+strings.Join(others, ", ")+": input can reset it below the cap and nest without bound")
	}
	// balanced accounting: once the counter is incremented, every return runs the deferred decrement
	balanced := true
	{
		var incStore ssa.Instruction
		allInstrs(list, func(i ssa.Instruction) {
			if st, ok := i.(*ssa.Store); ok {
				if r, ok := fieldOf(st.Addr); ok && r.is("Decoder", "listDepth") {
					if b, ok := st.Val.(*ssa.BinOp); ok && b.Op == token.ADD {
						incStore = i
					}
				}
			}
		})
		if incStore != nil {
			bf := mustFlow(list, facts{}, func(f facts, i ssa.Instruction) facts {
				if i == incStore {
					return f.with("incremented")
				}
				if d, ok := i.(*ssa.Defer); ok {
					var target *ssa.Function
					if mc, ok := d.Call.Value.(*ssa.MakeClosure); ok {
						target, _ = mc.Fn.(*ssa.Function)
					} else {
						target = d.Call.StaticCallee()
					}
					if target != nil && decrementers[target] {
						return f.with("decrement-deferred")
					}
				}
				return f
			}, nil)
			for _, ret := range returnsOf(list) {
				if !(incStore.Block() == ret.Block() || reaches(incStore.Block(), ret.Block())) {
					continue
				}
				fs, reach := bf.at(ret)
				// only returns that can follow the increment matter
				if reach && fs.has("incremented") && !fs.has("decrement-deferred") {
					balanced = false
				}
				if reach && !fs.has("incremented") {
					// a path may reach this return without the increment: check the may-version cheaply
					if precedes(incStore, ret) && !fs.has("decrement-deferred") {
						balanced = false
					}
				}
			}
		}
	}
	c.check(balanced, rule, "(*Decoder).List depth accounting is balanced", list.Pos(), "every return after the increment runs the deferred decrement",
		"a return path after listDepth++ is not covered by the deferred decrement: the depth counter leaks and, after enough lists on one connection, every list is refused as too deep")
	c.check(inc && cmp && dec && callbackGuarded && sawCallback && capVal > 0 && capVal <= 100000, rule, "(*Decoder).List depth guard", list.Pos(),
		fmt.Sprintf("listDepth is incremented, compared with the cap %d before the callback runs, and decremented by a deferred function", capVal),
		fmt.Sprintf("Decoder.List no longer bounds nesting (increment=%v compare=%v deferred-decrement=%v callback-guarded=%v cap=%d)", inc, cmp, dec, callbackGuarded, capVal))
}

// rankingGuard looks for a termination argument for the cycle set comp.
func rankingGuard(g *modGraph, comp []*ssa.Function, in map[*ssa.Function]bool) (bool, string) {
	var reasons []string
	for _, f := range comp {
		if f.Blocks == nil {
			continue
		}
		// all cycles pass through f?
		if !acyclicWithout(g, comp, in, f) {
			continue
		}
		for pi, prm := range f.Params {
			b, ok := prm.Type().Underlying().(*types.Basic)
			if !ok || b.Info()&types.IsInteger == 0 {
				continue
			}
			// (1) the recursive calls in f are dominated by the false edge of p > K / p >= K
			gf := mustFlow(f, facts{}, nil, func(fs facts, blk *ssa.BasicBlock, s int) facts {
				for _, a := range edgeAtoms(blk, s) {
					if paramOf(a.V) == prm && a.Const != nil && (a.Op == token.LSS || a.Op == token.LEQ) {
						return fs.with("below-cap")
					}
				}
				return fs
			})
			guarded := true
			nrec := 0
			for _, ff := range withAnon(f) {
				if !in[ff] {
					continue // a closure that is not itself on a cycle
				}
				allInstrs(ff, func(i ssa.Instruction) {
					call, ok := i.(ssa.CallInstruction)
					if !ok {
						return
					}
					for cal, sites := range g.succ[ff] {
						if !in[cal] {
							continue
						}
						for _, s := range sites {
							if s == call {
								nrec++
								if ff != f {
									guarded = false // recursion from a closure: facts not inherited here
									return
								}
								fs, reach := gf.at(i)
								if reach && !fs.has("below-cap") {
									guarded = false
								}
							}
						}
					}
				})
			}
			if !guarded || nrec == 0 {
				reasons = append(reasons, fmt.Sprintf("%s(%s): recursive calls not all behind a cap test", fnKey(f), prm.Name()))
				continue
			}
			// (2) every in-cycle call of f passes a strictly larger counter
			strict := true
			for caller := range in {
				for _, site := range g.succ[caller][f] {
					args := site.Common().Args
					if pi >= len(args) {
						strict = false
						continue
					}
					n, ok := increment(g, in, f, prm, args[pi], caller, map[ssa.Value]bool{})
					if !ok || n < 1 {
						strict = false
					}
				}
			}
			if strict {
				return true, fmt.Sprintf("every cycle passes %s, whose counter parameter %q is compared with a constant cap before recursing and strictly increases around each cycle", fnKey(f), prm.Name())
			}
			reasons = append(reasons, fmt.Sprintf("%s(%s): counter does not strictly increase around every cycle", fnKey(f), prm.Name()))
		}
	}
	if len(reasons) == 0 {
		return false, "no function on the cycle carries a depth counter"
	}
	return false, strings.Join(reasons, "; ")
}

func acyclicWithout(g *modGraph, comp []*ssa.Function, in map[*ssa.Function]bool, cut *ssa.Function) bool {
	color := map[*ssa.Function]int{}
	var visit func(v *ssa.Function) bool
	visit = func(v *ssa.Function) bool {
		color[v] = 1
		for w := range g.succ[v] {
			if !in[w] || w == cut {
				continue
			}
			if color[w] == 1 {
				return false
			}
			if color[w] == 0 && !visit(w) {
				return false
			}
		}
		color[v] = 2
		return true
	}
	for _, v := range comp {
		if v != cut && color[v] == 0 && !visit(v) {
			return false
		}
	}
	return true
}

// increment: by how much (at least) does v exceed f's counter parameter prm,
// following parameters back through in-cycle call sites.
func increment(g *modGraph, in map[*ssa.Function]bool, f *ssa.Function, prm *ssa.Parameter, v ssa.Value, owner *ssa.Function, seen map[ssa.Value]bool) (int64, bool) {
	if seen[v] {
		return 1 << 30, true // already on the derivation path: does not lower the minimum
	}
	seen[v] = true
	defer delete(seen, v)
	if pp := paramOf(v); pp != nil {
		v = pp
	}
	switch x := v.(type) {
	case *ssa.Parameter:
		if x == prm {
			return 0, true
		}
		// parameter of another function on the cycle: minimum over its in-cycle call sites
		fn := x.Parent()
		idx := -1
		for i, q := range fn.Params {
			if q == x {
				idx = i
			}
		}
		min := int64(1 << 30)
		found := false
		for caller := range in {
			for _, site := range g.succ[caller][fn] {
				args := site.Common().Args
				if idx < 0 || idx >= len(args) {
					return 0, false
				}
				n, ok := increment(g, in, f, prm, args[idx], caller, seen)
				if !ok {
					return 0, false
				}
				found = true
				if n < min {
					min = n
				}
			}
		}
		if !found {
			return 0, false
		}
		return min, true
	case *ssa.BinOp:
		if x.Op == token.ADD {
			if k, ok := constInt(x.Y); ok && k > 0 {
				n, ok := increment(g, in, f, prm, x.X, owner, seen)
				return n + k, ok
			}
			if k, ok := constInt(x.X); ok && k > 0 {
				n, ok := increment(g, in, f, prm, x.Y, owner, seen)
				return n + k, ok
			}
		}
	case *ssa.Phi:
		min := int64(1 << 30)
		for _, e := range x.Edges {
			n, ok := increment(g, in, f, prm, e, owner, seen)
			if !ok {
				return 0, false
			}
			if n < min {
				min = n
			}
		}
		return min, true
	case *ssa.FreeVar:
		// a closure capturing the counter of its parent
		if par := x.Parent().Parent(); par != nil {
			for _, i := range par.AnonFuncs {
				_ = i
			}
		}
	}
	return 0, false
}
