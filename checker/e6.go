package main

import (
	"fmt"
	"go/token"
	"go/types"
	"sort"
	"strings"

	"golang.org/x/tools/go/ssa"
)

// structTypesOf collects the named struct types of the module reachable from
// t through pointers, slices, arrays and struct fields.
func structTypesOf(t types.Type, out map[*types.Named]bool) {
	switch x := t.(type) {
	case *types.Pointer:
		structTypesOf(x.Elem(), out)
	case *types.Slice:
		structTypesOf(x.Elem(), out)
	case *types.Array:
		structTypesOf(x.Elem(), out)
	case *types.Named:
		if x.Obj().Pkg() == nil || !inModule2(x.Obj().Pkg().Path()) {
			return
		}
		st, ok := x.Underlying().(*types.Struct)
		if !ok || out[x] {
			return
		}
		out[x] = true
		for i := 0; i < st.NumFields(); i++ {
			structTypesOf(st.Field(i).Type(), out)
		}
	}
}

// fieldUses returns, for the functions in `funcs`, which fields are read and
// which are written (field object → true).
func fieldUses(funcs map[*ssa.Function]bool) (reads, writes map[*types.Var]bool) {
	reads, writes = map[*types.Var]bool{}, map[*types.Var]bool{}
	for fn := range funcs {
		if fn.Blocks == nil {
			continue
		}
		allInstrs(fn, func(i ssa.Instruction) {
			switch x := i.(type) {
			case *ssa.Field:
				r, _ := fieldOf(x)
				reads[r.Field] = true
			case *ssa.FieldAddr:
				r, _ := fieldOf(x)
				for _, ref := range *x.Referrers() {
					switch u := ref.(type) {
					case *ssa.Store:
						if u.Addr == ssa.Value(x) {
							writes[r.Field] = true
						} else {
							// the field's address is stored somewhere (a table of out-pointers): both
							reads[r.Field] = true
							writes[r.Field] = true
						}
					case *ssa.UnOp:
						if u.Op == token.MUL {
							reads[r.Field] = true
						}
					default:
						// address taken (passed to a decoder, ranged over…): counts as both
						reads[r.Field] = true
						writes[r.Field] = true
					}
				}
			}
		})
	}
	return
}

// reachableFrom: functions reachable from roots in g, restricted by keep.
func reachableFrom(g *modGraph, keep func(*ssa.Function) bool, roots ...*ssa.Function) map[*ssa.Function]bool {
	seen := map[*ssa.Function]bool{}
	var walk func(f *ssa.Function)
	walk = func(f *ssa.Function) {
		if f == nil || seen[f] || !keep(f) {
			return
		}
		seen[f] = true
		for w := range g.succ[f] {
			walk(w)
		}
		for _, a := range f.AnonFuncs {
			walk(a)
		}
	}
	for _, r := range roots {
		walk(r)
	}
	return seen
}

// ruleArgFieldCoverage (C02.a): every field of every option struct a client
// command method accepts is read somewhere below that method.
func ruleArgFieldCoverage(c *Ctx, rule string) {
	p := c.P
	g := buildModGraph(p, p.VTA(), nil)
	clientSide := func(f *ssa.Function) bool {
		pp := pkgPathOf(f)
		return pp == modPath+"/imapclient" || pp == modPath || pp == modPath+"/internal" || pp == modPath+"/internal/imapwire" || pp == modPath+"/internal/imapnum"
	}
	read := p.Func("imapclient", "Client", "read")
	for _, m := range exportedRoots(p, "imapclient") {
		obj := m.Object().(*types.Func)
		rn := recvNamed(obj)
		if rn == nil || rn.Obj().Name() != "Client" {
			continue
		}
		structs := map[*types.Named]bool{}
		sig := obj.Type().(*types.Signature)
		for i := 0; i < sig.Params().Len(); i++ {
			structTypesOf(sig.Params().At(i).Type(), structs)
		}
		if len(structs) == 0 {
			continue
		}
		reach := reachableFrom(g, func(f *ssa.Function) bool { return clientSide(f) && f != read }, m)
		reads, _ := fieldUses(reach)
		var names []*types.Named
		for s := range structs {
			names = append(names, s)
		}
		sort.Slice(names, func(i, j int) bool { return names[i].Obj().Name() < names[j].Obj().Name() })
		for _, s := range names {
			if s.Obj().Pkg().Path() != modPath {
				continue // option/data structs live in package imap
			}
			st := s.Underlying().(*types.Struct)
			for i := 0; i < st.NumFields(); i++ {
				f := st.Field(i)
				key := fmt.Sprintf("(*Client).%s:%s.%s", obj.Name(), s.Obj().Name(), f.Name())
				if reads[f] {
					c.ok(rule, key, m.Pos(), "read while encoding the command")
					continue
				}
				if requiresUnadvertisable(c, f) {
					c.okTrivial(rule, key, f.Pos(), "never read, but its own comment ties it to an extension the server cannot advertise (outside the property's feature set)")
					continue
				}
				c.fail(rule, key, f.Pos(), fmt.Sprintf("the caller's %s.%s is never read on any path below (*Client).%s: the argument is silently dropped and cannot reach the server", s.Obj().Name(), f.Name(), obj.Name()))
			}
		}
	}
}

// caseLabelsIn: constant string case labels of switch statements in fn (SSA:
// comparisons of a string with a constant).
func stringComparisons(fn *ssa.Function) map[string]bool {
	out := map[string]bool{}
	for _, f := range withAnon(fn) {
		allInstrs(f, func(i ssa.Instruction) {
			if bo, ok := i.(*ssa.BinOp); ok && bo.Op == token.EQL {
				if s, ok := constString(bo.Y); ok {
					out[s] = true
				}
				if s, ok := constString(bo.X); ok {
					out[s] = true
				}
			}
		})
	}
	return out
}

func joinSorted(m map[string]bool) string {
	var l []string
	for k := range m {
		l = append(l, k)
	}
	sort.Strings(l)
	return strings.Join(l, ",")
}
