package main

import (
	"fmt"
	"go/token"
	"go/types"
	"strings"

	"golang.org/x/tools/go/ssa"
)

func init() {
	register("C15", "Decided: (a) enumerating a static set terminates at the uint32 boundary: no `n <= bound; n++` loop over an unsigned variable with a run-time bound can wrap; (b) every unsafe.Pointer cast between the public set/range/number-list types and the internal ones is between layout-identical types (same field count, order, offsets and sizes under the target's types.Sizes); (c) every public SeqSet/UIDSet method delegates to the same-named internal Set method with its parameters in order. Not decided: the set algebra itself (canonical form, union membership, parse/print round trip) — value-level.", checkC15)
}

func checkC15(c *Ctx) {
	c.rule("C15.a", "enumeration of a static set cannot wrap at 2^32-1", 1)
	c.rule("C15.b", "unsafe casts only between layout-identical types", 6)
	c.rule("C15.c", "public set methods delegate to the same-named internal method with parameters in order", 10)
	ruleEnumerationBoundary(c, "C15.a")
	ruleCastLayout(c, "C15.b")
	ruleSetDelegation(c, "C15.c")
	c.rule("C15.d", "the set's storage is written only by the canonicalising primitives", 1)
	ruleSetWriters(c, "C15.d")
	c.rule("C15.e", "enumerators report ok=false only with a witness (a dynamic bound or a failed enumerator call)", 4)
	ruleEnumerationFailureWitness(c, "C15.e")
	c.rule("C15.f", "the SearchRes marker is recognised by identity: IsSearchRes consults the marker it compares against", 2)
	ruleMarkerIdentity(c, "C15.f")
	c.rule("C15.g", "a constant index into a caller-supplied set or list is dominated by a length test (empty sets are legal)", 1)
	ruleConstIndexGuarded(c, "C15.g", "", "internal/imapnum")
}

// layoutIdentical: same shape in memory.
func layoutIdentical(sizes types.Sizes, a, b types.Type, depth int) (bool, string) {
	if depth > 5 {
		return false, "too deep"
	}
	ua, ub := a.Underlying(), b.Underlying()
	switch x := ua.(type) {
	case *types.Basic:
		y, ok := ub.(*types.Basic)
		if !ok {
			return false, fmt.Sprintf("%s vs %s", a, b)
		}
		if sizes.Sizeof(x) != sizes.Sizeof(y) || (x.Info()&types.IsNumeric != 0) != (y.Info()&types.IsNumeric != 0) || (x.Info()&types.IsString != 0) != (y.Info()&types.IsString != 0) {
			return false, fmt.Sprintf("%s vs %s", a, b)
		}
		return true, ""
	case *types.Struct:
		y, ok := ub.(*types.Struct)
		if !ok || x.NumFields() != y.NumFields() {
			return false, fmt.Sprintf("%s vs %s: different field count", a, b)
		}
		var fa, fb []*types.Var
		for i := 0; i < x.NumFields(); i++ {
			fa = append(fa, x.Field(i))
			fb = append(fb, y.Field(i))
		}
		oa, ob := sizes.Offsetsof(fa), sizes.Offsetsof(fb)
		for i := range fa {
			if oa[i] != ob[i] {
				return false, fmt.Sprintf("field %d at offsets %d vs %d", i, oa[i], ob[i])
			}
			if fa[i].Name() != fb[i].Name() {
				return false, fmt.Sprintf("field %d is %s vs %s: the two types name their fields in a different order", i, fa[i].Name(), fb[i].Name())
			}
			if ok, why := layoutIdentical(sizes, fa[i].Type(), fb[i].Type(), depth+1); !ok {
				return false, why
			}
		}
		return true, ""
	case *types.Slice:
		y, ok := ub.(*types.Slice)
		if !ok {
			return false, fmt.Sprintf("%s vs %s", a, b)
		}
		return layoutIdentical(sizes, x.Elem(), y.Elem(), depth+1)
	case *types.Pointer:
		y, ok := ub.(*types.Pointer)
		if !ok {
			return false, fmt.Sprintf("%s vs %s", a, b)
		}
		return layoutIdentical(sizes, x.Elem(), y.Elem(), depth+1)
	}
	return types.Identical(ua, ub), fmt.Sprintf("%s vs %s", a, b)
}

func ruleCastLayout(c *Ctx, rule string) {
	p := c.P
	n := 0
	for _, fn := range p.SrcFuncs() {
		allInstrs(fn, func(i ssa.Instruction) {
			cv, ok := i.(*ssa.Convert)
			if !ok {
				return
			}
			// T(unsafe.Pointer(x)) : this Convert has an unsafe.Pointer operand produced by another Convert
			if b, ok := cv.X.Type().Underlying().(*types.Basic); !ok || b.Kind() != types.UnsafePointer {
				return
			}
			inner, ok := cv.X.(*ssa.Convert)
			if !ok {
				return
			}
			src, dst := inner.X.Type(), cv.Type()
			ps, ok1 := src.Underlying().(*types.Pointer)
			pd, ok2 := dst.Underlying().(*types.Pointer)
			if !ok1 || !ok2 {
				return
			}
			n++
			sizes := p.Pkgs[pkgPathOf(fn)].TypesSizes
			if sizes == nil {
				sizes = types.SizesFor("gc", "amd64")
			}
			key := fmt.Sprintf("%s:%s→%s", fnKey(fn), shortType(ps.Elem()), shortType(pd.Elem()))
			ok, why := layoutIdentical(sizes, ps.Elem(), pd.Elem(), 0)
			c.check(ok, rule, key, cv.Pos(), "identical layout (fields, order, offsets, sizes)",
				"unsafe cast between types of different layout ("+why+"): Start and Stop (or the elements) are reinterpreted, every set built or read through the public type is corrupted")
		})
	}
	if n == 0 {
		c.unresolvedRoot("unsafe.Pointer casts")
	}
}

func shortType(t types.Type) string {
	s := t.String()
	s = strings.ReplaceAll(s, modPath+"/internal/", "")
	s = strings.ReplaceAll(s, modPath+".", "imap.")
	s = strings.ReplaceAll(s, modPath+"/", "")
	return s
}

func ruleSetDelegation(c *Ctx, rule string) {
	p := c.P
	inner := p.Named("internal/imapnum", "Set")
	if inner == nil {
		c.unresolvedRoot("imapnum.Set")
		return
	}
	innerMethods := map[string]bool{}
	for _, t := range []types.Type{inner, types.NewPointer(inner)} {
		ms := types.NewMethodSet(t)
		for i := 0; i < ms.Len(); i++ {
			innerMethods[ms.At(i).Obj().Name()] = true
		}
	}
	derives := func(v ssa.Value, prm *ssa.Parameter) bool {
		seen := map[ssa.Value]bool{}
		var rec func(v ssa.Value) bool
		rec = func(v ssa.Value) bool {
			if seen[v] {
				return false
			}
			seen[v] = true
			if v == ssa.Value(prm) || paramOf(v) == prm {
				return true
			}
			switch x := v.(type) {
			case *ssa.Convert:
				return rec(x.X)
			case *ssa.ChangeType:
				return rec(x.X)
			case *ssa.Call:
				for _, a := range x.Call.Args {
					if rec(a) {
						return true
					}
				}
			case *ssa.Slice:
				return rec(x.X)
			case *ssa.UnOp:
				return rec(x.X)
			case *ssa.Alloc:
				for _, ref := range *x.Referrers() {
					if st, ok := ref.(*ssa.Store); ok && st.Addr == ssa.Value(x) && rec(st.Val) {
						return true
					}
				}
			case *ssa.MakeInterface:
				return rec(x.X)
			}
			return false
		}
		return rec(v)
	}
	for _, tn := range []string{"SeqSet", "UIDSet"} {
		named := p.Named("", tn)
		if named == nil {
			c.unresolvedRoot("imap." + tn)
			continue
		}
		for _, t := range []types.Type{named, types.NewPointer(named)} {
			ms := types.NewMethodSet(t)
			for i := 0; i < ms.Len(); i++ {
				obj := ms.At(i).Obj().(*types.Func)
				if !obj.Exported() || !innerMethods[obj.Name()] {
					continue
				}
				fn := p.SSA.FuncValue(obj)
				if fn == nil || fn.Blocks == nil || fn.Synthetic != "" {
					continue
				}
				key := tn + "." + obj.Name()
				if _, done := c.seen[rule+"|"+key]; done {
					continue
				}
				var call *ssa.Call
				allInstrs(fn, func(j ssa.Instruction) {
					if cl, ok := j.(*ssa.Call); ok {
						if o := calleeObj(cl); o != nil && o.Name() == obj.Name() && recvNamed(o) == inner {
							call = cl
						}
					}
				})
				if call == nil {
					c.fail(rule, key, fn.Pos(), "does not delegate to imapnum.Set."+obj.Name())
					continue
				}
				// the delegation is unconditional: every return is dominated by
				// the call, except returns taken when the argument or receiver
				// is the SearchRes marker (documented special value)
				flow := gateFlow(fn, facts{})
				for _, ret := range returnsOf(fn) {
					if call.Block().Dominates(ret.Block()) {
						continue
					}
					f, _ := flow.at(ret)
					marker := false
					for _, a := range f.list() {
						if strings.HasPrefix(a, "ok:") && strings.Contains(a, "IsSearchRes") {
							marker = true
						}
					}
					if !marker {
						c.fail(rule, key+": return without delegating", ret.Pos(), "a path through "+key+" returns without calling imapnum.Set."+obj.Name()+" (and not because of the SearchRes marker): a fast path that bypasses the set algebra (e.g. aliasing the argument's storage or skipping canonicalisation)")
					}
				}
				okOrder := true
				args := call.Call.Args[1:]
				params := fn.Params[1:]
				if len(args) != len(params) {
					okOrder = false
				} else {
					for k := range args {
						if !derives(args[k], params[k]) {
							okOrder = false
						}
					}
				}
				c.check(okOrder, rule, key, call.Pos(), "delegates with its parameters in order", "the internal method receives the parameters in a different order (or other values): e.g. AddRange(stop, start)")
			}
		}
	}
}

// ruleSetWriters: C15.d. The canonical form (sorted, disjoint, non-adjacent
// ranges) is established by one primitive, Set.insert (with insertAt): every
// other mutator reaches the set's storage only through it. A store through a
// *Set receiver in any other function of imapnum (a bulk append, an aliasing
// fast path) bypasses the merging of adjacent and overlapping ranges.
func ruleSetWriters(c *Ctx, rule string) {
	p := c.P
	set := p.Named("internal/imapnum", "Set")
	if set == nil {
		c.unresolvedRoot("imapnum.Set")
		return
	}
	allowed := map[string]bool{"insert": true, "insertAt": true}
	have := 0
	for _, fn := range p.SrcFuncs("internal/imapnum") {
		if allowed[fn.Name()] {
			have++
		}
	}
	if have == 0 {
		c.unresolvedRoot("imapnum.Set.insert / insertAt (the canonicalising primitives)")
		return
	}
	n := 0
	var bad []string
	var pos token.Pos
	for _, fn := range p.SrcFuncs("internal/imapnum") {
		root := fn
		for root.Parent() != nil {
			root = root.Parent()
		}
		allInstrs(fn, func(i ssa.Instruction) {
			st, ok := i.(*ssa.Store)
			if !ok {
				return
			}
			pt, ok := st.Addr.Type().Underlying().(*types.Pointer)
			if !ok || !types.Identical(pt.Elem(), set) {
				return
			}
			// a store into a local Set variable under construction is not a mutation of a caller's set
			if _, isAlloc := st.Addr.(*ssa.Alloc); isAlloc {
				return
			}
			n++
			if !allowed[root.Name()] {
				bad = append(bad, fnKey(fn))
				pos = st.Pos()
			}
		})
	}
	if n == 0 {
		c.unresolvedRoot("stores through *imapnum.Set")
		return
	}
	c.check(len(bad) == 0, rule, "Set storage written only by insert/insertAt", pos, fmt.Sprintf("%d stores, all in the canonicalising primitives", n),
		"the set's storage is written directly by "+strings.Join(uniq(bad), ", ")+": ranges added that way are not merged with adjacent or overlapping ones (non-canonical set: String() no longer round-trips, membership differs from the same insertions made one by one)")
}
