package main

import (
	"encoding/json"
	"fmt"
	"go/token"
	"os"
	"path/filepath"
	"sort"
	"strings"
	"time"
)

type Status int

const (
	Discharged Status = iota
	Violated
	Undecided
)

func (s Status) String() string {
	return [...]string{"discharged", "VIOLATED", "UNDECIDED"}[s]
}

// An Obligation is one instance of a rule, keyed by rule + construct (never by
// line or source text).
type Obligation struct {
	Rule       string `json:"rule"`      // e.g. "C05.a"
	Key        string `json:"construct"` // e.g. "(*Conn).handleStatus→Session.Status"
	Pos        string `json:"pos"`
	Status     string `json:"status"`
	Detail     string `json:"detail,omitempty"`
	Nontrivial bool   `json:"nontrivial"` // the discharge needed a branch edge, call edge, lock or table row
	status     Status
	known      bool
}

type RuleInfo struct {
	ID         string `json:"id"`
	Text       string `json:"text"`
	Floor      int    `json:"floor"`
	Confirmed  int    `json:"confirmed_on_pinned_tree"`
	Instances  int    `json:"instances"`
	Discharged int    `json:"discharged"`
	Violated   int    `json:"violated"`
	Undecided  int    `json:"undecided"`
	order      int
	inEvidence bool
}

// Ctx collects the obligations of one property run.
type Ctx struct {
	P           *Program
	Prop        string
	Tier        string
	rules       map[string]*RuleInfo
	obs         []*Obligation
	seen        map[string]*Obligation
	notes       []string
	unresolved  []string
	evals       int // E7 rows etc. counted on top of obligations
	assumptions []string
	explanation string
}

func newCtx(p *Program, prop, tier string) *Ctx {
	if gateProg != p {
		resetGateWorld(p)
	}
	return &Ctx{P: p, Prop: prop, Tier: tier, rules: map[string]*RuleInfo{}, seen: map[string]*Obligation{}}
}

// rule declares a rule of the property with its vacuity floor: the number of
// instances confirmed by hand on the pinned tree; fewer on a later tree means
// the rule no longer sees its subject and the check refuses to pass.
//
// The declared number is the count confirmed on the pinned tree. The floor
// that is enforced is lower: behaviour-preserving refactors legitimately merge
// sites (three open-coded guards become one helper), so only a collapse of
// the count signals blindness: declared <= 6 → 1, otherwise a third.
func (c *Ctx) rule(id, text string, floor int) {
	if _, ok := c.rules[id]; ok {
		return
	}
	eff := floor
	switch {
	case floor <= 0:
		eff = 0
	case floor <= 6:
		eff = 1
	default:
		eff = floor / 3
	}
	c.rules[id] = &RuleInfo{ID: id, Text: text, Floor: eff, Confirmed: floor, order: len(c.rules)}
}

func (c *Ctx) add(rule, key string, pos token.Pos, st Status, nontrivial bool, detail string) *Obligation {
	if c.rules[rule] == nil {
		panic("obligation for undeclared rule " + rule)
	}
	k := rule + "|" + key
	if o := c.seen[k]; o != nil {
		// the same construct met twice (e.g. two paths): the worse status wins
		if st > o.status {
			o.status, o.Status, o.Detail, o.Pos = st, st.String(), detail, c.P.pos(pos)
		}
		return o
	}
	o := &Obligation{Rule: rule, Key: key, Pos: c.P.pos(pos), status: st, Status: st.String(), Detail: detail, Nontrivial: nontrivial}
	c.seen[k] = o
	c.obs = append(c.obs, o)
	return o
}

func (c *Ctx) ok(rule, key string, pos token.Pos, detail string) {
	c.add(rule, key, pos, Discharged, true, detail)
}
func (c *Ctx) okTrivial(rule, key string, pos token.Pos, detail string) {
	c.add(rule, key, pos, Discharged, false, detail)
}
func (c *Ctx) fail(rule, key string, pos token.Pos, detail string) {
	c.add(rule, key, pos, Violated, true, detail)
}
func (c *Ctx) undecided(rule, key string, pos token.Pos, detail string) {
	c.add(rule, key, pos, Undecided, true, detail)
}
func (c *Ctx) check(cond bool, rule, key string, pos token.Pos, okDetail, failDetail string) {
	if cond {
		c.ok(rule, key, pos, okDetail)
	} else {
		c.fail(rule, key, pos, failDetail)
	}
}
func (c *Ctx) unresolvedRoot(what string) {
	c.unresolved = append(c.unresolved, what)
}
func (c *Ctx) note(format string, a ...interface{}) {
	c.notes = append(c.notes, fmt.Sprintf(format, a...))
}
func (c *Ctx) assume(s string) { c.assumptions = append(c.assumptions, s) }

// ---- known findings -------------------------------------------------------

type KnownFinding struct {
	Property  string `json:"property"`
	Rule      string `json:"rule"`
	Construct string `json:"construct"`
	What      string `json:"what"`
}
type FixedRecord struct {
	Property string `json:"property"`
	Commit   string `json:"commit"`
	What     string `json:"what"`
}
type KnownFile struct {
	Comment  string         `json:"comment"`
	Findings []KnownFinding `json:"findings"`
	Fixed    []FixedRecord  `json:"fixed"`
}

func loadKnown(path string) (*KnownFile, error) {
	b, err := os.ReadFile(path)
	if os.IsNotExist(err) {
		return &KnownFile{}, nil
	}
	if err != nil {
		return nil, err
	}
	var k KnownFile
	if err := json.Unmarshal(b, &k); err != nil {
		return nil, fmt.Errorf("%s: %w", path, err)
	}
	return &k, nil
}

// ---- finishing ------------------------------------------------------------

type evidence struct {
	PropertyID  string                 `json:"property_id"`
	Tier        string                 `json:"tier"`
	Seed        int                    `json:"seed"`
	Level       string                 `json:"level"`
	Coverage    map[string]interface{} `json:"coverage"`
	Assumptions []string               `json:"assumptions"`
	WallS       float64                `json:"wall_s"`
	Violations  int                    `json:"violations"`
}

// finish prints the report, writes evidence and returns the exit code:
// 0 pass, 1 violation (with VIOLATION lines), 2 undecided/unresolved.
func (c *Ctx) finish(verifDir string, start time.Time, seed int, extra map[string]interface{}) int {
	known, kerr := loadKnown(filepath.Join(verifDir, "known_findings.json"))
	if kerr != nil {
		fmt.Printf("UNRESOLVED known_findings.json unreadable: %v\n", kerr)
		return 2
	}
	for _, o := range c.obs {
		r := c.rules[o.Rule]
		r.Instances++
		switch o.status {
		case Discharged:
			r.Discharged++
		case Violated:
			r.Violated++
			for _, k := range known.Findings {
				if k.Property == c.Prop && k.Rule == o.Rule && k.Construct == o.Key {
					o.known = true
				}
			}
		case Undecided:
			r.Undecided++
		}
	}
	var rules []*RuleInfo
	for _, r := range c.rules {
		rules = append(rules, r)
	}
	sort.Slice(rules, func(i, j int) bool { return rules[i].order < rules[j].order })

	fmt.Printf("== %s (%s tier) on %s: %d module packages, %d source functions\n", c.Prop, c.Tier, c.P.Dir, len(c.P.All), c.P.NFuncs)
	exit := 0
	vacuous := 0
	for _, r := range rules {
		flag := ""
		if r.Instances < r.Floor {
			flag = fmt.Sprintf("  <-- BELOW FLOOR %d: rule no longer sees its subject", r.Floor)
			vacuous++
		}
		fmt.Printf("  rule %-7s instances=%-3d discharged=%-3d violated=%-2d undecided=%-2d floor=%d/%-3d %s%s\n", r.ID, r.Instances, r.Discharged, r.Violated, r.Undecided, r.Floor, r.Confirmed, r.Text, flag)
	}
	for _, n := range c.notes {
		fmt.Printf("  note: %s\n", n)
	}
	nviol, nknown, nund := 0, 0, 0
	os.MkdirAll(filepath.Join(verifDir, "evidence", "violations"), 0o755)
	// stale violation files of this property are removed so replay paths are current
	old, _ := filepath.Glob(filepath.Join(verifDir, "evidence", "violations", c.Prop+"-*.json"))
	for _, f := range old {
		os.Remove(f)
	}
	for _, o := range c.obs {
		switch {
		case o.status == Violated && o.known:
			nknown++
			fmt.Printf("KNOWN-FINDING: property=%s %s %s at %s: %s\n", c.Prop, o.Rule, o.Key, o.Pos, o.Detail)
		case o.status == Violated:
			nviol++
			path := filepath.Join(verifDir, "evidence", "violations", fmt.Sprintf("%s-%d.json", c.Prop, nviol))
			b, _ := json.MarshalIndent(map[string]interface{}{"property": c.Prop, "tier": c.Tier, "obligation": o,
				"rule_text": c.rules[o.Rule].Text, "tree": c.P.Dir}, "", "  ")
			os.WriteFile(path, b, 0o644)
			fmt.Printf("VIOLATION property=%s replay=%s\n", c.Prop, path)
			fmt.Printf("  %s: rule %s [%s], construct %s: %s\n", o.Pos, o.Rule, c.rules[o.Rule].Text, o.Key, o.Detail)
		case o.status == Undecided:
			nund++
			fmt.Printf("UNDECIDED property=%s %s %s at %s: %s\n", c.Prop, o.Rule, o.Key, o.Pos, o.Detail)
		}
	}
	for _, u := range c.unresolved {
		fmt.Printf("UNRESOLVED property=%s anchor: %s\n", c.Prop, u)
	}
	if nviol > 0 {
		exit = 1
	} else if nund > 0 || len(c.unresolved) > 0 || vacuous > 0 {
		exit = 2
	}

	// evidence
	nontrivial := 0
	discharged := 0
	var samples []interface{}
	perRule := map[string]int{}
	for _, o := range c.obs {
		if o.status == Discharged {
			discharged++
		}
		if o.Nontrivial {
			nontrivial++
		}
		if perRule[o.Rule] < 2 && len(samples) < 40 {
			perRule[o.Rule]++
			samples = append(samples, o)
		}
	}
	var ruleTexts []string
	for _, r := range rules {
		ruleTexts = append(ruleTexts, r.ID+": "+r.Text)
	}
	cov := map[string]interface{}{
		"explanation":         c.explanation,
		"obligations":         len(c.obs),
		"discharged":          discharged,
		"evaluations":         len(c.obs) + c.evals,
		"distinct_nontrivial": nontrivial,
		"rule":                "obligations are rule instances keyed rule|construct, enumerated from the type-checked AST / SSA / call graph of /repo's current tree; distinct = distinct keys; non-trivial = the discharge needed at least one branch edge, call edge, lock, field or table row in its argument. Rules: " + strings.Join(ruleTexts, "; "),
		"samples":             samples,
		"rules":               rules,
		"known_findings":      nknown,
		"undecided":           nund,
		"unresolved_anchors":  c.unresolved,
		"packages":            len(c.P.All),
		"source_functions":    c.P.NFuncs,
		"checker_cmd":         strings.Join(os.Args, " "),
		"trusted_base":        []string{"go/types", "golang.org/x/tools/go/ssa v0.29.0", "CHA and VTA call graphs (no reflection/unsafe modelling)", "hand-confirmed tables in checker/tables.go"},
		"all_obligations":     c.obs,
		"notes":               c.notes,
	}
	for k, v := range extra {
		cov[k] = v
	}
	ev := evidence{PropertyID: c.Prop, Tier: c.Tier, Seed: seed, Level: "other", Coverage: cov,
		Assumptions: c.assumptions, WallS: time.Since(start).Seconds(), Violations: nviol}
	if ev.Assumptions == nil {
		ev.Assumptions = []string{}
	}
	b, _ := json.MarshalIndent(ev, "", " ")
	if err := os.WriteFile(filepath.Join(verifDir, "evidence", c.Prop+".json"), b, 0o644); err != nil {
		fmt.Printf("UNRESOLVED cannot write evidence: %v\n", err)
		return 2
	}
	verdict := map[int]string{0: "PASS", 1: "VIOLATION", 2: "UNDECIDED"}[exit]
	fmt.Printf("== %s: %s  obligations=%d discharged=%d known-findings=%d violations=%d undecided=%d wall=%.1fs\n",
		c.Prop, verdict, len(c.obs), discharged, nknown, nviol, nund+len(c.unresolved)+vacuous, time.Since(start).Seconds())
	return exit
}
