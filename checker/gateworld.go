package main

import (
	"go/types"
	"strings"

	"golang.org/x/tools/go/ssa"
)

// Interprocedural extension of the gate facts, so that extracting a helper
// does not change a verdict (Min et al.: "treat a wrapper as acquiring the
// lock when all its paths return with the lock held"):
//
//  (b) success summaries: for a module function f returning error (or bool),
//      okSummary(f) = the facts that hold on every exit that may report
//      success (return nil / return true). On the success edge of a call of
//      f the caller gains okSummary(f) besides "ok:f".
//  (a) entry contexts: for an unexported module function whose callers are
//      all visible (never used as a value, no module interface declares a
//      method of its name), entryContext(f) = ∩ over its call sites of the
//      facts holding there. gateFlow starts f with these.
//
// Both are must-information; recursion is cut conservatively (∅).

var gateProg *Program // set by newCtx

type gateWorldT struct {
	ok        map[*ssa.Function]facts
	okBusy    map[*ssa.Function]bool
	entry     map[*ssa.Function]facts
	entryBusy map[*ssa.Function]bool
	valueUse  map[*ssa.Function]bool
	ifaceMeth map[string]bool
	plain     map[*ssa.Function]*mustResult
	// creation sites of bound-method wrappers (`f := c.method`)
	boundAt map[*ssa.Function][]*ssa.MakeClosure
}

var gateWorld *gateWorldT

func resetGateWorld(p *Program) {
	gateProg = p
	gateWorld = nil
}

func world() *gateWorldT {
	if gateWorld != nil {
		return gateWorld
	}
	w := &gateWorldT{ok: map[*ssa.Function]facts{}, okBusy: map[*ssa.Function]bool{}, entry: map[*ssa.Function]facts{}, entryBusy: map[*ssa.Function]bool{},
		valueUse: map[*ssa.Function]bool{}, ifaceMeth: map[string]bool{}, plain: map[*ssa.Function]*mustResult{}}
	gateWorld = w
	p := gateProg
	if p == nil {
		return w
	}
	for _, fn := range p.SrcFuncs() {
		allInstrs(fn, func(i ssa.Instruction) {
			var calleeVal ssa.Value
			if c, ok := i.(ssa.CallInstruction); ok && !c.Common().IsInvoke() {
				calleeVal = c.Common().Value
			}
			for _, op := range i.Operands(nil) {
				if *op == nil {
					continue
				}
				if f, ok := (*op).(*ssa.Function); ok && *op != calleeVal {
					w.valueUse[f] = true
				}
			}
			// bound method values / method expressions
			if mc, ok := i.(*ssa.MakeClosure); ok {
				if f, ok := mc.Fn.(*ssa.Function); ok && f.Synthetic != "" {
					w.valueUse[f] = true
					if w.boundAt == nil {
						w.boundAt = map[*ssa.Function][]*ssa.MakeClosure{}
					}
					w.boundAt[f] = append(w.boundAt[f], mc)
				}
			}
		})
	}
	for _, pk := range p.All {
		sc := pk.Types.Scope()
		for _, n := range sc.Names() {
			tn, ok := sc.Lookup(n).(*types.TypeName)
			if !ok {
				continue
			}
			if it, ok := tn.Type().Underlying().(*types.Interface); ok {
				for k := 0; k < it.NumMethods(); k++ {
					w.ifaceMeth[it.Method(k).Name()] = true
				}
			}
		}
	}
	return w
}

// okSummary: facts guaranteed whenever fn reports success.
func okSummary(fn *ssa.Function) facts {
	w := world()
	if s, ok := w.ok[fn]; ok {
		return s
	}
	if w.okBusy[fn] || fn == nil || fn.Blocks == nil || !inModule(fn) {
		return facts{}
	}
	res := fn.Signature.Results()
	if res.Len() == 0 {
		return facts{}
	}
	last := res.At(res.Len() - 1).Type()
	isErr := isErrorType(last)
	isBool := false
	if b, ok := last.Underlying().(*types.Basic); ok && b.Kind() == types.Bool && res.Len() == 1 {
		isBool = true
	}
	if !isErr && !isBool {
		w.ok[fn] = facts{}
		return w.ok[fn]
	}
	w.okBusy[fn] = true
	defer delete(w.okBusy, fn)
	flow := gateFlowRaw(fn, facts{})
	var acc facts
	first := true
	for _, r := range returnsOf(fn) {
		if len(r.Results) == 0 {
			continue
		}
		v := unspill(r.Results[len(r.Results)-1])
		f, reach := flow.at(r)
		if !reach {
			continue
		}
		if isErr {
			if !isNilConst(v) {
				// success only if v may be nil
				if certainlyNonNilErr(v, f) {
					continue
				}
				// `return err` with err the error of a call: success means that call succeeded
				if call, _ := callOf(v); call != nil {
					if k := callKey(call); k != "" {
						f = f.with("ok:" + k)
					}
				}
			}
		} else {
			if k, ok := v.(*ssa.Const); ok {
				if k.Value != nil && k.Value.String() == "false" {
					continue
				}
			} else {
				// a computed boolean: what holds when it is true
				extra := []string{}
				for _, a := range atomsOf(v, true) {
					extra = append(extra, atomFacts(a)...)
				}
				f = f.with(extra...)
			}
		}
		if first {
			acc, first = f, false
		} else {
			acc = factsLattice.join(acc, f)
		}
	}
	if acc == nil {
		acc = facts{}
	}
	w.ok[fn] = acc
	return acc
}

// certainlyNonNilErr: the returned error value cannot be nil here.
func certainlyNonNilErr(v ssa.Value, f facts) bool {
	switch x := v.(type) {
	case *ssa.MakeInterface:
		return true
	case *ssa.Call:
		if o := calleeObj(x); o != nil && o.Pkg() != nil {
			q := o.Pkg().Path() + "." + o.Name()
			if q == "fmt.Errorf" || q == "errors.New" {
				return true
			}
		}
		if k := callKey(x); k != "" && f.has("fail:"+k) {
			return true
		}
	case *ssa.Extract:
		if c, ok := x.Tuple.(*ssa.Call); ok {
			if k := callKey(c); k != "" && f.has("fail:"+k) {
				return true
			}
		}
	}
	return false
}

// entryContext: facts guaranteed whenever fn is entered.
func entryContext(fn *ssa.Function) facts {
	w := world()
	if s, ok := w.entry[fn]; ok {
		return s
	}
	if fn == nil || w.entryBusy[fn] || fn.Parent() != nil || !inModule(fn) || fn.Synthetic != "" {
		return facts{}
	}
	name := fn.Name()
	if name == "" || strings.ToUpper(name[:1]) == name[:1] || name == "init" || name == "main" {
		w.entry[fn] = facts{}
		return w.entry[fn]
	}
	if w.valueUse[fn] || (fn.Signature.Recv() != nil && w.ifaceMeth[name]) {
		w.entry[fn] = facts{}
		return w.entry[fn]
	}
	sites := callSitesOf(gateProg, fn)
	// method values of fn (`sasl.NewPlainServer(c.authenticatePlain)`): the
	// creation sites of its bound-method wrappers
	var madeAt []*ssa.MakeClosure
	for wrapper, mcs := range w.boundAt {
		target := false
		allInstrs(wrapper, func(i ssa.Instruction) {
			if call, ok := i.(ssa.CallInstruction); ok && staticCallee(call) == fn {
				target = true
			}
		})
		if target {
			madeAt = append(madeAt, mcs...)
		}
	}
	if len(sites) == 0 && len(madeAt) == 0 {
		w.entry[fn] = facts{}
		return w.entry[fn]
	}
	w.entryBusy[fn] = true
	defer delete(w.entryBusy, fn)
	var acc facts
	first := true
	for _, mc := range madeAt {
		// what held where the value was made (gate facts are history facts),
		// as for a function literal
		cf, cok := deepFlowOf(mc.Parent()).at(mc)
		if !cok {
			continue
		}
		if first {
			acc, first = cf, false
		} else {
			acc = factsLattice.join(acc, cf)
		}
	}
	for _, s := range sites {
		caller := s.Parent()
		var f facts
		var ok bool
		if _, isDefer := s.(*ssa.Defer); isDefer {
			f, ok = facts{}, true
		} else if _, isGo := s.(*ssa.Go); isGo {
			f, ok = facts{}, true
		} else {
			f, ok = deepFlowOf(caller).at(s)
		}
		if !ok {
			continue // unreachable call site
		}
		if first {
			acc, first = f, false
		} else {
			acc = factsLattice.join(acc, f)
		}
	}
	if acc == nil {
		acc = facts{}
	}
	// facts about the caller's own calls stay meaningful in the callee only as
	// "this gate was passed before I was entered"; keep them all.
	w.entry[fn] = acc
	return acc
}

// deepFlowOf: gate flow of fn's outermost function with contexts, covering closures.
var deepFlowCache = map[*ssa.Function]*deepFlow{}

func deepFlowOf(fn *ssa.Function) *deepFlow {
	root := fn
	for root.Parent() != nil {
		root = root.Parent()
	}
	if d, ok := deepFlowCache[root]; ok {
		return d
	}
	d := gateFlowDeep(root, facts{})
	deepFlowCache[root] = d
	return d
}

// ctxFlowT: a must-flow with rule-specific facts, made interprocedural by
// entry contexts (∩ over all call sites for unexported functions whose
// callers are all visible; invocation points for closures).
type ctxFlowT struct {
	gen     func(facts, ssa.Instruction) facts
	edgeGen func(f facts, b *ssa.BasicBlock, succ int) facts
	cache   map[*ssa.Function]*mustResult
	busy    map[*ssa.Function]bool
}

func newCtxFlow(gen func(facts, ssa.Instruction) facts, edgeGen func(f facts, b *ssa.BasicBlock, succ int) facts) *ctxFlowT {
	return &ctxFlowT{gen: gen, edgeGen: edgeGen, cache: map[*ssa.Function]*mustResult{}, busy: map[*ssa.Function]bool{}}
}

func contextEligible(fn *ssa.Function) bool {
	w := world()
	if fn == nil || fn.Parent() != nil || !inModule(fn) || fn.Synthetic != "" {
		return false
	}
	name := fn.Name()
	if name == "" || strings.ToUpper(name[:1]) == name[:1] || name == "init" || name == "main" {
		return false
	}
	if w.valueUse[fn] || (fn.Signature.Recv() != nil && w.ifaceMeth[name]) {
		return false
	}
	return len(callSitesOf(gateProg, fn)) > 0
}

func (cf *ctxFlowT) flow(fn *ssa.Function) *mustResult {
	if r, ok := cf.cache[fn]; ok {
		return r
	}
	entry := facts{}
	if !cf.busy[fn] {
		cf.busy[fn] = true
		if par := fn.Parent(); par != nil {
			pr := cf.flow(par)
			allInstrs(par, func(i ssa.Instruction) {
				if mc, ok := i.(*ssa.MakeClosure); ok && mc.Fn == ssa.Value(fn) {
					entry = closureFacts(pr, mc)
				}
			})
		} else if contextEligible(fn) {
			var acc facts
			first := true
			for _, s := range callSitesOf(gateProg, fn) {
				var f facts
				ok := true
				switch s.(type) {
				case *ssa.Defer, *ssa.Go:
					f = facts{}
				default:
					f, ok = cf.flow(s.Parent()).at(s)
				}
				if !ok {
					continue
				}
				if first {
					acc, first = f, false
				} else {
					acc = factsLattice.join(acc, f)
				}
			}
			if acc != nil {
				entry = acc
			}
		}
		delete(cf.busy, fn)
	}
	r := mustFlow(fn, entry, cf.gen, cf.edgeGen)
	cf.cache[fn] = r
	return r
}

func (cf *ctxFlowT) at(i ssa.Instruction) (facts, bool) {
	return cf.flow(i.Parent()).at(i)
}

// helperClosure: fn, the function literals defined in it, and — up to depth
// levels — the unexported module functions it calls statically ("helpers": a
// block extracted into a function of its own must not change a verdict).
// Exported functions and methods are never treated as helpers.
func helperClosure(fn *ssa.Function, depth int) []*ssa.Function {
	seen := map[*ssa.Function]bool{}
	var out []*ssa.Function
	var rec func(f *ssa.Function, d int)
	rec = func(f *ssa.Function, d int) {
		if f == nil || seen[f] || f.Blocks == nil {
			return
		}
		seen[f] = true
		out = append(out, f)
		for _, a := range f.AnonFuncs {
			rec(a, d)
		}
		if d == 0 {
			return
		}
		allInstrs(f, func(i ssa.Instruction) {
			c, ok := i.(ssa.CallInstruction)
			if !ok {
				return
			}
			cal := staticCallee(c)
			if cal == nil || !inModule(cal) || cal.Synthetic != "" {
				return
			}
			name := cal.Name()
			if cal.Parent() == nil && (name == "" || strings.ToUpper(name[:1]) == name[:1]) {
				return
			}
			rec(cal, d-1)
		})
	}
	rec(fn, depth)
	return out
}

// deepInstrs visits the instructions of fn and of its helper closure.
func deepInstrs(fn *ssa.Function, depth int, f func(ssa.Instruction)) {
	for _, g := range helperClosure(fn, depth) {
		allInstrs(g, f)
	}
}

// isHelperOf: g belongs to the helper closure of fn.
func isHelperOf(g, fn *ssa.Function, depth int) bool {
	for _, h := range helperClosure(fn, depth) {
		if h == g {
			return true
		}
	}
	return false
}

// mustFlowDeep: like mustFlow, but a call of a helper (unexported module
// function) contributes the facts that the helper establishes on all of its
// return paths (computed with the same gen, from an empty entry; depth-limited).
func mustFlowDeep(fn *ssa.Function, entry facts, gen func(facts, ssa.Instruction) facts,
	edgeGen func(f facts, b *ssa.BasicBlock, succ int) facts) *mustResult {
	cache := map[*ssa.Function]facts{}
	busy := map[*ssa.Function]bool{}
	var deep func(depth int) func(facts, ssa.Instruction) facts
	var summary func(cal *ssa.Function, depth int) facts
	summary = func(cal *ssa.Function, depth int) facts {
		if s, ok := cache[cal]; ok {
			return s
		}
		if busy[cal] || depth <= 0 {
			return facts{}
		}
		busy[cal] = true
		defer delete(busy, cal)
		r := mustFlow(cal, facts{}, deep(depth-1), edgeGen)
		var acc facts
		first := true
		for _, ret := range returnsOf(cal) {
			f, ok := r.at(ret)
			if !ok {
				continue
			}
			if first {
				acc, first = f, false
			} else {
				acc = factsLattice.join(acc, f)
			}
		}
		if acc == nil {
			acc = facts{}
		}
		cache[cal] = acc
		return acc
	}
	deep = func(depth int) func(facts, ssa.Instruction) facts {
		return func(f facts, i ssa.Instruction) facts {
			if gen != nil {
				f = gen(f, i)
			}
			c, ok := i.(*ssa.Call)
			if !ok {
				return f
			}
			cal := staticCallee(c)
			if cal == nil || !inModule(cal) || cal.Blocks == nil || cal.Synthetic != "" {
				return f
			}
			name := cal.Name()
			if cal.Parent() == nil && (name == "" || strings.ToUpper(name[:1]) == name[:1]) {
				return f
			}
			if s := summary(cal, depth); len(s) > 0 {
				f = f.with(s.list()...)
			}
			return f
		}
	}
	return mustFlow(fn, entry, deep(2), edgeGen)
}
