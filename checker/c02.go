package main

import (
	"fmt"
	"go/token"
	"go/types"
	"strings"

	"golang.org/x/tools/go/ssa"
)

func init() {
	register("C02", "Decided: (a) every field of every option struct a client command accepts is read while the command is encoded (no argument can be silently dropped), fields tied by their own comment to an extension the server never advertises excepted; (b) option keywords round-trip: for the status, list-select, list-return, search-return, fetch-item and search-key tables extracted from the client, the token written for a field is mapped by the paired server switch back to that very field; (c) every command name the client can send is dispatched by the server or documented as needing an unadvertised extension; (d) no parse failure is swallowed in the server's parsers (a nil error is never returned on a path where a Decoder.Expect* failed or an error is known non-nil); (e, f) search keys are appended to their own field and scalar keys folded only through And (shared with C19.d); (g) every plain operand handed to the backend is the value decoded from the command line, operands of equal type in wire order, and the number kind is the one of the UID prefix. Not decided: that a string survives quoting/literal/UTF-7 unchanged (value-level), equality of arbitrary search trees, composite item names (BODY.PEEK[…], +FLAGS.SILENT) beyond field coverage.", checkC02)
}

func checkC02(c *Ctx) {
	c.rule("C02.a", "every field of every option struct accepted by a client command is read while encoding it", 60)
	ruleArgFieldCoverage(c, "C02.a")
	c.rule("C02.b", "option keywords round-trip: the token the client writes for a field is decoded by the server into the same field", 25)
	ruleKeywordRoundTrip(c, "C02.b", "imapclient", "imapserver", 5)
	c.rule("C02.c", "every command the client can send is dispatched by the server (or needs an extension the server never advertises)", 40)
	ruleCommandTable(c, "C02.c")
	c.rule("C02.g", "operands handed to the backend are the decoded ones, in wire order, with the number kind of the UID prefix", 30)
	ruleArgumentPlumbing(c, "C02.g")
	c.rule("C02.e", "search keys: same-field append; scalar keys only through And; no whole-criteria overwrite", 20)
	ruleSameFieldAppend(c, "C02.e")
	ruleScalarOnlyViaAnd(c, "C02.e")
	c.rule("C02.f", "folding scalar search keys through And preserves every bound (order-type evaluation of And)", 54)
	c.rule("C02.f2", "And merges every field; list fields by concatenation", 16)
	ruleAnd(c, "C02.f", "C02.f2", "C02.f2")
	c.rule("C02.h", "an option field's encoding is not conditional on an unrelated field of the same struct", 1)
	ruleNoCrossFieldGuard(c, "C02.h")
	c.rule("C02.d", "no parse failure is swallowed in the server's command parsers", 100)
	c.rule("C02.i", "mailbox names: the encoder applies modified UTF-7 exactly where the decoder inverts it", 26)
	ruleMailboxTransform(c, "C02.i")
	c.rule("C02.j", "a decoded argument is stored into one field of the backend's option structure per path", 20)
	ruleOneValueOneField(c, "C02.j")
	c.rule("C02.k", "numeric option fields are encoded at their full width (no narrowing conversion)", 1)
	ruleNoNarrowingOnEncode(c, "C02.k", "imapclient")
	c.rule("C02.l", "writer and reader literal thresholds agree (an argument sent as a literal of any size the client may choose is accepted)", 8)
	ruleThresholdAgreement(c, "C02.l")
	c.rule("C02.m", "mailbox-name transformer chunking: ErrShortSrc on a split unit, space check before every write, nSrc after the check", 6)
	ruleUTF7Chunking(c, "C02.m", "C02.m", "C02.m")
	c.rule("C02.n", "a local filled by a decoder call is read before another decoder call fills it again", 24)
	ruleDecodedValueNotOverwritten(c, "C02.n", "imapserver")
	c.rule("C02.o", "a number set decoded from the wire is handed over by identity (the $ marker survives the decoder)", 3)
	ruleDecodedSetsKeepIdentity(c, "C02.o")
	ruleNoSwallowedError(c, "C02.d", "imapserver", "internal")
}

// ruleCommandTable (C02.c): every command name the client can put on the wire
// is dispatched by the server, unless the client method documents that it
// needs an extension this server never advertises.
func ruleCommandTable(c *Ctx, rule string) {
	p := c.P
	begin := p.Func("imapclient", "Client", "beginCommand")
	if begin == nil {
		c.unresolvedRoot("(*Client).beginCommand")
		return
	}
	tbl, _, _ := dispatchTable(c)
	labels := map[string]bool{}
	for _, dc := range tbl {
		for _, l := range dc.labels {
			labels[l] = true
		}
	}
	var namesOf func(v ssa.Value, seen map[ssa.Value]bool) ([]string, bool)
	namesOf = func(v ssa.Value, seen map[ssa.Value]bool) ([]string, bool) {
		if seen[v] {
			return nil, true
		}
		seen[v] = true
		if s, ok := constString(v); ok {
			return []string{s}, true
		}
		switch x := v.(type) {
		case *ssa.Phi:
			var out []string
			for _, e := range x.Edges {
				n, ok := namesOf(e, seen)
				if !ok {
					return nil, false
				}
				out = append(out, n...)
			}
			return out, true
		case *ssa.Call:
			if cal := staticCallee(x); cal != nil && cal.Name() == "uidCmdName" && len(x.Call.Args) >= 1 {
				n, ok := namesOf(x.Call.Args[0], seen)
				if !ok {
					return nil, false
				}
				var out []string
				for _, s := range n {
					out = append(out, s, "UID "+s)
				}
				return out, true
			}
		}
		return nil, false
	}
	g := buildModGraph(p, p.VTA(), nil)
	callers := map[*ssa.Function][]*ssa.Function{}
	for f, m := range g.succ {
		for cal := range m {
			callers[cal] = append(callers[cal], f)
		}
	}
	docOf := func(fn *ssa.Function) string {
		fd, _ := p.Decl(fn)
		if fd == nil || fd.Doc == nil {
			return ""
		}
		return fd.Doc.Text()
	}
	for _, fn := range p.SrcFuncs("imapclient") {
		allInstrs(fn, func(i ssa.Instruction) {
			call, ok := i.(*ssa.Call)
			if !ok || staticCallee(call) != begin {
				return
			}
			names, ok := namesOf(call.Call.Args[1], map[ssa.Value]bool{})
			if !ok {
				c.undecided(rule, fnKey(fn)+":command name", call.Pos(), "the command name passed to beginCommand is not a constant")
				return
			}
			// documentation of the method (or of its direct callers for unexported helpers)
			docs := []string{docOf(fn)}
			root := fn
			for root.Parent() != nil {
				root = root.Parent()
			}
			docs = append(docs, docOf(root))
			for _, cl := range callers[root] {
				docs = append(docs, docOf(cl))
			}
			exempt, caps := false, ""
			for _, d := range docs {
				if e, cp := docRequiresUnadvertisable(p, d); e {
					exempt, caps = true, cp
				}
			}
			for _, n := range names {
				key := "command " + n
				switch {
				case labels[n]:
					c.ok(rule, key, call.Pos(), "dispatched by readCommand")
				case exempt:
					c.okTrivial(rule, key, call.Pos(), "not dispatched, but the client method documents that it requires "+caps+", which this server never advertises")
				default:
					c.fail(rule, key, call.Pos(), "the client can send "+n+" but the server has no case for it: a command of the advertised feature set is answered BAD")
				}
			}
		})
	}
}

// decodeSource describes where a handler's session-call operand comes from.
type decodeSource struct {
	call ssa.CallInstruction // the Decoder call that filled it
	desc string
}

// provenance follows v back to the Decoder call that produced it: a load of a
// local whose address was handed to a Decoder/decoding function, or a result of
// a read* helper of the package whose own return value has such a provenance.
func provenance(p *Program, v ssa.Value, depth int) (decodeSource, bool) {
	if depth > 8 {
		return decodeSource{}, false
	}
	switch x := v.(type) {
	case *ssa.UnOp:
		if x.Op != token.MUL {
			break
		}
		cell, ok := x.X.(*ssa.Alloc)
		if !ok {
			break
		}
		for _, ref := range *cell.Referrers() {
			call, ok := ref.(ssa.CallInstruction)
			if !ok {
				continue
			}
			for _, a := range call.Common().Args {
				if a == ssa.Value(cell) && (isDecoderMethodCall(call) || decodesInto(p, call)) {
					return decodeSource{call, callKey(call)}, true
				}
			}
		}
		// a local assigned from a helper's result
		for _, ref := range *cell.Referrers() {
			if st, ok := ref.(*ssa.Store); ok && st.Addr == ssa.Value(cell) {
				if s, ok := provenance(p, st.Val, depth+1); ok {
					return s, true
				}
			}
		}
	case *ssa.Extract:
		if call, ok := x.Tuple.(*ssa.Call); ok {
			if cal := staticCallee(call); cal != nil && inModule(cal) && cal.Blocks != nil {
				// the helper's idx-th result on its success return
				for _, ret := range returnsOf(cal) {
					rv := unspill(ret.Results[x.Index])
					if isNilConst(rv) {
						continue
					}
					if k, isConst := rv.(*ssa.Const); isConst && k.Value != nil && k.Value.String() == `""` {
						continue
					}
					if s, ok := provenance(p, rv, depth+1); ok {
						return decodeSource{call, callKey(call) + "→" + s.desc}, true
					}
				}
			} else if !call.Call.IsInvoke() {
				// a library transformer returning (value, error): its operands
				for _, a := range call.Call.Args {
					if s, ok := provenance(p, a, depth+1); ok {
						return s, true
					}
				}
			}
		}
	case *ssa.Call:
		if cal := staticCallee(x); cal != nil && inModule(cal) && cal.Blocks != nil {
			for _, ret := range returnsOf(cal) {
				if s, ok := provenance(p, unspill(ret.Results[0]), depth+1); ok {
					return decodeSource{x, callKey(x) + "→" + s.desc}, true
				}
			}
		} else {
			// append(…) and library transformers (ToUpper, UTF-7 decoding…): any operand with a provenance
			for _, a := range x.Call.Args {
				if s, ok := provenance(p, a, depth+1); ok {
					return s, true
				}
			}
			if x.Call.IsInvoke() {
				return decodeSource{}, false
			}
		}
	case *ssa.Parameter:
		fn := x.Parent()
		if fn.Parent() != nil {
			return decodeSource{nil, "parameter of a callback (" + fnKey(fn) + ")"}, true
		}
		// a method handed over as a method value and never called directly
		// is a callback like a function literal
		if len(callSitesOf(p, fn)) == 0 && usedAsMethodValue(fn) {
			return decodeSource{nil, "parameter of a callback (" + fnKey(fn) + ")"}, true
		}
		idx := -1
		for i, q := range fn.Params {
			if q == x {
				idx = i
			}
		}
		var found *decodeSource
		for _, call := range callSitesOf(p, fn) {
			if idx >= len(call.Common().Args) {
				continue
			}
			a := call.Common().Args[idx]
			if isNilConst(a) {
				continue
			}
			s, ok := provenance(p, a, depth+1)
			if !ok {
				return decodeSource{}, false
			}
			found = &s
		}
		if found != nil {
			return decodeSource{found.call, "caller: " + found.desc}, true
		}
	case *ssa.Alloc:
		// address of a local handed on (e.g. &uidSet): where was it filled?
		for _, ref := range *x.Referrers() {
			call, ok := ref.(ssa.CallInstruction)
			if !ok {
				continue
			}
			if isDecoderMethodCall(call) || decodesInto(p, call) {
				return decodeSource{call, callKey(call)}, true
			}
		}
	case *ssa.Phi:
		for _, e := range x.Edges {
			if s, ok := provenance(p, e, depth+1); ok {
				return s, true
			}
		}
	case *ssa.MakeInterface:
		return provenance(p, x.X, depth)
	case *ssa.ChangeType:
		return provenance(p, x.X, depth)
	case *ssa.Slice:
		if arr, ok := x.X.(*ssa.Alloc); ok {
			// a slice literal: its elements
			for _, ref := range *arr.Referrers() {
				if ia, ok := ref.(*ssa.IndexAddr); ok {
					for _, r2 := range *ia.Referrers() {
						if st, ok := r2.(*ssa.Store); ok && st.Addr == ssa.Value(ia) {
							if s, ok := provenance(p, st.Val, depth+1); ok {
								return s, true
							}
						}
					}
				}
			}
		}
		return provenance(p, x.X, depth)
	}
	return decodeSource{}, false
}

// decodesInto: a call of a module function that itself takes a *Decoder (a
// read helper filling an out-parameter).
func decodesInto(p *Program, call ssa.CallInstruction) bool {
	cal := staticCallee(call)
	if cal == nil || !inModule(cal) {
		return false
	}
	for _, prm := range cal.Params {
		if pt, ok := prm.Type().(*types.Pointer); ok {
			if n, ok := pt.Elem().(*types.Named); ok && n.Obj().Name() == "Decoder" {
				return true
			}
		}
	}
	return false
}

// ruleArgumentPlumbing (C02.g).
func ruleArgumentPlumbing(c *Ctx, rule string) {
	p := c.P
	ifaces := sessionIfaces(p)
	isPlain := func(t types.Type) bool {
		if b, ok := t.Underlying().(*types.Basic); ok && b.Info()&types.IsString != 0 {
			return true
		}
		if n, ok := t.(*types.Named); ok {
			switch n.Obj().Name() {
			case "NumSet", "UIDSet", "SeqSet":
				return true
			}
		}
		if pt, ok := t.(*types.Pointer); ok {
			if n, ok := pt.Elem().(*types.Named); ok && (n.Obj().Name() == "UIDSet") {
				return true
			}
		}
		if sl, ok := t.(*types.Slice); ok {
			if b, ok := sl.Elem().Underlying().(*types.Basic); ok && b.Info()&types.IsString != 0 {
				return true
			}
		}
		return false
	}
	nsites := 0
	for _, fn := range p.SrcFuncs("imapserver") {
		allInstrs(fn, func(i ssa.Instruction) {
			call, ok := i.(ssa.CallInstruction)
			if !ok {
				return
			}
			m, ok := isSessionInvoke(ifaces, call)
			if !ok {
				return
			}
			sig := call.Common().Method.Type().(*types.Signature)
			var prev *decodeSource
			var prevType types.Type
			for k, arg := range call.Common().Args {
				pt := sig.Params().At(k).Type()
				key := fmt.Sprintf("%s→%s:%s", fnKey(fn), m, sig.Params().At(k).Name())
				if n, ok := pt.(*types.Named); ok && n.Obj().Name() == "NumKind" {
					// must be the handler's own NumKind parameter
					isParam := false
					for _, prm := range fn.Params {
						if paramOf(arg) == prm || arg == ssa.Value(prm) {
							isParam = true
						}
					}
					nsites++
					c.check(isParam, rule, key, i.Pos(), "the number kind derived from the UID prefix is passed through", "the session receives a number kind that is not the one derived from the command's UID prefix: sequence numbers are interpreted as UIDs or vice versa")
					continue
				}
				if !isPlain(pt) {
					continue
				}
				nsites++
				if isNilConst(arg) {
					// nil UID set for plain EXPUNGE is the protocol's meaning
					c.okTrivial(rule, key, i.Pos(), "nil: the command has no such operand")
					continue
				}
				if _, isConst := arg.(*ssa.Const); isConst {
					c.fail(rule, key, i.Pos(), "a constant is passed to the backend instead of the operand the client sent")
					continue
				}
				src, ok := provenance(p, arg, 0)
				if !ok {
					c.fail(rule, key, i.Pos(), "the operand handed to the backend does not come from a value decoded from the command line")
					continue
				}
				// order: two operands of the same type must be decoded in parameter order
				if prev != nil && types.Identical(prevType, pt) {
					inOrder := prev.call == nil || src.call == nil || (prev.call != src.call && prev.call.Parent() == src.call.Parent() && precedes(prev.call.(ssa.Instruction), src.call.(ssa.Instruction))) || prev.call.Parent() != src.call.Parent()
					if prev.call == nil && src.call == nil {
						// both are parameters of one callback: they must be passed in the callback's own parameter order
						pa, okA := call.Common().Args[k-1].(*ssa.Parameter)
						pb, okB := arg.(*ssa.Parameter)
						if okA && okB {
							ia, ib := -1, -1
							for qi, q := range pa.Parent().Params {
								if q == pa {
									ia = qi
								}
								if q == pb {
									ib = qi
								}
							}
							inOrder = ia < ib
						}
					}
					c.check(inOrder, rule, key+":order", i.Pos(),
						"decoded after the previous operand of the same type, as on the wire", "two operands of the same type reach the backend in the opposite order to the one they were decoded in")
				}
				c.ok(rule, key, i.Pos(), "decoded by "+src.desc)
				s := src
				prev, prevType = &s, pt
			}
		})
	}
	if nsites == 0 {
		c.unresolvedRoot("plain operands of session calls")
	}
	// readCommand: UID prefix ⇒ NumKindUID
	rc := p.Func("imapserver", "Conn", "readCommand")
	if rc == nil {
		return
	}
	var kindPhi *ssa.Phi
	allInstrs(rc, func(i ssa.Instruction) {
		if ph, ok := i.(*ssa.Phi); ok {
			if n, ok := ph.Type().(*types.Named); ok && n.Obj().Name() == "NumKind" {
				kindPhi = ph
			}
		}
	})
	if kindPhi == nil {
		// the command header may be parsed by a helper that returns the kind
		// (readCommandName(dec) (tag, name, numKind, err)): every return of
		// the helper hands back NumKindUID exactly on the paths with the UID
		// prefix
		var helper *ssa.Function
		idx := -1
		allInstrs(rc, func(i ssa.Instruction) {
			ex, ok := i.(*ssa.Extract)
			if !ok {
				return
			}
			if n, ok := ex.Type().(*types.Named); !ok || n.Obj().Name() != "NumKind" {
				return
			}
			if call, ok := ex.Tuple.(*ssa.Call); ok {
				if h := staticCallee(call); h != nil && inModule(h) && h.Blocks != nil {
					helper, idx = h, ex.Index
				}
			}
		})
		if helper == nil {
			c.unresolvedRoot("number-kind variable of readCommand")
			return
		}
		hf := mustFlow(helper, facts{}, nil, func(f facts, b *ssa.BasicBlock, s int) facts {
			for _, a := range edgeAtoms(b, s) {
				if a.Const != nil {
					if str, ok := constString(a.Const); ok && str == "UID" {
						if a.Op == token.EQL {
							return f.with("uid-prefix")
						}
						if a.Op == token.NEQ {
							return f.with("no-uid-prefix")
						}
					}
				}
			}
			return f
		})
		var kinds []int64
		for _, r := range returnsOf(helper) {
			if k, ok := constInt(unspill(r.Results[idx])); ok {
				kinds = append(kinds, k)
			}
		}
		var maxK int64
		for _, k := range kinds {
			if k > maxK {
				maxK = k
			}
		}
		okH := len(kinds) == len(returnsOf(helper)) && len(kinds) > 0
		for _, r := range returnsOf(helper) {
			k, ok := constInt(unspill(r.Results[idx]))
			if !ok {
				okH = false
				continue
			}
			// failure returns (non-nil error) carry no information
			if nres := len(r.Results); isErrorType(helper.Signature.Results().At(nres-1).Type()) && !isNilConst(unspill(r.Results[nres-1])) {
				continue
			}
			fs, _ := hf.at(r)
			if k == maxK && !fs.has("uid-prefix") {
				okH = false
			}
			if k != maxK && fs.has("uid-prefix") {
				okH = false
			}
		}
		c.check(okH, rule, "readCommand: number kind follows the UID prefix", helper.Pos(), "NumKindUID exactly on the path where the command name is UID (in "+fnKey(helper)+")", "the number kind handed to the handlers is not tied to the UID prefix")
		return
	}
	okPhi := len(kindPhi.Edges) == 2
	gf := mustFlow(rc, facts{}, nil, func(f facts, b *ssa.BasicBlock, s int) facts {
		for _, a := range edgeAtoms(b, s) {
			if a.Const != nil && a.Op == token.EQL {
				if str, ok := constString(a.Const); ok && str == "UID" {
					return f.with("uid-prefix")
				}
			}
		}
		return f
	})
	for ei, e := range kindPhi.Edges {
		k, ok := constInt(e)
		if !ok {
			okPhi = false
			continue
		}
		fs, _ := gf.atEnd(kindPhi.Block().Preds[ei])
		// imapwire.NumKindUID is the larger constant
		other, _ := constInt(kindPhi.Edges[1-ei])
		if k > other && !fs.has("uid-prefix") {
			okPhi = false
		}
		if k < other && fs.has("uid-prefix") {
			okPhi = false
		}
	}
	c.check(okPhi, rule, "readCommand: number kind follows the UID prefix", kindPhi.Pos(), "NumKindUID exactly on the path where the command name is UID", "the number kind handed to the handlers is not tied to the UID prefix")
}

var callSiteCache map[*ssa.Function][]ssa.CallInstruction

// callSitesOf lists the static call sites of a package-level function.
func callSitesOf(p *Program, fn *ssa.Function) []ssa.CallInstruction {
	if callSiteCache == nil {
		callSiteCache = map[*ssa.Function][]ssa.CallInstruction{}
		for _, f := range p.SrcFuncs() {
			allInstrs(f, func(i ssa.Instruction) {
				if call, ok := i.(ssa.CallInstruction); ok {
					if cal := staticCallee(call); cal != nil {
						callSiteCache[cal] = append(callSiteCache[cal], call)
					}
				}
			})
		}
	}
	return callSiteCache[fn]
}

// fieldsInCond: module struct fields loaded (directly, through len(), !, &&…)
// in a branch condition.
func fieldsInCond(v ssa.Value, seen map[ssa.Value]bool) []fieldRef {
	if seen[v] {
		return nil
	}
	seen[v] = true
	if r, ok := loadedField(v); ok {
		out := []fieldRef{r}
		// o.A.B: the outer field counts too
		if u, ok := v.(*ssa.UnOp); ok {
			if fa, ok := u.X.(*ssa.FieldAddr); ok {
				out = append(out, fieldsInCond(fa.X, seen)...)
			}
		}
		return out
	}
	switch x := v.(type) {
	case *ssa.BinOp:
		return append(fieldsInCond(x.X, seen), fieldsInCond(x.Y, seen)...)
	case *ssa.UnOp:
		return fieldsInCond(x.X, seen)
	case *ssa.Call:
		var out []fieldRef
		for _, a := range x.Call.Args {
			out = append(out, fieldsInCond(a, seen)...)
		}
		return out
	case *ssa.Phi:
		var out []fieldRef
		for _, e := range x.Edges {
			out = append(out, fieldsInCond(e, seen)...)
		}
		return out
	case *ssa.Convert:
		return fieldsInCond(x.X, seen)
	case *ssa.Slice:
		return fieldsInCond(x.X, seen)
	}
	return nil
}

// Cross-field conditions confirmed by reading the pinned tree: the encoding of
// the left field legitimately depends on the right field of the same struct.
var allowedCrossGuards = map[string]string{
	"FetchItemBodySection.HeaderFields←Specifier":       "HEADER.FIELDS only exists with a part specifier",
	"FetchItemBodySection.HeaderFieldsNot←Specifier":    "HEADER.FIELDS.NOT only exists with a part specifier",
	"FetchItemBodySection.HeaderFieldsNot←HeaderFields": "RFC grammar allows one of FIELDS / FIELDS.NOT; FIELDS wins",
	"FetchItemBodySection.Specifier←Part":               "the '.' separator is written only between a part path and a specifier",
	"FetchItemBodySection.Part←Specifier":               "same separator test",
	"SearchCriteria.Before←Since":                       "Since+Before one day apart are written as ON",
	"SearchCriteria.Since←Before":                       "Since+Before one day apart are written as ON",
	"SearchCriteria.SentBefore←SentSince":               "SentSince+SentBefore one day apart are written as SENTON",
	"SearchCriteria.SentSince←SentBefore":               "SentSince+SentBefore one day apart are written as SENTON",
	"SearchCriteriaModSeq.MetadataName←MetadataType":    "entry name and type are written together",
	"SearchCriteriaModSeq.MetadataType←MetadataName":    "entry name and type are written together",
	"ListOptions.ReturnStatus←ReturnSubscribed":         "",
}

// ruleNoCrossFieldGuard (C02.h): the encoding of an option field is not made
// conditional on an unrelated field of the same struct.
func ruleNoCrossFieldGuard(c *Ctx, rule string) {
	p := c.P
	seenKey := map[string]bool{}
	n := 0
	for _, fn := range p.SrcFuncs("imapclient") {
		// encoders only: functions that drive an Encoder and do not parse
		usesEnc, usesDec := false, false
		for _, f := range withAnon(fn) {
			allInstrs(f, func(i ssa.Instruction) {
				if call, ok := i.(ssa.CallInstruction); ok {
					if o := calleeObj(call); o != nil && isEncoderMethod(o) {
						usesEnc = true
					}
					if isDecoderMethodCall(call) {
						usesDec = true
					}
				}
			})
		}
		if !usesEnc || usesDec {
			continue
		}
		pd := postDominators(fn)
		for _, b := range fn.Blocks {
			for _, ins := range b.Instrs {
				var r fieldRef
				var ok bool
				switch x := ins.(type) {
				case *ssa.FieldAddr:
					r, ok = fieldOf(x)
				case *ssa.Field:
					r, ok = fieldOf(x)
				}
				if !ok || r.Owner == nil || r.Owner.Obj().Pkg() == nil || r.Owner.Obj().Pkg().Path() != modPath {
					continue
				}
				name := r.Owner.Obj().Name()
				if !(strings.HasSuffix(name, "Options") || strings.HasPrefix(name, "FetchItem") || strings.HasPrefix(name, "SearchCriteria") || name == "StoreFlags" || name == "SectionPartial") {
					continue
				}
				// the conditions this read is control-dependent on (transitively)
				deps := transitiveDeps(fn, pd, b)
				for x, si := range deps {
					ifi, isIf := x.Instrs[len(x.Instrs)-1].(*ssa.If)
					if !isIf {
						continue
					}
					in0 := si == 0
					// a branch whose other side only panics (exhaustiveness guard) is not a data dependency
					other := x.Succs[1-si]
					if len(other.Instrs) > 0 {
						if _, isPanic := other.Instrs[len(other.Instrs)-1].(*ssa.Panic); isPanic {
							continue
						}
					}
					for _, g := range fieldsInCond(ifi.Cond, map[ssa.Value]bool{}) {
						if g.Owner != r.Owner || g.Field == r.Field {
							continue
						}
						k := fmt.Sprintf("%s.%s←%s", name, r.Field.Name(), g.Field.Name())
						key := fnKey(fn) + ":" + k
						if seenKey[key] {
							continue
						}
						seenKey[key] = true
						n++
						if why, okAllowed := allowedCrossGuards[k]; okAllowed {
							c.okTrivial(rule, key, ins.Pos(), "known dependency: "+why)
							continue
						}
						// reads inside the guarded region are harmless if the field is also read outside it
						readOutside := false
						allInstrs(fn, func(j ssa.Instruction) {
							var r2 fieldRef
							var ok2 bool
							switch y := j.(type) {
							case *ssa.FieldAddr:
								r2, ok2 = fieldOf(y)
							case *ssa.Field:
								r2, ok2 = fieldOf(y)
							}
							if ok2 && r2.Field == r.Field && j.Block() != b {
								d2 := transitiveDeps(fn, pd, j.Block())
								if s2, dep := d2[x]; !dep || (s2 == 0) != in0 {
									readOutside = true
								}
							}
						})
						if readOutside {
							c.ok(rule, key, ins.Pos(), "the field is also encoded outside that branch")
							continue
						}
						c.fail(rule, key, ins.Pos(), fmt.Sprintf("%s.%s is encoded only under a condition on the unrelated field %s: a caller who sets %s alone has it silently dropped", name, r.Field.Name(), g.Field.Name(), r.Field.Name()))
					}
				}
			}
		}
	}
	if n == 0 {
		c.okTrivial(rule, "no cross-field conditions in the client's encoders", token.NoPos, "0 sites")
	}
}

func transitiveDeps(fn *ssa.Function, pd map[*ssa.BasicBlock]map[*ssa.BasicBlock]bool, b *ssa.BasicBlock) map[*ssa.BasicBlock]int {
	deps := map[*ssa.BasicBlock]int{}
	work := []*ssa.BasicBlock{b}
	for len(work) > 0 {
		cur := work[0]
		work = work[1:]
		for x, si := range controlDeps(fn, pd, cur) {
			if _, seen := deps[x]; !seen {
				deps[x] = si
				work = append(work, x)
			}
		}
	}
	return deps
}

// usedAsMethodValue: some bound-method wrapper made in the module calls fn.
func usedAsMethodValue(fn *ssa.Function) bool {
	for wrapper := range world().boundAt {
		found := false
		allInstrs(wrapper, func(i ssa.Instruction) {
			if call, ok := i.(ssa.CallInstruction); ok && staticCallee(call) == fn {
				found = true
			}
		})
		if found {
			return true
		}
	}
	return false
}
