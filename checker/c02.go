package main

func init() {
	register("C02", "under construction", checkC02)
}

func checkC02(c *Ctx) {
	c.rule("C02.a", "every field of every option struct accepted by a client command is read while encoding it", 60)
	ruleArgFieldCoverage(c, "C02.a")
	c.rule("C02.d", "no parse failure is swallowed in the server's command parsers", 100)
	ruleNoSwallowedError(c, "C02.d", "imapserver", "internal")
}
