package main

import (
	"fmt"
	"go/ast"
	"go/constant"
	"go/token"
	"go/types"
	"strings"
)

func init() {
	register("C16", "Decided (chunking clauses only): for both streaming transformers of internal/utf7, (a) when the input ends inside a unit that may continue and atEOF is false, Transform returns transform.ErrShortSrc instead of emitting a truncated unit; (b) every write into dst is preceded, in the same loop iteration, by a destination-space check that returns transform.ErrShortDst; (c) the consumed-input counter nSrc is advanced only after that check, so a unit is never reported consumed without having been written. These are necessary for 'regardless of how the buffers are chunked'. Not decided: losslessness of the encoding itself, the rejection set of the decoder, panic-freedom of the base64/UTF-16 arithmetic (value-level; the compiler leaves 24 bounds checks unproven here and no interval domain is available).", checkC16)
}

func checkC16(c *Ctx) {
	c.rule("C16.a", "Transform returns ErrShortSrc when the input may continue and atEOF is false", 2)
	c.rule("C16.b", "every write into dst follows a destination-space check returning ErrShortDst", 3)
	c.rule("C16.c", "nSrc advances only after the destination-space check", 3)
	c.rule("C16.d", "encoder and decoder agree on the self-representing interval [min, max]", 4)
	rulePrintableInterval(c, "C16.d")
	c.rule("C16.e", "use for mailbox names: the wire encoder applies modified UTF-7 exactly where the decoder inverts it", 26)
	ruleMailboxTransform(c, "C16.e")
	p := c.P
	pk := p.Pkgs[modPath+"/internal/utf7"]
	n := 0
	for _, file := range pk.Syntax {
		for _, d := range file.Decls {
			fd, ok := d.(*ast.FuncDecl)
			if !ok || fd.Name.Name != "Transform" || fd.Recv == nil || fd.Body == nil {
				continue
			}
			sig := pk.TypesInfo.Defs[fd.Name].Type().(*types.Signature)
			if sig.Params().Len() != 3 || sig.Results().Len() != 3 {
				continue
			}
			n++
			recv := types.ExprString(fd.Recv.List[0].Type)
			dst, atEOF := sig.Params().At(0).Name(), sig.Params().At(2).Name()
			nSrc, errName := sig.Results().At(1).Name(), sig.Results().At(2).Name()
			fn := strings.TrimPrefix(recv, "*") + ".Transform"
			if nSrc == "" || errName == "" {
				c.undecided("C16.a", fn, fd.Pos(), "results are not named: the rule's anchors (nSrc, err) cannot be identified")
				continue
			}
			parents := map[ast.Node]ast.Node{}
			var stack []ast.Node
			ast.Inspect(fd.Body, func(m ast.Node) bool {
				if m == nil {
					stack = stack[:len(stack)-1]
					return true
				}
				if len(stack) > 0 {
					parents[m] = stack[len(stack)-1]
				}
				stack = append(stack, m)
				return true
			})
			mentions := func(e ast.Node, what string) bool {
				found := false
				ast.Inspect(e, func(m ast.Node) bool {
					if found {
						return false
					}
					switch x := m.(type) {
					case *ast.CallExpr:
						if id, ok := x.Fun.(*ast.Ident); ok && id.Name == "len" && len(x.Args) == 1 && what == "len("+types.ExprString(x.Args[0])+")" {
							found = true
						}
					case *ast.Ident:
						if x.Name == what {
							found = true
						}
					case *ast.SelectorExpr:
						if types.ExprString(x) == what {
							found = true
						}
					}
					return true
				})
				return found
			}
			isDstCheck := func(s ast.Stmt) bool {
				ifs, ok := s.(*ast.IfStmt)
				if !ok || !mentions(ifs.Cond, "len("+dst+")") {
					return false
				}
				// body sets err = transform.ErrShortDst and returns
				return mentions(ifs.Body, "transform.ErrShortDst") && endsInReturn(ifs.Body)
			}
			// precededByCheck: walking outwards from stmt, some earlier sibling in an enclosing block (up to the loop body) is a dst check
			precededByCheck := func(n ast.Node) bool {
				cur := n
				for cur != nil {
					par := parents[cur]
					if blk, ok := par.(*ast.BlockStmt); ok {
						for _, s := range blk.List {
							if s == cur {
								break
							}
							if s.Pos() < cur.Pos() && isDstCheck(s) {
								return true
							}
						}
					}
					if _, isLoop := par.(*ast.ForStmt); isLoop {
						if _, inner := cur.(*ast.BlockStmt); inner {
							// reached the outermost loop body? only stop at the top-level loop of the function
							if parents[par] == ast.Node(fd.Body) {
								return false
							}
						}
					}
					cur = par
				}
				return false
			}
			// (a)
			shortSrc := false
			ast.Inspect(fd.Body, func(m ast.Node) bool {
				ifs, ok := m.(*ast.IfStmt)
				if !ok {
					return true
				}
				check := func(cond ast.Expr, body ast.Node, negated bool) {
					if body == nil || !mentions(body, "transform.ErrShortSrc") {
						return
					}
					// the branch must be the atEOF == false one
					if negated && mentions(cond, atEOF) && !strings.Contains(types.ExprString(cond), "!"+atEOF) {
						shortSrc = true // else-branch of `if atEOF`
					}
					if !negated && strings.Contains(types.ExprString(cond), "!"+atEOF) {
						shortSrc = true
					}
				}
				check(ifs.Cond, ifs.Body, false)
				if ifs.Else != nil {
					check(ifs.Cond, ifs.Else, true)
				}
				return true
			})
			c.check(shortSrc, "C16.a", fn+": ErrShortSrc when !atEOF", fd.Pos(), "an incomplete unit at the end of a non-final chunk yields ErrShortSrc",
				"Transform never reports ErrShortSrc on a non-final chunk: a unit cut by the 128-byte chunking of transform.String is emitted truncated (names longer than one chunk are corrupted)")
			// (b), (c)
			kb, kc := 0, 0
			ast.Inspect(fd.Body, func(m ast.Node) bool {
				switch x := m.(type) {
				case *ast.AssignStmt:
					for _, l := range x.Lhs {
						if ix, ok := l.(*ast.IndexExpr); ok {
							if id, ok := ix.X.(*ast.Ident); ok && id.Name == dst {
								kb++
								c.check(precededByCheck(x), "C16.b", fmt.Sprintf("%s: write dst[…]#%d", fn, kb), x.Pos(), "preceded by a len(dst) check that returns ErrShortDst",
									"dst is written without a preceding destination-space check: the transformer writes past the buffer it was given (panic) or corrupts the chunking protocol")
							}
						}
						if id, ok := l.(*ast.Ident); ok && id.Name == nSrc && x.Tok != token.DEFINE {
							kc++
							c.check(precededByCheck(x), "C16.c", fmt.Sprintf("%s: %s advanced#%d", fn, nSrc, kc), x.Pos(), "advanced after the destination-space check",
								"the consumed-input counter is advanced before the destination-space check: when dst is full the unit is reported consumed but never written, and is silently dropped at every chunk boundary")
						}
					}
				case *ast.IncDecStmt:
					if id, ok := x.X.(*ast.Ident); ok && id.Name == nSrc {
						kc++
						c.check(precededByCheck(x), "C16.c", fmt.Sprintf("%s: %s advanced#%d", fn, nSrc, kc), x.Pos(), "advanced after the destination-space check",
							"the consumed-input counter is advanced before the destination-space check")
					}
				}
				return true
			})
		}
	}
	if n < 2 {
		c.unresolvedRoot("Transform methods of internal/utf7")
	}
}

func endsInReturn(b *ast.BlockStmt) bool {
	if len(b.List) == 0 {
		return false
	}
	_, ok := b.List[len(b.List)-1].(*ast.ReturnStmt)
	return ok
}

// rulePrintableInterval: C16.d. Sibling agreement: the encoder decides which
// bytes are written directly, the decoder which bytes are legal in ASCII mode
// and which code points must not hide inside base64; all of them must use
// the same closed interval [min, max]. Every comparison against the package
// constants min and max is normalised to "x OP const"; for min only `<`
// (outside) and `>=` (inside) denote the closed interval, for max only `>`
// and `<=`.
func rulePrintableInterval(c *Ctx, rule string) {
	p := c.P
	pk := p.Pkgs[modPath+"/internal/utf7"]
	if pk == nil {
		c.unresolvedRoot("internal/utf7")
		return
	}
	// the interval ends are identified by value (RFC 3501 5.1.3: printable
	// US-ASCII 0x20-0x7e), not by the constants' names
	const loVal, hiVal = 0x20, 0x7E
	for _, file := range pk.Syntax {
		if strings.HasSuffix(p.Fset.Position(file.Pos()).Filename, "_test.go") {
			continue
		}
		for _, d := range file.Decls {
			fd, ok := d.(*ast.FuncDecl)
			if !ok || fd.Body == nil {
				continue
			}
			name := fd.Name.Name
			if fd.Recv != nil && len(fd.Recv.List) == 1 {
				name = strings.TrimPrefix(types.ExprString(fd.Recv.List[0].Type), "*") + "." + name
			}
			ast.Inspect(fd.Body, func(m ast.Node) bool {
				be, ok := m.(*ast.BinaryExpr)
				if !ok {
					return true
				}
				which := func(e ast.Expr) string {
					tv, ok := pk.TypesInfo.Types[e]
					if !ok || tv.Value == nil {
						return ""
					}
					if v, ok := constant.Int64Val(constant.ToInt(tv.Value)); ok {
						switch v {
						case loVal:
							return "min"
						case hiVal:
							return "max"
						}
					}
					return ""
				}
				op := be.Op
				k := which(be.Y)
				other := be.X
				if k == "" {
					if k = which(be.X); k == "" {
						return true
					}
					other = be.Y
					op = flipOp(op)
				}
				switch op {
				case token.LSS, token.LEQ, token.GTR, token.GEQ:
				default:
					return true
				}
				key := fmt.Sprintf("%s: %s %s %s#%d", name, types.ExprString(other), op, k, countKey(c, rule, fmt.Sprintf("%s: %s %s %s#", name, types.ExprString(other), op, k))+1)
				good := (k == "min" && (op == token.LSS || op == token.GEQ)) || (k == "max" && (op == token.GTR || op == token.LEQ))
				c.check(good, rule, key, be.Pos(), "closed interval end", fmt.Sprintf("this comparison treats %s as excluded from the self-representing interval while the sibling predicates include it: encoder and decoder disagree on one boundary code point (e.g. U+0020 hidden in base64 is accepted)", k))
				return true
			})
		}
	}
}
