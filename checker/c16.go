package main

import (
	"fmt"
	"go/ast"
	"go/constant"
	"go/token"
	"go/types"
	"strings"
)

func init() {
	register("C16", "Decided (chunking clauses only): for both streaming transformers of internal/utf7, (a) when the input ends inside a unit that may continue and atEOF is false, Transform returns transform.ErrShortSrc instead of emitting a truncated unit; (b) every write into dst is preceded, in the same loop iteration, by a destination-space check that returns transform.ErrShortDst; (c) the consumed-input counter nSrc is advanced only after that check, so a unit is never reported consumed without having been written. These are necessary for 'regardless of how the buffers are chunked'. Not decided: losslessness of the encoding itself, the rejection set of the decoder, panic-freedom of the base64/UTF-16 arithmetic (value-level; the compiler leaves 24 bounds checks unproven here and no interval domain is available).", checkC16)
}

func checkC16(c *Ctx) {
	c.rule("C16.a", "Transform returns ErrShortSrc when the input may continue and atEOF is false", 2)
	c.rule("C16.b", "every write into dst follows a destination-space check returning ErrShortDst", 3)
	c.rule("C16.c", "nSrc advances only after the destination-space check", 3)
	c.rule("C16.d", "encoder and decoder agree on the self-representing interval [min, max]", 4)
	rulePrintableInterval(c, "C16.d")
	c.rule("C16.e", "use for mailbox names: the wire encoder applies modified UTF-7 exactly where the decoder inverts it", 26)
	ruleMailboxTransform(c, "C16.e")
	ruleUTF7Chunking(c, "C16.a", "C16.b", "C16.c")
	c.rule("C16.f", "transformer state is re-initialised at the end of a call only at end of input", 1)
	ruleTransformerStateAtEOF(c, "C16.f")
	c.rule("C16.g", "no stateful transformer is shared through a package-level variable", 1)
	ruleNoSharedTransformer(c, "C16.g")
	c.rule("C16.h", "a stateful transformer declares a Reset that restores every state field", 1)
	ruleResetRestoresState(c, "C16.h")
	c.rule("C16.i", "every list-mailbox pattern the server hands on has passed the modified UTF-7 decoder", 1)
	ruleListMailboxDecoded(c, "C16.i")
}

// ruleUTF7Chunking: the chunking clauses of both Transform methods (also run
// under C01: Encoder.Mailbox feeds the transformer 128-byte chunks).
func ruleUTF7Chunking(c *Ctx, ra, rb, rc string) {
	p := c.P
	pk := p.Pkgs[modPath+"/internal/utf7"]
	n := 0
	for _, file := range pk.Syntax {
		for _, d := range file.Decls {
			fd, ok := d.(*ast.FuncDecl)
			if !ok || fd.Name.Name != "Transform" || fd.Recv == nil || fd.Body == nil {
				continue
			}
			sig := pk.TypesInfo.Defs[fd.Name].Type().(*types.Signature)
			if sig.Params().Len() != 3 || sig.Results().Len() != 3 {
				continue
			}
			n++
			recv := types.ExprString(fd.Recv.List[0].Type)
			dst, atEOF := sig.Params().At(0).Name(), sig.Params().At(2).Name()
			nSrc, errName := sig.Results().At(1).Name(), sig.Results().At(2).Name()
			fn := strings.TrimPrefix(recv, "*") + ".Transform"
			if nSrc == "" || errName == "" {
				c.undecided(ra, fn, fd.Pos(), "results are not named: the rule's anchors (nSrc, err) cannot be identified")
				continue
			}
			parents := map[ast.Node]ast.Node{}
			var stack []ast.Node
			ast.Inspect(fd.Body, func(m ast.Node) bool {
				if m == nil {
					stack = stack[:len(stack)-1]
					return true
				}
				if len(stack) > 0 {
					parents[m] = stack[len(stack)-1]
				}
				stack = append(stack, m)
				return true
			})
			mentions := func(e ast.Node, what string) bool {
				found := false
				ast.Inspect(e, func(m ast.Node) bool {
					if found {
						return false
					}
					switch x := m.(type) {
					case *ast.CallExpr:
						if id, ok := x.Fun.(*ast.Ident); ok && id.Name == "len" && len(x.Args) == 1 && what == "len("+types.ExprString(x.Args[0])+")" {
							found = true
						}
					case *ast.Ident:
						if x.Name == what {
							found = true
						}
					case *ast.SelectorExpr:
						if types.ExprString(x) == what {
							found = true
						}
					}
					return true
				})
				return found
			}
			isDstCheck := func(s ast.Stmt) bool {
				ifs, ok := s.(*ast.IfStmt)
				if !ok || !mentions(ifs.Cond, "len("+dst+")") {
					return false
				}
				// body sets err = transform.ErrShortDst and returns
				return mentions(ifs.Body, "transform.ErrShortDst") && endsInReturn(ifs.Body)
			}
			// precededByCheck: walking outwards from stmt, some earlier sibling in an enclosing block (up to the loop body) is a dst check
			var lastCheck ast.Stmt
			precededByCheck := func(n ast.Node) bool {
				cur := n
				lastCheck = nil
				for cur != nil {
					par := parents[cur]
					var siblings []ast.Stmt
					switch blk := par.(type) {
					case *ast.BlockStmt:
						siblings = blk.List
					case *ast.CaseClause:
						siblings = blk.Body
					}
					for _, s := range siblings {
						if s == cur {
							break
						}
						if s.Pos() < cur.Pos() && isDstCheck(s) {
							lastCheck = s
							return true
						}
					}
					if _, isLoop := par.(*ast.ForStmt); isLoop {
						if _, inner := cur.(*ast.BlockStmt); inner {
							// reached the outermost loop body? only stop at the top-level loop of the function
							if parents[par] == ast.Node(fd.Body) {
								return false
							}
						}
					}
					cur = par
				}
				return false
			}
			// (a)
			shortSrc := false
			ast.Inspect(fd.Body, func(m ast.Node) bool {
				ifs, ok := m.(*ast.IfStmt)
				if !ok {
					return true
				}
				check := func(cond ast.Expr, body ast.Node, negated bool) {
					if body == nil || !mentions(body, "transform.ErrShortSrc") {
						return
					}
					// the branch must be the atEOF == false one
					if negated && mentions(cond, atEOF) && !strings.Contains(types.ExprString(cond), "!"+atEOF) {
						shortSrc = true // else-branch of `if atEOF`
					}
					if !negated && strings.Contains(types.ExprString(cond), "!"+atEOF) {
						shortSrc = true
					}
				}
				check(ifs.Cond, ifs.Body, false)
				if ifs.Else != nil {
					check(ifs.Cond, ifs.Else, true)
				}
				return true
			})
			c.check(shortSrc, ra, fn+": ErrShortSrc when !atEOF", fd.Pos(), "an incomplete unit at the end of a non-final chunk yields ErrShortSrc",
				"Transform never reports ErrShortSrc on a non-final chunk: a unit cut by the 128-byte chunking of transform.String is emitted truncated (names longer than one chunk are corrupted)")
			// (b), (c)
			kb, kc := 0, 0
			ast.Inspect(fd.Body, func(m ast.Node) bool {
				switch x := m.(type) {
				case *ast.AssignStmt:
					for _, l := range x.Lhs {
						if ix, ok := l.(*ast.IndexExpr); ok {
							if id, ok := ix.X.(*ast.Ident); ok && id.Name == dst {
								kb++
								okCheck := precededByCheck(x)
								c.check(okCheck, rb, fmt.Sprintf("%s: write dst[…]#%d", fn, kb), x.Pos(), "preceded by a len(dst) check that returns ErrShortDst",
									"dst is written without a preceding destination-space check: the transformer writes past the buffer it was given (panic) or corrupts the chunking protocol")
								// what the check pays for: `nDst+len(b) > len(dst)` covers the bytes
								// of b only — the write must sit in a `range b` loop; a check
								// without such a term covers a single byte
								if okCheck && lastCheck != nil {
									budget := ""
									ast.Inspect(lastCheck.(*ast.IfStmt).Cond, func(q ast.Node) bool {
										if call, ok := q.(*ast.CallExpr); ok {
											if f, ok := call.Fun.(*ast.Ident); ok && f.Name == "len" && len(call.Args) == 1 {
												if a, ok := call.Args[0].(*ast.Ident); ok && a.Name != dst {
													budget = a.Name
												}
											}
										}
										return true
									})
									if budget != "" {
										covered := false
										for cur := ast.Node(x); cur != nil && cur != ast.Node(lastCheck); cur = parents[cur] {
											if rs, ok := cur.(*ast.RangeStmt); ok {
												if id, ok := rs.X.(*ast.Ident); ok && id.Name == budget {
													covered = true
												}
											}
											if fs, ok := cur.(*ast.ForStmt); ok && fs.Cond != nil && strings.Contains(types.ExprString(fs.Cond), "len("+budget+")") {
												covered = true
											}
										}
										// copy(dst[nDst:], b) style is a CallExpr, not an index write; only index writes get here
										c.check(covered, rb, fmt.Sprintf("%s: write dst[…]#%d is paid for by the check", fn, kb), x.Pos(), "inside the loop over "+budget+", whose length the check reserved",
											"the space check before this write reserves len("+budget+") bytes, but the write is not one of the bytes of "+budget+": when "+budget+" fills dst exactly the extra byte is written past the end (index out of range)")
									}
								}
							}
						}
						if id, ok := l.(*ast.Ident); ok && id.Name == nSrc && x.Tok != token.DEFINE {
							kc++
							c.check(precededByCheck(x), rc, fmt.Sprintf("%s: %s advanced#%d", fn, nSrc, kc), x.Pos(), "advanced after the destination-space check",
								"the consumed-input counter is advanced before the destination-space check: when dst is full the unit is reported consumed but never written, and is silently dropped at every chunk boundary")
						}
					}
				case *ast.IncDecStmt:
					if id, ok := x.X.(*ast.Ident); ok && id.Name == nSrc {
						kc++
						c.check(precededByCheck(x), rc, fmt.Sprintf("%s: %s advanced#%d", fn, nSrc, kc), x.Pos(), "advanced after the destination-space check",
							"the consumed-input counter is advanced before the destination-space check")
					}
				}
				return true
			})
		}
	}
	if n < 2 {
		c.unresolvedRoot("Transform methods of internal/utf7")
	}
}

func endsInReturn(b *ast.BlockStmt) bool {
	if len(b.List) == 0 {
		return false
	}
	_, ok := b.List[len(b.List)-1].(*ast.ReturnStmt)
	return ok
}

// rulePrintableInterval: C16.d. Sibling agreement: the encoder decides which
// bytes are written directly, the decoder which bytes are legal in ASCII mode
// and which code points must not hide inside base64; all of them must use
// the same closed interval [min, max]. Every comparison against the package
// constants min and max is normalised to "x OP const"; for min only `<`
// (outside) and `>=` (inside) denote the closed interval, for max only `>`
// and `<=`.
func rulePrintableInterval(c *Ctx, rule string) {
	p := c.P
	pk := p.Pkgs[modPath+"/internal/utf7"]
	if pk == nil {
		c.unresolvedRoot("internal/utf7")
		return
	}
	// the interval ends are identified by value (RFC 3501 5.1.3: printable
	// US-ASCII 0x20-0x7e), not by the constants' names
	const loVal, hiVal = 0x20, 0x7E
	for _, file := range pk.Syntax {
		if strings.HasSuffix(p.Fset.Position(file.Pos()).Filename, "_test.go") {
			continue
		}
		for _, d := range file.Decls {
			fd, ok := d.(*ast.FuncDecl)
			if !ok || fd.Body == nil {
				continue
			}
			name := fd.Name.Name
			if fd.Recv != nil && len(fd.Recv.List) == 1 {
				name = strings.TrimPrefix(types.ExprString(fd.Recv.List[0].Type), "*") + "." + name
			}
			ast.Inspect(fd.Body, func(m ast.Node) bool {
				be, ok := m.(*ast.BinaryExpr)
				if !ok {
					return true
				}
				which := func(e ast.Expr) string {
					tv, ok := pk.TypesInfo.Types[e]
					if !ok || tv.Value == nil {
						return ""
					}
					if v, ok := constant.Int64Val(constant.ToInt(tv.Value)); ok {
						switch v {
						case loVal:
							return "min"
						case hiVal:
							return "max"
						}
					}
					return ""
				}
				op := be.Op
				k := which(be.Y)
				other := be.X
				if k == "" {
					if k = which(be.X); k == "" {
						return true
					}
					other = be.Y
					op = flipOp(op)
				}
				switch op {
				case token.LSS, token.LEQ, token.GTR, token.GEQ:
				default:
					return true
				}
				key := fmt.Sprintf("%s: %s %s %s#%d", name, types.ExprString(other), op, k, countKey(c, rule, fmt.Sprintf("%s: %s %s %s#", name, types.ExprString(other), op, k))+1)
				good := (k == "min" && (op == token.LSS || op == token.GEQ)) || (k == "max" && (op == token.GTR || op == token.LEQ))
				c.check(good, rule, key, be.Pos(), "closed interval end", fmt.Sprintf("this comparison treats %s as excluded from the self-representing interval while the sibling predicates include it: encoder and decoder disagree on one boundary code point (e.g. U+0020 hidden in base64 is accepted)", k))
				return true
			})
		}
	}
}

// ruleTransformerStateAtEOF: C16.f. The decoder carries `ascii` ("the previous
// token was not a base64 run") from one Transform call to the next; that is
// what rejects back-to-back shifts split across two chunks. State may be
// re-initialised at the end of a call only when the input is finished: every
// assignment to a receiver field that follows the main loop of a Transform
// method sits under `if atEOF`.
func ruleTransformerStateAtEOF(c *Ctx, rule string) {
	p := c.P
	pk := p.Pkgs[modPath+"/internal/utf7"]
	if pk == nil {
		c.unresolvedRoot("internal/utf7")
		return
	}
	n := 0
	for _, file := range pk.Syntax {
		for _, d := range file.Decls {
			fd, ok := d.(*ast.FuncDecl)
			if !ok || fd.Name.Name != "Transform" || fd.Recv == nil || fd.Body == nil || len(fd.Recv.List) != 1 || len(fd.Recv.List[0].Names) != 1 {
				continue
			}
			recv := fd.Recv.List[0].Names[0].Name
			sig := pk.TypesInfo.Defs[fd.Name].Type().(*types.Signature)
			if sig.Params().Len() != 3 {
				continue
			}
			atEOF := sig.Params().At(2).Name()
			name := strings.TrimPrefix(types.ExprString(fd.Recv.List[0].Type), "*") + ".Transform"
			afterLoop := false
			for _, st := range fd.Body.List {
				if _, isFor := st.(*ast.ForStmt); isFor {
					afterLoop = true
					continue
				}
				if !afterLoop {
					continue
				}
				// assignments to receiver fields in this tail statement, with the conditions around them
				var walk func(nd ast.Node, underEOF bool)
				walk = func(nd ast.Node, underEOF bool) {
					switch x := nd.(type) {
					case *ast.IfStmt:
						cond := types.ExprString(x.Cond)
						walk(x.Body, underEOF || (strings.Contains(cond, atEOF) && !strings.Contains(cond, "!"+atEOF)))
						if x.Else != nil {
							walk(x.Else, underEOF || strings.Contains(cond, "!"+atEOF))
						}
					case *ast.BlockStmt:
						for _, s2 := range x.List {
							walk(s2, underEOF)
						}
					case *ast.AssignStmt:
						for _, l := range x.Lhs {
							if se, ok := l.(*ast.SelectorExpr); ok {
								if id, ok := se.X.(*ast.Ident); ok && id.Name == recv {
									n++
									c.check(underEOF, rule, fmt.Sprintf("%s: end-of-call store to %s.%s#%d", name, recv, se.Sel.Name, n), x.Pos(), "only when atEOF",
										"the transformer's state field "+se.Sel.Name+" is re-initialised at the end of every call, not only at end of input: what the decoder knew about the previous token is lost at each chunk boundary (back-to-back shifts split across two chunks are accepted)")
								}
							}
						}
					}
				}
				walk(st, false)
			}
		}
	}
	if n == 0 {
		c.okTrivial(rule, "no Transform method re-initialises receiver state after its main loop", token.NoPos, "0 stores")
	}
}

// ruleNoSharedTransformer: C16.g. encoding.Decoder / encoding.Encoder values
// wrap a stateful transform.Transformer and are not safe for concurrent use:
// the module creates one per conversion (utf7.Encoding.NewDecoder()). A
// package-level variable of such a type is shared by every connection.
func ruleNoSharedTransformer(c *Ctx, rule string) {
	p := c.P
	n := 0
	var bad []string
	var pos token.Pos
	for _, pk := range p.All {
		sc := pk.Types.Scope()
		for _, nm := range sc.Names() {
			v, ok := sc.Lookup(nm).(*types.Var)
			if !ok {
				continue
			}
			n++
			t := v.Type().String()
			if strings.Contains(t, "x/text/encoding.Decoder") || strings.Contains(t, "x/text/encoding.Encoder") || strings.HasSuffix(t, "transform.Transformer") || strings.HasSuffix(t, "utf7.decoder") || strings.HasSuffix(t, "utf7.encoder") {
				bad = append(bad, pk.Types.Name()+"."+nm)
				pos = v.Pos()
			}
		}
	}
	c.check(len(bad) == 0, rule, "no package-level transformer", pos, fmt.Sprintf("%d package-level variables, none holds a stateful transformer", n),
		"the stateful transformer "+strings.Join(bad, ", ")+" is a package-level variable shared by all connections: concurrent conversions corrupt each other's state (valid names rejected, invalid ones accepted)")
}
