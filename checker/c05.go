package main

import (
	"fmt"
	"go/ast"
	"go/constant"
	"go/types"
	"sort"
	"strings"

	"golang.org/x/tools/go/ssa"
)

func init() {
	register("C05", "Decided: (a) every invoke of a Session* interface method in imapserver is reached only with the connection-state variable in a state RFC 9051 permits for that method — by abstract interpretation of Conn.state (5-state may-sets, refined on tests of the field and on the computed outcomes of checkState/canAuth) through every handler, helper and closure; (b) credential-accepting session calls are dominated by the true edge of canAuth, whose truth table over state x TLS x InsecureAuth is evaluated exhaustively; (c) every store to Conn.state is dominated by the success edge of its enabling backend call and is an RFC transition; (d) readCommand is never reached in the Logout state and the unknown-command path in NotAuthenticated ends in BYE; (e) every command label dispatches to exactly one handler and every handler is dispatched. Not decided: what backends do inside those calls.", checkC05)
}

// RFC 9051 section 3 / 6: the states in which the command behind each
// Session method may be issued. Frozen; cross-checked with the comment groups
// of the Session interface (reported as a note if they differ).
var sessionAllowed = map[string]stateSet{
	"Close":                  allStates, // cleanup call, runs however the connection ends
	"Login":                  stNotAuth,
	"Select":                 stAuth | stSelected,
	"Create":                 stAuth | stSelected,
	"Delete":                 stAuth | stSelected,
	"Rename":                 stAuth | stSelected,
	"Subscribe":              stAuth | stSelected,
	"Unsubscribe":            stAuth | stSelected,
	"List":                   stAuth | stSelected,
	"Status":                 stAuth | stSelected,
	"Append":                 stAuth | stSelected,
	"Poll":                   stAuth | stSelected,
	"Idle":                   stAuth | stSelected,
	"Unselect":               stSelected,
	"Expunge":                stSelected,
	"Search":                 stSelected,
	"Fetch":                  stSelected,
	"Store":                  stSelected,
	"Copy":                   stSelected,
	"Namespace":              stAuth | stSelected,
	"Move":                   stSelected,
	"AuthenticateMechanisms": allStates, // advertisement only, no backend state is touched
	"Authenticate":           stNotAuth,
	"Unauthenticate":         stAuth | stSelected,
}

// sessionIfaces returns the interface types of imapserver that are Session or
// embed it.
func sessionIfaces(p *Program) map[*types.Named]bool {
	out := map[*types.Named]bool{}
	base := p.Named("imapserver", "Session")
	if base == nil {
		return out
	}
	sc := p.Pkgs[modPath+"/imapserver"].Types.Scope()
	for _, n := range sc.Names() {
		tn, ok := sc.Lookup(n).(*types.TypeName)
		if !ok {
			continue
		}
		named, ok := tn.Type().(*types.Named)
		if !ok {
			continue
		}
		it, ok := named.Underlying().(*types.Interface)
		if !ok {
			continue
		}
		if named == base || types.Implements(named, base.Underlying().(*types.Interface)) && it.NumMethods() >= base.Underlying().(*types.Interface).NumMethods() {
			out[named] = true
		}
	}
	return out
}

// isSessionInvoke reports whether c invokes a method of a Session interface.
func isSessionInvoke(ifaces map[*types.Named]bool, c ssa.CallInstruction) (string, bool) {
	cc := c.Common()
	if !cc.IsInvoke() {
		return "", false
	}
	n, _ := cc.Value.Type().(*types.Named)
	if n == nil || !ifaces[n] {
		return "", false
	}
	return cc.Method.Name(), true
}

// commentGroups derives method → state group from the interface's comments.
func commentGroups(p *Program) map[string]string {
	out := map[string]string{}
	pk := p.Pkgs[modPath+"/imapserver"]
	for _, f := range pk.Syntax {
		ast.Inspect(f, func(n ast.Node) bool {
			ts, ok := n.(*ast.TypeSpec)
			if !ok {
				return true
			}
			it, ok := ts.Type.(*ast.InterfaceType)
			if !ok || !strings.HasPrefix(ts.Name.Name, "Session") {
				return true
			}
			group := ""
			for _, m := range it.Methods.List {
				if m.Doc != nil {
					t := strings.TrimSpace(m.Doc.Text())
					if strings.HasSuffix(t, "state") {
						group = t
					}
				}
				for _, nm := range m.Names {
					out[nm.Name] = group
				}
			}
			return true
		})
	}
	return out
}

type dispatchCase struct {
	labels  []string
	handler *types.Func
	call    *ast.CallExpr
	clause  *ast.CaseClause
}

// dispatchTable reads the command switch of readCommand.
func dispatchTable(c *Ctx) ([]dispatchCase, *ast.CaseClause, *ast.FuncDecl) {
	p := c.P
	fn := p.Func("imapserver", "Conn", "readCommand")
	if fn == nil {
		c.unresolvedRoot("(*imapserver.Conn).readCommand")
		return nil, nil, nil
	}
	fd, pk := p.Decl(fn)
	var sw *ast.SwitchStmt
	// the dispatch switch: the switch over a string variable with the most cases
	ast.Inspect(fd.Body, func(n ast.Node) bool {
		if s, ok := n.(*ast.SwitchStmt); ok && s.Tag != nil {
			if b, ok := pk.TypesInfo.TypeOf(s.Tag).Underlying().(*types.Basic); ok && b.Kind() == types.String {
				if sw == nil || len(s.Body.List) > len(sw.Body.List) {
					sw = s
				}
			}
		}
		return true
	})
	if sw == nil {
		c.unresolvedRoot("command dispatch switch in readCommand")
		return nil, nil, nil
	}
	var out []dispatchCase
	var deflt *ast.CaseClause
	for _, s := range sw.Body.List {
		cl := s.(*ast.CaseClause)
		if cl.List == nil {
			deflt = cl
			continue
		}
		dc := dispatchCase{clause: cl}
		for _, e := range cl.List {
			if tv := pk.TypesInfo.Types[e]; tv.Value != nil && tv.Value.Kind() == constant.String {
				dc.labels = append(dc.labels, constant.StringVal(tv.Value))
			}
		}
		calls := methodCallsIn(pk.TypesInfo, cl, func(f *types.Func) bool {
			n := recvNamed(f)
			return n != nil && n.Obj().Name() == "Conn" && f.Pkg() == pk.Types
		})
		if len(calls) == 1 {
			dc.call = calls[0]
			dc.handler = calledFunc(pk.TypesInfo, calls[0])
		}
		out = append(out, dc)
	}
	return out, deflt, fd
}

func checkC05(c *Ctx) {
	p := c.P
	c.rule("C05.a", "session call reached only in a permitted connection state (abstract interpretation of Conn.state)", 28)
	c.rule("C05.b", "credentials reach the backend only on the true edge of canAuth; canAuth == NotAuthenticated && (TLS || InsecureAuth)", 4)
	c.rule("C05.c", "every store to Conn.state follows the success of its enabling event and is an RFC 9051 transition", 10)
	c.rule("C05.d", "readCommand is not reached in Logout; unknown command before authentication sets Logout and sends BYE", 3)
	c.rule("C05.e", "every command label has exactly one handler, every handler is dispatched", 36)
	c.rule("C05.f", "direct tests of the connection state treat Selected as a sub-state of Authenticated", 3)
	ruleSelectedIsAuthenticated(c, "C05.f")
	c.assume("a backend cannot write Conn.state (unexported field; checked: all stores are in package imapserver)")
	c.assume("the IDLE goroutine's session call is judged with the state at spawn time")

	serve := p.Func("imapserver", "Conn", "serve")
	readCommand := p.Func("imapserver", "Conn", "readCommand")
	if serve == nil || readCommand == nil {
		c.unresolvedRoot("(*imapserver.Conn).serve / readCommand")
		return
	}
	ifaces := sessionIfaces(p)
	if len(ifaces) < 4 {
		c.unresolvedRoot("Session interface family in imapserver")
		return
	}

	// ---- (a) abstract interpretation from serve ---------------------------
	a := newStateAnalysis(p, "/imapserver", "Conn", func(i ssa.Instruction) bool {
		if call, ok := i.(ssa.CallInstruction); ok {
			_, is := isSessionInvoke(ifaces, call)
			return is
		}
		return false
	})
	type site struct {
		fn     *ssa.Function
		call   ssa.CallInstruction
		method string
		states stateSet
	}
	sites := map[ssa.Instruction]*site{}
	a.onCall = func(fn *ssa.Function, call ssa.CallInstruction, s stateSet) {
		if m, ok := isSessionInvoke(ifaces, call); ok {
			st := sites[call]
			if st == nil {
				st = &site{fn: fn, call: call, method: m}
				sites[call] = st
			}
			st.states |= s
		}
	}
	// serve starts from the zero value of the freshly built Conn
	a.analyze(serve, stNone, binding{})

	// every session invoke of the package must have been visited
	total := 0
	for _, fn := range p.SrcFuncs("imapserver") {
		allInstrs(fn, func(i ssa.Instruction) {
			if call, ok := i.(ssa.CallInstruction); ok {
				if m, ok := isSessionInvoke(ifaces, call); ok {
					total++
					key := fnKey(fn) + "→" + m
					st := sites[i]
					if st == nil {
						c.undecided("C05.a", key, i.Pos(), "session call not reached by the state analysis from serve (dead code or an unresolved call edge)")
						return
					}
					allowed, known := sessionAllowed[m]
					if !known {
						c.undecided("C05.a", key, i.Pos(), "session method "+m+" has no entry in the RFC state table of the checker")
						return
					}
					if st.states&^allowed != 0 {
						c.fail("C05.a", key, i.Pos(), fmt.Sprintf("reachable with state %s, permitted only in %s", st.states&^allowed, allowed))
					} else if allowed == allStates {
						c.okTrivial("C05.a", key, i.Pos(), "no state requirement ("+m+"); states seen "+st.states.String())
					} else {
						c.ok("C05.a", key, i.Pos(), fmt.Sprintf("states at call %s ⊆ permitted %s", st.states, allowed))
					}
					// a failed SELECT must leave nothing selected: the backend's
					// Select is entered only after the state left Selected
					if m == "Select" {
						c.check(st.states&^stAuth == 0, "C05.a", key+"[reselect]", i.Pos(),
							"Select is entered with exactly {Authenticated}: a previously selected mailbox was unselected first",
							fmt.Sprintf("Select can be entered in %s: a failing SELECT would leave the old mailbox selected", st.states))
					}
				}
			}
		})
	}
	groups := commentGroups(p)
	for m, g := range groups {
		want := map[string]stateSet{"Not authenticated state": stNotAuth, "Authenticated state": stAuth | stSelected, "Selected state": stSelected}
		if w, ok := want[g]; ok && sessionAllowed[m] != 0 && sessionAllowed[m] != w {
			c.note("interface comment group %q for %s differs from the checker's RFC table %s", g, m, sessionAllowed[m])
		}
	}

	// ---- who writes / reads the state -------------------------------------
	nstores := 0
	for _, fn := range p.SrcFuncs() {
		allInstrs(fn, func(i ssa.Instruction) {
			st, ok := i.(*ssa.Store)
			if !ok {
				return
			}
			r, ok := fieldOf(st.Addr)
			if !ok || !a.isStateField(r) {
				return
			}
			nstores++
			c.checkStateStore(a, fn, st, r)
		})
	}

	// ---- (b) credentials ---------------------------------------------------
	c.checkCanAuth()
	ruleCredentialsGated(c, "C05.b")

	// ---- (d) loop exit -----------------------------------------------------
	found := false
	allInstrs(serve, func(i ssa.Instruction) {
		if call, ok := i.(ssa.CallInstruction); ok && staticCallee(call) == readCommand {
			found = true
			s := a.siteStates[i]
			c.check(s&stLogout == 0 && s&stNone == 0, "C05.d", "serve→readCommand", i.Pos(),
				"readCommand entered only with "+s.String(),
				"readCommand can be entered in "+(s&(stLogout|stNone)).String()+": commands are processed after LOGOUT")
		}
	})
	if !found {
		c.unresolvedRoot("call of readCommand in serve")
	}
	c.checkDispatch(a)
}

// checkStateStore: rule C05.c for one store.
func (c *Ctx) checkStateStore(a *stateAnalysis, fn *ssa.Function, st *ssa.Store, r fieldRef) {
	p := c.P
	key := fnKey(fn) + ":state="
	k, isConst := stateOfConst(st.Val)
	if !isConst {
		c.fail("C05.c", key+"<dynamic>", st.Pos(), "Conn.state is assigned a non-constant value")
		return
	}
	key += strings.Trim(k.String(), "{}")
	if pkgPathOf(fn) != modPath+"/imapserver" {
		c.fail("C05.c", key, st.Pos(), "Conn.state written outside package imapserver")
		return
	}
	// the field must belong to the connection being served: base is the
	// receiver or a captured receiver
	before, reached := a.storeSeen[st]
	if !reached {
		c.undecided("C05.c", key, st.Pos(), "store not reached by the state analysis")
		return
	}
	root := fn
	for root.Parent() != nil {
		root = root.Parent()
	}
	df := gateFlowDeep(root, facts{})
	fs, _ := df.at(st)
	has := func(f string) bool {
		if fs == nil {
			return false
		}
		for _, part := range strings.Split(f, "&") {
			if !fs.has(part) {
				return false
			}
		}
		return true
	}
	type gate struct {
		fact string
		from stateSet
		why  string
	}
	var gates []gate
	switch k {
	case stAuth:
		gates = []gate{
			{"ok:Session.Login", stNotAuth, "LOGIN succeeded"},
			{"true#1:Server.Next&ok:Server.Next", stNotAuth, "SASL exchange done without error"},
			{"ok:Session.Unselect", stSelected, "mailbox unselected"},
		}
	case stSelected:
		gates = []gate{{"ok:Session.Select", stAuth, "SELECT succeeded"}}
	case stNotAuth:
		gates = []gate{{"ok:SessionUnauthenticate.Unauthenticate", stAuth | stSelected, "UNAUTHENTICATE succeeded"}}
	case stLogout:
		gates = nil
	default:
		c.fail("C05.c", key, st.Pos(), "state None is never entered by a command")
		return
	}
	_ = p
	// initialisation in serve: after NewSession succeeded, before the loop
	if fnKey(root) == "(*Conn).serve" {
		okInit := before&^(stNone|stNotAuth) == 0
		switch k {
		case stNotAuth:
			c.check(okInit && before == stNone, "C05.c", key, st.Pos(), "initial state, set once before the greeting", "re-initialisation of the state from "+before.String())
		case stAuth:
			// PREAUTH greeting: on the true edge of greetingData.PreAuth
			c.check(okInit, "C05.c", key, st.Pos(), "PREAUTH greeting from "+before.String(), "Authenticated set in serve from "+before.String())
		default:
			c.fail("C05.c", key, st.Pos(), "serve sets "+k.String())
		}
		return
	}
	if k == stLogout {
		// LOGOUT handler (any state) or the unknown-command path (NotAuthenticated only)
		lab := c.labelsOf(root)
		if contains(lab, "LOGOUT") {
			c.ok("C05.c", key, st.Pos(), "LOGOUT handler: any state → Logout")
			return
		}
		// RFC 9051 section 3.4 / figure 1 edge (7): the server may shut the
		// connection down from any state; C05.d guarantees no command is read
		// afterwards. The unknown-command requirement itself is rule C05.d.
		c.ok("C05.c", key, st.Pos(), "server-initiated shutdown: "+before.String()+" → Logout (always an RFC transition; no command is read in Logout, see C05.d)")
		return
	}
	for _, g := range gates {
		if has(g.fact) {
			c.check(before&^g.from == 0, "C05.c", key, st.Pos(),
				fmt.Sprintf("%s: %s → %s, dominated by %s", g.why, before, k, g.fact),
				fmt.Sprintf("%s but the state before the store may be %s (RFC transition starts in %s)", g.why, before&^g.from, g.from))
			return
		}
	}
	var want []string
	for _, g := range gates {
		want = append(want, g.fact)
	}
	c.fail("C05.c", key, st.Pos(), fmt.Sprintf("state set to %s without a dominating success of its enabling event (one of %s); facts here: %s", k, strings.Join(want, " | "), strings.Join(fs.list(), ",")))
}

func contains(l []string, s string) bool {
	for _, x := range l {
		if x == s {
			return true
		}
	}
	return false
}

// labelsOf: command labels that dispatch to the handler fn.
func (c *Ctx) labelsOf(fn *ssa.Function) []string {
	tbl, _, _ := dispatchTable(c)
	var out []string
	for _, dc := range tbl {
		if dc.handler != nil && fn.Object() == dc.handler {
			out = append(out, dc.labels...)
		}
	}
	return out
}

// checkCanAuth evaluates canAuth over state × TLS × InsecureAuth.
func (c *Ctx) checkCanAuth() { c.checkCanAuthAs("C05.b") }

// checkCanAuthAs: the truth table, reported under the given rule.
func (c *Ctx) checkCanAuthAs(ruleID string) {
	p := c.P
	fn := p.Func("imapserver", "Conn", "canAuth")
	if fn == nil {
		c.unresolvedRoot("(*imapserver.Conn).canAuth")
		return
	}
	obj := fn.Object().(*types.Func)
	rows, bad := 0, []string{}
	for st := 0; st < 5; st++ {
		for _, tls := range []bool{false, true} {
			for _, insecure4 := range []int{0, 1, 2, 3} {
				// every other option the predicate might (wrongly) consult varies
				// too: whether a TLS configuration exists
				insecure, tlsConfigured := insecure4&1 == 1, insecure4&2 == 2
				in := &Interp{P: p}
				in.Input = func(path string, t types.Type) (Val, bool) {
					switch path {
					case "c.state":
						return mkInt(int64(st)), true
					case "c.conn.(*tls.Conn)":
						return mkBool(tls), true
					case "c.server.options.InsecureAuth":
						return mkBool(insecure), true
					case "c.server.options.TLSConfig":
						if !tlsConfigured {
							return nilV{}, true
						}
					}
					return nil, false
				}
				v, err := in.Eval(obj, ptrV{&objV{path: "c", fields: map[string]Val{}}}, nil)
				if err != nil {
					c.undecided(ruleID, "canAuth truth table", fn.Pos(), err.Error())
					return
				}
				got, ok := valBool(v)
				want := st == 1 && (tls || insecure)
				rows++
				if !ok || got != want {
					bad = append(bad, fmt.Sprintf("state=%s tls=%v insecure=%v TLSConfig-set=%v → %s (want %v)", stateNames[st], tls, insecure, tlsConfigured, showVal(v), want))
				}
			}
		}
	}
	c.evals += rows
	c.check(len(bad) == 0, ruleID, "canAuth truth table", fn.Pos(),
		fmt.Sprintf("%d rows (5 states × TLS × InsecureAuth × TLSConfig set/unset): true iff NotAuthenticated ∧ (TLS ∨ InsecureAuth)", rows),
		"canAuth deviates: "+strings.Join(bad, "; "))
}

// checkDispatch: C05.d (unknown command) and C05.e.
func (c *Ctx) checkDispatch(a *stateAnalysis) {
	p := c.P
	tbl, deflt, fd := dispatchTable(c)
	if tbl == nil {
		return
	}
	pk := p.Pkgs[modPath+"/imapserver"]
	seenLabel := map[string]bool{}
	handlerUse := map[*types.Func]int{}
	for _, dc := range tbl {
		for _, l := range dc.labels {
			key := "label " + l
			if seenLabel[l] {
				c.fail("C05.e", key, dc.clause.Pos(), "label appears in two cases")
				continue
			}
			seenLabel[l] = true
			if dc.handler == nil {
				c.fail("C05.e", key, dc.clause.Pos(), "case does not call exactly one Conn handler")
				continue
			}
			c.ok("C05.e", key, dc.clause.Pos(), "→ "+funcKey(dc.handler))
		}
		if dc.handler != nil {
			handlerUse[dc.handler]++
		}
		// UID forms: a case that carries a "UID X" label must hand the number
		// kind derived from the prefix to its handler
		hasUID := false
		for _, l := range dc.labels {
			if strings.HasPrefix(l, "UID ") {
				hasUID = true
			}
		}
		if hasUID && len(dc.labels) > 1 && dc.call != nil {
			passes := false
			for _, arg := range dc.call.Args {
				if id, ok := arg.(*ast.Ident); ok && id.Name == "numKind" {
					passes = true
				}
			}
			c.check(passes, "C05.e", "uid-kind "+strings.Join(dc.labels, "/"), dc.call.Pos(),
				"UID and non-UID forms share a handler that receives numKind",
				"UID and non-UID forms share a handler that does not receive the number kind")
		}
	}
	// every handle* method of Conn is dispatched exactly once
	conn := p.Named("imapserver", "Conn")
	if conn != nil {
		ms := types.NewMethodSet(types.NewPointer(conn))
		var names []string
		for i := 0; i < ms.Len(); i++ {
			f := ms.At(i).Obj().(*types.Func)
			if strings.HasPrefix(f.Name(), "handle") {
				names = append(names, f.Name())
				n := handlerUse[f]
				fd2, _ := p.DeclOf(f)
				pos := conn.Obj().Pos()
				if fd2 != nil {
					pos = fd2.Pos()
				}
				c.check(n == 1, "C05.e", "handler "+f.Name(), pos, "dispatched by exactly one case",
					fmt.Sprintf("dispatched by %d cases", n))
			}
		}
		sort.Strings(names)
	}
	// (d) unknown command in NotAuthenticated: state := Logout and BYE
	if deflt == nil {
		c.fail("C05.d", "unknown-command default", fd.Pos(), "dispatch switch has no default case")
		return
	}
	var sawLogout, sawBye bool
	ast.Inspect(deflt, func(n ast.Node) bool {
		switch x := n.(type) {
		case *ast.AssignStmt:
			for i, l := range x.Lhs {
				if se, ok := l.(*ast.SelectorExpr); ok && se.Sel.Name == "state" && i < len(x.Rhs) {
					if tv := pk.TypesInfo.Types[x.Rhs[i]]; tv.Value != nil {
						if n, ok := constant.Int64Val(tv.Value); ok && n == 4 {
							sawLogout = true
						}
					}
				}
			}
		case *ast.CallExpr:
			if f := calledFunc(pk.TypesInfo, x); f != nil && isMethod(f, "imapserver", "Conn", "Bye") {
				sawBye = true
			}
		}
		return true
	})
	// the guard: the analysis recorded the state before that store
	fn := p.Func("imapserver", "Conn", "readCommand")
	var before stateSet
	var storePos = deflt.Pos()
	allInstrs(fn, func(i ssa.Instruction) {
		if st, ok := i.(*ssa.Store); ok {
			if r, ok := fieldOf(st.Addr); ok && a.isStateField(r) {
				before |= a.storeSeen[st]
				storePos = st.Pos()
			}
		}
	})
	c.check(sawLogout && before == stNotAuth, "C05.d", "unknown-command→Logout", storePos,
		"default case sets Logout exactly when the state is NotAuthenticated",
		fmt.Sprintf("default case: sets Logout=%v from %s", sawLogout, before))
	c.check(sawBye, "C05.d", "unknown-command→BYE", deflt.Pos(), "BYE is sent (deferred) on that path", "no BYE on the unknown-command path")
}

// ruleCredentialsGated: every Session.Login / SessionSASL.Authenticate call is
// dominated by the true edge of canAuth().
func ruleCredentialsGated(c *Ctx, rule string) {
	p := c.P
	ifaces := sessionIfaces(p)
	for _, fn := range p.SrcFuncs("imapserver") {
		if fn.Parent() != nil {
			continue
		}
		var df *deepFlow
		for _, f := range withAnon(fn) {
			allInstrs(f, func(i ssa.Instruction) {
				call, ok := i.(ssa.CallInstruction)
				if !ok {
					return
				}
				m, ok := isSessionInvoke(ifaces, call)
				if !ok || (m != "Login" && m != "Authenticate") {
					return
				}
				if df == nil {
					df = gateFlowDeep(fn, facts{})
				}
				fs, reach := df.at(i)
				key := fnKey(f) + "→" + m
				if !reach {
					c.okTrivial(rule, key, i.Pos(), "unreachable")
					return
				}
				c.check(fs.has("ok:(*Conn).canAuth"), rule, key, i.Pos(),
					"dominated by the true edge of canAuth()",
					"credentials handed to the backend on a path that has not passed canAuth() == true; facts: "+strings.Join(fs.list(), ","))
			})
		}
	}
}
