package main

import (
	"fmt"
	"go/ast"
	"go/token"
	"go/types"
	"sort"
	"strings"

	"golang.org/x/tools/go/ssa"
)

func init() {
	register("C04", "Decided: (a) every dispatched command gets exactly one tagged completion on every path of readCommand and of the self-completing handlers (count of tag-carrying writer calls per path x nil-ness of the returned error); (b) a literal opened on the server decoder is, on every path, drained, or refused only where the literal is known to be synchronising (client has not sent it), or refused with the connection terminated — interprocedural through the CheckBufferedLiteralFunc callback; (c) continuation requests are written only when accepting a synchronising literal, by IDLE and by AUTHENTICATE after their state gates; (d) every response encoder (which holds the connection's write lock) is released exactly once and nothing else can write to the connection's writer; (e) the rest of the command line is discarded before the completion is written. Not decided: that the tokenizer splits every byte sequence correctly.", checkC04)
}

func isEncoderMethod(obj *types.Func) bool {
	n := recvNamed(obj)
	return n != nil && n.Obj().Name() == "Encoder" && n.Obj().Pkg() != nil && strings.HasSuffix(n.Obj().Pkg().Path(), "/internal/imapwire")
}

// derivesFrom: v is src, or a phi/conversion mixing src with constants.
func derivesFrom(v ssa.Value, src func(ssa.Value) bool, seen map[ssa.Value]bool) bool {
	if seen[v] {
		return false
	}
	seen[v] = true
	if src(v) {
		return true
	}
	switch x := v.(type) {
	case *ssa.Phi:
		for _, e := range x.Edges {
			if derivesFrom(e, src, seen) {
				return true
			}
		}
	case *ssa.ChangeType:
		return derivesFrom(x.X, src, seen)
	case *ssa.Convert:
		return derivesFrom(x.X, src, seen)
	}
	return false
}

func precedes(a, b ssa.Instruction) bool {
	if a.Block() == b.Block() {
		for _, i := range a.Block().Instrs {
			if i == a {
				return true
			}
			if i == b {
				return false
			}
		}
	}
	return a.Block().Dominates(b.Block())
}

// taggedWriters computes the functions whose first emission on the wire is
// an atom taken from one of their string parameters (the tag), directly or
// through another tagged writer. Result: function → parameter index.
func taggedWriters(p *Program) map[*ssa.Function]int {
	tw := map[*ssa.Function]int{}
	funcs := p.SrcFuncs("imapserver")
	for changed := true; changed; {
		changed = false
		for _, fn := range funcs {
			if _, done := tw[fn]; done || fn.Parent() != nil {
				continue
			}
			var emissions []ssa.CallInstruction
			cand := map[ssa.CallInstruction]int{}
			allInstrs(fn, func(i ssa.Instruction) {
				call, ok := i.(ssa.CallInstruction)
				if !ok {
					return
				}
				if _, isDefer := i.(*ssa.Defer); isDefer {
					return
				}
				obj := calleeObj(call)
				args := call.Common().Args
				callee := staticCallee(call)
				if obj != nil && isEncoderMethod(obj) && obj.Type().(*types.Signature).Results().Len() > 0 {
					emissions = append(emissions, call)
					if obj.Name() == "Atom" && len(args) == 2 {
						for pi, prm := range fn.Params {
							if derivesFrom(args[1], func(v ssa.Value) bool { return v == prm }, map[ssa.Value]bool{}) {
								cand[call] = pi
							}
						}
					}
				} else if callee != nil {
					if k, ok := tw[callee]; ok && k < len(args) {
						emissions = append(emissions, call)
						for pi, prm := range fn.Params {
							if derivesFrom(args[k], func(v ssa.Value) bool { return v == prm }, map[ssa.Value]bool{}) {
								cand[call] = pi
							}
						}
					}
				}
			})
			for call, pi := range cand {
				first := true
				for _, e := range emissions {
					if e != call && !precedes(call, e) {
						first = false
					}
				}
				// unconditional: every normal return is dominated by the call
				for _, b := range fn.Blocks {
					if _, isRet := b.Instrs[len(b.Instrs)-1].(*ssa.Return); isRet && b != fn.Recover && !call.Block().Dominates(b) {
						first = false
					}
				}
				if first {
					tw[fn] = pi
					changed = true
				}
			}
		}
	}
	return tw
}

// ---- error classification --------------------------------------------------

type errClass int

const (
	errUnknown errClass = iota
	errNil
	errNonNil
	errOwn // the result of the tagged writer itself
)

func (e errClass) String() string {
	return [...]string{"unknown", "nil", "non-nil", "the writer's own result"}[e]
}

// nonNilFuncs: module functions all of whose error returns are non-nil.
func alwaysNonNil(fn *ssa.Function) bool {
	if fn == nil || fn.Blocks == nil {
		return false
	}
	ok := false
	for _, b := range fn.Blocks {
		r, isRet := b.Instrs[len(b.Instrs)-1].(*ssa.Return)
		if !isRet {
			continue
		}
		if len(r.Results) == 0 {
			return false
		}
		last := r.Results[len(r.Results)-1]
		if _, mi := last.(*ssa.MakeInterface); !mi {
			return false
		}
		ok = true
	}
	return ok
}

func classifyErr(v ssa.Value, fs facts, isOwn func(ssa.CallInstruction) bool, seen map[ssa.Value]bool) errClass {
	v = unspill(v)
	if seen[v] {
		return errUnknown
	}
	seen[v] = true
	if isNilConst(v) {
		return errNil
	}
	if call, ok := v.(*ssa.Call); ok && isOwn != nil && isOwn(call) {
		return errOwn
	}
	if nm := v.Name(); nm != "" {
		if fs.has("nil:" + nm) {
			return errNil
		}
		if fs.has("nonnil:" + nm) {
			return errNonNil
		}
	}
	if ld, ok := v.(*ssa.UnOp); ok {
		if cell, ok := ld.X.(*ssa.Alloc); ok {
			if fs.has("nil:cell:" + cell.Name()) {
				return errNil
			}
			if fs.has("nonnil:cell:" + cell.Name()) {
				return errNonNil
			}
		}
	}
	switch x := v.(type) {
	case *ssa.MakeInterface:
		return errNonNil
	case *ssa.Call:
		if isOwn != nil && isOwn(x) {
			return errOwn
		}
		obj := calleeObj(x)
		if obj != nil && obj.Pkg() != nil {
			switch obj.Pkg().Path() + "." + obj.Name() {
			case "fmt.Errorf", "errors.New":
				return errNonNil
			}
		}
		if alwaysNonNil(staticCallee(x)) {
			return errNonNil
		}
		// lemma L1: after a failed Decoder.Expect*, dec.Err() is non-nil
		if isExtMethod(obj, modPath+"/internal/imapwire", "Decoder", "Err") {
			if fs.has("fail:decoder-expect") {
				return errNonNil
			}
		}
	case *ssa.Extract:
		if c, ok := x.Tuple.(*ssa.Call); ok && isOwn != nil && isOwn(c) {
			return errOwn
		}
	case *ssa.Phi:
		cls := errClass(-1)
		for _, e := range x.Edges {
			c := classifyErr(e, fs, isOwn, seen)
			if cls == -1 {
				cls = c
			} else if cls != c {
				return errUnknown
			}
		}
		if cls >= 0 {
			return cls
		}
	}
	return errUnknown
}

// valueFacts extends edgeFacts with nil-ness/truth of arbitrary SSA values.
func valueEdgeFacts(b *ssa.BasicBlock, succ int) []string {
	out := edgeFacts(b, succ)
	for _, f := range out {
		if strings.HasPrefix(f, "fail:(*Decoder).Expect") {
			out = append(out, "fail:decoder-expect")
			break
		}
	}
	// `parsed := dec.ExpectA() && dec.ExpectB() && …; if !parsed`: the false
	// edge of the conjunction means one of the Expect* calls failed
	for _, a := range edgeAtoms(b, succ) {
		if ph, ok := a.V.(*ssa.Phi); ok && a.True == -1 && conjunctionOfExpects(ph) {
			out = append(out, "fail:decoder-expect")
		}
		// `ok := !p && q; if ok`: the named boolean is true only along the
		// edges that do not carry the constant false — what those edges
		// establish holds here
		if ph, ok := a.V.(*ssa.Phi); ok && a.True != 0 {
			out = append(out, phiImpliedFacts(ph, a.True == 1)...)
		}
	}
	for _, a := range edgeAtoms(b, succ) {
		nm := a.V.Name()
		if nm == "" {
			continue
		}
		// a test of a local variable (a load of its cell) also speaks about the
		// cell until the next store into it (see valueGen)
		if ld, ok := a.V.(*ssa.UnOp); ok && a.Nil != 0 {
			if cell, ok := ld.X.(*ssa.Alloc); ok {
				if a.Nil == 1 {
					out = append(out, "nil:cell:"+cell.Name())
				} else {
					out = append(out, "nonnil:cell:"+cell.Name())
				}
			}
		}
		switch {
		case a.Nil == 1:
			out = append(out, "nil:"+nm)
		case a.Nil == -1:
			out = append(out, "nonnil:"+nm)
		case a.True == 1:
			out = append(out, "true:"+nm)
		case a.True == -1:
			out = append(out, "false:"+nm)
		}
	}
	// comparisons of a call result with a constant: "cmp:<callee>==<const>"
	for _, a := range edgeAtoms(b, succ) {
		if a.Const == nil || a.Const.Value == nil {
			continue
		}
		if call, _ := callOf(a.V); call != nil {
			if k := callKey(call); k != "" && (a.Op == token.EQL || a.Op == token.NEQ) {
				out = append(out, "cmp:"+k+a.Op.String()+a.Const.Value.ExactString())
			}
		}
	}
	return out
}

// countSet: possible numbers of tagged completions written on the paths
// reaching a point: bit0 = 0, bit1 = 1, bit2 = 2 or more.
type countSet uint8

func (c countSet) String() string {
	var l []string
	for i, n := range []string{"0", "1", "≥2"} {
		if c&(1<<uint(i)) != 0 {
			l = append(l, n)
		}
	}
	return "{" + strings.Join(l, ",") + "}"
}
func (c countSet) inc() countSet {
	var n countSet
	if c&1 != 0 {
		n |= 2
	}
	if c&2 != 0 {
		n |= 4
	}
	if c&4 != 0 {
		n |= 4
	}
	return n
}

// completionCheck applies rule C04.a to one function.
func completionCheck(c *Ctx, rule string, fn *ssa.Function, tw map[*ssa.Function]int, isTag func(ssa.Value) bool, justifyNilZero func(fs facts) (bool, string)) (selfCompleting bool) {
	isOwn := func(call ssa.CallInstruction) bool {
		callee := staticCallee(call)
		if callee == nil {
			return false
		}
		k, ok := tw[callee]
		if !ok || k >= len(call.Common().Args) {
			return false
		}
		return derivesFrom(call.Common().Args[k], isTag, map[ssa.Value]bool{})
	}
	any := false
	allInstrs(fn, func(i ssa.Instruction) {
		if call, ok := i.(ssa.CallInstruction); ok && isOwn(call) {
			any = true
		}
	})
	if !any && justifyNilZero == nil {
		return false
	}
	counts := forward(fn, lattice[countSet]{
		join:  func(a, b countSet) countSet { return a | b },
		equal: func(a, b countSet) bool { return a == b },
	}, countSet(1), func(s countSet, i ssa.Instruction) countSet {
		if call, ok := i.(ssa.CallInstruction); ok && isOwn(call) {
			if _, isDefer := i.(*ssa.Defer); !isDefer {
				return s.inc()
			}
		}
		return s
	}, func(s countSet, b *ssa.BasicBlock, i int) (countSet, bool) { return s, true })
	gf := mustFlow(fn, facts{}, nil, func(f facts, b *ssa.BasicBlock, succ int) facts {
		return f.with(valueEdgeFacts(b, succ)...)
	})
	nret := 0
	for _, ret := range returnsOf(fn) {
		b := ret.Block()
		if counts[b] == nil {
			continue
		}
		nret++
		cnt := *counts[b]
		for _, i := range b.Instrs {
			if call, ok := i.(ssa.CallInstruction); ok && isOwn(call) {
				if _, isDefer := i.(*ssa.Defer); !isDefer {
					cnt = cnt.inc()
				}
			}
		}
		fs, _ := gf.at(ret)
		if len(ret.Results) == 0 {
			continue
		}
		ev := ret.Results[len(ret.Results)-1]
		cls := classifyErr(ev, fs, isOwn, map[ssa.Value]bool{})
		key := fmt.Sprintf("%s:return#%d", fnKey(fn), nret)
		switch cls {
		case errOwn:
			c.check(cnt == 2, rule, key, ret.Pos(), "returns the tagged writer's own result; exactly one completion on this path",
				fmt.Sprintf("returns the tagged writer's result but %s completions were written on the paths to here", cnt))
		case errNil:
			if cnt == 1 && justifyNilZero != nil {
				if ok, why := justifyNilZero(fs); ok {
					c.ok(rule, key, ret.Pos(), "returns nil without writing: "+why)
					continue
				}
			}
			c.check(cnt == 2, rule, key, ret.Pos(), "returns nil after exactly one tagged completion",
				fmt.Sprintf("returns a nil error with %s tagged completions written: the command is left without (or with more than one) tagged response", cnt))
		case errNonNil:
			c.check(cnt == 1, rule, key, ret.Pos(), "returns a non-nil error having written no completion (the caller writes it)",
				fmt.Sprintf("returns a non-nil error after %s completions: the caller will write another tagged response", cnt))
		default:
			c.undecided(rule, key, ret.Pos(), fmt.Sprintf("nil-ness of the returned error %s is not decided by the path facts (completions so far %s)", ev.Name(), cnt))
		}
	}
	return true
}

func checkC04(c *Ctx) {
	p := c.P
	c.rule("C04.a", "exactly one tagged completion per dispatched command on every path", 80)
	c.rule("C04.b", "a refused literal is drained, known synchronising, or the connection is terminated", 8)
	c.rule("C04.c", "continuation requests only for an accepted synchronising literal, IDLE and AUTHENTICATE after their gates", 3)
	c.rule("C04.d", "every response encoder is ended exactly once; nothing else reaches the connection's writer", 25)
	c.rule("C04.e", "the command line (including a trailing non-synchronising literal and over-long continuation lines) is discarded before the next command is read", 5)
	c.rule("C04.f", "an unchecked decoder call never leaves a loop-carried out-parameter stale", 1)
	c.rule("C04.g", "the decoder's end-of-line flag is cleared only where input is consumed", 2)
	c.rule("C04.L1", "lemma L1: a Decoder.Expect* method that returns false has recorded a decoder error", 20)
	ruleL1(c, "C04.L1")
	ruleStaleOutParam(c, "C04.f")
	ruleEOLFlag(c, "C04.g")
	c.rule("C04.h", "the server's quoted strings never contain CR, LF or NUL (validQuoted byte-class table): every response is whole lines", 514)
	ruleValidQuoted(c, "C04.h")
	c.rule("C04.i", "whoever consumes input from the connection leaves the decoder's end-of-line flag cleared (converse of C04.g)", 3)
	ruleEOLFlagOnConsumption(c, "C04.i")
	c.rule("C04.j", "on the server only DiscardLine reads free text to the end of the line (a handler must not swallow a trailing literal header)", 1)
	ruleNoFreeTextInHandlers(c, "C04.j")
	c.rule("C04.k", "bytes read raw from the connection enter error messages only quoted (no CR/LF inside a response line)", 1)
	ruleWireBytesQuotedInErrors(c, "C04.k")
	c.rule("C04.l", "the trailing-literal recogniser of DiscardLine accepts every literal size, zero included", 1)
	ruleTrailingLiteralSizes(c, "C04.l")
	c.assume("an I/O error returned by a tagged writer means the connection is dead; a second write attempt is not counted as a second completion")

	readCommand := p.Func("imapserver", "Conn", "readCommand")
	serve := p.Func("imapserver", "Conn", "serve")
	if readCommand == nil || serve == nil {
		c.unresolvedRoot("(*Conn).readCommand/serve")
		return
	}
	tw := taggedWriters(p)
	var twNames []string
	for f, k := range tw {
		twNames = append(twNames, fmt.Sprintf("%s[%d]", fnKey(f), k))
	}
	sort.Strings(twNames)
	c.note("tagged writers (first emission is the tag parameter): %s", strings.Join(twNames, ", "))
	if len(tw) < 5 {
		c.unresolvedRoot("tagged response writers (found " + strings.Join(twNames, ",") + ")")
		return
	}

	// the tag variable of readCommand: the cell filled by the first ExpectAtom
	var tagCell *ssa.Alloc
	for _, i := range readCommand.Blocks[0].Instrs {
		if call, ok := i.(*ssa.Call); ok && tagCell == nil && isExtMethod(calleeObj(call), modPath+"/internal/imapwire", "Decoder", "ExpectAtom") {
			tagCell, _ = call.Call.Args[1].(*ssa.Alloc)
		}
	}
	// …or the first string result of a header-parsing helper that fills it
	// from the first ExpectAtom (readCommandName(dec) (tag, name, …))
	var tagExtract *ssa.Extract
	if tagCell == nil {
		for _, i := range readCommand.Blocks[0].Instrs {
			call, ok := i.(*ssa.Call)
			if !ok || tagExtract != nil {
				continue
			}
			h := staticCallee(call)
			if h == nil || !inModule(h) || h.Blocks == nil || h.Signature.Results().Len() < 2 {
				continue
			}
			var hCell *ssa.Alloc
			for _, j := range h.Blocks[0].Instrs {
				if c2, ok := j.(*ssa.Call); ok && hCell == nil && isExtMethod(calleeObj(c2), modPath+"/internal/imapwire", "Decoder", "ExpectAtom") {
					hCell, _ = c2.Call.Args[1].(*ssa.Alloc)
				}
			}
			if hCell == nil {
				continue
			}
			// which result carries the cell on the success returns?
			idx := -1
			for _, r := range returnsOf(h) {
				for k, rv := range r.Results {
					if u, ok := unspill(rv).(*ssa.UnOp); ok && u.Op == token.MUL && u.X == ssa.Value(hCell) {
						idx = k
					}
				}
			}
			if idx < 0 {
				continue
			}
			for _, ref := range *call.Referrers() {
				if ex, ok := ref.(*ssa.Extract); ok && ex.Index == idx {
					tagExtract = ex
				}
			}
		}
	}
	if tagCell == nil && tagExtract == nil {
		c.unresolvedRoot("tag variable of readCommand")
		return
	}
	isTagRC := func(v ssa.Value) bool {
		if tagExtract != nil && v == ssa.Value(tagExtract) {
			return true
		}
		u, ok := v.(*ssa.UnOp)
		return ok && u.Op == token.MUL && tagCell != nil && u.X == ssa.Value(tagCell)
	}

	// handlers that receive the tag
	selfCompleting := map[*types.Func]bool{}
	tagParam := map[*ssa.Function]int{}
	allInstrs(readCommand, func(i ssa.Instruction) {
		call, ok := i.(*ssa.Call)
		if !ok {
			return
		}
		callee := staticCallee(call)
		if callee == nil || !inModule(callee) {
			return
		}
		if _, isTW := tw[callee]; isTW {
			return
		}
		for k, a := range call.Call.Args {
			if isTagRC(a) {
				tagParam[callee] = k
			}
		}
	})
	// the completion epilogue may live in a function of its own
	// (`return c.writeCommandCompletion(tag, name, err, sendOK)`): it is
	// checked as the place where readCommand's own completion is written,
	// and counts as one tagged writer in readCommand
	var epilogue *ssa.Function
	for _, r := range returnsOf(readCommand) {
		if len(r.Results) != 1 {
			continue
		}
		if call, ok := unspill(r.Results[0]).(*ssa.Call); ok {
			if cal := staticCallee(call); cal != nil {
				if _, isH := tagParam[cal]; isH {
					if _, isTW := tw[cal]; !isTW {
						epilogue = cal
					}
				}
			}
		}
	}
	if epilogue != nil {
		ep := epilogue
		prm := ep.Params[tagParam[ep]]
		delete(tagParam, ep)
		completionCheck(c, "C04.a", ep, tw, func(v ssa.Value) bool { return v == ssa.Value(prm) }, func(fs facts) (bool, string) {
			// `return nil` without writing: only when the boolean parameter that
			// carries "the generic OK is wanted" is false, and every caller
			// passes a merge of constants for it
			for f := range fs {
				if !strings.HasPrefix(f, "false:") {
					continue
				}
				nm := strings.TrimPrefix(f, "false:")
				for k, q := range ep.Params {
					if q.Name() != nm {
						continue
					}
					okArgs := true
					for _, site := range callSitesOf(p, ep) {
						a := site.Common().Args[k]
						if ph, ok := a.(*ssa.Phi); ok {
							for _, e := range ph.Edges {
								if _, isC := e.(*ssa.Const); !isC {
									okArgs = false
								}
							}
						} else if _, isC := a.(*ssa.Const); !isC {
							okArgs = false
						}
					}
					// …and the handler's error is known to be nil here
					errNil := false
					for _, e := range ep.Params {
						if isErrorType(e.Type()) && fs.has("nil:"+e.Name()) {
							errNil = true
						}
					}
					if okArgs && errNil {
						return true, "the generic OK is suppressed (self-completing handler succeeded)"
					}
				}
			}
			return false, ""
		})
		tw2 := map[*ssa.Function]int{}
		for f, k := range tw {
			tw2[f] = k
		}
		for k, q := range ep.Params {
			if q == prm {
				tw2[ep] = k
			}
		}
		tw = tw2
		c.note("readCommand's completion epilogue lives in %s: checked there, counted as one tagged writer in readCommand", fnKey(ep))
	}
	var handlers []*ssa.Function
	for h := range tagParam {
		handlers = append(handlers, h)
	}
	sort.Slice(handlers, func(i, j int) bool { return fnKey(handlers[i]) < fnKey(handlers[j]) })
	for _, h := range handlers {
		prm := h.Params[tagParam[h]]
		if completionCheck(c, "C04.a", h, tw, func(v ssa.Value) bool { return v == prm }, nil) {
			selfCompleting[h.Object().(*types.Func)] = true
		}
		// the tag must not leak into helpers that could write it unseen
		allInstrs(h, func(i ssa.Instruction) {
			call, ok := i.(ssa.CallInstruction)
			if !ok {
				return
			}
			callee := staticCallee(call)
			for k, a := range call.Common().Args {
				if a == prm {
					if callee == nil {
						c.undecided("C04.a", fnKey(h)+":tag→dynamic call", i.Pos(), "the tag is passed to a dynamically resolved call")
					} else if _, isTW := tw[callee]; !isTW && inModule(callee) && callee.Blocks != nil {
						// a helper receiving the tag: fine only if it never reaches a tagged writer with it
						leaks := false
						hp := callee.Params[k]
						allInstrs(callee, func(j ssa.Instruction) {
							if c2, ok := j.(ssa.CallInstruction); ok {
								if cal2 := staticCallee(c2); cal2 != nil {
									if k2, ok := tw[cal2]; ok && k2 < len(c2.Common().Args) && derivesFrom(c2.Common().Args[k2], func(v ssa.Value) bool { return v == hp }, map[ssa.Value]bool{}) {
										leaks = true
									}
								}
							}
						})
						if leaks {
							c.undecided("C04.a", fnKey(h)+":tag→"+fnKey(callee), i.Pos(), "a helper (not itself a tagged writer) writes a tagged response with the handler's tag")
						}
					}
				}
			}
		})
	}

	// (i) sendOK = false exactly in the self-completing cases
	tbl, _, _ := dispatchTable(c)
	pk := p.Pkgs[modPath+"/imapserver"]
	for _, dc := range tbl {
		if dc.handler == nil {
			continue
		}
		clears := false
		ast.Inspect(dc.clause, func(n ast.Node) bool {
			if as, ok := n.(*ast.AssignStmt); ok && len(as.Lhs) == 1 && len(as.Rhs) == 1 {
				if id, ok := as.Lhs[0].(*ast.Ident); ok {
					if v, ok := pk.TypesInfo.Uses[id].(*types.Var); ok && v.Type() == types.Typ[types.Bool] {
						if tv := pk.TypesInfo.Types[as.Rhs[0]]; tv.Value != nil && tv.Value.String() == "false" {
							clears = true
						}
					}
				}
			}
			return true
		})
		key := "case " + strings.Join(dc.labels, "/") + "→" + dc.handler.Name()
		sc := selfCompleting[dc.handler]
		switch {
		case sc && clears:
			c.ok("C04.a", key, dc.clause.Pos(), "handler writes its own tagged completion and the generic OK is suppressed")
		case !sc && !clears:
			c.ok("C04.a", key, dc.clause.Pos(), "handler writes no tagged completion; readCommand writes it")
		case sc && !clears:
			c.fail("C04.a", key, dc.clause.Pos(), "handler writes its own tagged completion but readCommand also writes the generic OK: two tagged responses")
		default:
			c.fail("C04.a", key, dc.clause.Pos(), "the generic OK is suppressed but the handler never writes a tagged completion: the command gets no tagged response")
		}
	}

	// (iv) readCommand itself
	completionCheck(c, "C04.a", readCommand, tw, isTagRC, func(fs facts) (bool, string) {
		// `return nil` with nothing written is right only when the generic OK
		// was suppressed (a bool phi of constants known false) for a handler
		// that completed by itself
		for f := range fs {
			if strings.HasPrefix(f, "false:") {
				nm := strings.TrimPrefix(f, "false:")
				var isConstPhi bool
				allInstrs(readCommand, func(i ssa.Instruction) {
					if ph, ok := i.(*ssa.Phi); ok && ph.Name() == nm {
						isConstPhi = true
						for _, e := range ph.Edges {
							if _, ok := e.(*ssa.Const); !ok {
								isConstPhi = false
							}
						}
					}
				})
				if isConstPhi {
					return true, "the generic OK is suppressed (self-completing handler succeeded)"
				}
			}
		}
		return false, ""
	})
	// an error from readCommand ends the loop
	allInstrs(serve, func(i ssa.Instruction) {
		call, ok := i.(*ssa.Call)
		if !ok || staticCallee(call) != readCommand {
			return
		}
		b := call.Block()
		okExit := false
		for si := range b.Succs {
			for _, fc := range failureCalls(b, si) {
				if fc == ssa.CallInstruction(call) {
					okExit = !reaches(b.Succs[si], b)
				}
			}
		}
		c.check(okExit, "C04.a", "serve:readCommand error ends the connection", call.Pos(),
			"the failure edge of readCommand never returns to the command loop",
			"after readCommand fails the loop may read another command")
	})

	ruleLiteralRefusal(c, "C04.b")
	ruleNoFallbackAfterLiteral(c, "C04.b")
	ruleContReq(c, "C04.c")
	ruleEncoderPairing(c, "C04.d")

	ruleDiscardSkipsLiterals(c, "C04.e")
	ruleLongLineDrained(c, "C04.e")
	// (e) DiscardLine before any completion / return after dispatch
	gf := mustFlow(readCommand, facts{}, func(f facts, i ssa.Instruction) facts {
		if call, ok := i.(ssa.CallInstruction); ok && isExtMethod(calleeObj(call), modPath+"/internal/imapwire", "Decoder", "DiscardLine") {
			return f.with("did:DiscardLine")
		}
		return f
	}, nil)
	n := 0
	allInstrs(readCommand, func(i ssa.Instruction) {
		call, ok := i.(*ssa.Call)
		if !ok {
			return
		}
		callee := staticCallee(call)
		if callee == nil {
			return
		}
		if k, isTW := tw[callee]; isTW && k < len(call.Call.Args) && isTagRC(call.Call.Args[k]) {
			n++
			fs, _ := gf.at(call)
			c.check(fs.has("did:DiscardLine"), "C04.e", fmt.Sprintf("readCommand:completion#%d", n), call.Pos(),
				"DiscardLine is passed on every path to the tagged completion",
				"a path reaches the tagged completion without discarding the rest of the command line: leftover bytes are parsed as the next command")
		}
	})
	// and before returning nil for self-completing handlers
	for _, ret := range returnsOf(readCommand) {
		if len(ret.Results) == 1 && isNilConst(unspill(ret.Results[0])) {
			fs, reach := gf.at(ret)
			if reach {
				c.check(fs.has("did:DiscardLine"), "C04.e", "readCommand:return nil", ret.Pos(), "DiscardLine passed", "returns to the command loop without discarding the rest of the line")
			}
		}
	}
}

func reaches(from, to *ssa.BasicBlock) bool {
	seen := map[*ssa.BasicBlock]bool{}
	var walk func(b *ssa.BasicBlock) bool
	walk = func(b *ssa.BasicBlock) bool {
		if b == to {
			return true
		}
		if seen[b] {
			return false
		}
		seen[b] = true
		for _, s := range b.Succs {
			if walk(s) {
				return true
			}
		}
		return false
	}
	return walk(from)
}

// ---- C04.b ------------------------------------------------------------------

func isLiteralReaderPtr(t types.Type) bool {
	p, ok := t.(*types.Pointer)
	if !ok {
		return false
	}
	n, ok := p.Elem().(*types.Named)
	return ok && n.Obj().Name() == "LiteralReader" && n.Obj().Pkg() != nil && strings.HasSuffix(n.Obj().Pkg().Path(), "/internal/imapwire")
}

// literalSource: fn's results include *LiteralReader; returns index of the
// nonSync result (or -1).
func literalSource(sig *types.Signature) (isSrc bool, nonSyncIdx int) {
	nonSyncIdx = -1
	res := sig.Results()
	for i := 0; i < res.Len(); i++ {
		if isLiteralReaderPtr(res.At(i).Type()) {
			isSrc = true
		}
	}
	if !isSrc {
		return
	}
	for i := 0; i < res.Len(); i++ {
		if res.At(i).Name() == "nonSync" {
			nonSyncIdx = i
		}
	}
	if nonSyncIdx < 0 && res.Len() >= 2 && res.At(1).Type() == types.Typ[types.Bool] {
		nonSyncIdx = 1
	}
	return
}

func serverSideFuncs(p *Program) []*ssa.Function {
	var out []*ssa.Function
	for fn := range p.AllFuncs() {
		if fn.Blocks == nil {
			continue
		}
		pp := pkgPathOf(fn)
		switch pp {
		case modPath + "/imapserver", modPath + "/internal/imapwire", modPath + "/internal", modPath + "/imapserver/imapmemserver":
			out = append(out, fn)
		}
	}
	sort.Slice(out, func(i, j int) bool { return out[i].String() < out[j].String() })
	return out
}

func dynCallees(p *Program, fn *ssa.Function, site ssa.CallInstruction) []*ssa.Function {
	var out []*ssa.Function
	node := p.VTA().Nodes[fn]
	if node == nil {
		return nil
	}
	for _, e := range node.Out {
		if e.Site == site {
			out = append(out, e.Callee.Func)
		}
	}
	return out
}

func ruleLiteralRefusal(c *Ctx, rule string) {
	p := c.P
	funcs := serverSideFuncs(p)
	// nonSync taint
	tainted := map[ssa.Value]bool{}
	for changed := true; changed; {
		changed = false
		mark := func(v ssa.Value) {
			if v != nil && !tainted[v] {
				tainted[v] = true
				changed = true
			}
		}
		for _, fn := range funcs {
			allInstrs(fn, func(i ssa.Instruction) {
				switch x := i.(type) {
				case *ssa.Extract:
					if call, ok := x.Tuple.(*ssa.Call); ok {
						if src, idx := literalSource(call.Call.Signature()); src && idx == x.Index {
							mark(x)
						}
					}
				case *ssa.Phi:
					for _, e := range x.Edges {
						if tainted[e] {
							mark(x)
						}
					}
				case ssa.CallInstruction:
					var callees []*ssa.Function
					if cal := staticCallee(x); cal != nil {
						callees = []*ssa.Function{cal}
					} else {
						callees = dynCallees(p, fn, x)
					}
					args := x.Common().Args
					for _, cal := range callees {
						if cal.Blocks == nil {
							continue
						}
						off := 0
						if x.Common().IsInvoke() {
							off = 1
						}
						for k, a := range args {
							if tainted[a] && k+off < len(cal.Params) {
								mark(cal.Params[k+off])
							}
						}
					}
				case *ssa.Return:
					// a function returning the flag it received
				}
			})
		}
	}
	isLogoutStore := func(i ssa.Instruction) bool {
		st, ok := i.(*ssa.Store)
		if !ok {
			return false
		}
		r, ok := fieldOf(st.Addr)
		if !ok || !r.is("Conn", "state") {
			return false
		}
		k, ok := stateOfConst(st.Val)
		return ok && k == stLogout
	}
	drains := func(call ssa.CallInstruction) bool {
		obj := calleeObj(call)
		if obj == nil || obj.Pkg() == nil || obj.Pkg().Path() != "io" {
			return false
		}
		switch obj.Name() {
		case "Copy", "ReadAll":
			for _, a := range call.Common().Args {
				if mi, ok := a.(*ssa.MakeInterface); ok && isLiteralReaderPtr(mi.X.Type()) {
					return true
				}
			}
		}
		return false
	}
	// summaries: every possibly-non-nil error return of f is "safe"
	safeRefusal := map[*ssa.Function]bool{}
	safeAfter := map[*ssa.Function]bool{} // every return of f is reached with the literal accounted for
	flowOf := func(fn *ssa.Function) *mustResult {
		return mustFlow(fn, facts{}, func(f facts, i ssa.Instruction) facts {
			if isLogoutStore(i) {
				return f.with("safe", "terminated")
			}
			if call, ok := i.(ssa.CallInstruction); ok {
				if _, isDefer := i.(*ssa.Defer); isDefer {
					return f
				}
				if isMethod(calleeObj(call), "imapserver", "Conn", "Bye") {
					return f.with("safe", "terminated")
				}
				if drains(call) {
					return f.with("safe", "drained")
				}
				if cal := staticCallee(call); cal != nil && safeAfter[cal] {
					return f.with("safe", "via:"+fnKey(cal))
				}
			}
			return f
		}, func(f facts, b *ssa.BasicBlock, succ int) facts {
			add := valueEdgeFacts(b, succ)
			for _, a := range edgeAtoms(b, succ) {
				if tainted[a.V] && a.True == -1 {
					add = append(add, "safe", "sync")
				}
			}
			for _, fc := range failureCalls(b, succ) {
				var callees []*ssa.Function
				if cal := staticCallee(fc); cal != nil {
					callees = []*ssa.Function{cal}
				} else {
					callees = dynCallees(p, b.Parent(), fc)
				}
				all := len(callees) > 0
				for _, cal := range callees {
					if !safeRefusal[cal] {
						all = false
					}
				}
				if all {
					add = append(add, "safe", "callee-refusal-safe")
				}
			}
			return f.with(add...)
		})
	}
	returnSafe := func(fn *ssa.Function, gf *mustResult, ret *ssa.Return) (bool, string) {
		fs, reach := gf.at(ret)
		if !reach {
			return true, "unreachable"
		}
		if fs.has("safe") {
			var why []string
			for _, w := range fs.list() {
				switch {
				case w == "sync", w == "terminated", w == "drained", w == "callee-refusal-safe", strings.HasPrefix(w, "via:"):
					why = append(why, w)
				}
			}
			return true, strings.Join(why, "+")
		}
		if len(ret.Results) > 0 {
			ev := ret.Results[len(ret.Results)-1]
			if isErrorType(ev.Type()) {
				if classifyErr(ev, fs, nil, map[ssa.Value]bool{}) == errNil {
					return true, "returns nil (no refusal)"
				}
				// delegation: return g(...) — also `err := g(...); …; return err`
				// where g is a callback whose possible targets are all safe
				if call, ok := unspill(ev).(*ssa.Call); ok {
					if cal := staticCallee(call); cal != nil && safeRefusal[cal] {
						return true, "delegates to " + fnKey(cal)
					}
					if staticCallee(call) == nil {
						callees := dynCallees(p, fn, call)
						all := len(callees) > 0
						for _, cal := range callees {
							if !safeRefusal[cal] {
								all = false
							}
						}
						if all {
							return true, "returns the result of a callback whose targets all refuse safely"
						}
					}
				}
			}
		}
		return false, ""
	}
	for changed := true; changed; {
		changed = false
		for _, fn := range funcs {
			if !safeAfter[fn] && fn.Synthetic == "" {
				// helpers such as rejectLiteral(nonSync): all returns are safe
				usesFlag := false
				for _, prm := range fn.Params {
					if tainted[prm] {
						usesFlag = true
					}
				}
				if usesFlag {
					gf := flowOf(fn)
					all, n := true, 0
					for _, ret := range returnsOf(fn) {
						fs, reach := gf.at(ret)
						if reach {
							n++
							if !fs.has("safe") {
								all = false
							}
						}
					}
					if all && n > 0 {
						safeAfter[fn] = true
						changed = true
					}
				}
			}
			if safeRefusal[fn] {
				continue
			}
			res := fn.Signature.Results()
			if res.Len() == 0 || !isErrorType(res.At(res.Len()-1).Type()) {
				continue
			}
			// only functions that see a nonSync flag or delegate to one that does matter
			gf := flowOf(fn)
			all := true
			nret := 0
			for _, ret := range returnsOf(fn) {
				nret++
				if ok, _ := returnSafe(fn, gf, ret); !ok {
					all = false
				}
			}
			if all && nret > 0 {
				safeRefusal[fn] = true
				changed = true
			}
		}
	}
	// synthetic bound-method wrappers inherit the summary of the method they call
	for changed := true; changed; {
		changed = false
		for fn := range p.AllFuncs() {
			if fn.Synthetic == "" || fn.Blocks == nil || safeRefusal[fn] {
				continue
			}
			allInstrs(fn, func(i ssa.Instruction) {
				if call, ok := i.(*ssa.Call); ok {
					if cal := staticCallee(call); cal != nil && safeRefusal[cal] && !safeRefusal[fn] {
						safeRefusal[fn] = true
						changed = true
					}
				}
			})
		}
	}

	// obligations: holders of an opened literal
	for _, fn := range funcs {
		if fn.Synthetic != "" {
			continue
		}
		if src, _ := literalSource(fn.Signature); src {
			continue // hands the reader to its caller, who bears the obligation
		}
		var sources []*ssa.Call
		allInstrs(fn, func(i ssa.Instruction) {
			if call, ok := i.(*ssa.Call); ok {
				if src, _ := literalSource(call.Call.Signature()); src {
					if obj := calleeObj(call); obj != nil && obj.Name() != "newLiteralReaderFromString" {
						sources = append(sources, call)
					}
				}
			}
		})
		if len(sources) == 0 {
			continue
		}
		gf := flowOf(fn)
		for _, src := range sources {
			srcKey := funcKey(calleeObj(src))
			nret := 0
			for _, ret := range returnsOf(fn) {
				b := ret.Block()
				nret++
				if !reaches(src.Block(), b) {
					continue
				}
				fs, reach := gf.at(ret)
				if !reach {
					continue
				}
				key := fmt.Sprintf("%s:%s:return#%d", fnKey(fn), srcKey, nret)
				// the source itself failed: nothing was opened
				failed := fs.has("fail:" + srcKey)
				for f := range fs {
					if strings.HasPrefix(f, "false#") && strings.HasSuffix(f, ":"+srcKey) {
						failed = true
					}
				}
				if failed {
					c.ok(rule, key, ret.Pos(), "the literal header itself was rejected: no literal is open")
					continue
				}
				if ok, why := returnSafe(fn, gf, ret); ok {
					c.ok(rule, key, ret.Pos(), "literal accounted for: "+why)
				} else {
					c.fail(rule, key, ret.Pos(), "returns with an opened literal neither drained nor known synchronising and without terminating the connection: for a non-synchronising literal the payload stays in the stream and is parsed as commands")
				}
			}
		}
	}
	// a refusal by the buffered-literal callback must put the decoder in its
	// error state, so that the command cannot go on parsing payload bytes as
	// its arguments
	for _, fn := range funcs {
		if fn.Synthetic != "" || pkgPathOf(fn) != modPath+"/internal/imapwire" {
			continue
		}
		var gf *mustResult
		for _, b := range fn.Blocks {
			for si := range b.Succs {
				for _, fc := range failureCalls(b, si) {
					if !strings.HasPrefix(callKey(fc), "field:") {
						continue
					}
					if gf == nil {
						gf = mustFlow(fn, facts{}, func(f facts, i ssa.Instruction) facts {
							if call, ok := i.(ssa.CallInstruction); ok {
								if o := calleeObj(call); o != nil && (isExtMethod(o, modPath+"/internal/imapwire", "Decoder", "returnErr") || isExtMethod(o, modPath+"/internal/imapwire", "Decoder", "Expect")) {
									return f.with("did:returnErr")
								}
							}
							return f
						}, func(f facts, b *ssa.BasicBlock, succ int) facts { return f.with(valueEdgeFacts(b, succ)...) })
					}
					for k, ret := range returnsOf(fn) {
						fs, reach := gf.at(ret)
						if !reach || !fs.has("fail:"+callKey(fc)) {
							continue
						}
						c.check(fs.has("did:returnErr"), rule, fmt.Sprintf("%s:%s refusal→decoder error#%d", fnKey(fn), callKey(fc), k+1), ret.Pos(),
							"the refusal is recorded as the decoder error",
							"the literal is refused but the decoder error is not set: the caller falls through to its next alternative and parses payload bytes as the argument")
					}
				}
			}
		}
	}
	var sr []string
	for f, v := range safeRefusal {
		if v && f.Synthetic == "" && (strings.Contains(fnKey(f), "iteral")) {
			sr = append(sr, fnKey(f))
		}
	}
	sort.Strings(sr)
	c.note("literal-refusal summaries proven safe: %s", strings.Join(sr, ", "))
}

// ---- C04.c ------------------------------------------------------------------

func ruleContReq(c *Ctx, rule string) {
	p := c.P
	var writers []*ssa.Function
	for _, f := range []*ssa.Function{p.Func("imapserver", "Conn", "writeContReq"), p.Func("imapserver", "", "writeContReq")} {
		if f != nil {
			writers = append(writers, f)
		}
	}
	if len(writers) == 0 {
		c.unresolvedRoot("continuation-request writers of imapserver")
		return
	}
	isWriter := func(f *ssa.Function) bool {
		for _, w := range writers {
			if w == f {
				return true
			}
		}
		return false
	}
	// the "+" atom must not be written anywhere else in imapserver
	for _, fn := range p.SrcFuncs("imapserver", "imapserver/imapmemserver") {
		allInstrs(fn, func(i ssa.Instruction) {
			call, ok := i.(ssa.CallInstruction)
			if !ok {
				return
			}
			if obj := calleeObj(call); obj != nil && isEncoderMethod(obj) && obj.Name() == "Atom" && len(call.Common().Args) == 2 {
				if s, ok := constString(call.Common().Args[1]); ok && s == "+" && !isWriter(fn) {
					c.fail(rule, fnKey(fn)+":raw '+'", i.Pos(), "a continuation request is written outside writeContReq")
				}
			}
		})
	}
	labels := func(fn *ssa.Function) []string { return c.labelsOf(fn) }
	for _, fn := range p.SrcFuncs("imapserver", "imapserver/imapmemserver") {
		if isWriter(fn) {
			continue
		}
		var df *deepFlow
		allInstrs(fn, func(i ssa.Instruction) {
			call, ok := i.(ssa.CallInstruction)
			if !ok || !isWriter(staticCallee(call)) {
				return
			}
			root := fn
			for root.Parent() != nil {
				root = root.Parent()
			}
			if df == nil {
				df = gateFlowDeep(root, facts{})
			}
			fs, _ := df.at(i)
			key := fnKey(fn) + "→writeContReq"
			lab := labels(root)
			switch {
			case contains(lab, "IDLE"):
				c.check(fs.has("ok:(*Conn).checkState"), rule, key, i.Pos(), "IDLE: after the state gate", "IDLE continuation before the state gate")
			case contains(lab, "AUTHENTICATE"):
				c.check(fs.has("ok:(*Conn).checkState") && fs.has("ok:(*Conn).canAuth"), rule, key, i.Pos(), "AUTHENTICATE: after checkState and canAuth", "AUTHENTICATE continuation before checkState/canAuth succeeded")
			default:
				// literal acceptance: must be on the not-nonSync edge of a bool
				// parameter and after the size refusals
				syncEdge := false
				for _, b := range fn.Blocks {
					for si := range b.Succs {
						for _, a := range edgeAtoms(b, si) {
							if _, isParam := a.V.(*ssa.Parameter); isParam && a.True == -1 && a.V.Type() == types.Typ[types.Bool] {
								if b.Succs[si] == i.Block() || b.Succs[si].Dominates(i.Block()) {
									syncEdge = true
								}
							}
						}
					}
				}
				hasSize := false
				for _, prm := range fn.Params {
					if b, ok := prm.Type().Underlying().(*types.Basic); ok && b.Kind() == types.Int64 {
						hasSize = true
					}
				}
				c.check(syncEdge && hasSize, rule, key, i.Pos(), "literal acceptance: only on the synchronising (not nonSync) edge",
					"a continuation request is written by a function that is neither the IDLE/AUTHENTICATE handler nor on the synchronising edge of a literal acceptance")
			}
		})
	}
}

// ---- C04.d ------------------------------------------------------------------

func ruleEncoderPairing(c *Ctx, rule string) {
	p := c.P
	newEnc := p.Func("imapserver", "", "newResponseEncoder")
	end := p.Func("imapserver", "responseEncoder", "end")
	if newEnc == nil || end == nil {
		c.unresolvedRoot("newResponseEncoder / responseEncoder.end")
		return
	}
	for _, fn := range p.SrcFuncs("imapserver", "imapserver/imapmemserver") {
		idx := 0
		allInstrs(fn, func(i ssa.Instruction) {
			call, ok := i.(*ssa.Call)
			if !ok {
				return
			}
			// imapwire.NewEncoder only inside newResponseEncoder
			if obj := calleeObj(call); obj != nil && obj.Name() == "NewEncoder" && obj.Pkg() != nil && strings.HasSuffix(obj.Pkg().Path(), "/internal/imapwire") {
				c.check(fn == newEnc, rule, fnKey(fn)+":NewEncoder", call.Pos(), "wire encoders are created only by newResponseEncoder (which takes the write lock)",
					"a wire encoder on the connection is created outside newResponseEncoder: its output can interleave with another response")
			}
			if staticCallee(call) != newEnc {
				return
			}
			idx++
			key := fmt.Sprintf("%s:enc#%d", fnKey(fn), idx)
			var defers, calls []ssa.Instruction
			transferred := false
			refs := append([]ssa.Instruction{}, *call.Referrers()...)
			for _, ref := range *call.Referrers() {
				// captured by a closure: the value lives in a cell; follow its loads
				if st, ok := ref.(*ssa.Store); ok && st.Val == ssa.Value(call) {
					if cell, ok := st.Addr.(*ssa.Alloc); ok {
						for _, cr := range *cell.Referrers() {
							if ld, ok := cr.(*ssa.UnOp); ok && ld.Op == token.MUL {
								refs = append(refs, *ld.Referrers()...)
							}
						}
					}
				}
			}
			for _, ref := range refs {
				switch r := ref.(type) {
				case *ssa.Defer:
					if staticCallee(r) == end {
						defers = append(defers, r)
					}
				case *ssa.Call:
					if staticCallee(r) == end {
						calls = append(calls, r)
					}
				case *ssa.Store:
					if r.Val == ssa.Value(call) {
						if fr, ok := fieldOf(r.Addr); ok {
							transferred = ruleTransferClose(c, rule, key, fr, end)
						}
					}
				}
			}
			switch {
			case len(defers) == 1 && len(calls) == 0 && !transferred:
				d := defers[0]
				same := d.Block() == call.Block()
				c.check(same, rule, key, call.Pos(), "defer enc.end() immediately follows the acquisition", "the deferred end() is not unconditionally registered after the acquisition")
			case transferred && len(defers) == 0 && len(calls) == 0:
				c.ok(rule, key, call.Pos(), "ownership transferred to a writer whose Close ends the encoder")
			case len(defers)+len(calls) == 0:
				c.fail(rule, key, call.Pos(), "response encoder is never ended: the connection's write lock stays held")
			default:
				c.fail(rule, key, call.Pos(), fmt.Sprintf("response encoder ended %d times by defer and %d times directly", len(defers), len(calls)))
			}
		})
	}
	// Conn.bw is used only to build encoders, to be re-seated (Reset) and at construction
	for _, fn := range p.SrcFuncs("imapserver", "imapserver/imapmemserver") {
		allInstrs(fn, func(i ssa.Instruction) {
			fa, ok := i.(*ssa.FieldAddr)
			if !ok {
				return
			}
			r, _ := fieldOf(fa)
			if !r.is("Conn", "bw") {
				return
			}
			for _, ref := range *fa.Referrers() {
				ld, ok := ref.(*ssa.UnOp)
				if !ok {
					continue // a store (construction / re-seat)
				}
				for _, use := range *ld.Referrers() {
					okUse := false
					if call, ok := use.(ssa.CallInstruction); ok {
						obj := calleeObj(call)
						if obj != nil && obj.Name() == "NewEncoder" {
							okUse = fn == newEnc
						}
						if isExtMethod(obj, "bufio", "Writer", "Reset") {
							okUse = true
						}
					}
					c.check(okUse, rule, fnKey(fn)+":use of Conn.bw", use.Pos(), "the buffered writer is only wrapped by newResponseEncoder or re-seated",
						"the connection's writer is used directly, outside a response-encoder section")
				}
			}
		})
	}
}

// ruleTransferClose: the struct field receiving the encoder belongs to a
// writer type whose Close method ends that field's encoder on every path that
// does not fail the "already closed" test.
func ruleTransferClose(c *Ctx, rule, key string, fr fieldRef, end *ssa.Function) bool {
	if fr.Owner == nil {
		return false
	}
	closeFn := c.P.Func("imapserver", fr.Owner.Obj().Name(), "Close")
	if closeFn == nil {
		c.fail(rule, key+":transfer", fr.Field.Pos(), "encoder stored into "+fr.String()+" whose type has no Close method")
		return true
	}
	gf := mustFlow(closeFn, facts{}, func(f facts, i ssa.Instruction) facts {
		if call, ok := i.(*ssa.Call); ok && staticCallee(call) == end {
			return f.with("ended")
		}
		return f
	}, nil)
	okAll := true
	n := 0
	for _, ret := range returnsOf(closeFn) {
		{
			fs, reach := gf.at(ret)
			if !reach {
				continue
			}
			n++
			if !fs.has("ended") {
				// allowed only for the already-closed early return: returns a non-nil error
				if len(ret.Results) == 1 && classifyErr(ret.Results[0], fs, nil, map[ssa.Value]bool{}) == errNonNil {
					continue
				}
				okAll = false
			}
		}
	}
	c.check(okAll && n > 0, rule, fnKey(closeFn)+":ends encoder", closeFn.Pos(), "Close ends the encoder on every path except the already-closed error", "Close has a path that does not end the encoder")
	return true
}

// ruleNoFallbackAfterLiteral: once Decoder.Literal has failed with the decoder
// in its error state (refused or unreadable literal), no alternative production
// is tried on the same bytes.
func ruleNoFallbackAfterLiteral(c *Ctx, rule string) {
	p := c.P
	n := 0
	// literal-attempting decoder methods: Literal itself and every bool method
	// whose result may be the (un-Expect-ed) result of one of them (String =
	// Quoted || Literal): their failure can mean "a literal was announced and
	// refused", with the decoder in its error state
	attempts := map[string]bool{"(*Decoder).Literal": true}
	for changed := true; changed; {
		changed = false
		for _, fn := range p.SrcFuncs("internal/imapwire") {
			k := fnKey(fn)
			if attempts[k] || fn.Signature.Recv() == nil || fn.Signature.Results().Len() != 1 || strings.HasPrefix(fn.Name(), "Expect") {
				continue
			}
			if bt, ok := fn.Signature.Results().At(0).Type().Underlying().(*types.Basic); !ok || bt.Kind() != types.Bool {
				continue
			}
			derives := false
			seen := map[ssa.Value]bool{}
			var rec func(v ssa.Value)
			rec = func(v ssa.Value) {
				if seen[v] {
					return
				}
				seen[v] = true
				switch x := v.(type) {
				case *ssa.Phi:
					for _, e := range x.Edges {
						rec(e)
					}
				case *ssa.Call:
					if attempts[callKey(x)] {
						derives = true
					}
				}
			}
			for _, r := range returnsOf(fn) {
				if len(r.Results) == 1 {
					rec(unspill(r.Results[0]))
				}
			}
			if derives {
				attempts[k] = true
				changed = true
			}
		}
	}
	var names []string
	for k := range attempts {
		names = append(names, k)
	}
	sort.Strings(names)
	c.note("literal-attempting decoder methods: %s", strings.Join(names, ", "))
	// only code the server runs: the refusal of an announced literal exists on
	// the server only (CheckBufferedLiteralFunc); DiscardValue & co. are used
	// by the client alone
	serverReach := staticReach(serverRoots(p), 12) // static calls only: callbacks such as Decoder.List(f) would join client and server code
	for _, fn := range p.SrcFuncs("internal/imapwire", "imapserver") {
		root := fn
		for root.Parent() != nil {
			root = root.Parent()
		}
		if !serverReach[fn] && !serverReach[root] {
			continue
		}
		hasLiteral := false
		allInstrs(fn, func(i ssa.Instruction) {
			if call, ok := i.(ssa.CallInstruction); ok && attempts[callKey(call)] {
				hasLiteral = true
			}
		})
		if !hasLiteral {
			continue
		}
		gf := mustFlow(fn, facts{}, nil, func(f facts, b *ssa.BasicBlock, s int) facts {
			add := valueEdgeFacts(b, s)
			for _, a := range edgeAtoms(b, s) {
				if r, ok := loadedField(a.V); ok && r.is("Decoder", "err") && a.Nil == 1 {
					add = append(add, "decoder-ok")
				}
				if call, _ := callOf(a.V); call != nil && callKey(call) == "(*Decoder).Err" && a.Nil == 1 {
					add = append(add, "decoder-ok")
				}
			}
			return f.with(add...)
		})
		allInstrs(fn, func(i ssa.Instruction) {
			call, ok := i.(ssa.CallInstruction)
			if !ok || !isDecoderMethodCall(call) {
				return
			}
			name := calleeObj(call).Name()
			if attempts[callKey(call)] || name == "Err" || name == "returnErr" || name == "Expect" || name == "DiscardLine" {
				return
			}
			fs, reach := gf.at(i)
			if !reach {
				return
			}
			failed := ""
			for k := range attempts {
				if fs.has("fail:" + k) {
					failed = k
				}
			}
			if failed == "" {
				return
			}
			n++
			c.check(fs.has("decoder-ok"), rule, fmt.Sprintf("%s: %s after a failed %s", fnKey(fn), name, strings.TrimPrefix(failed, "(*Decoder).")), i.Pos(),
				"tried only when the decoder is not in its error state (the bytes were not a literal at all)",
				"after a literal was announced and refused the decoder goes on to parse the following bytes with "+name+": for a synchronising literal the server blocks instead of answering and then swallows the client's next command")
		})
	}
	if n == 0 {
		c.okTrivial(rule, "no alternative production follows a Literal attempt", token.NoPos, "0 sites")
	}
}

// ruleDiscardSkipsLiterals: DiscardLine can skip the data of a trailing
// non-synchronising literal (a counted discard of the decoder's reader, in a loop).
func ruleDiscardSkipsLiterals(c *Ctx, rule string) {
	p := c.P
	fn := p.Func("internal/imapwire", "Decoder", "DiscardLine")
	if fn == nil {
		c.unresolvedRoot("(*Decoder).DiscardLine")
		return
	}
	counted, looped := false, false
	// the counted discard may sit in a helper: then the helper's call site must be in the loop
	var inLoopD func(g *ssa.Function, b *ssa.BasicBlock, d int) bool
	inLoopD = func(g *ssa.Function, b *ssa.BasicBlock, d int) bool {
		if g == fn {
			return reaches2(b, b)
		}
		if reaches2(b, b) {
			return true
		}
		if d == 0 {
			return false
		}
		for _, site := range callSitesOf(p, g) {
			par := site.Parent()
			if par == nil || (par != fn && !isHelperOf(par, fn, 2)) {
				continue
			}
			if inLoopD(par, site.Block(), d-1) {
				return true
			}
		}
		return false
	}
	inLoopOfFn := func(g *ssa.Function, b *ssa.BasicBlock) bool { return inLoopD(g, b, 3) }
	for _, g := range helperClosure(fn, 2) {
		g := g
		allInstrs(g, func(i ssa.Instruction) {
			call, ok := i.(*ssa.Call)
			if !ok {
				return
			}
			o := calleeObj(call)
			if o == nil || o.Pkg() == nil {
				return
			}
			if (o.Pkg().Path() == "io" && o.Name() == "CopyN") || isExtMethod(o, "bufio", "Reader", "Discard") {
				for _, a := range call.Call.Args {
					v := a
					if mi, ok := v.(*ssa.MakeInterface); ok {
						v = mi.X
					}
					if r, ok := loadedField(v); ok && r.is("Decoder", "r") {
						counted = true
						if inLoopOfFn(g, call.Block()) {
							looped = true
						}
					}
				}
			}
		})
	}
	c.check(counted && looped, rule, "DiscardLine skips literal data", fn.Pos(), "a counted discard of the decoder's reader, repeated until the command ends",
		"DiscardLine only skips to the next CRLF: when a command fails before its {N+} literal was parsed, the literal data is left in the stream and parsed as commands")
}

// ruleLongLineDrained: every ReadLine of a continuation line in the server
// either knows the line was complete, drains its remainder, or fails with an
// I/O error.
func ruleLongLineDrained(c *Ctx, rule string) {
	p := c.P
	isReadLine := func(call ssa.CallInstruction) bool {
		return isExtMethod(calleeObj(call), "bufio", "Reader", "ReadLine")
	}
	drains := map[*ssa.Function]bool{}
	for _, fn := range p.SrcFuncs("imapserver") {
		allInstrs(fn, func(i ssa.Instruction) {
			if call, ok := i.(ssa.CallInstruction); ok && isReadLine(call) && reaches2(i.Block(), i.Block()) {
				// a loop around ReadLine whose continuation depends on isPrefix
				drains[fn] = true
			}
		})
	}
	n := 0
	for _, fn := range p.SrcFuncs("imapserver") {
		var sites []ssa.Instruction
		allInstrs(fn, func(i ssa.Instruction) {
			if call, ok := i.(ssa.CallInstruction); ok && isReadLine(call) {
				sites = append(sites, i)
			}
		})
		if len(sites) == 0 || (drains[fn] && len(fn.Params) > 0 && fn.Signature.Results().Len() == 0) {
			continue // the drain helper itself
		}
		gf := mustFlow(fn, facts{}, func(f facts, i ssa.Instruction) facts {
			if call, ok := i.(ssa.CallInstruction); ok {
				if cal := staticCallee(call); cal != nil && drains[cal] && cal != fn {
					return f.with("drained")
				}
				if isReadLine(call) {
					// a new line is read: earlier knowledge is about the previous line
					return f.without(func(s string) bool {
						return s == "drained" || strings.Contains(s, "(*Reader).ReadLine") || s == "io-error"
					})
				}
			}
			return f
		}, func(f facts, b *ssa.BasicBlock, s int) facts {
			add := valueEdgeFacts(b, s)
			for _, a := range edgeAtoms(b, s) {
				if cl, idx := callOf(a.V); cl != nil && isReadLine(cl) && idx == 2 {
					if a.Nil == -1 {
						add = append(add, "io-error")
					}
					if a.Op == token.EQL && a.Other != nil {
						add = append(add, "io-error") // err == io.EOF
					}
				}
			}
			return f.with(add...)
		})
		for _, site := range sites {
			k := 0
			for _, ret := range returnsOf(fn) {
				if !(site.Block() == ret.Block() || reaches(site.Block(), ret.Block())) {
					continue
				}
				fs, reach := gf.at(ret)
				if !reach {
					continue
				}
				k++
				n++
				okRet := fs.has("false#1:(*Reader).ReadLine") || fs.has("drained") || fs.has("io-error")
				// returns before any line was read on this path (state refusals) carry no ReadLine fact at all
				if !fs.hasPrefix("true#1:(*Reader).ReadLine") && !fs.hasPrefix("false#1:(*Reader).ReadLine") && !fs.has("io-error") && !fs.has("drained") {
					// the must-facts do not say a line was read: decide by dominance
					if !site.Block().Dominates(ret.Block()) {
						okRet = true
					}
				}
				c.check(okRet, rule, fmt.Sprintf("%s: continuation line, return#%d", fnKey(fn), k), ret.Pos(),
					"the line is known complete, or its remainder was drained, or reading failed",
					"a return is reachable with only the first part of an over-long continuation line consumed: the rest of that line is parsed as the next command")
			}
		}
	}
	if n == 0 {
		c.unresolvedRoot("ReadLine calls in imapserver")
	}
}

// valueGen: kills what is known about a local cell when it is assigned.
func valueGen(f facts, i ssa.Instruction) facts {
	if st, ok := i.(*ssa.Store); ok {
		if cell, ok := st.Addr.(*ssa.Alloc); ok {
			n1, n2 := "nil:cell:"+cell.Name(), "nonnil:cell:"+cell.Name()
			if f.has(n1) || f.has(n2) {
				// a store of the very value that was tested keeps the knowledge
				if ld, ok := st.Val.(*ssa.UnOp); ok && ld.X == ssa.Value(cell) {
					return f
				}
				return f.without(func(s string) bool { return s == n1 || s == n2 })
			}
		}
	}
	return f
}

// conjunctionOfExpects: the boolean phi is false only when a
// (*Decoder).Expect* call returned false: every constant-false edge comes from
// the false edge of a test of such a call, and every other edge is the result
// of such a call itself.
func conjunctionOfExpects(ph *ssa.Phi) bool {
	isExpect := func(v ssa.Value) bool {
		call, ok := v.(*ssa.Call)
		if !ok {
			return false
		}
		return strings.HasPrefix(callKey(call), "(*Decoder).Expect")
	}
	some := false
	for k, e := range ph.Edges {
		if c, ok := e.(*ssa.Const); ok {
			if c.Value == nil || c.Value.String() != "false" {
				return false
			}
			pred := ph.Block().Preds[k]
			if len(pred.Instrs) == 0 {
				return false
			}
			ifi, ok := pred.Instrs[len(pred.Instrs)-1].(*ssa.If)
			if !ok || pred.Succs[1] != ph.Block() || !isExpect(ifi.Cond) {
				return false
			}
			some = true
			continue
		}
		if !isExpect(e) {
			return false
		}
		some = true
	}
	return some
}

// phiImpliedFacts: the edge facts common to every way the boolean phi can have
// the given truth value (edges carrying the opposite constant are excluded;
// for each remaining edge, the facts of the branch edges on the single-
// predecessor chain leading to it, and of the value itself when it is a
// condition).
func phiImpliedFacts(ph *ssa.Phi, truth bool) []string {
	if bt, ok := ph.Type().Underlying().(*types.Basic); !ok || bt.Kind() != types.Bool {
		return nil
	}
	var acc map[string]bool
	for k, e := range ph.Edges {
		if c, ok := e.(*ssa.Const); ok && c.Value != nil {
			if (c.Value.String() == "true") != truth {
				continue // cannot be this edge
			}
		}
		fs := map[string]bool{}
		// the value itself
		if _, isConst := e.(*ssa.Const); !isConst {
			for _, a := range atomsOf(e, truth) {
				for _, f := range atomFacts(a) {
					fs[f] = true
				}
			}
		}
		// the chain of single predecessors
		cur := ph.Block().Preds[k]
		next := ph.Block()
		for depth := 0; depth < 6 && cur != nil; depth++ {
			for j, sc := range cur.Succs {
				if sc == next {
					for _, f := range edgeFacts(cur, j) {
						fs[f] = true
					}
				}
			}
			if len(cur.Preds) != 1 {
				break
			}
			next, cur = cur, cur.Preds[0]
		}
		if acc == nil {
			acc = fs
		} else {
			for f := range acc {
				if !fs[f] {
					delete(acc, f)
				}
			}
		}
	}
	var out []string
	for f := range acc {
		out = append(out, f)
	}
	sort.Strings(out)
	return out
}
