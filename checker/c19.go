package main

import (
	"fmt"
	"go/ast"
	"go/token"
	"go/types"
	"sort"
	"strings"

	"golang.org/x/tools/go/ssa"
)

func init() {
	register("C19", "Decided: (a) SearchCriteria.And, evaluated as an abstract function over order types (each zero-means-unset scalar field touched only through comparisons, zero tests and copies; 3x3 orderings per field, exhaustive), yields the tighter bound with unset neutral; (b) every field of SearchCriteria is merged by And; (c) list fields are merged by concatenating the same field of both operands; (d) the server's SEARCH parser appends each list key to its own field and folds scalar keys only through And (what makes a multi-key SEARCH order-independent). Not decided: that a backend's matcher interprets the criteria as a conjunction.", checkC19)
}

// RFC 9051 6.4.4: SINCE/SENTSINCE and LARGER bound from below, BEFORE/
// SENTBEFORE and SMALLER from above. Zero means "no constraint".
var criteriaBound = map[string]string{
	"Since": "lower", "SentSince": "lower", "Larger": "lower",
	"Before": "upper", "SentBefore": "upper", "Smaller": "upper",
}

func isScalarKeyField(f *types.Var) bool {
	if isTimeType(f.Type()) {
		return true
	}
	if b, ok := f.Type().Underlying().(*types.Basic); ok && b.Info()&types.IsInteger != 0 {
		return true
	}
	return false
}

func checkC19(c *Ctx) {
	c.rule("C19.a", "And on each zero-means-unset scalar field = tighter bound, unset neutral (order-type evaluation, 9 orderings per field)", 54)
	c.rule("C19.b", "every field of SearchCriteria is merged by And", 16)
	c.rule("C19.c", "list fields merged as same-field concatenation of both operands", 9)
	c.rule("C19.d", "SEARCH parser: list keys appended to their own field; scalar keys folded only through And", 20)
	c.assume("order-isomorphism: And touches scalar fields only through comparisons, zero tests and copies (enforced: any other operation leaves the evaluator's fragment and yields UNDECIDED)")
	ruleAnd(c, "C19.a", "C19.b", "C19.c")
	ruleSameFieldAppend(c, "C19.d")
	ruleScalarOnlyViaAnd(c, "C19.d")
	c.rule("C19.e", "the in-memory backend's matcher is a conjunction: it reads every criteria field and only its final return can yield true", 17)
	ruleConjunctiveMatcher(c, "C19.e")
	ruleMatcherFreshVerdict(c, "C19.e")
	c.rule("C19.f", "SEARCH parser: conjunct lists only grow; no element is modified in place", 1)
	ruleNoInPlaceCriteriaEdit(c, "C19.f")
	c.rule("C19.g", "every element of a list criterion can reject the message on its own (early loop exits lead to rejection, in the matcher or through its helpers)", 7)
	ruleListElementsReject(c, "C19.g")
	c.rule("C19.h", "a per-round verdict that a loop overwrites is branched on before the next round", 1)
	ruleOverwrittenVerdict(c, "C19.h", "imapserver/imapmemserver")
	c.rule("C19.i", "the saved search result is replaced whenever SAVE is requested, and only after the criteria were resolved against the previous one ($ keys of a multi-key SEARCH see the previous result)", 2)
	ruleSearchResDiscipline(c, "C19.i")
	c.rule("C19.j", "a parsed NOT/OR key is recorded whatever it contains", 2)
	ruleNestedKeysRecorded(c, "C19.j")
	c.rule("C19.k", "And appends the operand's list elements as they are (number sets keep their identity: the $ marker survives)", 9)
	ruleAndSharesElements(c, "C19.k")
}

// ruleConjunctiveMatcher: (*imapmemserver.message).search must be a
// conjunction over the criteria: every early return is the constant false, the
// single `true` is the last statement, and every field of SearchCriteria the
// server can populate is consulted.
func ruleConjunctiveMatcher(c *Ctx, rule string) {
	p := c.P
	fn := p.Func("imapserver/imapmemserver", "message", "search")
	crit := p.Named("", "SearchCriteria")
	if fn == nil || crit == nil {
		c.unresolvedRoot("(*imapmemserver.message).search")
		return
	}
	nTrue, bad := 0, 0
	var badPos = fn.Pos()
	for _, ret := range returnsOf(fn) {
		k, ok := unspill(ret.Results[0]).(*ssa.Const)
		if !ok || k.Value == nil {
			bad++
			badPos = ret.Pos()
			continue
		}
		if k.Value.String() == "true" {
			nTrue++
			// the true return must not be followed by further checks: its block has no criteria reads after it by construction;
			// require that every block reading a criteria field can reach it only through a path, i.e. it is the unique one
		}
	}
	c.check(bad == 0 && nTrue == 1, rule, "message.search: returns", badPos,
		"all early returns are the constant false and there is exactly one `return true`",
		fmt.Sprintf("%d returns yield a computed value and %d return true: a satisfied key can end the match early and skip the remaining keys", bad, nTrue))
	// the `return true` block must post-dominate every read of a criteria field (no field is checked after it on another path)
	read := map[string]bool{}
	allInstrs(fn, func(i ssa.Instruction) {
		if fa, ok := i.(*ssa.FieldAddr); ok {
			if r, _ := fieldOf(fa); r.Owner == crit {
				read[r.Field.Name()] = true
			}
		}
	})
	st := crit.Underlying().(*types.Struct)
	for i := 0; i < st.NumFields(); i++ {
		f := st.Field(i)
		if requiresUnadvertisable(c, f) {
			c.okTrivial(rule, "message.search reads "+f.Name(), f.Pos(), "field belongs to an extension the server never advertises")
			continue
		}
		c.check(read[f.Name()], rule, "message.search reads "+f.Name(), fn.Pos(), "consulted by the matcher", "the matcher never looks at "+f.Name()+": that key of a SEARCH command is ignored")
	}
}

// requiresUnadvertisable: the field's own comment says "requires X" and the
// server's availableCaps can never emit X.
func requiresUnadvertisable(c *Ctx, f *types.Var) bool {
	doc := fieldComment(c.P, f)
	idx := strings.Index(strings.ToLower(doc), "requires ")
	if idx < 0 {
		return false
	}
	adv := advertisableCaps(c.P)
	words := strings.FieldsFunc(doc[idx+len("requires "):], func(r rune) bool { return r == ' ' || r == ',' || r == '\n' })
	any := false
	for _, w := range words {
		w = strings.Trim(w, ".;")
		if w == "or" || w == "and" || w == "" {
			continue
		}
		if w != strings.ToUpper(w) && !strings.HasPrefix(w, "IMAP4") {
			break
		}
		any = true
		if adv[w] {
			return false
		}
	}
	return any
}

// ruleAnd evaluates (*SearchCriteria).And abstractly.
func ruleAnd(c *Ctx, ruleA, ruleB, ruleC string) {
	p := c.P
	fn := p.Func("", "SearchCriteria", "And")
	crit := p.Named("", "SearchCriteria")
	if fn == nil || crit == nil {
		c.unresolvedRoot("(*imap.SearchCriteria).And")
		return
	}
	obj := fn.Object().(*types.Func)
	st := crit.Underlying().(*types.Struct)
	type cell struct{ a, b int }
	results := map[cell]*objV{}
	initial := map[cell]*objV{}
	var evalErr error
	for a := 0; a < 3; a++ {
		for b := 0; b < 3; b++ {
			in := &Interp{P: p}
			in.Input = func(path string, t types.Type) (Val, bool) {
				parts := strings.SplitN(path, ".", 2)
				if len(parts) != 2 || (parts[0] != "criteria" && parts[0] != "other") {
					return nil, false
				}
				rank := a
				if parts[0] == "other" {
					rank = b
				}
				if isTimeType(t) {
					return ordV{"time", rank}, true
				}
				if bt, ok := t.Underlying().(*types.Basic); ok && bt.Info()&types.IsInteger != 0 {
					return ordV{"int:" + parts[1], rank}, true
				}
				if _, ok := t.Underlying().(*types.Slice); ok {
					if rank == 0 {
						return listV{}, true // an unset operand has empty lists
					}
					return listV{segs: []string{path}, aliasOf: path}, true
				}
				if _, ok := t.Underlying().(*types.Pointer); ok && rank == 0 {
					return nilV{}, true
				}
				return symV{path: path, typ: t}, true
			}
			recv := &objV{typ: crit, fields: map[string]Val{}, path: "criteria"}
			other := &objV{typ: crit, fields: map[string]Val{}, path: "other"}
			// receiver and parameter names are taken from the declaration
			fd, _ := p.Decl(fn)
			rname, oname := fd.Recv.List[0].Names[0].Name, fd.Type.Params.List[0].Names[0].Name
			recv.path, other.path = rname, oname
			inner := in.Input
			in.Input = func(path string, t types.Type) (Val, bool) {
				path = strings.Replace(path, rname+".", "criteria.", 1)
				if strings.HasPrefix(path, oname+".") {
					path = "other." + strings.TrimPrefix(path, oname+".")
				}
				return inner(path, t)
			}
			for fi := 0; fi < st.NumFields(); fi++ {
				fl := st.Field(fi)
				if v, ok := in.Input(rname+"."+fl.Name(), fl.Type()); ok {
					recv.fields[fl.Name()] = v
				}
				if v, ok := in.Input(oname+"."+fl.Name(), fl.Type()); ok {
					other.fields[fl.Name()] = v
				}
			}
			initial[cell{a, b}] = copyObj(recv)
			if _, err := in.Eval(obj, ptrV{recv}, []Val{ptrV{other}}); err != nil {
				evalErr = err
			}
			results[cell{a, b}] = recv
		}
	}
	if evalErr != nil {
		c.undecided(ruleA, "And", fn.Pos(), "And left the evaluator's fragment: "+evalErr.Error())
		return
	}
	for i := 0; i < st.NumFields(); i++ {
		f := st.Field(i)
		name := f.Name()
		// merged: in some scenario the result differs from what the receiver had
		// (fields are pre-populated with the receiver's inputs)
		written := false
		for cl, r := range results {
			init, _ := initial[cl].fields[name]
			if showVal(r.fields[name]) != showVal(init) {
				written = true
			}
		}
		if !written {
			c.fail(ruleB, "And:"+name, f.Pos(), "And never assigns "+name+": a constraint present only in the other operand is lost")
			continue
		}
		c.ok(ruleB, "And:"+name, fn.Pos(), "assigned by And")
		switch {
		case isScalarKeyField(f):
			kind, known := criteriaBound[name]
			if !known {
				c.undecided(ruleA, "And:"+name, f.Pos(), "scalar field without a bound direction in the checker's RFC table")
				continue
			}
			for a := 0; a < 3; a++ {
				for b := 0; b < 3; b++ {
					rv, assigned := results[cell{a, b}].fields[name]
					if !assigned {
						rv = ordV{"kept", a} // not assigned on this path: the receiver keeps its value
					}
					got, ok := rv.(ordV)
					want := tighter(kind, a, b)
					key := fmt.Sprintf("And:%s[criteria=%s,other=%s]", name, rankName(a), rankName(b))
					c.evals++
					if !ok {
						c.undecided(ruleA, key, fn.Pos(), "result is not an order-type value")
						continue
					}
					c.check(got.rank == want, ruleA, key, fn.Pos(),
						fmt.Sprintf("→ %s (%s bound: unset neutral, else the tighter)", rankName(got.rank), kind),
						fmt.Sprintf("→ %s, intersection requires %s: the %s bound is lost or weakened", rankName(got.rank), rankName(want), kind))
				}
			}
		default:
			if _, isSlice := f.Type().Underlying().(*types.Slice); isSlice {
				okAll := true
				detail := ""
				for a := 0; a < 3; a++ {
					for b := 0; b < 3; b++ {
						l, ok := results[cell{a, b}].fields[name].(listV)
						var want []string
						if a != 0 {
							want = append(want, "criteria."+name)
						}
						if b != 0 {
							want = append(want, "other."+name)
						}
						segs := append([]string{}, l.segs...)
						sort.Strings(segs)
						if !ok || strings.Join(segs, "|") != strings.Join(want, "|") {
							okAll = false
							detail = fmt.Sprintf("with criteria %s and other %s, %s becomes %s, expected the concatenation of both operands' %s", rankName(a), rankName(b), name, showVal(results[cell{a, b}].fields[name]), name)
						} else if l.aliasOf == "other."+name {
							okAll = false
							detail = fmt.Sprintf("with criteria %s and other %s, %s is the other operand's slice itself (shared backing array): a later And on either criteria silently changes the other", rankName(a), rankName(b), name)
						}
						c.evals++
					}
				}
				c.check(okAll, ruleC, "And:"+name, fn.Pos(), "= criteria."+name+" ++ other."+name+" in all 9 emptiness combinations, never sharing the other operand's backing array", "list field "+detail)
			} else {
				c.note("field %s of SearchCriteria is assigned by And but has no merge oracle in the checker (type %s)", name, f.Type())
			}
		}
	}
}

func rankName(r int) string { return [...]string{"unset", "lo", "hi"}[r] }

func tighter(kind string, a, b int) int {
	if a == 0 {
		return b
	}
	if b == 0 {
		return a
	}
	if kind == "lower" {
		if a > b {
			return a
		}
		return b
	}
	if a < b {
		return a
	}
	return b
}

func isSearchCriteria(t types.Type) bool {
	if p, ok := t.Underlying().(*types.Pointer); ok {
		t = p.Elem()
	}
	n, ok := t.(*types.Named)
	return ok && n.Obj().Name() == "SearchCriteria" && n.Obj().Pkg() != nil && n.Obj().Pkg().Path() == modPath
}

// ruleSameFieldAppend: every `X.f = append(Y.g, …)` on SearchCriteria values in
// the module (outside imapclient's response side) has X≡Y and f==g.
func ruleSameFieldAppend(c *Ctx, rule string) {
	p := c.P
	for _, path := range []string{modPath, modPath + "/imapserver", modPath + "/imapserver/imapmemserver", modPath + "/imapclient"} {
		pk := p.Pkgs[path]
		for _, file := range pk.Syntax {
			var fname string
			ast.Inspect(file, func(n ast.Node) bool {
				if fd, ok := n.(*ast.FuncDecl); ok {
					fname = fd.Name.Name
				}
				as, ok := n.(*ast.AssignStmt)
				if !ok || len(as.Lhs) != 1 || len(as.Rhs) != 1 || as.Tok != token.ASSIGN {
					return true
				}
				lhs, ok := as.Lhs[0].(*ast.SelectorExpr)
				if !ok || !isSearchCriteria(pk.TypesInfo.TypeOf(lhs.X)) {
					return true
				}
				call, ok := as.Rhs[0].(*ast.CallExpr)
				if !ok || len(call.Args) == 0 {
					return true
				}
				if id, ok := call.Fun.(*ast.Ident); !ok || id.Name != "append" {
					return true
				}
				if _, isB := pk.TypesInfo.Uses[call.Fun.(*ast.Ident)].(*types.Builtin); !isB {
					return true
				}
				key := fmt.Sprintf("%s.%s:%s=append", pk.Types.Name(), fname, types.ExprString(lhs))
				src, ok := call.Args[0].(*ast.SelectorExpr)
				if !ok {
					c.fail(rule, key, as.Pos(), "appends to "+types.ExprString(call.Args[0])+" instead of the field itself")
					return true
				}
				same := src.Sel.Name == lhs.Sel.Name && types.ExprString(src.X) == types.ExprString(lhs.X)
				// several appends to one field in one function get distinct keys
				key += fmt.Sprintf("(%s…)#%d", types.ExprString(src), countKey(c, rule, key))
				c.check(same, rule, key, as.Pos(), "same-field append",
					fmt.Sprintf("%s is rebuilt from %s: the previous %s constraints are dropped and %s's are mixed in", types.ExprString(lhs), types.ExprString(src), lhs.Sel.Name, src.Sel.Name))
				return true
			})
		}
	}
}

func countKey(c *Ctx, rule, prefix string) int {
	n := 0
	for k := range c.seen {
		if strings.HasPrefix(k, rule+"|"+prefix) {
			n++
		}
	}
	return n
}

// ruleScalarOnlyViaAnd: in imapserver, no store into a zero-means-unset scalar
// field of a SearchCriteria reached through a pointer parameter (the criteria
// being accumulated); such keys must be folded with And.
func ruleScalarOnlyViaAnd(c *Ctx, rule string) {
	p := c.P
	nAnd := 0
	for _, fn := range p.SrcFuncs("imapserver") {
		allInstrs(fn, func(i ssa.Instruction) {
			switch x := i.(type) {
			case *ssa.Store:
				// `*criteria = something`: the whole accumulated criteria is replaced
				if isSearchCriteria(x.Addr.Type()) && isParamDerived(x.Addr) {
					if _, isField := x.Addr.(*ssa.FieldAddr); !isField {
						if _, isIdx := x.Addr.(*ssa.IndexAddr); !isIdx {
							c.fail(rule, fnKey(fn)+":store *criteria", x.Pos(), "the criteria being accumulated is overwritten as a whole: every key parsed before this point is dropped instead of intersected")
							return
						}
					}
				}
				r, ok := fieldOf(x.Addr)
				if !ok || r.Owner == nil || r.Owner.Obj().Name() != "SearchCriteria" || !isScalarKeyField(r.Field) {
					return
				}
				key := fnKey(fn) + ":store " + r.Field.Name()
				if isParamDerived(r.Base) {
					c.fail(rule, key, x.Pos(), "scalar key "+r.Field.Name()+" is written directly into the criteria being accumulated: an earlier "+r.Field.Name()+" key of the same command is overwritten instead of intersected")
				} else {
					c.ok(rule, key, x.Pos(), "store into a fresh local criteria (folded by And afterwards)")
				}
			case ssa.CallInstruction:
				if isMethod(calleeObj(x), "", "SearchCriteria", "And") {
					nAnd++
					c.ok(rule, fmt.Sprintf("%s:And#%d", fnKey(fn), nAnd), x.Pos(), "scalar key folded through And")
				}
			}
		})
	}
}

// isParamDerived: v is a pointer parameter, a free variable (captured
// parameter) or a field/index address derived from one.
func isParamDerived(v ssa.Value) bool {
	for {
		switch x := v.(type) {
		case *ssa.Parameter, *ssa.FreeVar:
			return true
		case *ssa.FieldAddr:
			v = x.X
		case *ssa.IndexAddr:
			v = x.X
		case *ssa.UnOp:
			if x.Op == token.MUL {
				v = x.X
				continue
			}
			return false
		default:
			return false
		}
	}
}
