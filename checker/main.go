// imapcheck decides structural clauses of the go-imap properties C01..C20 from
// the source under -repo (type-checked AST, go/ssa, call graphs). Nothing of
// the analysed tree is executed.
package main

import (
	"encoding/json"
	"flag"
	"fmt"
	"os"
	"runtime/debug"
	"sort"
	"strconv"
	"time"
)

type propCheck struct {
	explanation string
	run         func(c *Ctx)
}

var registry = map[string]*propCheck{}

func register(id, explanation string, run func(c *Ctx)) {
	registry[id] = &propCheck{explanation, run}
}

func main() {
	var (
		prop   = flag.String("property", "", "property id (C01…), or 'all'")
		tier   = flag.String("tier", "quick", "quick|thorough")
		repo   = flag.String("repo", "/repo", "tree to analyse")
		verif  = flag.String("verif", "/verif", "where evidence/ and known_findings.json live")
		replay = flag.String("replay", "", "violation file to re-derive")
		goarch = flag.String("goarch", "", "GOARCH for the load (thorough tier repeats with 386)")
		list   = flag.Bool("list", false, "list registered properties")
	)
	flag.Parse()
	if *list {
		var ids []string
		for id := range registry {
			ids = append(ids, id)
		}
		sort.Strings(ids)
		for _, id := range ids {
			fmt.Println(id)
		}
		return
	}
	replayKey := ""
	if *replay != "" {
		b, err := os.ReadFile(*replay)
		if err != nil {
			fmt.Println("UNRESOLVED cannot read replay file:", err)
			os.Exit(2)
		}
		var v struct {
			Property   string     `json:"property"`
			Tier       string     `json:"tier"`
			Obligation Obligation `json:"obligation"`
		}
		if err := json.Unmarshal(b, &v); err != nil {
			fmt.Println("UNRESOLVED bad replay file:", err)
			os.Exit(2)
		}
		*prop, *tier = v.Property, v.Tier
		replayKey = v.Obligation.Rule + "|" + v.Obligation.Key
	}
	seed, _ := strconv.Atoi(os.Getenv("VERIF_SEED"))
	start := time.Now()
	var ids []string
	if *prop == "all" {
		for id := range registry {
			ids = append(ids, id)
		}
		sort.Strings(ids)
	} else if registry[*prop] != nil {
		ids = []string{*prop}
	} else {
		fmt.Printf("UNRESOLVED no check registered for property %q\n", *prop)
		os.Exit(2)
	}
	p, err := loadProgram(*repo, *goarch)
	if err != nil {
		fmt.Printf("UNRESOLVED cannot analyse %s: %v\n", *repo, err)
		os.Exit(2)
	}
	worst := 0
	for _, id := range ids {
		t0 := time.Now()
		if len(ids) == 1 {
			t0 = start
		}
		code := runOne(p, id, *tier, *verif, t0, seed, replayKey)
		if code == 1 || (code == 2 && worst == 0) {
			worst = code
		}
	}
	os.Exit(worst)
}

func runOne(p *Program, id, tier, verif string, start time.Time, seed int, replayKey string) (code int) {
	c := newCtx(p, id, tier)
	c.explanation = registry[id].explanation
	defer func() {
		if r := recover(); r != nil {
			fmt.Printf("UNRESOLVED property=%s checker panic: %v\n%s\n", id, r, debug.Stack())
			code = 2
		}
	}()
	registry[id].run(c)
	if replayKey != "" {
		for _, o := range c.obs {
			if o.Rule+"|"+o.Key == replayKey {
				fmt.Printf("replay %s: %s %s at %s: %s\n", id, o.Rule, o.Key, o.Pos, o.Status)
				fmt.Printf("  %s\n", o.Detail)
				if o.status == Violated {
					return 1
				}
				return 0
			}
		}
		fmt.Printf("replay %s: obligation %s no longer exists on this tree\n", id, replayKey)
		return 0
	}
	return c.finish(verif, start, seed, nil)
}
