package main

import (
	"fmt"
	"go/constant"
	"go/token"
	"go/types"
	"sort"
	"strings"

	"golang.org/x/tools/go/ssa"
)

func init() {
	register("C17", "Decided: (a) on every path from the STARTTLS OK to a nil return, the server re-seats its buffered reader and writer on a stream derived only from the new TLS connection (bufio.Reader.Reset discards what was buffered) and installs that connection; the client does the same in upgradeStartTLS; bytes read in plaintext before the switch can therefore reach only the TLS layer; (b) the server keeps the write lock from before the OK until after the switch; (c) the client upgrades only after the tagged OK line of a STARTTLS command was completely consumed and the command succeeded; (d) NewStartTLS returns a client only on the State()==NotAuthenticated edge and closes it otherwise; (e) AUTH= capabilities are offered only on the true edge of canAuth and LOGINDISABLED only on its false edge, STARTTLS only on the true edge of canStartTLS, whose truth table (TLSConfig x state x TLS) is evaluated exhaustively; handleStartTLS answers OK only on that edge. Not decided: behaviour of crypto/tls.", checkC17)
}

// derivesOnlyFromTLS: v is the result of tls.Server/tls.Client, or a wrapper
// of such a value built by the module's wrapReadWriter / interface conversion.
func derivesOnlyFromTLS(v ssa.Value, seen map[ssa.Value]bool) (bool, string) {
	if seen[v] {
		return true, ""
	}
	seen[v] = true
	switch x := v.(type) {
	case *ssa.Call:
		obj := calleeObj(x)
		if obj != nil && obj.Pkg() != nil && obj.Pkg().Path() == "crypto/tls" && (obj.Name() == "Server" || obj.Name() == "Client") {
			return true, "tls." + obj.Name()
		}
		if obj != nil && obj.Name() == "wrapReadWriter" && inModule(staticCallee(x)) {
			args := x.Call.Args
			return derivesOnlyFromTLS(args[len(args)-1], seen)
		}
		return false, "result of " + callKey(x)
	case *ssa.MakeInterface:
		return derivesOnlyFromTLS(x.X, seen)
	case *ssa.ChangeInterface:
		return derivesOnlyFromTLS(x.X, seen)
	case *ssa.ChangeType:
		return derivesOnlyFromTLS(x.X, seen)
	case *ssa.Phi:
		for _, e := range x.Edges {
			if ok, why := derivesOnlyFromTLS(e, seen); !ok {
				return false, why
			}
		}
		return true, "tls"
	}
	return false, fmt.Sprintf("%T %s", v, v.String())
}

// checkWrapReadWriter: the module's wrapReadWriter returns its argument or a
// pair of tee/multi wrappers around it — never another source of bytes.
func checkWrapReadWriter(c *Ctx, rule string, pkgSuffix string) {
	fn := c.P.Func(pkgSuffix, "Options", "wrapReadWriter")
	if fn == nil {
		c.unresolvedRoot(pkgSuffix + ".Options.wrapReadWriter")
		return
	}
	rw := fn.Params[len(fn.Params)-1]
	ok := true
	allInstrs(fn, func(i ssa.Instruction) {
		call, isCall := i.(*ssa.Call)
		if !isCall {
			return
		}
		obj := calleeObj(call)
		if obj == nil || obj.Pkg() == nil || obj.Pkg().Path() != "io" {
			return
		}
		switch obj.Name() {
		case "TeeReader":
			if mi, isMI := call.Call.Args[0].(*ssa.ChangeInterface); isMI {
				if mi.X != ssa.Value(rw) {
					ok = false
				}
			} else if call.Call.Args[0] != ssa.Value(rw) {
				ok = false
			}
		case "MultiWriter":
			// writers only
		default:
			ok = false
		}
	})
	c.check(ok, rule, pkgSuffix+".wrapReadWriter reads only from its argument", fn.Pos(), "returns its argument or tee/multi wrappers around it", "wrapReadWriter mixes another byte source into the connection's reader")
}

func checkC17(c *Ctx) {
	p := c.P
	c.rule("C17.a", "after STARTTLS the buffered reader/writer are re-seated on the TLS stream only, on every path", 7)
	c.rule("C17.b", "server keeps the write lock across the switch", 1)
	c.rule("C17.c", "client upgrades only after the complete tagged OK of a successful STARTTLS", 2)
	c.rule("C17.d", "NewStartTLS refuses a pre-authenticated greeting", 2)
	c.rule("C17.e", "one predicate for offering and accepting: AUTH=/LOGINDISABLED/STARTTLS tied to canAuth/canStartTLS", 24)

	// ---- server side (a), (b) ----------------------------------------------
	hs := p.Func("imapserver", "Conn", "handleStartTLS")
	if hs == nil {
		c.unresolvedRoot("(*Conn).handleStartTLS")
	} else {
		checkWrapReadWriter(c, "C17.a", "imapserver")
		tw := taggedWriters(p)
		var okWrite *ssa.Call
		allInstrs(hs, func(i ssa.Instruction) {
			if call, ok := i.(*ssa.Call); ok {
				if _, is := tw[staticCallee(call)]; is {
					okWrite = call
				}
			}
		})
		gf := mustFlow(hs, facts{}, func(f facts, i ssa.Instruction) facts {
			switch x := i.(type) {
			case *ssa.Call:
				obj := calleeObj(x)
				if isExtMethod(obj, "bufio", "Reader", "Reset") || isExtMethod(obj, "bufio", "Writer", "Reset") {
					which := "br"
					if recvNamed(obj).Obj().Name() == "Writer" {
						which = "bw"
					}
					if r, ok := loadedField(x.Call.Args[0]); ok && r.is("Conn", which) {
						if ok, _ := derivesOnlyFromTLS(x.Call.Args[1], map[ssa.Value]bool{}); ok {
							return f.with("reset:" + which)
						}
						return f.with("badreset:" + which)
					}
				}
			case *ssa.Store:
				if r, ok := fieldOf(x.Addr); ok && r.is("Conn", "conn") {
					if ok, _ := derivesOnlyFromTLS(x.Val, map[ssa.Value]bool{}); ok {
						return f.with("conn=tls")
					}
				}
				if r, ok := fieldOf(x.Addr); ok && r.is("Conn", "state") {
					if k, ok := stateOfConst(x.Val); ok && k == stLogout {
						return f.with("terminated")
					}
				}
			}
			return f
		}, func(f facts, b *ssa.BasicBlock, s int) facts { return f.with(valueEdgeFacts(b, s)...) })
		if okWrite == nil {
			c.unresolvedRoot("tagged OK in handleStartTLS")
		} else {
			fs, _ := gf.at(okWrite)
			c.check(fs.has("ok:(*Conn).canStartTLS"), "C17.e", "handleStartTLS: OK only when canStartTLS", okWrite.Pos(),
				"the OK is written on the true edge of canStartTLS()", "STARTTLS is accepted without canStartTLS() being true (e.g. on an already encrypted or authenticated connection)")
			n := 0
			for _, ret := range returnsOf(hs) {
				if !reaches(okWrite.Block(), ret.Block()) {
					continue
				}
				fs, reach := gf.at(ret)
				if !reach {
					continue
				}
				cls := classifyErr(ret.Results[0], fs, nil, map[ssa.Value]bool{})
				if cls != errNil {
					continue // the write of the OK failed: connection is dead
				}
				n++
				key := fmt.Sprintf("handleStartTLS:success return#%d", n)
				for _, want := range []string{"reset:br", "reset:bw", "conn=tls"} {
					detail := map[string]string{
						"reset:br": "the buffered reader is not re-seated on the TLS stream: plaintext that was buffered before the handshake is parsed as commands of the 'encrypted' session",
						"reset:bw": "the buffered writer is not re-seated on the TLS stream: responses are written in cleartext after STARTTLS",
						"conn=tls": "Conn.conn is not replaced by the TLS connection: canAuth keeps treating the link as plaintext or as TLS wrongly",
					}[want]
					if fs.has("bad" + want) {
						detail = "the stream given to Reset is not derived from the TLS connection alone: previously buffered plaintext is fed to the IMAP parser above the TLS layer"
					}
					c.check(fs.has(want), "C17.a", key+":"+want, ret.Pos(), "established on every path to this return", detail)
				}
			}
			if n == 0 {
				c.unresolvedRoot("successful return of handleStartTLS")
			}
			// once Conn.conn is the TLS connection, no return (error returns
			// included) may leave the buffered reader/writer on the plaintext
			// stream unless the connection is being terminated
			k := 0
			for _, ret := range returnsOf(hs) {
				fs, reach := gf.at(ret)
				if !reach || !fs.has("conn=tls") {
					continue
				}
				k++
				c.check(fs.has("reset:br") && fs.has("reset:bw") || fs.has("terminated"), "C17.a", fmt.Sprintf("handleStartTLS:return#%d after conn=tls", k), ret.Pos(),
					"reader and writer are re-seated whenever the connection is marked as TLS", "a return leaves Conn.conn set to the TLS connection while the IMAP reader/writer still use the plaintext stream: canAuth() treats further plaintext commands as protected")
			}
		}
		// (b) lock held across the switch: the encoder is acquired before the OK and ended only by defer
		newEnc := p.Func("imapserver", "", "newResponseEncoder")
		end := p.Func("imapserver", "responseEncoder", "end")
		var acquired, deferredEnd, directEnd bool
		allInstrs(hs, func(i ssa.Instruction) {
			switch x := i.(type) {
			case *ssa.Call:
				if staticCallee(x) == newEnc && okWrite != nil && precedes(x, okWrite) {
					acquired = true
				}
				if staticCallee(x) == end {
					directEnd = true
				}
			case *ssa.Defer:
				if staticCallee(x) == end {
					deferredEnd = true
				}
			}
		})
		c.check(acquired && deferredEnd && !directEnd, "C17.b", "handleStartTLS: write lock held until return", hs.Pos(),
			"the response encoder is acquired before the OK and released only by the deferred end()", "the write lock is released before the TLS switch completes: another goroutine can write cleartext after the OK")
	}

	// ---- client side (a), (c) ----------------------------------------------
	up := p.Func("imapclient", "Client", "upgradeStartTLS")
	if up == nil {
		c.unresolvedRoot("(*Client).upgradeStartTLS")
	} else {
		checkWrapReadWriter(c, "C17.a", "imapclient")
		var resetOK, bwOK bool
		var why string
		allInstrs(up, func(i ssa.Instruction) {
			switch x := i.(type) {
			case *ssa.Call:
				if isExtMethod(calleeObj(x), "bufio", "Reader", "Reset") {
					if r, ok := loadedField(x.Call.Args[0]); ok && r.is("Client", "br") {
						resetOK, why = derivesOnlyFromTLS(x.Call.Args[1], map[ssa.Value]bool{})
					}
				}
			case *ssa.Store:
				if r, ok := fieldOf(x.Addr); ok && r.is("Client", "bw") {
					if call, ok := x.Val.(*ssa.Call); ok && calleeObj(call) != nil && calleeObj(call).Name() == "NewWriter" {
						bwOK, _ = derivesOnlyFromTLS(call.Call.Args[0], map[ssa.Value]bool{})
					}
				}
			}
		})
		// both unconditional: single path function
		c.check(resetOK, "C17.a", "upgradeStartTLS: reader re-seated on TLS", up.Pos(), "c.br.Reset(stream derived only from tls.Client)", "the client's buffered reader is not re-seated on the TLS stream alone ("+why+"): plaintext injected after the STARTTLS OK is parsed as server responses")
		c.check(bwOK, "C17.a", "upgradeStartTLS: writer re-seated on TLS", up.Pos(), "c.bw replaced by a writer on the TLS stream", "the client's writer is not replaced by one on the TLS stream")
		// call site
		rr := p.Func("imapclient", "Client", "readResponse")
		if rr != nil {
			n := 0
			inReader := map[*ssa.Function]bool{}
			// readResponse and its private helpers (the hand-over extracted into
			// a function of its own keeps the facts of its call site)
			for _, g := range helperClosure(rr, 2) {
				if g.Parent() != nil {
					continue
				}
				inReader[g] = true
				g := g
				gf := gateFlow(g, facts{})
				allInstrs(g, func(i ssa.Instruction) {
					if call, ok := i.(*ssa.Call); ok && staticCallee(call) == up {
						n++
						fs, _ := gf.at(call)
						c.check(fs.has("ok:(*Decoder).ExpectCRLF"), "C17.c", "readResponse→upgradeStartTLS", call.Pos(),
							"the upgrade happens after the CRLF of the tagged OK was consumed", "the TLS upgrade starts before the response line is complete: the rest of the plaintext line is handed to TLS or parsed later")
					}
				})
			}
			for _, fn := range p.SrcFuncs("imapclient") {
				if inReader[fn] {
					continue
				}
				allInstrs(fn, func(i ssa.Instruction) {
					if call, ok := i.(ssa.CallInstruction); ok && staticCallee(call) == up {
						c.fail("C17.c", fnKey(fn)+"→upgradeStartTLS", i.Pos(), "upgradeStartTLS is called outside the reader's response loop")
					}
				})
			}
			if n == 0 {
				c.unresolvedRoot("call of upgradeStartTLS in readResponse")
			}
		}
		// the command handed to the upgrade: non-nil only when the STARTTLS command succeeded
		rt := p.Func("imapclient", "Client", "readResponseTagged")
		if rt != nil {
			gf := mustFlow(rt, facts{}, nil, func(f facts, b *ssa.BasicBlock, s int) facts {
				add := valueEdgeFacts(b, s)
				for _, a := range edgeAtoms(b, s) {
					if a.Nil == 1 && isErrorType(a.V.Type()) {
						add = append(add, "some-error-nil")
					}
				}
				return f.with(add...)
			})
			n := 0
			allInstrs(rt, func(i ssa.Instruction) {
				st, ok := i.(*ssa.Store)
				if !ok {
					return
				}
				al, ok := st.Addr.(*ssa.Alloc)
				if !ok || isNilConst(st.Val) {
					return
				}
				if ld, ok := st.Val.(*ssa.UnOp); ok && ld.X == ssa.Value(al) {
					return // `return startTLS, nil` re-stores the result variable into itself
				}
				pt, ok := al.Type().(*types.Pointer)
				if !ok {
					return
				}
				if pp, ok := pt.Elem().(*types.Pointer); ok {
					if nn, ok := pp.Elem().(*types.Named); ok && nn.Obj().Name() == "startTLSCommand" {
						n++
						fs, _ := gf.at(st)
						c.check(fs.has("some-error-nil"), "C17.c", fmt.Sprintf("readResponseTagged: startTLS result set#%d", n), st.Pos(),
							"set only on the edge where the command's error is nil", "the upgrade is requested although the STARTTLS command did not succeed")
					}
				}
			})
			if n == 0 {
				c.unresolvedRoot("startTLS result of readResponseTagged")
			}
		}
	}

	// ---- (d) ---------------------------------------------------------------
	// every function that upgrades a fresh client with startTLS and hands the
	// client out (NewStartTLS today; any other entry point that would call
	// startTLS itself tomorrow)
	startTLS := p.Func("imapclient", "Client", "startTLS")
	if startTLS == nil {
		c.unresolvedRoot("(*Client).startTLS")
	} else {
		owners := map[*ssa.Function]bool{}
		for _, site := range callSitesOf(p, startTLS) {
			f := site.Parent()
			for f.Parent() != nil {
				f = f.Parent()
			}
			owners[f] = true
		}
		n := 0
		var names []*ssa.Function
		for f := range owners {
			names = append(names, f)
		}
		sort.Slice(names, func(i, j int) bool { return fnKey(names[i]) < fnKey(names[j]) })
		for _, ns := range names {
			res := ns.Signature.Results()
			if res.Len() == 0 || !strings.HasSuffix(res.At(0).Type().String(), "imapclient.Client") {
				continue // does not hand out a client
			}
			name := fnKey(ns)
			gf := mustFlow(ns, facts{}, func(f facts, i ssa.Instruction) facts {
				if call, ok := i.(ssa.CallInstruction); ok && callKey(call) == "(*Client).Close" {
					return f.with("closed")
				}
				return f
			}, func(f facts, b *ssa.BasicBlock, s int) facts { return f.with(valueEdgeFacts(b, s)...) })
			for _, ret := range returnsOf(ns) {
				fs, reach := gf.at(ret)
				if !reach {
					continue
				}
				if isNilConst(unspill(ret.Results[0])) {
					// refusing paths after the greeting was seen must close the client
					if fs.has("cmp:(*Client).State!=1") {
						n++
						c.check(fs.has("closed"), "C17.d", name+": PREAUTH path closes the client", ret.Pos(), "client closed before the error is returned", "the pre-authenticated client is abandoned without being closed")
					}
					continue
				}
				n++
				// the state that is inspected must be the state *after* the upgrade:
				// what arrives in plaintext between the greeting and the tagged OK
				// of STARTTLS (an injected [CLOSED], a second greeting) must not
				// survive the check
				stateAfter := false
				allInstrs(ns, func(j ssa.Instruction) {
					if call, ok := j.(*ssa.Call); ok && callKey(call) == "(*Client).State" {
						if f2, ok := gf.at(call); ok && f2.has("ok:(*Client).startTLS") {
							stateAfter = true
						}
					}
				})
				c.check(stateAfter, "C17.d", name+": state inspected after the upgrade", ret.Pos(), "State() is called on the success edge of startTLS", name+" checks the client's state before the STARTTLS exchange: plaintext injected between the greeting and the tagged OK can still leave the upgraded client authenticated")
				c.check(fs.has("cmp:(*Client).State==1") && fs.has("ok:(*Client).startTLS"), "C17.d", name+": client returned only when NotAuthenticated", ret.Pos(),
					"a client is returned only after startTLS succeeded and State() == NotAuthenticated", name+" hands out a client whose greeting was PREAUTH (authentication happened before TLS) or whose upgrade failed")
			}
		}
		if n < 2 {
			c.unresolvedRoot("return paths of the functions that upgrade a client with startTLS")
		}
	}

	// the state NewStartTLS inspects must be the greeting's: NotAuthenticated is
	// written only by the greeting and by a successful UNAUTHENTICATE
	ruleNotAuthWrites(c, "C17.d")

	// ---- (e) ---------------------------------------------------------------
	ruleOfferPredicates(c, "C17.e")
	ruleGreetingAfterStateInit(c, "C17.e")
	c.rule("C17.f", "capabilities learnt in plaintext are discarded by a successful STARTTLS", 2)
	ruleCapsInvalidation(c, "C17.f", []string{"startTLSCommand"})
	c.rule("C17.g", "the STARTTLS caller is released only after the connection has been switched to TLS", 1)
	ruleUpgradeBeforeRelease(c, "C17.g")
	c.checkCanAuthAs("C17.e")
	ruleCredentialsGated(c, "C17.e")
}

// ruleNotAuthWrites: every write of ConnStateNotAuthenticated into
// Client.state (directly or through setState) is either the handling of the
// greeting or the completion of an UNAUTHENTICATE command.
func ruleNotAuthWrites(c *Ctx, rule string) {
	p := c.P
	setState := p.Func("imapclient", "Client", "setState")
	n := 0
	for _, fn := range p.SrcFuncs("imapclient") {
		var gf *mustResult
		allInstrs(fn, func(i ssa.Instruction) {
			isWrite := false
			switch x := i.(type) {
			case *ssa.Store:
				if r, ok := fieldOf(x.Addr); ok && r.is("Client", "state") {
					if k, ok := stateOfConst(x.Val); ok && k == stNotAuth {
						isWrite = true
					}
				}
			case *ssa.Call:
				if setState != nil && staticCallee(x) == setState {
					if k, ok := stateOfConst(x.Call.Args[1]); ok && k == stNotAuth {
						isWrite = true
					}
				}
			}
			if !isWrite {
				return
			}
			n++
			if gf == nil {
				gf = mustFlow(fn, facts{}, nil, func(f facts, b *ssa.BasicBlock, s int) facts {
					add := valueEdgeFacts(b, s)
					for _, a := range edgeAtoms(b, s) {
						if r, ok := loadedField(a.V); ok && r.is("Client", "greetingRecv") && a.True == -1 {
							add = append(add, "greeting-pending")
						}
					}
					return f.with(add...)
				})
			}
			fs, _ := gf.at(i)
			key := fmt.Sprintf("%s:state=NotAuthenticated#%d", fnKey(fn), countKey(c, rule, fnKey(fn)+":state=NotAuthenticated#")+1)
			okSite := fs.has("greeting-pending") || fnKey(fn) == "(*Client).completeCommand"
			if cc := p.Func("imapclient", "Client", "completeCommand"); cc != nil && isHelperOf(fn, cc, 2) {
				okSite = true // the completion effects extracted into a helper of completeCommand
			}
			c.check(okSite, rule, key, i.Pos(), "written while handling the greeting or on completion of a command",
				"the client resets its state to NotAuthenticated outside the greeting/UNAUTHENTICATE handling: a PREAUTH greeting is forgotten and NewStartTLS no longer refuses it")
		})
	}
	if n == 0 {
		c.unresolvedRoot("writes of NotAuthenticated to Client.state")
	}
}

func ruleOfferPredicates(c *Ctx, rule string) {
	p := c.P
	ac := p.Func("imapserver", "Conn", "availableCaps")
	if ac == nil {
		c.unresolvedRoot("(*Conn).availableCaps")
		return
	}
	seen := map[string]bool{}
	for _, hf := range helperClosure(ac, 2) {
		hf := hf
		gf := gateFlow(hf, facts{})
		if hf.Parent() != nil {
			gf = nil
		}
		df := deepFlowOf(hf)
		allInstrs(hf, func(i ssa.Instruction) {
			for _, op := range i.Operands(nil) {
				k, ok := (*op).(*ssa.Const)
				if !ok || k.Value == nil || k.Value.Kind() != constant.String {
					continue
				}
				s := constant.StringVal(k.Value)
				var fs facts
				if gf != nil {
					fs, _ = gf.at(i)
				} else {
					fs, _ = df.at(i)
				}
				if fs == nil {
					fs = facts{}
				}
				where := fnKey(hf)
				switch {
				case s == "AUTH=":
					seen["AUTH="] = true
					c.check(fs.has("ok:(*Conn).canAuth"), rule, "availableCaps: AUTH= mechanisms", i.Pos(), "advertised only on the true edge of canAuth() (in "+where+")", "authentication mechanisms are advertised where canAuth() is false: the server offers credentials exchange on a link where it must refuse it")
				case s == "LOGINDISABLED":
					seen["LOGINDISABLED"] = true
					c.check(fs.has("fail:(*Conn).canAuth"), rule, "availableCaps: LOGINDISABLED", i.Pos(), "advertised only on the false edge of canAuth() (in "+where+")", "LOGINDISABLED is not tied to canAuth() being false")
					// …and whenever it is false before authentication: no further condition
					var foreign []string
					pd := postDominators(hf)
					for x := range transitiveDeps(hf, pd, i.Block()) {
						ifi, isIf := x.Instrs[len(x.Instrs)-1].(*ssa.If)
						if !isIf {
							continue
						}
						okCond := true
						for _, a := range atomsOf(ifi.Cond, true) {
							if call, ok := a.V.(*ssa.Call); ok {
								if k := callKey(call); k == "(*Conn).canAuth" || strings.HasSuffix(k, ".Has") {
									continue
								}
								okCond = false
								foreign = append(foreign, callKey(call))
								continue
							}
							if r, ok := loadedField(a.V); ok && r.is("Conn", "state") {
								continue
							}
							if _, isPhi := a.V.(*ssa.Phi); isPhi {
								continue
							}
							okCond = false
							foreign = append(foreign, a.V.String())
						}
						_ = okCond
					}
					c.check(len(foreign) == 0, rule, "availableCaps: LOGINDISABLED whenever LOGIN is refused", instrPos(i), "depends on canAuth() and the connection state only",
						"LOGINDISABLED is advertised only under a further condition ("+strings.Join(uniq(foreign), ", ")+"): in the other case the server refuses LOGIN without having said so, i.e. it implicitly offers credentials on an unencrypted link")
				case s == "STARTTLS":
					seen["STARTTLS"] = true
					c.check(fs.has("ok:(*Conn).canStartTLS"), rule, "availableCaps: STARTTLS", i.Pos(), "advertised only on the true edge of canStartTLS() (in "+where+")", "STARTTLS is advertised where canStartTLS() is false")
				}
			}
		})
	}
	for _, k := range []string{"AUTH=", "LOGINDISABLED", "STARTTLS"} {
		if !seen[k] {
			c.unresolvedRoot("the capability string " + k + " in availableCaps and its helpers")
		}
	}
	// canStartTLS truth table
	fn := p.Func("imapserver", "Conn", "canStartTLS")
	if fn == nil {
		c.unresolvedRoot("(*Conn).canStartTLS")
		return
	}
	obj := fn.Object().(*types.Func)
	for _, cfg := range []bool{false, true} {
		for st := 0; st < 5; st++ {
			for _, isTLS := range []bool{false, true} {
				in := &Interp{P: p}
				in.Input = func(path string, t types.Type) (Val, bool) {
					switch path {
					case "c.state":
						return mkInt(int64(st)), true
					case "c.conn.(*tls.Conn)":
						return mkBool(isTLS), true
					case "c.server.options.TLSConfig":
						if cfg {
							return ptrV{&objV{fields: map[string]Val{}, path: "tlsconfig"}}, true
						}
						return nilV{}, true
					}
					return nil, false
				}
				v, err := in.Eval(obj, ptrV{&objV{path: "c", fields: map[string]Val{}}}, nil)
				key := fmt.Sprintf("canStartTLS[TLSConfig=%v,state=%s,tls=%v]", cfg, stateNames[st], isTLS)
				c.evals++
				if err != nil {
					c.undecided(rule, key, fn.Pos(), err.Error())
					continue
				}
				got, _ := valBool(v)
				want := cfg && st == 1 && !isTLS
				c.check(got == want, rule, key, fn.Pos(), fmt.Sprintf("→ %v", got), fmt.Sprintf("→ %v, expected %v (STARTTLS only with a TLS configuration, before authentication, on a plaintext link)", got, want))
			}
		}
	}
	_ = token.NoPos
	_ = strings.Join
}
