package main

import (
	"fmt"
	"go/token"
	"go/types"
	"sort"
	"strings"

	"golang.org/x/tools/go/ssa"
)

func init() {
	register("C13", "Decided: (a) static lockset: every access to a mutex-guarded field of Client (the fields laid out under `mutex` in the struct) from every goroutine root — all exported entry points, the reader goroutine and every other go statement — holds Client.mutex on the same client, is on a not-yet-shared object, or is a read whose field is only ever written by the single reader goroutine it runs on; (b) publication: once a command is inserted into the shared pending list, no unlocked store through it follows; (c) every beginCommand (which takes the encoder lock) is ended on all paths or handed to a command object whose Close ends it; (d) a command leaves the pending list only together with exactly one completion, whose done channel is buffered; tags come from a counter incremented under the mutex. Not decided: liveness under every schedule.", checkC13)
}

func exportedRoots(p *Program, pkgSuffix string) []*ssa.Function {
	var out []*ssa.Function
	for _, fn := range p.SrcFuncs(pkgSuffix) {
		if fn.Parent() != nil {
			continue
		}
		obj, _ := fn.Object().(*types.Func)
		if obj == nil || !obj.Exported() {
			continue
		}
		if n := recvNamed(obj); n != nil && !n.Obj().Exported() {
			// methods of unexported types can still be reached through interfaces; keep them as roots too
		}
		out = append(out, fn)
	}
	return out
}

func goTargets(p *Program, pkgSuffixes ...string) []*ssa.Function {
	var out []*ssa.Function
	for _, fn := range p.SrcFuncs(pkgSuffixes...) {
		allInstrs(fn, func(i ssa.Instruction) {
			if g, ok := i.(*ssa.Go); ok {
				if mc, ok := g.Call.Value.(*ssa.MakeClosure); ok {
					out = append(out, mc.Fn.(*ssa.Function))
				} else if cal := g.Call.StaticCallee(); cal != nil {
					out = append(out, cal)
				}
			}
		})
	}
	return out
}

// layeringCut implements the layering lemma: a server-side function never
// calls into imapclient and vice versa (the context-insensitive call graph
// joins them through the function-valued field Encoder.NewContinuationRequest).
func layeringCut(c *Ctx, rule string) func(caller, callee *ssa.Function) bool {
	p := c.P
	imports := func(pkgSuffix, target string) bool {
		pk := p.Pkgs[modPath+"/"+pkgSuffix]
		for path := range pk.Imports {
			if path == modPath+"/"+target {
				return true
			}
		}
		return false
	}
	okLayer := !imports("imapserver", "imapclient") && !imports("imapserver/imapmemserver", "imapclient") && !imports("internal/imapwire", "imapclient") &&
		!imports("imapclient", "imapserver") && !imports("imapclient", "imapserver/imapmemserver")
	// the callback field is assigned only in imapclient
	assignedElsewhere := ""
	for _, fn := range p.SrcFuncs() {
		allInstrs(fn, func(i ssa.Instruction) {
			if st, ok := i.(*ssa.Store); ok {
				if r, ok := fieldOf(st.Addr); ok && r.is("Encoder", "NewContinuationRequest") && pkgPathOf(fn) != modPath+"/imapclient" {
					assignedElsewhere = fnKey(fn)
				}
			}
		})
	}
	c.check(okLayer && assignedElsewhere == "", rule, "layering: client and server never call each other", token.NoPos,
		"imapserver/imapmemserver/imapwire do not import imapclient (nor the reverse) and Encoder.NewContinuationRequest is assigned only in imapclient: call edges between the two sides are artefacts of the context-insensitive call graph",
		"the client/server layering assumption used to prune the call graph no longer holds ("+assignedElsewhere+")")
	side := func(f *ssa.Function) string {
		switch pkgPathOf(f) {
		case modPath + "/imapclient":
			return "client"
		case modPath + "/imapserver", modPath + "/imapserver/imapmemserver", modPath + "/cmd/imapmemserver":
			return "server"
		}
		return ""
	}
	return func(caller, callee *ssa.Function) bool {
		a, b := side(caller), side(callee)
		if a != "" && b != "" && a != b {
			return true
		}
		return false
	}
}

func checkC13(c *Ctx) {
	p := c.P
	c.rule("C13.a", "lockset: guarded Client fields accessed only under Client.mutex (or unshared / reader-goroutine-confined reads)", 60)
	c.rule("C13.b", "publication: no unlocked store through a command after it entered the pending list", 1)
	c.rule("C13.c", "every beginCommand is ended on all paths or transferred to a command whose Close ends it", 35)
	c.rule("C13.d", "pending-list removal paired with exactly one completion; done channel buffered; tag counter under the mutex", 5)
	c.rule("C13.L", "layering lemma used to prune the call graph", 1)
	c.assume("fields are matched by type and access path; one Client object per analysis context (sound for races inside one client)")
	c.assume("callers honour the documented contract for streaming commands")

	cut := layeringCut(c, "C13.L")
	read := p.Func("imapclient", "Client", "read")
	if read == nil {
		c.unresolvedRoot("(*Client).read")
		return
	}
	roots := append(exportedRoots(p, "imapclient"), goTargets(p, "imapclient")...)
	la := newLockAnalysis(p, roots, cut)
	guards := guardedFields(p, "imapclient")
	client := p.Named("imapclient", "Client")
	var clientGuard *guardInfo
	for v, g := range guards {
		if g.owner == client {
			clientGuard = g
		} else {
			delete(guards, v)
		}
	}
	if clientGuard == nil || len(clientGuard.fields) < 8 {
		c.unresolvedRoot("fields of Client guarded by its mutex (struct layout convention)")
		return
	}
	sort.Strings(clientGuard.fieldList)
	c.note("guarded fields of Client (laid out under %s): %s", clientGuard.class, strings.Join(clientGuard.fieldList, ", "))

	// goroutine contexts: which roots reach a function
	readReach := la.g.reachable(read)
	var otherRoots []*ssa.Function
	for _, r := range roots {
		if r != read {
			otherRoots = append(otherRoots, r)
		}
	}
	otherReach := la.g.reachable(otherRoots...)
	readerOnly := func(f *ssa.Function) bool { return readReach[f] && !otherReach[f] }

	acc := la.accesses(guards)
	writesOutsideReader := map[*types.Var]bool{}
	for _, a := range acc {
		if a.write && !readerOnly(a.fn) {
			writesOutsideReader[a.field] = true
		}
	}
	counts := map[string]int{}
	for _, a := range acc {
		base := pathOf(a.base)
		rw := "read"
		if a.write {
			rw = "write"
		}
		k := fmt.Sprintf("%s:%s %s", fnKey(a.fn), rw, a.field.Name())
		counts[k]++
		key := fmt.Sprintf("%s#%d", k, counts[k])
		held := a.held
		want := base + "." + clientGuard.mutex.Name()
		switch {
		case base != "" && held[want] == clientGuard.class:
			c.ok("C13.a", key, a.ins.Pos(), "holds "+want)
		case base == "" && held.hasClass(clientGuard.class):
			c.ok("C13.a", key, a.ins.Pos(), "holds "+clientGuard.class+" (instance not resolvable)")
		case held.hasClass(clientGuard.class) && held["~"+clientGuard.class] != "":
			c.ok("C13.a", key, a.ins.Pos(), "holds "+clientGuard.class+" (held by every caller)")
		case isFreshLocal(a.base) || a.held["~fresh"] != "":
			c.okTrivial("C13.a", key, a.ins.Pos(), "object under construction, not yet shared")
		case !a.write && readerOnly(a.fn) && !writesOutsideReader[a.field]:
			c.ok("C13.a", key, a.ins.Pos(), "unlocked read on the reader goroutine of a field only ever written by the reader goroutine")
		default:
			c.fail("C13.a", key, a.ins.Pos(), fmt.Sprintf("%s of Client.%s without Client.mutex (held: %s): data race with the accesses that do lock", rw, a.field.Name(), held))
		}
	}

	c.rule("C13.e", "the mailbox snapshot handed out by Mailbox() is never mutated: every store through Client.mailbox follows a copy in the same critical section", 4)
	ruleSnapshotCopyOnWrite(c, "C13.e")
	c.rule("C13.f", "continuation requests are matched first-in first-out", 2)
	ruleContReqFIFO(c, "C13.f")
	c.rule("C13.g", "the pending list is taken (snapshot + emptied) in one critical section", 1)
	ruleTakeListAtomically(c, "C13.g")
	c.rule("C13.h", "every mutex taken in a function is released on every exit (or held at all exits: transfer wrapper)", 30)
	ruleBalancedLocks(c, "C13.h", "imapclient")
	c.rule("C13.i", "no blocking channel operation while Client.mutex is held", 1)
	ruleNoBlockingUnderClientMutex(c, "C13.i", la)
	c.rule("C13.j", "a failed command flush closes the client (a command submitted while the connection goes down is completed)", 1)
	ruleFlushCloses(c, "C13.j", p.Func("imapclient", "commandEncoder", "flush"), p.Func("imapclient", "Client", "closeWithError"))
	c.rule("C13.k", "a continuation request is registered before the bytes that provoke it are flushed", 3)
	ruleRegisterBeforeFlush(c, "C13.k")
	c.rule("C13.l", "a reference loaded from a guarded map/slice field of Client is used only while the mutex is held", 3)
	ruleGuardedRefEscapes(c, "C13.l", la, guards, "imapclient")
	c.rule("C13.m", "closeWithError closes the connection, takes the whole pending list and completes each command on every path", 2)
	if cwe13, cc13 := p.Func("imapclient", "Client", "closeWithError"), p.Func("imapclient", "Client", "completeCommand"); cwe13 != nil && cc13 != nil {
		ruleTeardownTakesAll(c, "C13.m", cwe13, cc13)
	} else {
		c.unresolvedRoot("(*Client).closeWithError / completeCommand")
	}
	c.rule("C13.n", "one-shot channel closes in types with an atomic flag are guarded by the flag's atomic test-and-set", 1)
	ruleAtomicGuardedClose(c, "C13.n", "imapclient")
	c.rule("C13.o", "a command object releases the encoder it owns at most once (non-nil guard, reset after end)", 1)
	ruleEncoderEndOnce(c, "C13.o")
	rulePublication(c, "C13.b", la, guards, clientGuard)
	ruleCommandEncoderPairing(c, "C13.c")
	ruleCompletionPairing(c, "C13.d", la, clientGuard)
}

// rulePublication: a value inserted into a guarded container is shared from
// then on; later stores through it must hold the guard.
func rulePublication(c *Ctx, rule string, la *lockAnalysis, guards map[*types.Var]*guardInfo, g *guardInfo) {
	n := 0
	for fn := range la.reach {
		if fn.Blocks == nil || pkgPathOf(fn) != modPath+"/imapclient" {
			continue
		}
		allInstrs(fn, func(i ssa.Instruction) {
			st, ok := i.(*ssa.Store)
			if !ok {
				return
			}
			r, ok := fieldOf(st.Addr)
			if !ok || guards[r.Field] == nil {
				return
			}
			// st.Val = append(load(field), elems...) : the elements are published
			call, ok := st.Val.(*ssa.Call)
			if !ok {
				return
			}
			b, ok := call.Call.Value.(*ssa.Builtin)
			if !ok || b.Name() != "append" || len(call.Call.Args) < 2 {
				return
			}
			var published []ssa.Value
			// variadic elems arrive as a slice literal: find stores into its backing array
			if sl, ok := call.Call.Args[1].(*ssa.Slice); ok {
				if al, ok := sl.X.(*ssa.Alloc); ok {
					for _, ref := range *al.Referrers() {
						if ia, ok := ref.(*ssa.IndexAddr); ok {
							for _, r2 := range *ia.Referrers() {
								if s2, ok := r2.(*ssa.Store); ok && s2.Addr == ssa.Value(ia) {
									published = append(published, s2.Val)
								}
							}
						}
					}
				}
			}
			for _, pv := range published {
				if _, isIface := pv.Type().Underlying().(*types.Interface); !isIface {
					if _, isPtr := pv.Type().Underlying().(*types.Pointer); !isPtr {
						continue
					}
				}
				n++
				key := fmt.Sprintf("%s:publish into %s#%d", fnKey(fn), r.Field.Name(), n)
				// taint: values derived from pv (copies of a captured parameter count as the parameter)
				canon := func(v ssa.Value) ssa.Value {
					if pp := paramOf(v); pp != nil {
						return pp
					}
					return v
				}
				pv = canon(pv)
				derived := map[ssa.Value]bool{pv: true}
				allInstrs(fn, func(j ssa.Instruction) {
					if v, ok := j.(ssa.Value); ok && canon(v) == pv {
						derived[v] = true
					}
				})
				for changed := true; changed; {
					changed = false
					allInstrs(fn, func(j ssa.Instruction) {
						v, ok := j.(ssa.Value)
						if !ok || derived[v] {
							return
						}
						switch x := j.(type) {
						case *ssa.Call:
							if x.Call.IsInvoke() && derived[x.Call.Value] {
								derived[v] = true
								changed = true
							}
							for _, a := range x.Call.Args {
								if derived[a] && !x.Call.IsInvoke() {
									if _, isPtr := v.Type().Underlying().(*types.Pointer); isPtr {
										derived[v] = true
										changed = true
									}
								}
							}
						case *ssa.FieldAddr:
							if derived[x.X] {
								derived[v] = true
								changed = true
							}
						case *ssa.TypeAssert:
							if derived[x.X] {
								derived[v] = true
								changed = true
							}
						case *ssa.ChangeInterface:
							if derived[x.X] {
								derived[v] = true
								changed = true
							}
						}
					})
				}
				var bad *ssa.Store
				allInstrs(fn, func(j ssa.Instruction) {
					s2, ok := j.(*ssa.Store)
					if !ok || !derived[s2.Addr] {
						return
					}
					// only stores that can execute after the publication
					if !(precedes(st, s2) || reaches2(st.Block(), s2.Block())) || s2 == st {
						return
					}
					h, _ := la.heldAt(s2)
					if !h.hasClass(g.class) {
						bad = s2
					}
				})
				if bad != nil {
					c.fail(rule, key, bad.Pos(), "the command is inserted into the shared "+r.Field.Name()+" list and only afterwards, without the mutex, initialised through its base(): a concurrent closeWithError/completeCommand reads the half-initialised command (nil done channel: the reader goroutine blocks for ever)")
				} else {
					c.ok(rule, key, st.Pos(), "no unlocked store through the value after it is published")
				}
			}
		})
	}
}

// ruleCommandEncoderPairing: C13.c.
func ruleCommandEncoderPairing(c *Ctx, rule string) {
	p := c.P
	begin := p.Func("imapclient", "Client", "beginCommand")
	end := p.Func("imapclient", "commandEncoder", "end")
	if begin == nil || end == nil {
		c.unresolvedRoot("beginCommand / commandEncoder.end")
		return
	}
	transferTypes := map[*types.Named]*types.Var{}
	for _, fn := range p.SrcFuncs("imapclient") {
		idx := 0
		var sites []*ssa.Call
		allInstrs(fn, func(i ssa.Instruction) {
			if call, ok := i.(*ssa.Call); ok && staticCallee(call) == begin {
				sites = append(sites, call)
			}
		})
		if len(sites) == 0 {
			continue
		}
		holders := map[ssa.Value]bool{}
		gf := mustFlow(fn, facts{}, func(f facts, i ssa.Instruction) facts {
			switch x := i.(type) {
			case ssa.CallInstruction:
				if staticCallee(x) == end {
					return f.with("ended")
				}
			case *ssa.Store:
				if r, ok := fieldOf(x.Addr); ok && r.Owner != nil {
					if pt, ok := x.Val.Type().(*types.Pointer); ok {
						if n, ok := pt.Elem().(*types.Named); ok && n.Obj().Name() == "commandEncoder" {
							if !isNilConst(x.Val) {
								transferTypes[r.Owner] = r.Field
								holders[r.Base] = true
								return f.with("transferred")
							}
						}
					}
				}
			}
			return f
		}, nil)
		for _, call := range sites {
			idx++
			key := fmt.Sprintf("%s:beginCommand#%d", fnKey(fn), idx)
			bad := 0
			n := 0
			var badPos token.Pos
			for _, ret := range returnsOf(fn) {
				if !reaches(call.Block(), ret.Block()) {
					continue
				}
				fs, reach := gf.at(ret)
				if !reach {
					continue
				}
				n++
				if fs.has("ended") {
					continue
				}
				// a transfer counts only if the command object that now owns the
				// encoder reaches the caller on this path (it is returned, or it
				// is the caller's own object: receiver/parameter)
				handed := false
				if fs.has("transferred") {
					for h := range holders {
						if _, isParam := h.(*ssa.Parameter); isParam || paramOf(h) != nil {
							handed = true
						}
						for _, rv := range ret.Results {
							if returnsHolder(unspill(rv), h, map[ssa.Value]bool{}) {
								handed = true
							}
						}
					}
				}
				if !handed {
					bad++
					badPos = ret.Pos()
				}
			}
			c.check(bad == 0 && n > 0, rule, key, func() token.Pos {
				if bad > 0 {
					return badPos
				}
				return call.Pos()
			}(), fmt.Sprintf("ended or transferred on all %d return paths", n),
				fmt.Sprintf("%d of %d return paths neither end the command encoder nor hand it to a command object: the encoder lock stays held and every later command blocks", bad, n))
		}
	}
	// transfer targets: their Close ends the stored encoder
	var names []string
	for n := range transferTypes {
		names = append(names, n.Obj().Name())
	}
	sort.Strings(names)
	for _, nm := range names {
		closeFn := p.Func("imapclient", nm, "Close")
		if closeFn == nil {
			c.fail(rule, nm+".Close", token.NoPos, "a command encoder is stored into "+nm+" which has no Close method to end it")
			continue
		}
		// a private helper that ends the encoder (or finds it nil) on all of its paths
		var endsAll func(h *ssa.Function, d int) bool
		var genEnd func(f facts, i ssa.Instruction) facts
		nilEdgeEnd := func(f facts, b *ssa.BasicBlock, s int) facts {
			for _, a := range edgeAtoms(b, s) {
				if pt, ok := a.V.Type().(*types.Pointer); ok && a.Nil == 1 {
					if n, ok := pt.Elem().(*types.Named); ok && n.Obj().Name() == "commandEncoder" {
						f = f.with("ended")
					}
				}
			}
			return f
		}
		endsAll = func(h *ssa.Function, d int) bool {
			if h == nil || h.Blocks == nil || d == 0 || h == closeFn || h == end {
				return false
			}
			hf := mustFlow(h, facts{}, genEnd, nilEdgeEnd)
			all := len(returnsOf(h)) > 0
			for _, r := range returnsOf(h) {
				if f, reach := hf.at(r); reach && !f.has("ended") {
					all = false
				}
			}
			return all
		}
		genEnd = func(f facts, i ssa.Instruction) facts {
			if call, ok := i.(ssa.CallInstruction); ok {
				cal := staticCallee(call)
				if cal == end {
					return f.with("ended")
				}
				if cal != nil && inModule(cal) && isHelperOf(cal, closeFn, 2) && endsAll(cal, 2) {
					return f.with("ended")
				}
			}
			return f
		}
		gf := mustFlow(closeFn, facts{}, genEnd, func(f facts, b *ssa.BasicBlock, s int) facts {
			add := valueEdgeFacts(b, s)
			for _, a := range edgeAtoms(b, s) {
				// the stored encoder is nil: nothing left to end
				if pt, ok := a.V.Type().(*types.Pointer); ok && a.Nil == 1 {
					if n, ok := pt.Elem().(*types.Named); ok && n.Obj().Name() == "commandEncoder" {
						add = append(add, "ended")
					}
				}
				// the command was already waited for (Command.err is only set by
				// Wait, which the holder's Wait refuses while the encoder is still
				// held): nothing left to end
				if a.Nil == -1 && isErrorType(a.V.Type()) {
					if r, ok := loadedField(a.V); ok && r.is("Command", "err") {
						add = append(add, "error-path")
					}
				}
			}
			return f.with(add...)
		})
		okAll, n := true, 0
		for _, ret := range returnsOf(closeFn) {
			fs, reach := gf.at(ret)
			if !reach {
				continue
			}
			n++
			if fs.has("ended") {
				continue
			}
			// early returns are allowed only on the edge where the stored encoder
			// is nil (already ended) or the command was already waited for; a
			// failure while finishing the command (a write error) still has to
			// release the encoder
			if fs.has("error-path") {
				continue
			}
			okAll = false
		}
		c.check(okAll && n > 0, rule, nm+".Close ends the encoder", closeFn.Pos(), "every path ends the encoder or finds it already ended (nil)", "a path of Close returns without ending the command encoder (e.g. an early return on a write error): the encoder lock stays held and every later command blocks for ever")
	}
}

// ruleCompletionPairing: C13.d / C10.b.
func ruleCompletionPairing(c *Ctx, rule string, la *lockAnalysis, g *guardInfo) {
	p := c.P
	del := p.Func("imapclient", "Client", "deletePendingCmdByTag")
	complete := p.Func("imapclient", "Client", "completeCommand")
	begin := p.Func("imapclient", "Client", "beginCommand")
	if del == nil || complete == nil || begin == nil {
		c.unresolvedRoot("deletePendingCmdByTag / completeCommand / beginCommand")
		return
	}
	// every caller of the removal completes the command exactly once on every path
	for _, fn := range p.SrcFuncs("imapclient") {
		allInstrs(fn, func(i ssa.Instruction) {
			call, ok := i.(*ssa.Call)
			if !ok || staticCallee(call) != del {
				return
			}
			checkRemovalCompletes(c, rule, fn, call, complete)
		})
	}
	// the done channel is buffered and created where the tag is assigned
	buffered := false
	deepInstrs(begin, 2, func(i ssa.Instruction) {
		if mk, ok := i.(*ssa.MakeChan); ok {
			if k, ok := constInt(mk.Size); ok && k >= 1 {
				buffered = true
			}
		}
	})
	c.check(buffered, rule, "beginCommand: done channel buffered", begin.Pos(), "done is made with capacity ≥ 1: completeCommand never blocks on it", "the done channel is unbuffered: completeCommand blocks the reader goroutine until someone waits")
	// the tag counter is only incremented, under the mutex, in beginCommand
	nw := 0
	for fn := range la.reach {
		if fn.Blocks == nil {
			continue
		}
		allInstrs(fn, func(i ssa.Instruction) {
			st, ok := i.(*ssa.Store)
			if !ok {
				return
			}
			r, ok := fieldOf(st.Addr)
			if !ok || !r.is("Client", "cmdTag") {
				return
			}
			nw++
			bo, isInc := st.Val.(*ssa.BinOp)
			inc := isInc && bo.Op == token.ADD
			if inc {
				if k, ok := constInt(bo.Y); !ok || k != 1 {
					inc = false
				}
				if lr, ok := loadedField(bo.X); !ok || !lr.is("Client", "cmdTag") {
					inc = false
				}
			}
			h, _ := la.heldAt(st)
			c.check(inc && isHelperOf(fn, begin, 2) && h.hasClass(g.class), rule, fnKey(fn)+":cmdTag++", st.Pos(), "incremented by one under the mutex in beginCommand (tags unique)",
				"the tag counter is written other than by a locked increment in beginCommand: two commands can get the same tag")
		})
	}
	if nw == 0 {
		c.unresolvedRoot("store to Client.cmdTag")
	}
}

// checkRemovalCompletes: after `cmd := deletePendingCmdByTag(tag)` every path
// completes cmd exactly once: either a direct completeCommand(cmd, …) call, or
// the deferred `if err != nil { completeCommand(cmd, err) }` closure for paths
// that return a non-nil error.
func checkRemovalCompletes(c *Ctx, rule string, fn *ssa.Function, removal *ssa.Call, complete *ssa.Function) {
	// deferred completion closure?
	deferredOnErr := false
	allInstrs(fn, func(i ssa.Instruction) {
		d, ok := i.(*ssa.Defer)
		if !ok {
			return
		}
		mc, ok := d.Call.Value.(*ssa.MakeClosure)
		if !ok {
			return
		}
		cl := mc.Fn.(*ssa.Function)
		// closure: calls completeCommand only on the `err != nil` edge of a captured result variable
		gf := mustFlow(cl, facts{}, valueGen, func(f facts, b *ssa.BasicBlock, s int) facts { return f.with(valueEdgeFacts(b, s)...) })
		allInstrs(cl, func(j ssa.Instruction) {
			if call, ok := j.(*ssa.Call); ok && staticCallee(call) == complete {
				fs, _ := gf.at(call)
				if fs.hasPrefix("nonnil:") && d.Block().Dominates(removal.Block()) == false && precedes(removal, d) {
					// the tested variable must be the function's error *result*: the
					// cell every return loads its error from (a named result). A
					// plain local is not assigned by `return nil, err` and the
					// deferred closure would never see the error.
					isResult := false
					for _, f := range fs.list() {
						if !strings.HasPrefix(f, "nonnil:") {
							continue
						}
						name := strings.TrimPrefix(f, "nonnil:")
						allInstrs(cl, func(k ssa.Instruction) {
							ld, ok := k.(*ssa.UnOp)
							if !ok || ld.Name() != name {
								return
							}
							fv, ok := ld.X.(*ssa.FreeVar)
							if !ok {
								return
							}
							for bi, b := range cl.FreeVars {
								if b != fv || bi >= len(mc.Bindings) {
									continue
								}
								cell := mc.Bindings[bi]
								all, n := true, 0
								for _, r := range returnsOf(fn) {
									if len(r.Results) == 0 {
										continue
									}
									n++
									rl, ok := r.Results[len(r.Results)-1].(*ssa.UnOp)
									if !ok || rl.X != cell {
										all = false
									}
								}
								if all && n > 0 {
									isResult = true
								}
							}
						})
					}
					if isResult {
						deferredOnErr = true
					}
				}
			}
		})
	})
	counts := forward(fn, lattice[countSet]{
		join:  func(a, b countSet) countSet { return a | b },
		equal: func(a, b countSet) bool { return a == b },
	}, countSet(1), func(s countSet, i ssa.Instruction) countSet {
		if call, ok := i.(*ssa.Call); ok && staticCallee(call) == complete {
			return s.inc()
		}
		return s
	}, func(s countSet, b *ssa.BasicBlock, i int) (countSet, bool) { return s, true })
	gf := mustFlow(fn, facts{}, valueGen, func(f facts, b *ssa.BasicBlock, s int) facts { return f.with(valueEdgeFacts(b, s)...) })
	nret := 0
	for _, ret := range returnsOf(fn) {
		if !reaches(removal.Block(), ret.Block()) || counts[ret.Block()] == nil {
			continue
		}
		nret++
		fs, _ := gf.at(ret)
		cnt := *counts[ret.Block()]
		for _, i := range ret.Block().Instrs {
			if call, ok := i.(*ssa.Call); ok && staticCallee(call) == complete {
				cnt = cnt.inc()
			}
		}
		key := fmt.Sprintf("%s:after removal, return#%d", fnKey(fn), nret)
		// the removal returned nil: nothing was removed
		if fs.has("nil:" + removal.Name()) {
			c.ok(rule, key, ret.Pos(), "no command was removed on this path")
			continue
		}
		cls := errNil // a function without an error result: every return is a normal one
		if len(ret.Results) > 0 && isErrorType(ret.Results[len(ret.Results)-1].Type()) {
			cls = classifyErr(ret.Results[len(ret.Results)-1], fs, nil, map[ssa.Value]bool{})
		}
		switch {
		case cls == errNil || cls == errUnknown && false:
			c.check(cnt == 2, rule, key, ret.Pos(), "completed exactly once before a nil return",
				fmt.Sprintf("returns nil with %s completions of the removed command: it is never completed (its waiter hangs) or completed twice", cnt))
		case cls == errNonNil:
			c.check(cnt == 1 && deferredOnErr, rule, key, ret.Pos(), "error return: the deferred closure completes the removed command with that error",
				fmt.Sprintf("error return with %s direct completions and deferred completion=%v: the removed command is completed %s", cnt, deferredOnErr, map[bool]string{true: "twice", false: "never"}[cnt != 1]))
		default:
			c.undecided(rule, key, ret.Pos(), "nil-ness of the returned error is not decided")
		}
	}
	if nret == 0 {
		c.undecided(rule, fnKey(fn)+":after removal", removal.Pos(), "no return reachable from the removal")
	}
}

// ruleSnapshotCopyOnWrite: Client.Mailbox() returns the *SelectedMailbox
// pointer itself ("the returned struct must not be mutated"); the reader
// goroutine therefore must never write through that pointer: each store into a
// field of the object reached through Client.mailbox is dominated, in the same
// function, by a store of a fresh copy into Client.mailbox.
func ruleSnapshotCopyOnWrite(c *Ctx, rule string) {
	p := c.P
	n := 0
	for _, fn := range p.SrcFuncs("imapclient") {
		var fresh []*ssa.Store
		allInstrs(fn, func(i ssa.Instruction) {
			st, ok := i.(*ssa.Store)
			if !ok {
				return
			}
			if r, ok := fieldOf(st.Addr); ok && r.is("Client", "mailbox") {
				switch v := st.Val.(type) {
				case *ssa.Call:
					if callKey(v) == "(*SelectedMailbox).copy" {
						fresh = append(fresh, st)
					}
				case *ssa.Alloc:
					fresh = append(fresh, st)
				}
			}
		})
		allInstrs(fn, func(i ssa.Instruction) {
			st, ok := i.(*ssa.Store)
			if !ok {
				return
			}
			fa, ok := st.Addr.(*ssa.FieldAddr)
			if !ok {
				return
			}
			r, _ := fieldOf(fa)
			if r.Owner == nil || r.Owner.Obj().Name() != "SelectedMailbox" {
				return
			}
			// the object written: reached through a load of Client.mailbox?
			lr, viaClient := loadedField(fa.X)
			if !viaClient || !lr.is("Client", "mailbox") {
				if _, isAlloc := fa.X.(*ssa.Alloc); isAlloc {
					return // a local/new object being built
				}
				if call, ok := fa.X.(*ssa.Call); ok && callKey(call) == "(*SelectedMailbox).copy" {
					return
				}
				// the object handed out by a helper: the helper must have made the
				// copy (and published it) itself
				if call, ok := fa.X.(*ssa.Call); ok {
					if cal := staticCallee(call); cal != nil && inModule(cal) && cal.Blocks != nil {
						n++
						key := fmt.Sprintf("%s:store SelectedMailbox.%s#%d", fnKey(fn), r.Field.Name(), countKey(c, rule, fnKey(fn)+":store SelectedMailbox."+r.Field.Name())+1)
						c.check(helperReturnsFreshSnapshot(cal), rule, key, st.Pos(), "the object comes from "+fnKey(cal)+", which replaces c.mailbox by a fresh copy before returning it",
							"the object modified here comes from "+fnKey(cal)+", which can return the published snapshot itself: a goroutine holding the snapshot reads it without any lock")
					}
				}
				return
			}
			n++
			key := fmt.Sprintf("%s:store SelectedMailbox.%s#%d", fnKey(fn), r.Field.Name(), countKey(c, rule, fnKey(fn)+":store SelectedMailbox."+r.Field.Name())+1)
			dominated := false
			for _, f := range fresh {
				if precedes(f, st) {
					// no unlock between the copy and the store: same block chain is enough here
					dominated = true
				}
			}
			c.check(dominated, rule, key, st.Pos(), "preceded by `c.mailbox = copy` in the same function: the published snapshot stays immutable",
				"the object currently published through Client.Mailbox() is modified in place: a goroutine holding the snapshot reads it without any lock (data race, and the snapshot silently changes)")
		})
	}
	if n == 0 {
		c.unresolvedRoot("stores through Client.mailbox")
	}
}

// ruleContReqFIFO: continuation requests are appended at the tail when
// registered and taken from index 0 when the server's "+" arrives.
func ruleContReqFIFO(c *Ctx, rule string) {
	p := c.P
	reg := p.Func("imapclient", "Client", "registerContReq")
	rd := p.Func("imapclient", "Client", "readContinueReq")
	if reg == nil || rd == nil {
		c.unresolvedRoot("registerContReq / readContinueReq")
		return
	}
	appends := false
	deepInstrs(reg, 2, func(i ssa.Instruction) {
		if st, ok := i.(*ssa.Store); ok {
			if r, ok := fieldOf(st.Addr); ok && r.is("Client", "contReqs") {
				if call, ok := st.Val.(*ssa.Call); ok {
					if b, ok := call.Call.Value.(*ssa.Builtin); ok && b.Name() == "append" {
						if lr, ok := loadedField(call.Call.Args[0]); ok && lr.is("Client", "contReqs") {
							appends = true
						}
					}
				}
			}
		}
	})
	c.check(appends, rule, "registerContReq appends at the tail", reg.Pos(), "c.contReqs = append(c.contReqs, …)", "continuation requests are no longer queued at the tail")
	// the request handed the server's "+": element 0 of c.contReqs
	head, other := false, false
	var pos = rd.Pos()
	deepInstrs(rd, 2, func(i ssa.Instruction) {
		ia, ok := i.(*ssa.IndexAddr)
		if !ok {
			return
		}
		base := ia.X
		if sl, ok := base.(*ssa.Slice); ok {
			base = sl.X
		}
		lr, ok := loadedField(base)
		if !ok || !lr.is("Client", "contReqs") {
			return
		}
		// is this element read (as a whole, or its ContinuationRequest)?
		read := false
		for _, ref := range *ia.Referrers() {
			switch x := ref.(type) {
			case *ssa.FieldAddr:
				if r, _ := fieldOf(x); r.Field.Name() == "ContinuationRequest" {
					read = true
				}
			case *ssa.UnOp:
				// a whole-element load that is not just moved to another slot of the queue
				moved := true
				for _, use := range *x.Referrers() {
					if st, ok := use.(*ssa.Store); ok {
						if _, toSlot := st.Addr.(*ssa.IndexAddr); toSlot {
							continue
						}
					}
					moved = false
				}
				if !moved {
					read = true
				}
			}
		}
		if !read {
			return
		}
		if k, ok := constInt(ia.Index); ok && k == 0 && ia.X == base {
			head = true
			pos = ia.Pos()
		} else {
			other = true
			pos = ia.Pos()
		}
	})
	head = head && !other
	c.check(head, rule, "readContinueReq takes the oldest request", pos, "the continuation goes to c.contReqs[0]",
		"the server's continuation request is not given to the oldest waiting command: with two commands waiting, the wrong one sends its payload and the other waits for ever")
}

// returnsHolder: the returned value v is the object h (directly, or through a
// phi / a load of the local holding it).
func returnsHolder(v, h ssa.Value, seen map[ssa.Value]bool) bool {
	if v == h {
		return true
	}
	if seen[v] {
		return false
	}
	seen[v] = true
	switch x := v.(type) {
	case *ssa.Phi:
		for _, e := range x.Edges {
			if returnsHolder(e, h, seen) {
				return true
			}
		}
	case *ssa.UnOp:
		if al, ok := x.X.(*ssa.Alloc); ok {
			for _, ref := range *al.Referrers() {
				if st, ok := ref.(*ssa.Store); ok && st.Addr == ssa.Value(al) && returnsHolder(st.Val, h, seen) {
					return true
				}
			}
		}
		// the holder itself is a load of a local holding the pointer
		if hu, ok := h.(*ssa.UnOp); ok && hu.X == x.X {
			return true
		}
	case *ssa.MakeInterface:
		return returnsHolder(x.X, h, seen)
	case *ssa.ChangeType:
		return returnsHolder(x.X, h, seen)
	}
	return false
}

// helperReturnsFreshSnapshot: every return of cal yields nil or the value of
// Client.mailbox after a store of a fresh copy into it in cal.
func helperReturnsFreshSnapshot(cal *ssa.Function) bool {
	var fresh []*ssa.Store
	allInstrs(cal, func(i ssa.Instruction) {
		if st, ok := i.(*ssa.Store); ok {
			if r, ok := fieldOf(st.Addr); ok && r.is("Client", "mailbox") {
				switch v := st.Val.(type) {
				case *ssa.Call:
					if callKey(v) == "(*SelectedMailbox).copy" {
						fresh = append(fresh, st)
					}
				case *ssa.Alloc:
					fresh = append(fresh, st)
				}
			}
		}
	})
	ok, n := true, 0
	for _, r := range returnsOf(cal) {
		if len(r.Results) == 0 {
			return false
		}
		v := unspill(r.Results[0])
		if isNilConst(v) {
			continue
		}
		n++
		good := false
		for _, f := range fresh {
			if f.Val == v {
				good = true // returns the copy itself
			}
			if lr, isLoad := loadedField(v); isLoad && lr.is("Client", "mailbox") {
				if ins, isIns := v.(ssa.Instruction); isIns && f.Block().Dominates(ins.Block()) && (f.Block() != ins.Block() || precedes(f, ins)) {
					good = true
				}
			}
		}
		if !good {
			ok = false
		}
	}
	return ok && n > 0
}

// ruleNoBlockingUnderClientMutex: C13.i. Client.mutex protects the client's
// shared state and is taken by every API call and by the reader. A channel
// operation that can block (a plain send or receive, not a select with
// default) while it is held stalls the reader goroutine and, through the
// mutex, every caller: with a full result channel nothing ever drains it.
// The single send on a command's done channel is exempt: it is made with
// capacity 1 and written once (C13.d).
func ruleNoBlockingUnderClientMutex(c *Ctx, rule string, la *lockAnalysis) {
	n := 0
	for _, bo := range la.blockOps {
		if pkgPathOf(bo.fn) != modPath+"/imapclient" {
			continue
		}
		held := false
		for _, k := range bo.held.classes() {
			if strings.HasSuffix(k, "Client.mutex") {
				held = true
			}
		}
		n++
		key := fmt.Sprintf("%s:%s#%d", fnKey(bo.fn), bo.what, countKey(c, rule, fnKey(bo.fn)+":"+bo.what+"#")+1)
		if !held {
			c.ok(rule, key, bo.ins.Pos(), "Client.mutex not held")
			continue
		}
		if snd, ok := bo.ins.(*ssa.Send); ok {
			if r, ok := loadedField(snd.Chan); ok && r.is("Command", "done") {
				c.ok(rule, key, bo.ins.Pos(), "the done channel: capacity 1, written once")
				continue
			}
		}
		c.fail(rule, key, bo.ins.Pos(), bo.what+" while holding Client.mutex: when the channel is full (or empty) the reader goroutine blocks with the mutex held and every call into the client blocks behind it — no command ever completes")
	}
	if n == 0 {
		c.unresolvedRoot("blocking channel operations in imapclient")
	}
}
